(* Proofs about Model/CtorGetSet.v (shoot new -getset), part 2:
     leaf_paths_apart      two leaf paths of a struct are equal or do not overlap
     method facts          what find_method returns is an accessor of a struct of the embedding closure
     get_after_set, setter_frame, setter_succeeds
                           get_f (set_g v x) = if f = g then x else get_f v, for ALL values; a setter changes its
                           field and nothing else; it fails only on a nil embedded pointer
     embedded_interfaces   <T>Getter embeds <E>Getter[args] only for an embedded struct E of T whose interface is in
                           the package view and is implemented by *E
     own_accessors_selected  the explicit methods of <T>Getter / <T>Setter are in the method set of *T *)
From Coq Require Import String Ascii List Bool Arith Lia.
From Shoot Require Import Base.Str Base.GoVal Model.Transfer Model.CtorDirective Model.Ctor Model.CtorSpec Model.CtorGetSet.
From Shoot Require Import Proofs.GoValProofs Proofs.CtorFlattenProofs Proofs.CtorResolveProofs Proofs.CtorNewProofs
                          Proofs.CtorC02Proofs Proofs.CtorOrderProofs Proofs.CtorOptProofs Proofs.CtorGetSetProofs.
Import ListNotations.
Local Open Scope list_scope.

(* ------------------------------------------------ the plain analysis never refuses *)
Lemma raw_names_plain : forall fd is_new names, exists l, raw_names plain_flags fd is_new names = COk l.
Proof.
  intros fd is_new names. induction names as [|n names [l IH]]; simpl; [eauto|].
  destruct (String.prefix "_" n); [eauto|]. destruct (tag_is_dash (fd_tag fd)); [eauto|].
  rewrite IH. eauto.
Qed.

Lemma raw_top_plain : forall pkg fuel fds, forall m, raw_top pkg plain_flags fuel fds <> CFatal m.
Proof.
  intros pkg fuel fds. induction fds as [|fd fds IH]; intros m; simpl; [discriminate|].
  unfold raw_decl. destruct (fd_names fd) as [|x names].
  - destruct (raw_type pkg fuel 0 [] (fd_ty fd) (parse_new_comment (fd_doc fd))); [|discriminate].
    destruct (raw_top pkg plain_flags fuel fds) eqn:E; try discriminate. intros H. inversion H; subst. eapply IH; eauto.
  - destruct (raw_names_plain fd (parse_new_comment (fd_doc fd)) (x :: names)) as [l El]. rewrite El.
    destruct (raw_top pkg plain_flags fuel fds) eqn:E; try discriminate. intros H. inversion H; subst. eapply IH; eauto.
Qed.

Lemma flatten_plain_ok : forall pkg fuel sd, depth_bounded pkg fuel sd = true ->
  exists fs hn, flatten pkg plain_flags fuel sd = COk (fs, hn).
Proof.
  intros pkg fuel sd GB. pose proof (flatten_terminates pkg plain_flags fuel sd GB) as NT.
  unfold flatten in *. rewrite extract_top_is_fold in *.
  destruct (raw_top pkg plain_flags fuel (sd_fields sd)) as [raw| |] eqn:E.
  - eauto.
  - exfalso. eapply raw_top_plain; eauto.
  - exfalso. apply NT. reflexivity.
Qed.

(* ------------------------------------------------------------ leaf paths are apart *)
Lemma leaf_paths_apart : forall pkg fuel sd,
  c02_guard pkg fuel sd = true ->
  forall p q, In p (leaf_paths pkg fuel (self_inst sd) []) -> In q (leaf_paths pkg fuel (self_inst sd) []) ->
  p = q \/ diverge p q = true.
Proof.
  intros pkg fuel sd G p q Hp Hq.
  destruct (c02_guard_parts _ _ _ G) as [GB [GW [GU [GN [GP [GD [GX [GI [GPP GPN]]]]]]]]].
  destruct (flatten_plain_ok pkg fuel sd GB) as [fs [hn H]].
  destruct (new_master pkg plain_flags fuel sd fs hn (fun _ => VSent 0) H GB GW GU GN GX) as [kv [_ [_ [_ [LK LX]]]]].
  set (X := VPtr (VStruct kv)) in *.
  (* every leaf path reads a leaf value in NewT's result *)
  assert (Leaf : forall r, In r (leaf_paths pkg fuel (self_inst sd) []) -> exists x, lookup X r = Ok x /\ is_leaf_val x).
  { intros r Hr. destruct (leaves_covered pkg plain_flags fuel sd fs hn r H G Hr) as [[e [He [Hemb Hpe]]]|[fd [n [Hfd [Hn [Hex Hrn]]]]]].
    - destruct (LK e He) as [x [L V]]. rewrite Hemb in V. subst r. exists x. split; auto. subst x.
      unfold leafv, dv. destruct (assoc (f_name e) (name_map hn fs)).
      + destruct (negb (f_shadowed e)); simpl; auto. destruct (String.eqb (f_def e) ""); simpl; auto.
      + destruct (String.eqb (f_def e) ""); simpl; auto.
    - subst r. exists VZero. split; [eapply LX; eauto|simpl; auto]. }
  destruct (Leaf p Hp) as [xp [Lp Vp]]. destruct (Leaf q Hq) as [xq [Lq Vq]].
  unfold diverge.
  destruct (is_prefix p q) eqn:P12.
  - destruct (is_prefix_split _ _ P12) as [r Hr]. destruct r as [|a r].
    + rewrite app_nil_r in Hr. left. auto.
    + exfalso. rewrite Hr, lookup_app, Lp in Lq. cbn [bind] in Lq.
      eapply lookup_leaf_stuck; [exact Vp| |exact Lq]. discriminate.
  - destruct (is_prefix q p) eqn:P21; [|right; reflexivity].
    destruct (is_prefix_split _ _ P21) as [r Hr]. destruct r as [|a r].
    + rewrite app_nil_r in Hr. subst q. rewrite is_prefix_refl in P12. discriminate.
    + exfalso. rewrite Hr, lookup_app, Lq in Lp. cbn [bind] in Lp.
      eapply lookup_leaf_stuck; [exact Vq| |exact Lp]. discriminate.
Qed.

(* --------------------------------------------------------------- find_method *)
Lemma find_method_from_in : forall pkg v si m fuel d pm,
  find_method_from pkg v si m d fuel = Some pm ->
  exists j, d <= j < d + fuel /\ method_candidates pkg v j si m = [pm] /\ candidates pkg j si m = [] /\
            (forall i, d <= i < j -> method_candidates pkg v i si m = [] /\ candidates pkg i si m = []).
Proof.
  intros pkg v si m fuel. induction fuel as [|fuel IH]; intros d pm H; simpl in H; [discriminate|].
  destruct (candidates pkg d si m) as [|c cs] eqn:EC; [|discriminate].
  destruct (method_candidates pkg v d si m) as [|x xs] eqn:EM.
  - destruct (IH (S d) pm H) as [j [Hj [A [B C]]]]. exists j. split; [lia|]. split; auto. split; auto.
    intros i Hi. destruct (Nat.eq_dec i d) as [->|Ne]; [auto|apply C; lia].
  - destruct xs; [|discriminate]. inversion H; subst x. exists d. split; [lia|]. split; auto. split; auto.
    intros i Hi. lia.
Qed.

Lemma find_method_name : forall pkg v fuel si m pm,
  find_method pkg v fuel si m = Some pm -> gm_name (snd pm) = m.
Proof.
  intros pkg v fuel si m pm H. destruct (find_method_from_in _ _ _ _ _ _ _ H) as [j [_ [A _]]].
  assert (In pm (method_candidates pkg v j si m)) by (rewrite A; left; reflexivity).
  unfold method_candidates in H0. apply filter_In in H0. destruct H0 as [_ E]. apply String.eqb_eq in E. exact E.
Qed.

(* ----------------------------------------------------- meaning of the accessors *)
(* get_f (set_g v x) = if f = g then x else get_f v, for every value v in which the setter's receiver exists *)
Theorem get_after_set : forall pkg v fuel sd x ms mg w x' ps pg,
  c02_guard pkg fuel sd = true ->
  find_method pkg v fuel (self_inst sd) ms = Some ps -> gm_kind (snd ps) = MSet ->
  find_method pkg v fuel (self_inst sd) mg = Some pg -> gm_kind (snd pg) = MGet ->
  In (accessor_path ps) (leaf_paths pkg fuel (self_inst sd) []) ->
  In (accessor_path pg) (leaf_paths pkg fuel (self_inst sd) []) ->
  call_set pkg v fuel sd x ms w = Ok x' ->
  call_get pkg v fuel sd x' mg =
  if path_eqb (accessor_path pg) (accessor_path ps) then Ok w else call_get pkg v fuel sd x mg.
Proof.
  intros pkg v fuel sd x ms mg w x' ps pg G Fs Ks Fg Kg Ls Lg Hset.
  unfold call_set in Hset. unfold call_get. rewrite Fs, Ks in Hset. rewrite Fg, Kg.
  destruct (path_eqb (accessor_path pg) (accessor_path ps)) eqn:E.
  - apply path_eqb_eq in E. rewrite E. eapply lookup_update_same; eauto.
  - destruct (leaf_paths_apart pkg fuel sd G _ _ Ls Lg) as [Eq|D].
    + rewrite Eq, path_eqb_refl in E. discriminate.
    + eapply lookup_update_diverge; eauto.
Qed.

(* a setter changes its field and nothing else: every other leaf of the struct reads as before *)
Theorem setter_frame : forall pkg v fuel sd x ms w x' ps r,
  c02_guard pkg fuel sd = true ->
  find_method pkg v fuel (self_inst sd) ms = Some ps -> gm_kind (snd ps) = MSet ->
  In (accessor_path ps) (leaf_paths pkg fuel (self_inst sd) []) ->
  In r (leaf_paths pkg fuel (self_inst sd) []) ->
  call_set pkg v fuel sd x ms w = Ok x' ->
  lookup x' (accessor_path ps) = Ok w /\ (r <> accessor_path ps -> lookup x' r = lookup x r).
Proof.
  intros pkg v fuel sd x ms w x' ps r G Fs Ks Ls Lr Hset.
  unfold call_set in Hset. rewrite Fs, Ks in Hset. split.
  - eapply lookup_update_same; eauto.
  - intros Ne. destruct (leaf_paths_apart pkg fuel sd G _ _ Ls Lr) as [Eq|D]; [congruence|].
    eapply lookup_update_diverge; eauto.
Qed.

(* the call succeeds exactly when the field can be read (no nil embedded pointer on the way) *)
Theorem setter_succeeds : forall pkg v fuel sd x ms w ps,
  find_method pkg v fuel (self_inst sd) ms = Some ps -> gm_kind (snd ps) = MSet ->
  ((exists x', call_set pkg v fuel sd x ms w = Ok x') <-> (exists y, lookup x (accessor_path ps) = Ok y)).
Proof.
  intros pkg v fuel sd x ms w ps Fs Ks. unfold call_set. rewrite Fs, Ks. split.
  - intros [x' H]. revert x x' H. generalize (accessor_path ps). intros p.
    induction p as [|f p IH]; intros x x' H; simpl in *; [eauto|].
    destruct (sel x f) as [y| |] eqn:S; simpl in *; try discriminate.
    destruct (update y p w) as [y'| |] eqn:U; simpl in *; try discriminate. eapply IH; eauto.
  - apply update_ok_of_lookup.
Qed.

(* ------------------------------------------------ the embedded accessor interfaces *)
(* why an interface is in GetterIfaces / SetterIfaces *)
Definition admitted (pkg : pkg_spec) (v : view) (fuel : nat) (fields : list field) (getter : bool) (ia : ident * list ty) : Prop :=
  exists f ve si, In f fields /\ f_embedded f = true /\ f_name f = fst ia /\ type_args (f_ty f) = snd ia /\
    struct_of pkg (f_ty f) = Some si /\
    find_iface v (fst ia) getter = Some ve /\ length (ve_tparams ve) = length (snd ia) /\
    implements pkg v fuel si (iface_methods v fuel getter (ve_name ve) (snd ia)) = true.

Lemma assignable_admits : forall pkg v fuel f ve getter args,
  assignable_to_iface pkg v fuel (f_ty f) ve getter = Some (args, true) ->
  args = type_args (f_ty f) /\ length (ve_tparams ve) = length args /\
  exists si, struct_of pkg (f_ty f) = Some si /\
             implements pkg v fuel si (iface_methods v fuel getter (ve_name ve) args) = true.
Proof.
  intros pkg v fuel f ve getter args H. unfold assignable_to_iface in H.
  destruct (struct_of pkg (f_ty f)) as [si|]; [|discriminate].
  destruct (Nat.eqb (length (ve_tparams ve)) (length (type_args (f_ty f)))) eqn:E; [|discriminate].
  inversion H; subst args. apply Nat.eqb_eq in E. split; auto. split; auto. exists si. split; auto.
Qed.

Lemma find_iface_name : forall v n getter ve, find_iface v n getter = Some ve -> ve_name ve = n.
Proof.
  intros v n getter ve H. unfold find_iface in H. destruct (find_ventry v n) as [e|] eqn:E; [|discriminate].
  destruct (iface_declared getter (ve_data e)); [|discriminate]. inversion H; subst e. clear H.
  induction v as [|x r IH]; simpl in E; [discriminate|].
  destruct (String.eqb (ve_name x) n) eqn:En; [inversion E; subst; apply String.eqb_eq; exact En|auto].
Qed.

Lemma embed_get_geti : forall pkg v fuel f a ia,
  In ia (ga_geti (embed_get pkg v fuel f a)) ->
  In ia (ga_geti a) \/
  exists ve args, find_iface v (f_name f) true = Some ve /\
    assignable_to_iface pkg v fuel (f_ty f) ve true = Some (args, true) /\ ia = (f_name f, args).
Proof.
  intros pkg v fuel f a ia H. unfold embed_get in H.
  destruct (find_iface v (f_name f) true) as [ve|] eqn:EF; [|left; exact H].
  destruct (assignable_to_iface pkg v fuel (f_ty f) ve true) as [[args [|]]|] eqn:EA; try (left; exact H).
  cbn [ga_geti] in H. apply in_app_or in H. destruct H as [H|[H|[]]]; [left; exact H|].
  right. exists ve, args. auto.
Qed.

Lemma embed_set_seti : forall pkg v fuel f a ia,
  In ia (ga_seti (embed_set pkg v fuel f a)) ->
  In ia (ga_seti a) \/
  exists ve args, find_iface v (f_name f) false = Some ve /\
    assignable_to_iface pkg v fuel (f_ty f) ve false = Some (args, true) /\ ia = (f_name f, args).
Proof.
  intros pkg v fuel f a ia H. unfold embed_set in H.
  destruct (find_iface v (f_name f) false) as [ve|] eqn:EF; [|left; exact H].
  destruct (assignable_to_iface pkg v fuel (f_ty f) ve false) as [[args [|]]|] eqn:EA; try (left; exact H).
  cbn [ga_seti] in H. apply in_app_or in H. destruct H as [H|[H|[]]]; [left; exact H|].
  right. exists ve, args. auto.
Qed.

Lemma admit_entry : forall pkg v fuel all f getter ve args,
  In f all -> f_embedded f = true ->
  find_iface v (f_name f) getter = Some ve ->
  assignable_to_iface pkg v fuel (f_ty f) ve getter = Some (args, true) ->
  admitted pkg v fuel all getter (f_name f, args).
Proof.
  intros pkg v fuel all f getter ve args Hin Emb EF EA.
  destruct (assignable_admits _ _ _ _ _ _ _ EA) as [Ea [El [si [Es Ei]]]].
  subst args. exists f, ve, si. cbn [fst snd]. repeat split; auto.
Qed.

Lemma loop_ifaces : forall pkg v fuel G S all l a,
  (forall f, In f l -> In f all) ->
  (forall ia, In ia (ga_geti a) -> admitted pkg v fuel all true ia) ->
  (forall ia, In ia (ga_seti a) -> admitted pkg v fuel all false ia) ->
  (forall ia, In ia (ga_geti (make_getset_loop pkg v fuel G S l a)) -> admitted pkg v fuel all true ia) /\
  (forall ia, In ia (ga_seti (make_getset_loop pkg v fuel G S l a)) -> admitted pkg v fuel all false ia).
Proof.
  intros pkg v fuel G S all l. induction l as [|f r IH]; intros a Sub HG HS; [split; assumption|].
  cbn [make_getset_loop].
  assert (Subr : forall f0, In f0 r -> In f0 all) by (intros f0 H0; apply Sub; right; exact H0).
  assert (Inf : In f all) by (apply Sub; left; reflexivity).
  destruct (existsb (String.eqb (f_name f)) (ga_once a)); [apply IH; auto|].
  destruct (f_embedded f) eqn:Emb.
  - set (a0 := add_once (f_name f) a).
    set (a1 := if G then embed_get pkg v fuel f a0 else a0).
    set (a2 := if S then embed_set pkg v fuel f a1 else a1).
    assert (G1 : forall ia, In ia (ga_geti a1) -> admitted pkg v fuel all true ia).
    { intros ia Hia. unfold a1 in Hia. destruct G; [|apply HG; exact Hia].
      destruct (embed_get_geti _ _ _ _ _ _ Hia) as [Hold|[ve [args [EF [EA E]]]]]; [apply HG; exact Hold|].
      subst ia. eapply admit_entry; eauto. }
    assert (S1 : forall ia, In ia (ga_seti a1) -> admitted pkg v fuel all false ia).
    { intros ia Hia. unfold a1 in Hia. destruct G; [|apply HS; exact Hia].
      destruct (embed_get_keeps pkg v fuel f a0) as [_ [_ [_ K]]]. rewrite K in Hia. apply HS. exact Hia. }
    apply IH; auto.
    + intros ia Hia. unfold a2 in Hia. destruct S; [|apply G1; exact Hia].
      destruct (embed_set_keeps pkg v fuel f a1) as [_ [_ [_ K]]]. rewrite K in Hia. apply G1. exact Hia.
    + intros ia Hia. unfold a2 in Hia. destruct S; [|apply S1; exact Hia].
      destruct (embed_set_seti _ _ _ _ _ _ Hia) as [Hold|[ve [args [EF [EA E]]]]]; [apply S1; exact Hold|].
      subst ia. eapply admit_entry; eauto.
  - apply IH; auto.
    + intros ia Hia. apply HG. destruct (f_set f && S), (f_get f && G); exact Hia.
    + intros ia Hia. apply HS. destruct (f_set f && S), (f_get f && G); exact Hia.
Qed.

(* <T>Getter embeds <E>Getter[args] only if E is an embedded struct of T (with these type arguments) whose
   interface is declared in the package view and whose pointer type implements it *)
Theorem embedded_interfaces : forall pkg v fl fuel sd fields d nd,
  getset_of pkg v fl fuel sd = COk (fields, d, nd) ->
  (forall ia, In ia (gs_get_ifaces d) -> admitted pkg v fuel fields true ia) /\
  (forall ia, In ia (gs_set_ifaces d) -> admitted pkg v fuel fields false ia).
Proof.
  intros pkg v fl fuel sd fields d nd H. unfold getset_of in H.
  destruct (flatten pkg fl fuel sd) as [[fs hn]| |]; try discriminate. inversion H; subst fields d nd.
  unfold make_getset. destruct (type_switch fl sd) as [gt st]. cbn [gs_get_ifaces gs_set_ifaces].
  apply loop_ifaces; auto; intros ia [].
Qed.

(* ------------------------------------- the struct's own accessors are in *T's method set *)
Lemma find_ventry_put : forall v e, find_ventry (view_put v e) (ve_name e) = Some e.
Proof.
  intros v e. induction v as [|x r IH]; simpl.
  - rewrite String.eqb_refl. reflexivity.
  - destruct (String.eqb (ve_name x) (ve_name e)) eqn:E; simpl.
    + rewrite String.eqb_refl. reflexivity.
    + rewrite E. exact IH.
Qed.

Lemma filter_unique : forall A (f : A -> string) l x,
  NoDup (map f l) -> In x l -> filter (fun y => String.eqb (f y) (f x)) l = [x].
Proof.
  intros A f l x. induction l as [|y r IH]; intros ND Hin; [destruct Hin|].
  simpl in ND. inversion ND; subst. simpl. destruct Hin as [Hin|Hin].
  - subst y. rewrite String.eqb_refl. f_equal. apply filter_none.
    intros z Hz. apply String.eqb_neq. intros E. apply H1. rewrite <- E. apply in_map. exact Hz.
  - destruct (String.eqb (f y) (f x)) eqn:E.
    + exfalso. apply String.eqb_eq in E. apply H1. rewrite E. apply in_map. exact Hin.
    + apply IH; auto.
Qed.

Lemma filter_map_snd : forall A B (pre : A) (p : B -> bool) (l : list B),
  filter (fun pm : A * B => p (snd pm)) (map (fun m => (pre, m)) l) = map (fun m => (pre, m)) (filter p l).
Proof.
  intros A B pre p l. induction l as [|x r IH]; simpl; auto. destruct (p x); simpl; rewrite IH; reflexivity.
Qed.

Definition own_method (getter : bool) (a : acc_field) : gs_method :=
  {| gm_name := if getter then getter_name (af_name a) else setter_name (af_name a);
     gm_kind := if getter then MGet else MSet; gm_ty := af_ty a; gm_field := af_name a |}.

Lemma acc_method_self : forall getter ns a,
  acc_method getter (combine ns (map TParam ns)) a = own_method getter a.
Proof. intros. unfold acc_method, own_method. rewrite subst_self. reflexivity. Qed.

Theorem own_accessors_selected : forall pkg v fl fuel sd fields d nd getter a,
  getset_of pkg v fl fuel sd = COk (fields, d, nd) ->
  c03_guard pkg fl fuel sd = true -> sd_pkg sd = ""%string -> own_accessor_names_ok fl sd = true ->
  In a (spec_accessors fl sd getter) ->
  find_method pkg (view_put v (ventry_of sd nd d)) (S fuel) (self_inst sd) (gm_name (own_method getter a)) =
  Some ([], own_method getter a).
Proof.
  intros pkg v fl fuel sd fields d nd getter a H G Hpkg OK Ha.
  destruct (accessor_table _ _ _ _ _ _ _ _ H G) as [T1 T2].
  set (v' := view_put v (ventry_of sd nd d)).
  assert (Own : own_methods v' (self_inst sd) =
                map (own_method true) (spec_accessors fl sd true) ++ map (own_method false) (spec_accessors fl sd false)).
  { unfold own_methods, self_inst. rewrite Hpkg. cbn [String.eqb].
    unfold v'. replace (sd_name sd) with (ve_name (ventry_of sd nd d)) by reflexivity.
    rewrite find_ventry_put. cbn [ve_data ventry_of]. rewrite T1, T2.
    f_equal; apply map_ext; intros x; apply acc_method_self. }
  unfold own_accessor_names_ok in OK. apply andb_true_iff in OK. destruct OK as [ND NF].
  apply nodup_str_NoDup in ND.
  set (m := own_method getter a).
  assert (Hm : In m (own_methods v' (self_inst sd))).
  { rewrite Own. apply in_or_app. destruct getter; [left|right]; apply in_map; exact Ha. }
  assert (Names : map gm_name (own_methods v' (self_inst sd)) = own_accessor_names fl sd).
  { rewrite Own. unfold own_accessor_names. rewrite map_app, !map_map. reflexivity. }
  unfold find_method. cbn [find_method_from].
  (* no field of the struct has the accessor's name *)
  assert (C0 : candidates pkg 0 (self_inst sd) (gm_name m) = []).
  { unfold candidates. cbn [level]. apply filter_none. intros c Hc. apply in_map_iff in Hc.
    destruct Hc as [tf [Ec Htf]]. subst c. cbn [snd fst].
    rewrite forallb_forall in NF.
    assert (Hn : In (gm_name m) (own_accessor_names fl sd)) by (rewrite <- Names; apply in_map; exact Hm).
    specialize (NF _ Hn). apply negb_true_iff in NF.
    destruct (String.eqb (fst (fst tf)) (gm_name m)) eqn:E; auto.
    assert (existsb (fun tf0 : tfield => String.eqb (fst (fst tf0)) (gm_name m)) (struct_fields (self_inst sd)) = true).
    { apply existsb_exists. exists tf. auto. }
    congruence. }
  rewrite C0.
  assert (M0 : method_candidates pkg v' 0 (self_inst sd) (gm_name m) = [([], m)]).
  { unfold method_candidates. cbn [methods_at].
    assert (F : filter (fun y => String.eqb (gm_name y) (gm_name m)) (own_methods v' (self_inst sd)) = [m]).
    { apply (filter_unique _ gm_name); auto. rewrite Names. exact ND. }
    rewrite (filter_map_snd path gs_method [] (fun y => String.eqb (gm_name y) (gm_name m))), F. reflexivity. }
  rewrite M0. reflexivity.
Qed.

(* ------------------------------------------- the complete method set of <T>Getter / <T>Setter *)
(* Go: the method set of an interface is its explicit methods plus the method sets of the interfaces it
   embeds.  For the declaration shoot emits for T (seen in the package once T's file is loaded): the
   explicit methods are the accessor table, the embedded ones are the admitted interfaces. *)
Theorem interface_method_set : forall pkg v fl fuel sd fields d nd getter k,
  getset_of pkg v fl fuel sd = COk (fields, d, nd) ->
  c03_guard pkg fl fuel sd = true ->
  let v' := view_put v (ventry_of sd nd d) in
  let tps := ve_tparams (ventry_of sd nd d) in
  iface_methods v' (S k) getter (sd_name sd) (map TParam tps) =
  if iface_declared getter d then
    flat_map (fun ia : ident * list ty => iface_methods v' k getter (fst ia) (snd ia))
             (if getter then gs_get_ifaces d else gs_set_ifaces d)
    ++ map (own_method getter) (spec_accessors fl sd getter)
  else [].
Proof.
  intros pkg v fl fuel sd fields d nd getter k H G v' tps.
  destruct (accessor_table _ _ _ _ _ _ _ _ H G) as [T1 T2].
  cbn [iface_methods]. unfold v'.
  replace (sd_name sd) with (ve_name (ventry_of sd nd d)) by reflexivity.
  rewrite find_ventry_put. cbn [ve_data ventry_of ve_name].
  destruct (iface_declared getter d); [|reflexivity].
  fold tps. f_equal.
  - apply flat_map_ext_in. intros ia _. f_equal.
    rewrite <- (map_id (snd ia)) at 2. apply map_ext. intros t. apply subst_self.
  - destruct getter; [rewrite T1|rewrite T2]; apply map_ext; intros a; apply acc_method_self.
Qed.

(* --------------------------------- completeness of the embedded accessor interfaces *)
Lemma loop_app : forall pkg v fuel G S l1 l2 a,
  make_getset_loop pkg v fuel G S (l1 ++ l2) a = make_getset_loop pkg v fuel G S l2 (make_getset_loop pkg v fuel G S l1 a).
Proof.
  intros pkg v fuel G S l1. induction l1 as [|f r IH]; intros l2 a; [reflexivity|].
  cbn [app make_getset_loop]. destruct (existsb (String.eqb (f_name f)) (ga_once a)); [apply IH|].
  destruct (f_embedded f); apply IH.
Qed.

Lemma embed_get_mono : forall pkg v fuel f a ia, In ia (ga_geti a) -> In ia (ga_geti (embed_get pkg v fuel f a)).
Proof.
  intros. unfold embed_get. destruct (find_iface v (f_name f) true); auto.
  destruct (assignable_to_iface pkg v fuel (f_ty f) v0 true) as [[args [|]]|]; auto.
  cbn [ga_geti]. apply in_or_app. left. assumption.
Qed.
Lemma embed_set_mono : forall pkg v fuel f a ia, In ia (ga_seti a) -> In ia (ga_seti (embed_set pkg v fuel f a)).
Proof.
  intros. unfold embed_set. destruct (find_iface v (f_name f) false); auto.
  destruct (assignable_to_iface pkg v fuel (f_ty f) v0 false) as [[args [|]]|]; auto.
  cbn [ga_seti]. apply in_or_app. left. assumption.
Qed.

Lemma loop_ifaces_mono : forall pkg v fuel G S l a,
  (forall ia, In ia (ga_geti a) -> In ia (ga_geti (make_getset_loop pkg v fuel G S l a))) /\
  (forall ia, In ia (ga_seti a) -> In ia (ga_seti (make_getset_loop pkg v fuel G S l a))).
Proof.
  intros pkg v fuel G S l. induction l as [|f r IH]; intros a; [split; auto|].
  cbn [make_getset_loop]. destruct (existsb (String.eqb (f_name f)) (ga_once a)); [apply IH|].
  destruct (f_embedded f).
  - set (a0 := add_once (f_name f) a).
    set (a1 := if G then embed_get pkg v fuel f a0 else a0).
    set (a2 := if S then embed_set pkg v fuel f a1 else a1).
    destruct (IH a2) as [I1 I2]. split; intros ia Hia.
    + apply I1. unfold a2. destruct S.
      * destruct (embed_set_keeps pkg v fuel f a1) as [_ [_ [_ K]]]. rewrite K.
        unfold a1. destruct G; [apply embed_get_mono|]; exact Hia.
      * unfold a1. destruct G; [apply embed_get_mono|]; exact Hia.
    + apply I2. unfold a2. destruct S.
      * apply embed_set_mono. unfold a1. destruct G; [|exact Hia].
        destruct (embed_get_keeps pkg v fuel f a0) as [_ [_ [_ K]]]. rewrite K. exact Hia.
      * unfold a1. destruct G; [|exact Hia].
        destruct (embed_get_keeps pkg v fuel f a0) as [_ [_ [_ K]]]. rewrite K. exact Hia.
  - destruct (IH (if f_set f && S then add_set f (if f_get f && G then add_get f (add_once (f_name f) a) else add_once (f_name f) a)
                  else (if f_get f && G then add_get f (add_once (f_name f) a) else add_once (f_name f) a))) as [I1 I2].
    split; intros ia Hia; [apply I1|apply I2]; destruct (f_set f && S), (f_get f && G); exact Hia.
Qed.

Lemma loop_once : forall pkg v fuel G S l a n,
  In n (ga_once (make_getset_loop pkg v fuel G S l a)) -> In n (ga_once a) \/ In n (map f_name l).
Proof.
  intros pkg v fuel G S l. induction l as [|f r IH]; intros a n H; [left; exact H|].
  cbn [make_getset_loop] in H. destruct (existsb (String.eqb (f_name f)) (ga_once a)).
  - destruct (IH a n H); [left|right; right]; auto.
  - assert (Step : forall a', ga_once a' = f_name f :: ga_once a ->
              In n (ga_once (make_getset_loop pkg v fuel G S r a')) -> In n (ga_once a) \/ In n (map f_name (f :: r))).
    { intros a' E H'. destruct (IH a' n H') as [X|X].
      - rewrite E in X. destruct X as [X|X]; [right; left; exact X|left; exact X].
      - right. right. exact X. }
    destruct (f_embedded f).
    + eapply Step; [|exact H].
      set (a0 := add_once (f_name f) a).
      set (a1 := if G then embed_get pkg v fuel f a0 else a0).
      assert (O1 : ga_once a1 = ga_once a0).
      { unfold a1. destruct G; auto. destruct (embed_get_keeps pkg v fuel f a0) as [K _]. exact K. }
      destruct S; [destruct (embed_set_keeps pkg v fuel f a1) as [K _]; rewrite K|]; rewrite O1; reflexivity.
    + eapply Step; [|exact H]. destruct (f_set f && S), (f_get f && G); reflexivity.
Qed.

(* every embedded struct entry that is the first entry of its name in the flattened list, whose accessor interface
   is declared in the view with matching arity and implemented by the pointer to the struct, IS embedded in
   <T>Getter (when T's type-level directive admits getters) -- the converse of embedded_interfaces *)
Theorem embedded_interfaces_complete : forall pkg v fl fuel sd fields d nd (getter : bool) l1 f l2 ve args,
  getset_of pkg v fl fuel sd = COk (fields, d, nd) ->
  fields = l1 ++ f :: l2 -> f_embedded f = true -> ~ In (f_name f) (map f_name l1) ->
  (if getter then fst (type_switch fl sd) else snd (type_switch fl sd)) = true ->
  find_iface v (f_name f) getter = Some ve ->
  assignable_to_iface pkg v fuel (f_ty f) ve getter = Some (args, true) ->
  In (f_name f, args) (if getter then gs_get_ifaces d else gs_set_ifaces d).
Proof.
  intros pkg v fl fuel sd fields d nd getter l1 f l2 ve args H E Femb First SW FI AS.
  unfold getset_of in H. destruct (flatten pkg fl fuel sd) as [[fs hn]| |]; try discriminate.
  injection H as H1 H2 H3. subst d nd. rewrite <- H1 in E. clear H1.
  unfold make_getset. destruct (type_switch fl sd) as [G S]. cbn [fst snd] in SW.
  cbn [gs_get_ifaces gs_set_ifaces]. rewrite E, loop_app.
  set (a1 := make_getset_loop pkg v fuel G S l1 empty_gs_acc).
  assert (NO : existsb (String.eqb (f_name f)) (ga_once a1) = false).
  { apply not_true_is_false. intros T. apply existsb_eqb_in in T.
    destruct (loop_once _ _ _ _ _ _ _ _ T) as [X|X]; [destruct X|exact (First X)]. }
  cbn [make_getset_loop]. rewrite NO, Femb.
  set (a0 := add_once (f_name f) a1).
  destruct (loop_ifaces_mono pkg v fuel G S l2
              (if S then embed_set pkg v fuel f (if G then embed_get pkg v fuel f a0 else a0)
               else (if G then embed_get pkg v fuel f a0 else a0))) as [M1 M2].
  destruct getter.
  - apply M1. subst G.
    assert (In (f_name f, args) (ga_geti (embed_get pkg v fuel f a0))).
    { unfold embed_get. rewrite FI, AS. cbn [ga_geti]. apply in_or_app. right. left. reflexivity. }
    destruct S; [destruct (embed_set_keeps pkg v fuel f (embed_get pkg v fuel f a0)) as [_ [_ [_ K]]]; rewrite K|]; exact H.
  - apply M2. subst S. unfold embed_set. rewrite FI, AS. cbn [ga_seti]. apply in_or_app. right. left. reflexivity.
Qed.

(* ------------------------------------------------ the accessor body selects the struct's own field *)
Lemma spec_accessor_decl : forall fl sd getter a, In a (spec_accessors fl sd getter) ->
  exists fd, In fd (sd_fields sd) /\ In (af_name a) (fd_names fd) /\ af_ty a = fd_ty fd.
Proof.
  intros fl sd getter a H. unfold spec_accessors in H. apply in_flat_map in H. destruct H as [fd [Hfd H]].
  apply in_flat_map in H. destruct H as [n [Hn H]].
  destruct (if getter then fst (wants fl sd fd n) else snd (wants fl sd fd n)); [|destruct H].
  destruct H as [H|[]]. subst a. exists fd. auto.
Qed.

Lemma filter_map_comm : forall A B (g : A -> B) (p : B -> bool) l, filter p (map g l) = map g (filter (fun x => p (g x)) l).
Proof. intros. induction l as [|x r IH]; simpl; auto. destruct (p (g x)); simpl; rewrite IH; reflexivity. Qed.

(* The emitted getter / setter body is `this.<f>` in a method of the declaring struct.  Go's selector rule, applied
   inside the declaring struct, resolves the name of a table field to that struct's OWN field (depth 0), whatever
   the struct embeds -- so the body reads / assigns the field the accessor is named after. *)
Theorem accessor_body_selects_own_field : forall pkg fl fuel sd getter a k,
  wf_structs pkg fuel sd = true -> In a (spec_accessors fl sd getter) ->
  resolve pkg (S k) sd (af_name a) = Some [af_name a].
Proof.
  intros pkg fl fuel sd getter a k GW Ha.
  destruct (spec_accessor_decl _ _ _ _ Ha) as [fd [Hfd [Hn Ht]]].
  assert (ND := top_names_nodup _ _ _ GW).
  set (tf := (af_name a, fd_ty fd, false) : tfield).
  assert (Htf : In tf (top_tfields sd)).
  { unfold top_tfields. apply in_flat_map. exists fd. split; auto. unfold tfields_of_decl.
    destruct (fd_names fd) as [|x ns]; [destruct Hn|]. apply in_map_iff. exists (af_name a). auto. }
  unfold resolve. cbn [resolve_from]. unfold candidates. cbn [level]. rewrite struct_fields_self.
  rewrite filter_map_comm. cbn [snd fst].
  pose proof (filter_unique _ tf_name (top_tfields sd) tf ND Htf) as FU.
  unfold tf_name in FU. cbn [fst tf] in FU.
  match goal with |- context [filter ?p (top_tfields sd)] => change (filter p (top_tfields sd)) with
    (filter (fun y : tfield => String.eqb (fst (fst y)) (af_name a)) (top_tfields sd)) end.
  rewrite FU. reflexivity.
Qed.
