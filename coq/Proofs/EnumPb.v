(* The boolean properties Pb04 / Pb12 / Pb14 that the correspondence run evaluates on
   what the implementation did (Corr/EnumCorr.v) are implied by the theorems:
   inside the guard the MODEL's own observation satisfies them, for every package
   of the grammar and every list of oracle inputs (window points, codec inputs,
   flags, exhaustive ranges).  Hence (i) a case on which the implementation agrees
   with the model on the compared components satisfies the property because of
   the theorems, and (ii) a case on which Pb fails is a genuine deviation of the
   implementation from the proved behaviour -- Pb never demands more than what is
   proved (no false alarm can come from the boolean property itself). *)
From Coq Require Import List ZArith Bool String Ascii Lia Sorted Permutation.
From Shoot Require Import Model.Enum Proofs.EnumCollect Proofs.EnumBits Proofs.EnumTables Proofs.EnumProofs Corr.EnumCorr.
Import ListNotations.
Local Open Scope string_scope.
Local Open Scope Z_scope.

(* ------------------------------------------------------------ list_eqb ---- *)
Lemma list_eqb_refl : forall (A : Type) (e : A -> A -> bool), (forall x, e x x = true) ->
  forall l, list_eqb e l l = true.
Proof.
  intros A e He l. induction l as [|x l IH]; simpl; [reflexivity|]. rewrite He, IH. reflexivity.
Qed.

Lemma list_eqb_Z_refl : forall l, list_eqb Z.eqb l l = true.
Proof. apply list_eqb_refl. apply Z.eqb_refl. Qed.

Lemma list_eqb_S_refl : forall l, list_eqb String.eqb l l = true.
Proof. apply list_eqb_refl. apply String.eqb_refl. Qed.

(* ------------------------------------------------- sort_z vs dsort -------- *)
Lemma insert_z_dins : forall x l, insert_z (snd x) (map snd l) = map snd (dins x l).
Proof.
  intros x l. induction l as [|y l IH]; simpl; [reflexivity|].
  destruct (snd y <? snd x); simpl; [rewrite IH|]; reflexivity.
Qed.

Lemma sort_z_dsort : forall l, sort_z (map snd l) = map snd (dsort l).
Proof.
  induction l as [|x l IH]; simpl; [reflexivity|]. rewrite IH. apply insert_z_dins.
Qed.

(* ------------------------------------------------- name_of_val ------------ *)
Lemma name_of_val_none : forall (D : list (string * Z)) v,
  ~ In v (map snd D) -> name_of_val D v = None.
Proof.
  intros D v Hnin. unfold name_of_val. rewrite first_name_firstv.
  rewrite (proj2 (firstv_none D v) Hnin). reflexivity.
Qed.

Lemma dedup_z_map : forall l prev, dedup_z prev (map snd l) = map snd (ddedup prev l).
Proof.
  induction l as [|x l IH]; intros prev; [reflexivity|].
  cbn [map dedup_z ddedup]. rewrite IH.
  destruct (match prev with Some b => b =? snd x | None => false end); reflexivity.
Qed.

(* --------------------------------------- the compiler's constants --------- *)
(* on the model's observation the values of the declared constants are read
   back from o_consts = kind_consts: they are the declared values *)
Lemma assoc_s_map_nv : forall (l : cenv_t) e,
  NoDup (map ce_name l) -> In e l -> assoc_s (ce_name e) (map (fun e => (ce_name e, ce_val e)) l) = Some (ce_val e).
Proof.
  intros l e. induction l as [|a l IH]; intros Hnd Hin; [destruct Hin|].
  simpl in *. inversion Hnd as [|x xs Hnin Hnd']; subst.
  destruct Hin as [Heq|Hin].
  - subst a. rewrite String.eqb_refl. reflexivity.
  - destruct (String.eqb_spec (ce_name e) (ce_name a)) as [Hn|Hn].
    + exfalso. apply Hnin. rewrite <- Hn. apply in_map. exact Hin.
    + apply IH; assumption.
Qed.

Lemma kind_consts_declared : forall p T k n v,
  wf_pkg p = true -> kind_of_type p T = Some k -> In (n, v) (declared T p) ->
  assoc_s n (kind_consts p k) = Some v.
Proof.
  intros p T k n v Hwf Hk Hin.
  rewrite declared_decl_of in Hin. apply decl_of_In in Hin.
  destruct Hin as [e [Hin [Hnb [Hsel [Hn Hv]]]]]. subst n v.
  unfold kind_consts.
  apply (assoc_s_map_nv _ e).
  - apply NoDup_map_filter. apply wf_nodup. exact Hwf.
  - apply filter_In. split.
    + apply filter_In. split; [exact Hin|]. apply negb_true_iff. apply String.eqb_neq. exact Hnb.
    + destruct (ce_type e) as [|t|fk]; cbn [ctype_is] in Hsel; try discriminate.
      apply String.eqb_eq in Hsel. subst t. cbn [kind_of_ctype]. rewrite Hk.
      destruct k; reflexivity.
Qed.

Ltac split_left :=
  match goal with
  | |- (?a && ?b) = true => apply andb_true_iff; split; [split_left|]
  | _ => idtac
  end.

Section Model04.
  Variables (c : case) (o : obs) (k : kind).
  Let p := c_pkg c.
  Let T := c_type c.
  Let fl := c_flags c.
  Hypothesis Hg : guarded p T.
  Hypothesis Hk : kind_of_type p T = Some k.
  Hypothesis Hnb : f_bit fl = false.
  Hypothesis Hne : declared T p <> [].

  Let g := make_str p T k fl.
  Let ce := const_env p.
  Let D := declared T p.

  Lemma the_gen_some : the_gen c = Some g.
  Proof.
    unfold the_gen, generate. fold p T fl. rewrite Hk. fold g.
    destruct (g_names g) eqn:Hn; [|reflexivity].
    exfalso. apply Hne. apply (names_nil_iff p T k fl Hg Hk). exact Hn.
  Qed.

  Lemma declared_obs_model : declared_obs c (model_obs c o) = D.
  Proof.
    unfold declared_obs, model_obs. rewrite the_gen_some. cbn [o_consts g_kind]. fold p T.
    change (g_kind g) with k.
    transitivity (map (fun x : string * Z => x) D); [|apply map_id].
    apply map_ext_in. intros [n v] Hin. cbn [fst snd].
    rewrite (kind_consts_declared p T k n v (gd_wf _ _ Hg) Hk Hin). reflexivity.
  Qed.

  Lemma spec_string_model : forall x, spec_string c D x = str_of ce g x.
  Proof.
    intros x. unfold spec_string. fold fl. rewrite Hnb.
    destruct (in_dec Z.eq_dec x (map snd D)) as [Hin|Hnin].
    - apply in_map_iff in Hin. destruct Hin as [[n v] [Hv Hin]]. cbn in Hv. subst v.
      destruct (str_of_declared p T k fl Hg Hk n x Hin) as [n1 [Hf [_ Hs]]].
      unfold name_of_val. unfold D. rewrite Hf. unfold trim. fold T. symmetry. exact Hs.
    - rewrite (name_of_val_none D x Hnin). symmetry.
      apply (str_of_undeclared p T k fl Hg Hk x Hnb Hnin).
  Qed.

  Theorem Pb04_model : Pb04 c (model_obs c o) = true.
  Proof.
    unfold Pb04. rewrite declared_obs_model.
    unfold model_obs. rewrite the_gen_some. cbn [o_built o_values o_strings o_smap o_vmap o_points].
    fold p ce fl.
    split_left.
    all: unfold ce, g, D.
    - apply (fresh_compiles p T k fl Hg Hk).
    - rewrite (values_eq p T k fl Hg Hk), sort_z_dsort, dedup_z_map. apply list_eqb_Z_refl.
    - rewrite (values_strings_length p T k fl Hg Hk). apply Nat.eqb_refl.
    - rewrite (strings_eq p T k fl Hg Hk), (values_eq p T k fl Hg Hk), map_map.
      assert (Heq : map (trimT T) (ddedup None (dsort (declared T p))) =
                    map (fun x => match name_of_val (declared T p) (snd x) with Some n => trim c n | None => "?" end)
                        (ddedup None (dsort (declared T p)))).
      { apply map_ext_in. intros [n v] Hin. cbn [snd]. unfold name_of_val.
        rewrite (U_first p T n v Hin). reflexivity. }
      rewrite Heq. apply list_eqb_S_refl.
    - rewrite (string_map_eq p T k fl Hg Hk), (values_eq p T k fl Hg Hk), !map_length. apply Nat.eqb_refl.
    - rewrite (value_map_eq p T k fl Hg Hk), map_length.
      rewrite (Permutation_length (dsort_perm (declared T p))). apply Nat.eqb_refl.
    - apply forallb_forall. intros [n v] Hin. cbn [fst snd]. unfold trim. fold T.
      destruct (string_map_declared p T k fl Hg Hk n v Hin) as [n1 [Hf [_ Hsm]]].
      rewrite Hsm, (value_map_declared p T k fl Hg Hk n v Hin). unfold name_of_val. rewrite Hf.
      rewrite String.eqb_refl, Z.eqb_refl. reflexivity.
    - apply forallb_forall. intros [x [s b]] Hin. apply in_map_iff in Hin.
      destruct Hin as [xo [Heq Hin]]. inversion Heq; subst. clear Heq.
      apply andb_true_iff. split.
      + pose proof (is_valid_spec p T k fl Hg Hk (fst xo)) as Hiv.
        pose proof (mem_z_spec (fst xo) (map snd (declared T p))) as Hmz.
        destruct (is_valid (const_env p) (make_str p T k fl) (fst xo));
          destruct (mem_z (fst xo) (map snd (declared T p))); try reflexivity; exfalso.
        * assert (Hf : false = true) by (apply Hmz, Hiv; reflexivity). discriminate Hf.
        * assert (Hf : false = true) by (apply Hiv, Hmz; reflexivity). discriminate Hf.
      + pose proof (spec_string_model (fst xo)) as Hss. unfold ce, g, D in Hss. rewrite Hss. apply String.eqb_refl.
  Qed.

  (* ---------------------------------------------------------------- Pb12 --- *)
  Lemma assoc_s_perm : forall (A : Type) (l1 l2 : list (string * A)),
    NoDup (map fst l1) -> Permutation l1 l2 -> forall key, assoc_s key l1 = assoc_s key l2.
  Proof.
    intros A l1 l2 Hnd Hp key.
    assert (Hnd2 : NoDup (map fst l2)).
    { apply (Permutation_NoDup (l := map fst l1)); [apply Permutation_map; exact Hp | exact Hnd]. }
    destruct (assoc_s key l1) as [v|] eqn:H1.
    - symmetry. apply assoc_s_NoDup; [exact Hnd2|].
      apply (Permutation_in _ Hp). apply assoc_s_In. exact H1.
    - symmetry. apply assoc_s_none. intros Hin. apply (proj1 (assoc_s_none _ _ _) H1).
      apply (Permutation_in _ (Permutation_sym (Permutation_map fst Hp))). exact Hin.
  Qed.

  Let VMD := map (fun nv : string * Z => (trim c (fst nv), snd nv)) D.

  Lemma vmd_assoc : forall s, assoc_s s VMD = assoc_s s (t_value_map ce g).
  Proof.
    intros s. unfold VMD, ce, g. rewrite (value_map_eq p T k fl Hg Hk).
    apply assoc_s_perm.
    - rewrite map_map. cbn [fst]. exact (gd_trim _ _ Hg).
    - unfold trim, trimT. fold T. apply Permutation_map. apply Permutation_sym. apply dsort_perm.
  Qed.

  Definition decode_ok (s : string) (t0 : Z) (r : Z * Z) : bool :=
    match assoc_s s VMD with
    | Some v => (fst r =? 0) && (snd r =? v)
    | None => negb (fst r =? 0) && (snd r =? t0)
    end.

  Definition res (r : option errk * Z) : Z * Z := (err_code (fst r), snd r).

  Lemma decode_text : forall s t0, decode_ok s t0 (res (unmarshal_text ce g s t0)) = true.
  Proof.
    intros s t0. unfold decode_ok, unmarshal_text, parse_enum. rewrite vmd_assoc.
    destruct (assoc_s s (t_value_map ce g)) as [v|]; cbn.
    - rewrite Z.eqb_refl. reflexivity.
    - rewrite Z.eqb_refl. reflexivity.
  Qed.

  Lemma decode_scan : forall s t0,
    decode_ok s t0 (res (scan ce g (SBytes s) t0)) = true /\ decode_ok s t0 (res (scan ce g (SStr s) t0)) = true.
  Proof.
    intros s t0. unfold decode_ok, scan, parse_enum. rewrite vmd_assoc.
    destruct (assoc_s s (t_value_map ce g)) as [v|]; cbn; rewrite Z.eqb_refl; split; reflexivity.
  Qed.

  (* for ANY decoding of the input (in the run: the one encoding/json produced) *)
  Lemma decode_json : forall (jd : string -> option string) data t0,
    match jd data with
    | Some s => decode_ok s t0 (res (unmarshal_json ce g jd data t0))
    | None => negb (fst (res (unmarshal_json ce g jd data t0)) =? 0)
              && (snd (res (unmarshal_json ce g jd data t0)) =? t0)
    end = true.
  Proof.
    intros jd data t0. unfold unmarshal_json. destruct (jd data) as [s|].
    - unfold decode_ok, parse_enum. rewrite vmd_assoc.
      destruct (assoc_s s (t_value_map ce g)) as [v|]; cbn; rewrite Z.eqb_refl; reflexivity.
    - cbn. rewrite Z.eqb_refl. reflexivity.
  Qed.

  Lemma is_enum_mem : forall v, is_enum ce g v = mem_z v (t_values ce g).
  Proof.
    intros v. pose proof (is_enum_spec p T k fl Hg Hk v) as Hs.
    pose proof (values_in p T k fl Hg Hk v) as Hv. pose proof (mem_z_spec v (t_values ce g)) as Hm.
    fold ce g in Hs, Hv.
    destruct (is_enum ce g v); destruct (mem_z v (t_values ce g)); try reflexivity; exfalso.
    - assert (Hf : false = true) by (apply Hm, Hv, Hs; reflexivity). discriminate Hf.
    - assert (Hf : false = true) by (apply Hs, Hv, Hm; reflexivity). discriminate Hf.
  Qed.

  Theorem Pb12_model : Pb12 c (model_obs c o) = true.
  Proof.
    unfold Pb12. rewrite declared_obs_model. fold VMD.
    unfold model_obs. rewrite the_gen_some.
    cbn [o_built o_values o_vmap o_mjson o_mtext o_sqlval o_ujson o_utext o_scan o_rt o_parse o_try o_isenum].
    fold p ce fl T.
    split_left.
    - apply (fresh_compiles p T k fl Hg Hk).
    - apply forallb_forall. intros xo Hin. apply in_map_iff in Hin. destruct Hin as [y [Heq _]]. subst xo.
      cbn [fst snd]. unfold marshal_json. rewrite spec_string_model. apply String.eqb_refl.
    - apply forallb_forall. intros xo Hin. apply in_map_iff in Hin. destruct Hin as [y [Heq _]]. subst xo.
      cbn [fst snd]. unfold marshal_text. rewrite spec_string_model. apply String.eqb_refl.
    - apply forallb_forall. intros xo Hin. apply in_map_iff in Hin. destruct Hin as [y [Heq _]]. subst xo.
      cbn [fst snd]. rewrite spec_string_model. apply String.eqb_refl.
    - apply forallb_forall. intros i Hin. apply in_map_iff in Hin.
      destruct Hin as [[[[data dc] t0] r0] [Heq _]]. subst i.
      cbn [fst snd]. pose proof (decode_json (fun _ => dc) data t0) as Hd. unfold decode_ok, res in Hd.
      cbv beta in Hd. destruct dc; exact Hd.
    - apply forallb_forall. intros i Hin. apply in_map_iff in Hin. destruct Hin as [[[s t0] r0] [Heq _]]. subst i.
      cbn [fst snd u3]. exact (decode_text s t0).
    - apply forallb_forall. intros i Hin. apply in_map_iff in Hin. destruct Hin as [[[sv t0] r0] [Heq _]]. subst i.
      cbn [fst snd]. destruct sv; try (cbn; rewrite Z.eqb_refl; reflexivity).
      + exact (proj1 (decode_scan s t0)).
      + exact (proj2 (decode_scan s t0)).
    - apply forallb_forall. intros i Hin. apply in_map_iff in Hin.
      destruct Hin as [[[[codec x] t0] r0] [Heq _]]. subst i. cbn [fst snd].
      destruct (mem_z x (map snd D)) eqn:Hm; [|reflexivity].
      apply mem_z_spec in Hm. apply in_map_iff in Hm. destruct Hm as [[n v] [Hv Hin]]. cbn in Hv. subst v.
      assert (Hj : unmarshal_json ce g jdec (marshal_json ce g jenc x) t0 = (None, x))
        by (apply (json_roundtrip p T k fl Hg Hk jenc jdec jdec_jenc n x t0 Hin)).
      assert (Ht : unmarshal_text ce g (marshal_text ce g x) t0 = (None, x))
        by (apply (text_roundtrip p T k fl Hg Hk n x t0 Hin)).
      assert (Hs : scan ce g (sql_value ce g x) t0 = (None, x))
        by (apply (sql_roundtrip p T k fl Hg Hk n x t0 Hin)).
      destruct (codec =? 0); [rewrite Hj; cbn; rewrite Z.eqb_refl; reflexivity|].
      destruct (codec =? 1); [rewrite Ht; cbn; rewrite Z.eqb_refl; reflexivity|].
      destruct (codec =? 2); [rewrite Hs; cbn; rewrite Z.eqb_refl; reflexivity|].
      rewrite Hj; cbn; rewrite Z.eqb_refl; reflexivity.
    - apply forallb_forall. intros i Hin. apply in_map_iff in Hin. destruct Hin as [[s r0] [Heq _]]. subst i.
      cbn [fst snd]. unfold parse_enum.
      destruct (assoc_s s (t_value_map ce g)) as [v|]; cbn; [rewrite Z.eqb_refl|]; reflexivity.
    - apply forallb_forall. intros i Hin. apply in_map_iff in Hin. destruct Hin as [[[s t0] r0] [Heq _]]. subst i.
      cbn [fst snd]. unfold try_parse_enum, parse_enum.
      destruct (assoc_s s (t_value_map ce g)) as [v|]; cbn; rewrite Z.eqb_refl; reflexivity.
    - apply forallb_forall. intros i Hin. apply in_map_iff in Hin. destruct Hin as [[[tv v] b0] [Heq _]]. subst i.
      cbn [fst snd]. rewrite is_enum_mem. apply Bool.eqb_reflx.
  Qed.
End Model04.

(* ---------------------------------------- no output: nothing declared ------ *)
Definition entry_typed (p : pkg) (e : centry) : Prop :=
  ce_name e <> "_" -> ce_ok e = true ->
  forall t, ce_type e = CNamed t -> kind_of_type p t <> None.

Lemma spec_entries_typed : forall p env iota ty names exprs,
  Forall (entry_typed p) (spec_entries p env iota ty names exprs).
Proof.
  intros p env iota ty names.
  induction names as [|n names IH]; intros exprs.
  - constructor.
  - cbn [spec_entries]. destruct (String.eqb n "_") eqn:Hn.
    + constructor; [|apply IH]. intros Hnb. cbn [ce_name] in Hnb. congruence.
    + constructor; [|apply IH].
      intros _ Hok t Hty Hnone. cbn [ce_ok ce_type] in *.
      destruct exprs as [|e0 exprs']; [discriminate|]. cbn [hd] in *.
      destruct (eval env iota e0) as [x|]; [|discriminate].
      rewrite Hty in Hok. cbn [kind_of_ctype] in Hok. rewrite Hnone in Hok. discriminate.
Qed.

Lemma declared_needs_type : forall p T,
  wf_pkg p = true -> kind_of_type p T = None -> declared T p = [].
Proof.
  intros p T Hwf Hnone. destruct (declared T p) as [|[n v] l] eqn:Hd; [reflexivity|]. exfalso.
  assert (Hin : In (n, v) (declared T p)) by (rewrite Hd; left; reflexivity).
  rewrite declared_decl_of in Hin. apply decl_of_In in Hin.
  destruct Hin as [e [Hin [Hnb [Hsel _]]]].
  pose proof (const_env_Forall (entry_typed p) p (spec_entries_typed p)) as Hall.
  rewrite Forall_forall in Hall.
  destruct (ce_type e) as [|t|fk] eqn:Hty; cbn [ctype_is] in Hsel; try discriminate.
  apply String.eqb_eq in Hsel. subst t.
  exact (Hall e Hin Hnb (wf_ok p e Hwf Hin) T Hty Hnone).
Qed.

Lemma the_gen_none_declared : forall c, guarded (c_pkg c) (c_type c) -> the_gen c = None ->
  declared (c_type c) (c_pkg c) = [].
Proof.
  intros c Hg Hnone. unfold the_gen, generate in Hnone.
  destruct (kind_of_type (c_pkg c) (c_type c)) as [k|] eqn:Hk.
  - destruct (g_names (make_str (c_pkg c) (c_type c) k (c_flags c))) eqn:Hn; [|discriminate].
    apply (names_nil_iff _ _ k (c_flags c) Hg Hk). exact Hn.
  - apply declared_needs_type; [exact (gd_wf _ _ Hg) | exact Hk].
Qed.

Theorem Pb04_model_in_guard : forall c o,
  enum_guard (c_pkg c) (c_type c) = true -> f_bit (c_flags c) = false ->
  Pb04 c (model_obs c o) = true.
Proof.
  intros c o Hgd Hnb. apply enum_guard_spec in Hgd.
  destruct (the_gen c) as [g|] eqn:Hgen.
  - destruct (generate_inv _ _ _ _ Hgen) as [k [Hk [Hgeq Hne]]].
    apply (Pb04_model c o k Hgd Hk Hnb).
    intros Hnil. apply Hne. subst g. apply (names_nil_iff _ _ k _ Hgd Hk). exact Hnil.
  - pose proof (the_gen_none_declared c Hgd Hgen) as Hnil.
    unfold Pb04, declared_obs, model_obs. rewrite Hgen, Hnil. reflexivity.
Qed.

(* ------------------------------------------------------------ bits_of ----- *)
Definition pows (x : Z) : list Z := map (fun i => 2 ^ i) (bits_upto x).

Lemma pows_sorted_from : forall n a,
  StronglySorted Z.lt (map (fun i => 2 ^ i) (map Z.of_nat (seq a n))).
Proof.
  induction n as [|n IH]; intros a; simpl; [constructor|].
  constructor; [apply IH|].
  apply Forall_forall. intros y Hy. apply in_map_iff in Hy. destruct Hy as [i [Hy Hi]]. subst y.
  apply in_map_iff in Hi. destruct Hi as [j [Hi Hj]]. subst i. apply in_seq in Hj.
  apply Z.pow_lt_mono_r; lia.
Qed.

Lemma pows_sorted : forall x, StronglySorted Z.lt (pows x).
Proof. intros x. unfold pows, bits_upto. apply pows_sorted_from. Qed.

Lemma in_pows : forall x i, 0 <= i -> (In (2 ^ i) (pows x) <-> i <= Z.log2 x).
Proof.
  intros x i Hi. unfold pows. rewrite in_map_iff. split.
  - intros [j [Hj Hin]]. apply in_bits_upto in Hin.
    apply Z.pow_inj_r in Hj; lia.
  - intros Hle. exists i. split; [reflexivity | apply in_bits_upto; lia].
Qed.

Lemma pows_single : forall x, Forall single_bit (pows x).
Proof.
  intros x. apply Forall_forall. intros b Hb. unfold pows in Hb. apply in_map_iff in Hb.
  destruct Hb as [i [Hb Hi]]. apply in_bits_upto in Hi. exists i. split; [lia | congruence].
Qed.

Lemma bits_of_eq : forall x, bits_of x = filter (fun b => Z.testbit x (Z.log2 b)) (pows x).
Proof. reflexivity. Qed.

Lemma bits_of_single : forall x, Forall single_bit (bits_of x).
Proof.
  intros x. rewrite bits_of_eq. apply Forall_forall. intros b Hb. apply filter_In in Hb.
  pose proof (pows_single x) as H. rewrite Forall_forall in H. apply H. exact (proj1 Hb).
Qed.

Lemma bits_of_sorted : forall x, StronglySorted Z.lt (bits_of x).
Proof. intros x. rewrite bits_of_eq. apply StronglySorted_filter. apply pows_sorted. Qed.

Lemma in_bits_of : forall x i, 0 < x -> 0 <= i -> (In (2 ^ i) (bits_of x) <-> Z.testbit x i = true).
Proof.
  intros x i Hx Hi. rewrite bits_of_eq, filter_In, (in_pows x i Hi), (Z.log2_pow2 i Hi). split.
  - intros [_ Hb]. exact Hb.
  - intros Hb. split; [|exact Hb].
    destruct (Z_le_gt_dec i (Z.log2 x)) as [Hle|Hgt]; [exact Hle|].
    rewrite Z.bits_above_log2 in Hb by lia. discriminate Hb.
Qed.

Lemma lor_all_bits_of : forall x, 0 < x -> lor_all (bits_of x) = x.
Proof.
  intros x Hx. apply Z.bits_inj'. intros i Hi.
  destruct (Z.testbit x i) eqn:Hb.
  - apply (testbit_lor_all_single _ i (bits_of_single x) Hi). apply in_bits_of; assumption.
  - destruct (Z.testbit (lor_all (bits_of x)) i) eqn:Hl; [|reflexivity].
    apply (testbit_lor_all_single _ i (bits_of_single x) Hi) in Hl.
    apply in_bits_of in Hl; try assumption. congruence.
Qed.

Lemma bits_of_nonempty : forall x, 0 < x -> bits_of x <> [].
Proof.
  intros x Hx Hnil.
  assert (Hin : In (2 ^ Z.log2 x) (bits_of x)).
  { apply in_bits_of; [exact Hx | apply Z.log2_nonneg | apply Z.bit_log2; exact Hx]. }
  rewrite Hnil in Hin. exact Hin.
Qed.

(* ------------------------------------------------------------ mask_of ----- *)
Lemma mask_fold : forall (P : Z -> bool) xs m a, 0 <= a -> Forall (fun x => 0 <= x) xs ->
  Z.testbit (fold_left (fun m x => if P x then Z.lor m (Z.shiftl 1 x) else m) xs m) a =
  Z.testbit m a || existsb (fun x => (x =? a) && P x) xs.
Proof.
  intros P xs. induction xs as [|x xs IH]; intros m a Ha Hxs; simpl.
  - rewrite orb_false_r. reflexivity.
  - inversion Hxs as [|x' xs' Hx Hxs']; subst.
    rewrite (IH _ a Ha Hxs'). destruct (P x) eqn:HP.
    + rewrite Z.lor_spec, Z.shiftl_1_l, (Z.pow2_bits_eqb x a Hx).
      rewrite andb_true_r. rewrite orb_assoc. reflexivity.
    + rewrite andb_false_r. reflexivity.
Qed.

Lemma in_range_from : forall n a x, In x (range_from a n) <-> a <= x < a + Z.of_nat n.
Proof.
  induction n as [|n IH]; intros a x; simpl.
  - lia.
  - rewrite IH. lia.
Qed.

Lemma range_from_nonneg : forall n, Forall (fun x => 0 <= x) (range_from 0 n).
Proof. intros n. apply Forall_forall. intros x Hx. apply in_range_from in Hx. lia. Qed.

Lemma existsb_point : forall (P : Z -> bool) xs a,
  existsb (fun x => (x =? a) && P x) xs = (mem_z a xs && P a).
Proof.
  intros P xs a. unfold mem_z. induction xs as [|x xs IH]; simpl; [reflexivity|].
  rewrite IH. rewrite (Z.eqb_sym a x). destruct (Z.eqb_spec x a) as [Heq|Hne]; simpl.
  - subst x. destruct (P a); simpl; [reflexivity|]. rewrite !andb_false_r. reflexivity.
  - reflexivity.
Qed.

Lemma mask_of_spec : forall (P : Z -> bool) n a, 0 <= a ->
  Z.testbit (mask_of P (range_from 0 n)) a = ((a <? Z.of_nat n) && P a).
Proof.
  intros P n a Ha. unfold mask_of.
  rewrite (mask_fold P _ 0 a Ha (range_from_nonneg n)), Z.bits_0, orb_false_l, existsb_point.
  f_equal. destruct (Z.ltb_spec a (Z.of_nat n)) as [Hlt|Hge].
  - apply mem_z_spec. apply in_range_from. lia.
  - destruct (mem_z a (range_from 0 n)) eqn:Hm; [|reflexivity].
    apply mem_z_spec in Hm. apply in_range_from in Hm. lia.
Qed.

Lemma combine_map_self : forall (A B : Type) (h : A -> B) (l : list A),
  combine l (map h l) = map (fun x => (x, h x)) l.
Proof. intros A B h l. induction l as [|x l IH]; simpl; [reflexivity | rewrite IH; reflexivity]. Qed.

Section Model14.
  Variables (c : case) (o : obs) (k : kind).
  Let p := c_pkg c.
  Let T := c_type c.
  Let fl := c_flags c.
  Hypothesis Hg : guarded p T.
  Hypothesis Hk : kind_of_type p T = Some k.
  Hypothesis Hbit : f_bit fl = true.
  Hypothesis Hne : declared T p <> [].

  Let g := make_str p T k fl.
  Let ce := const_env p.
  Let D := declared T p.

  Lemma the_gen_some14 : the_gen c = Some g.
  Proof.
    unfold the_gen, generate. fold p T fl. rewrite Hk. fold g.
    destruct (g_names g) eqn:Hn; [|reflexivity].
    exfalso. apply Hne. apply (names_nil_iff p T k fl Hg Hk). exact Hn.
  Qed.

  Lemma declared_obs_model14 : declared_obs c (model_obs c o) = D.
  Proof.
    unfold declared_obs, model_obs. rewrite the_gen_some14. cbn [o_consts g_kind]. fold p T.
    change (g_kind g) with k.
    transitivity (map (fun x : string * Z => x) D); [|apply map_id].
    apply map_ext_in. intros [n v] Hin. cbn [fst snd].
    rewrite (kind_consts_declared p T k n v (gd_wf _ _ Hg) Hk Hin). reflexivity.
  Qed.

  Lemma vals_bits_declared : bits_declared (map snd D) -> bits_declared (t_values ce g).
  Proof.
    intros [Hnn Hb]. split.
    - apply Forall_forall. intros v Hv. apply (values_in p T k fl Hg Hk) in Hv.
      rewrite Forall_forall in Hnn. apply Hnn. exact Hv.
    - intros v j Hv Hj Hbt. apply (values_in p T k fl Hg Hk).
      apply (Hb v j); [apply (values_in p T k fl Hg Hk); exact Hv | exact Hj | exact Hbt].
  Qed.

  Lemma name_part : forall b, In b (map snd D) ->
    match name_of_val D b with Some n => trim c n | None => "?" end = name_of ce g b.
  Proof.
    intros b Hin. apply in_map_iff in Hin. destruct Hin as [[n v] [Hv Hin]]. cbn in Hv. subst v.
    destruct (first_name_declared p T n b Hin) as [n1 [Hf _]].
    unfold name_of_val. unfold D. rewrite Hf. unfold trim. fold T.
    symmetry. apply name_of_first; assumption.
  Qed.

  (* the declarative String() of the -bit specification = the generated String() *)
  Lemma spec_bit_string_model : forall x, bits_declared (map snd D) ->
    spec_bit_string c D x = str_of ce g x.
  Proof.
    intros x Hbd. unfold spec_bit_string.
    destruct (in_dec Z.eq_dec x (map snd D)) as [Hin|Hnin].
    - apply in_map_iff in Hin. destruct Hin as [[n v] [Hv Hin]]. cbn in Hv. subst v.
      destruct (str_of_declared p T k fl Hg Hk n x Hin) as [n1 [Hf [_ Hs]]].
      unfold name_of_val. unfold D. rewrite Hf. unfold trim. fold T. symmetry. exact Hs.
    - rewrite (name_of_val_none D x Hnin).
      assert (Hnin' : ~ In x (t_values ce g)).
      { intros Hin. apply Hnin. apply (values_in p T k fl Hg Hk). exact Hin. }
      destruct (Z.ltb_spec 0 x) as [Hpos|Hle]; cbn [andb].
      + destruct (forallb (fun b => mem_z b (map snd D)) (bits_of x)) eqn:Hall.
        * (* every bit of x is a declared flag: the union case *)
          rewrite forallb_forall in Hall.
          assert (Hincl : incl (bits_of x) (t_values ce g)).
          { intros b Hb. apply (values_in p T k fl Hg Hk). apply mem_z_spec. apply Hall. exact Hb. }
          pose proof (str_of_union ce g (bits_of x)) as Hu.
          rewrite (lor_all_bits_of x Hpos) in Hu.
          rewrite Hu.
          -- unfold join. f_equal. apply map_ext_in. intros b Hb.
             apply name_part. apply mem_z_spec. apply Hall. exact Hb.
          -- exact Hbit.
          -- apply (values_ascending p T k fl Hg Hk).
          -- exact (proj1 (vals_bits_declared Hbd)).
          -- apply bits_of_nonempty. exact Hpos.
          -- apply bits_of_sorted.
          -- apply bits_of_single.
          -- exact Hincl.
          -- exact Hnin'.
        * (* some bit of x is no declared flag *)
          assert (Hex : exists b, In b (bits_of x) /\ mem_z b (map snd D) = false).
          { clear - Hall. induction (bits_of x) as [|b l IH]; simpl in Hall; [discriminate|].
            apply andb_false_iff in Hall. destruct Hall as [Hb|Hl].
            - exists b. split; [left; reflexivity | exact Hb].
            - destruct (IH Hl) as [b' [Hin Hb']]. exists b'. split; [right; exact Hin | exact Hb']. }
          destruct Hex as [b [Hb Hm]].
          pose proof (bits_of_single x) as Hs. rewrite Forall_forall in Hs.
          destruct (Hs b Hb) as [i [Hi Hbi]]. subst b.
          symmetry. apply (str_of_undeclared_bit ce g x i).
          -- exact (vals_bits_declared Hbd).
          -- exact Hnin'.
          -- exact Hi.
          -- apply in_bits_of; assumption.
          -- intros Hin. apply (proj1 (values_in p T k fl Hg Hk _)) in Hin. apply (proj2 (mem_z_spec _ _)) in Hin. unfold D in Hm. rewrite Hin in Hm. discriminate Hm.
      + symmetry. destruct (Z.eq_dec x 0) as [Hz|Hnz].
        * subst x. apply str_of_zero. exact Hnin'.
        * apply str_of_negative; [exact Hnin' | lia].
  Qed.

  Lemma first_name_none_notin : forall x, first_name D x = None -> ~ In x (map snd D).
  Proof.
    intros x Hf. rewrite first_name_firstv in Hf. apply firstv_none.
    destruct (firstv D x); [discriminate | reflexivity].
  Qed.

  Lemma string_ok_model : forall x,
    string_ok c D (bits_declared_b (map snd D) || negb (f_bit fl)) x (str_of ce g x) = true.
  Proof.
    intros x. unfold string_ok, name_of_val. rewrite Hbit. cbn [negb]. rewrite orb_false_r.
    destruct (first_name D x) as [n1|] eqn:Hf.
    - unfold trim. fold T. unfold ce, g, D in *. rewrite (str_of_first p T k fl Hg Hk x n1 Hf). apply String.eqb_refl.
    - pose proof (first_name_none_notin x Hf) as Hnin.
      assert (Hnin' : ~ In x (t_values ce g)).
      { intros Hin. apply Hnin. apply (values_in p T k fl Hg Hk). exact Hin. }
      destruct (Z.ltb_spec x 0) as [Hneg|Hnn].
      + rewrite (str_of_negative ce g x Hnin' Hneg). apply String.eqb_refl.
      + destruct (bits_declared_b (map snd D)) eqn:Hbd; [|reflexivity].
        apply bits_declared_b_spec in Hbd.
        unfold spec_string. fold fl. rewrite Hbit.
        rewrite (spec_bit_string_model x Hbd). apply String.eqb_refl.
  Qed.

  Theorem Pb14_model : Pb14 c (model_obs c o) = true.
  Proof.
    unfold Pb14. rewrite declared_obs_model14.
    unfold model_obs. rewrite the_gen_some14.
    cbn [o_built o_bitn o_bitstr o_points o_bitops o_bitpairs]. fold p ce fl T. rewrite Hbit.
    split_left.
    - apply (fresh_compiles p T k fl Hg Hk).
    - apply andb_true_iff. split.
      + rewrite map_length. apply Nat.eqb_refl.
      + rewrite combine_map_self. apply forallb_forall. intros xs Hin. apply in_map_iff in Hin.
        destruct Hin as [y [Heq _]]. subst xs. cbn [fst snd].
        pose proof (string_ok_model y) as Hs. rewrite Hbit in Hs. exact Hs.
    - apply forallb_forall. intros [x [s b]] Hin. apply in_map_iff in Hin.
      destruct Hin as [xo [Heq _]]. inversion Heq; subst. clear Heq.
      pose proof (string_ok_model (fst xo)) as Hs. rewrite Hbit in Hs. exact Hs.
    - apply forallb_forall. intros fo Hin. apply in_map_iff in Hin.
      destruct Hin as [[f rest] [Heq _]]. subst fo. cbn [fst].
      set (n := Z.to_nat (o_bitn o)).
      set (xs := range_from 0 n).
      assert (Hmask : forall (P : Z -> bool) a, In a xs -> Z.testbit (mask_of P xs) a = P a).
      { intros P a Ha. unfold xs in *. apply in_range_from in Ha.
        rewrite (mask_of_spec P n a (proj1 Ha)).
        assert (Hlt : (a <? Z.of_nat n) = true) by (apply Z.ltb_lt; lia).
        rewrite Hlt. reflexivity. }
      split_left.
      + rewrite map_length. apply Nat.eqb_refl.
      + rewrite map_length. apply Nat.eqb_refl.
      + rewrite combine_map_self. apply forallb_forall. intros xa Hxa. apply in_map_iff in Hxa.
        destruct Hxa as [y [Heq Hy]]. subst xa. cbv beta iota.
        pose proof (has_add y f) as Hha. unfold has in Hha.
        rewrite Hha. rewrite (add_outside y f), Z.eqb_refl. reflexivity.
      + rewrite combine_map_self. apply forallb_forall. intros xr Hxr. apply in_map_iff in Hxr.
        destruct Hxr as [y [Heq Hy]]. subst xr. cbv beta iota.
        rewrite (land_remove_0 y f), (remove_outside y f), !Z.eqb_refl. reflexivity.
      + apply forallb_forall. intros x Hx.
        rewrite (Hmask (fun x => has x f) x Hx), (Hmask (fun x => has (add x f) f) x Hx),
                (Hmask (fun x => has (remove x f) f) x Hx).
        cbv beta. rewrite (has_add x f). unfold has at 1. rewrite Bool.eqb_reflx. cbn [andb].
        destruct (Z.eqb_spec f 0) as [Hf0|Hf0]; [reflexivity|].
        rewrite (has_remove x f Hf0). reflexivity.
    - apply forallb_forall. intros i Hin. apply in_map_iff in Hin.
      destruct Hin as [[[x f] r0] [Heq _]]. subst i. cbn [fst snd].
      pose proof (has_add x f) as Hha.
      unfold has at 1. rewrite Bool.eqb_reflx. cbn [andb].
      assert (Hl : (Z.land (add x f) f =? f) = true) by (unfold has in Hha; exact Hha).
      rewrite Hl, (add_outside x f), (land_remove_0 x f), (remove_outside x f), !Z.eqb_refl, Hha. cbn [andb].
      destruct (Z.eqb_spec f 0) as [Hf0|Hf0]; [reflexivity|].
      rewrite (has_remove x f Hf0). reflexivity.
  Qed.
End Model14.

Theorem Pb12_model_in_guard : forall c o,
  enum_guard (c_pkg c) (c_type c) = true -> f_bit (c_flags c) = false ->
  Pb12 c (model_obs c o) = true.
Proof.
  intros c o Hgd Hnb. apply enum_guard_spec in Hgd.
  destruct (the_gen c) as [g|] eqn:Hgen.
  - destruct (generate_inv _ _ _ _ Hgen) as [k' [Hk' [Hgeq Hne]]].
    apply (Pb12_model c o k' Hgd Hk' Hnb).
    intros Hnil. apply Hne. subst g. apply (names_nil_iff _ _ k' _ Hgd Hk'). exact Hnil.
  - pose proof (the_gen_none_declared c Hgd Hgen) as Hnil.
    unfold Pb12, declared_obs, model_obs. rewrite Hgen, Hnil. reflexivity.
Qed.

(* Pb14 on a target generated WITHOUT -bit (ordinary enums next to the flag enums) *)
Theorem Pb14_model_nobit : forall c o,
  enum_guard (c_pkg c) (c_type c) = true -> f_bit (c_flags c) = false ->
  Pb14 c (model_obs c o) = true.
Proof.
  intros c o Hgd Hnb. pose proof (proj1 (enum_guard_spec _ _) Hgd) as Hg.
  destruct (the_gen c) as [g|] eqn:Hgen.
  - destruct (generate_inv _ _ _ _ Hgen) as [k [Hk [Hgeq Hne]]].
    assert (Hne' : declared (c_type c) (c_pkg c) <> []).
    { intros Hnil. apply Hne. subst g. apply (names_nil_iff _ _ k _ Hg Hk). exact Hnil. }
    unfold Pb14. rewrite (declared_obs_model c o k Hg Hk Hne').
    pose proof (the_gen_some c k Hg Hk Hne') as Hsome.
    unfold model_obs. rewrite Hsome. cbn [o_built o_bitn o_bitstr o_points o_bitops o_bitpairs].
    rewrite Hnb. cbn [negb orb]. rewrite !orb_true_r.
    split_left.
    + apply (fresh_compiles _ _ k _ Hg Hk).
    + reflexivity.
    + apply forallb_forall. intros [x [s b]] Hin. apply in_map_iff in Hin.
      destruct Hin as [xo [Heq _]]. inversion Heq; subst. clear Heq.
      unfold string_ok, name_of_val.
      destruct (first_name (declared (c_type c) (c_pkg c)) (fst xo)) as [n1|] eqn:Hf.
      * unfold trim. rewrite (str_of_first _ _ k _ Hg Hk (fst xo) n1 Hf). apply String.eqb_refl.
      * assert (Hnin : ~ In (fst xo) (map snd (declared (c_type c) (c_pkg c)))).
        { rewrite first_name_firstv in Hf. apply firstv_none.
          destruct (firstv (declared (c_type c) (c_pkg c)) (fst xo)); [discriminate | reflexivity]. }
        rewrite (str_of_undeclared _ _ k _ Hg Hk (fst xo) Hnb Hnin).
        destruct (fst xo <? 0); [apply String.eqb_refl|].
        unfold spec_string. rewrite Hnb. unfold name_of_val. rewrite Hf. apply String.eqb_refl.
    + reflexivity.
    + reflexivity.
  - pose proof (the_gen_none_declared c Hg Hgen) as Hnil.
    unfold Pb14, declared_obs, model_obs. rewrite Hgen, Hnil, Hnb. reflexivity.
Qed.

Theorem Pb14_model_in_guard : forall c o,
  enum_guard (c_pkg c) (c_type c) = true ->
  f_bit (c_flags c) = true ->
  Pb14 c (model_obs c o) = true.
Proof.
  intros c o Hgd Hbit. pose proof (proj1 (enum_guard_spec _ _) Hgd) as Hg.
  destruct (the_gen c) as [g|] eqn:Hgen.
  - destruct (generate_inv _ _ _ _ Hgen) as [k [Hk [Hgeq Hne]]].
    apply (Pb14_model c o k Hg Hk Hbit).
    intros Hnil. apply Hne. subst g. apply (names_nil_iff _ _ k _ Hg Hk). exact Hnil.
  - pose proof (the_gen_none_declared c Hg Hgen) as Hnil.
    unfold Pb14, declared_obs, model_obs. rewrite Hgen, Hnil, Hbit. cbn. reflexivity.
Qed.
