(* Generic lemmas used by Proofs/RestProofs.v (property C06): association lists with
   map_set / map_get (the model of Go maps), iteration oracles, byte strings
   (replace_first = strings.Replace ... 1), the key order and insertion sort. *)
From Coq Require Import String Ascii List Bool Arith Lia Permutation Sorted.
From Shoot Require Import Base.Str Model.Directive Model.Rest Model.RestSpec.
Import ListNotations.
Local Open Scope string_scope.
Local Open Scope list_scope.

(* ------------------------------------------------------------ map_set / map_get *)
Lemma map_get_set_same : forall m k v, map_get (map_set m k v) k = Some v.
Proof.
  induction m as [|[k' v'] m IH]; intros k v; simpl.
  - rewrite String.eqb_refl. reflexivity.
  - destruct (String.eqb k' k) eqn:E; simpl.
    + rewrite String.eqb_refl. reflexivity.
    + rewrite E. apply IH.
Qed.

Lemma map_get_set_other : forall m k v k', k <> k' -> map_get (map_set m k v) k' = map_get m k'.
Proof.
  induction m as [|[k0 v0] m IH]; intros k v k' Hne; simpl.
  - destruct (String.eqb k k') eqn:E; [apply String.eqb_eq in E; contradiction | reflexivity].
  - destruct (String.eqb k0 k) eqn:E; simpl.
    + apply String.eqb_eq in E. subst k0.
      destruct (String.eqb k k') eqn:E2; [apply String.eqb_eq in E2; contradiction | reflexivity].
    + destruct (String.eqb k0 k'); [reflexivity | apply IH; assumption].
Qed.

Lemma map_set_keys : forall m k v,
  map fst (map_set m k v) = if existsb (String.eqb k) (map fst m) then map fst m else map fst m ++ [k].
Proof.
  induction m as [|[k0 v0] m IH]; intros k v; simpl; [reflexivity|].
  destruct (String.eqb k0 k) eqn:E; simpl.
  - apply String.eqb_eq in E. subst. rewrite String.eqb_refl. reflexivity.
  - rewrite String.eqb_sym, E. simpl. rewrite IH. destruct (existsb (String.eqb k) (map fst m)); reflexivity.
Qed.

Lemma existsb_eqb_In : forall k l, existsb (String.eqb k) l = true <-> In k l.
Proof.
  intros k l. rewrite existsb_exists. split.
  - intros [x [Hin He]]. apply String.eqb_eq in He. subst. assumption.
  - intros Hin. exists k. split; [assumption | apply String.eqb_refl].
Qed.

Lemma NoDup_snoc : forall (l : list string) k, NoDup l -> ~ In k l -> NoDup (l ++ [k]).
Proof.
  induction l as [|x l IH]; intros k Hnd Hni; simpl.
  - constructor; [intros [] | constructor].
  - inversion Hnd; subst. constructor.
    + rewrite in_app_iff. intros [H|[H|[]]]; [contradiction | subst; apply Hni; left; reflexivity].
    + apply IH; [assumption | intros H; apply Hni; right; assumption].
Qed.

Lemma map_set_nodup : forall m k v, NoDup (map fst m) -> NoDup (map fst (map_set m k v)).
Proof.
  intros m k v H. rewrite map_set_keys.
  destruct (existsb (String.eqb k) (map fst m)) eqn:E; [assumption|].
  apply NoDup_snoc; [assumption|].
  intros Hin. apply existsb_eqb_In in Hin. congruence.
Qed.

Lemma map_get_none_iff : forall m k, map_get m k = None <-> ~ In k (map fst m).
Proof.
  induction m as [|[k0 v0] m IH]; intros k; simpl.
  - split; [intros _ [] | reflexivity].
  - destruct (String.eqb k0 k) eqn:E.
    + apply String.eqb_eq in E. subst. split; [discriminate | intros H; exfalso; apply H; left; reflexivity].
    + apply String.eqb_neq in E. rewrite IH. split.
      * intros H [H1|H1]; [contradiction | contradiction].
      * intros H H1. apply H. right. assumption.
Qed.

Lemma map_get_some_in : forall m k v, map_get m k = Some v -> In (k, v) m.
Proof.
  induction m as [|[k0 v0] m IH]; intros k v; simpl; [discriminate|].
  destruct (String.eqb k0 k) eqn:E.
  - apply String.eqb_eq in E. subst. intros H. inversion H. left. reflexivity.
  - intros H. right. apply IH. assumption.
Qed.

Lemma map_get_in_nodup : forall m k v, NoDup (map fst m) -> In (k, v) m -> map_get m k = Some v.
Proof.
  induction m as [|[k0 v0] m IH]; intros k v Hnd Hin; simpl in *; [contradiction|].
  inversion Hnd as [|? ? Hni Hnd']; subst.
  destruct Hin as [Heq|Hin].
  - inversion Heq; subst. rewrite String.eqb_refl. reflexivity.
  - destruct (String.eqb k0 k) eqn:E.
    + apply String.eqb_eq in E. subst. exfalso. apply Hni. apply (in_map fst) in Hin. exact Hin.
    + apply IH; assumption.
Qed.

Lemma map_set_in_keys : forall m k v x, In x (map fst (map_set m k v)) <-> In x (map fst m) \/ x = k.
Proof.
  intros m k v x. rewrite map_set_keys.
  destruct (existsb (String.eqb k) (map fst m)) eqn:E.
  - apply existsb_eqb_In in E. split; [tauto | intros [H|H]; [assumption | subst; assumption]].
  - rewrite in_app_iff. simpl. split; [intros [H|[H|[]]]; auto | intros [H|H]; auto].
Qed.

Lemma map_set_fresh : forall m k v, ~ In k (map fst m) -> map_set m k v = m ++ [(k, v)].
Proof.
  induction m as [|[k0 v0] m IH]; intros k v Hni; simpl; [reflexivity|].
  destruct (String.eqb k0 k) eqn:E.
  - apply String.eqb_eq in E. subst. exfalso. apply Hni. left. reflexivity.
  - f_equal. apply IH. intros H. apply Hni. right. assumption.
Qed.

(* a sequence of writes m[k] = v *)
Definition set_list (W base : list (string * string)) : list (string * string) :=
  fold_left (fun q kv => map_set q (fst kv) (snd kv)) W base.

Lemma set_list_app : forall W1 W2 base, set_list (W1 ++ W2) base = set_list W2 (set_list W1 base).
Proof. intros. unfold set_list. apply fold_left_app. Qed.

Lemma set_list_keys : forall W base x,
  In x (map fst (set_list W base)) <-> In x (map fst base) \/ In x (map fst W).
Proof.
  induction W as [|[k v] W IH]; intros base x; simpl.
  - tauto.
  - unfold set_list in *. simpl. rewrite IH. rewrite map_set_in_keys. simpl. split.
    + intros [[H|H]|H]; auto.
    + intros [H|[H|H]]; auto.
Qed.

Lemma set_list_nodup : forall W base, NoDup (map fst base) -> NoDup (map fst (set_list W base)).
Proof.
  induction W as [|[k v] W IH]; intros base H; simpl; [assumption|].
  unfold set_list in *. simpl. apply IH. apply map_set_nodup. assumption.
Qed.

Lemma set_list_notin : forall W base k, ~ In k (map fst W) -> map_get (set_list W base) k = map_get base k.
Proof.
  induction W as [|[k0 v0] W IH]; intros base k Hni; simpl; [reflexivity|].
  unfold set_list in *. simpl. rewrite IH.
  - apply map_get_set_other. intros E. apply Hni. left. simpl. assumption.
  - intros H. apply Hni. right. assumption.
Qed.

Lemma set_list_in : forall W base k v,
  NoDup (map fst W) -> In (k, v) W -> map_get (set_list W base) k = Some v.
Proof.
  induction W as [|[k0 v0] W IH]; intros base k v Hnd Hin; simpl in *; [contradiction|].
  inversion Hnd as [|? ? Hni Hnd']; subst.
  unfold set_list in *. simpl. destruct Hin as [Heq|Hin].
  - inversion Heq; subst. fold (set_list W (map_set base k v)). rewrite set_list_notin by assumption.
    apply map_get_set_same.
  - apply IH; assumption.
Qed.

(* writes to pairwise distinct fresh keys are simply appended (url.Values.Set = Add on them) *)
Lemma set_list_fresh : forall W base,
  NoDup (map fst base ++ map fst W) -> set_list W base = base ++ W.
Proof.
  induction W as [|[k v] W IH]; intros base Hnd; simpl.
  - rewrite app_nil_r. reflexivity.
  - unfold set_list in *. simpl.
    assert (Hk : ~ In k (map fst base)).
    { intros H. apply NoDup_remove_2 in Hnd. apply Hnd. rewrite in_app_iff. left. assumption. }
    rewrite map_set_fresh by assumption. rewrite IH.
    + rewrite <- app_assoc. reflexivity.
    + rewrite map_app. simpl. rewrite <- app_assoc. simpl. exact Hnd.
Qed.

Lemma is_true_key_set_list : forall W base k,
  is_true_key (set_list W base) k = existsb (String.eqb k) (map fst W) || is_true_key base k.
Proof.
  intros W base k. unfold is_true_key.
  destruct (map_get (set_list W base) k) eqn:E1.
  - destruct (existsb (String.eqb k) (map fst W)) eqn:E2; [reflexivity|].
    destruct (map_get base k) eqn:E3; [reflexivity|].
    exfalso. assert (H : In k (map fst (set_list W base))).
    { apply map_get_some_in in E1. apply (in_map fst) in E1. exact E1. }
    apply set_list_keys in H. destruct H as [H|H].
    + apply map_get_none_iff in E3. contradiction.
    + apply existsb_eqb_In in H. congruence.
  - apply map_get_none_iff in E1. rewrite set_list_keys in E1.
    destruct (existsb (String.eqb k) (map fst W)) eqn:E2.
    + apply existsb_eqb_In in E2. exfalso. apply E1. right. assumption.
    + destruct (map_get base k) eqn:E3; [|reflexivity].
      exfalso. apply E1. left. apply map_get_some_in in E3. apply (in_map fst) in E3. exact E3.
Qed.

(* --------------------------------------------------------- iteration oracles *)
(* a Go range over a map visits every entry exactly once, in some order *)
Definition is_oracle {A} (sigma : list A -> list A) : Prop := forall l, Permutation (sigma l) l.

Lemma id_is_oracle : forall A, is_oracle (fun l : list A => l).
Proof. intros A l. apply Permutation_refl. Qed.
Lemma rev_is_oracle : forall A, is_oracle (@rev A).
Proof. intros A l. apply Permutation_sym. apply Permutation_rev. Qed.

Lemma perm_nodup_keys : forall (A : Type) (l l' : list (string * A)),
  Permutation l l' -> NoDup (map fst l') -> NoDup (map fst l).
Proof.
  intros A l l' Hp Hnd. apply Permutation_sym in Hp.
  eapply Permutation_NoDup; [apply Permutation_map; exact Hp | assumption].
Qed.

(* on writes to distinct keys the order is irrelevant for every lookup *)
Lemma set_list_perm_get : forall W W' base k,
  Permutation W W' -> NoDup (map fst W') ->
  map_get (set_list W base) k = map_get (set_list W' base) k.
Proof.
  intros W W' base k Hp Hnd.
  assert (Hnd' : NoDup (map fst W)) by (eapply perm_nodup_keys; eassumption).
  destruct (in_dec string_dec k (map fst W')) as [Hin|Hni].
  - apply in_map_iff in Hin. destruct Hin as [[k0 v] [Hk Hin]]. simpl in Hk. subst k0.
    rewrite (set_list_in W' base k v Hnd Hin).
    apply set_list_in; [assumption|]. eapply Permutation_in; [apply Permutation_sym; exact Hp | assumption].
  - rewrite (set_list_notin W' base k Hni). apply set_list_notin.
    intros H. apply Hni. eapply Permutation_in; [apply Permutation_map; exact Hp | assumption].
Qed.

(* ------------------------------------------------------------------ strings *)
Lemma prefix_refl_app : forall a b, String.prefix a (a ++ b)%string = true.
Proof.
  induction a as [|c a IH]; intros b; simpl; [destruct b; reflexivity|].
  destruct (ascii_dec c c) as [_|N]; [apply IH | contradiction].
Qed.

Lemma drop_str_app : forall a b, drop_str (String.length a) (a ++ b)%string = b.
Proof. induction a as [|c a IH]; intros b; simpl; [destruct b; reflexivity | apply IH]. Qed.

Lemma sapp_assoc : forall a b c : string, ((a ++ b) ++ c = a ++ (b ++ c))%string.
Proof. induction a as [|x a IH]; intros; simpl; [reflexivity | rewrite IH; reflexivity]. Qed.

Lemma sapp_nil_r : forall a : string, (a ++ "")%string = a.
Proof. induction a as [|x a IH]; simpl; [reflexivity | rewrite IH; reflexivity]. Qed.

Lemma no_char_app : forall x a b, no_char x (a ++ b)%string = no_char x a && no_char x b.
Proof.
  intros x. induction a as [|c a IH]; intros b; simpl; [reflexivity|].
  unfold no_char in *. simpl. rewrite IH. rewrite andb_assoc. reflexivity.
Qed.

(* strings.Replace(s, old, new, 1): the first occurrence is found after any prefix that
   does not contain the first byte of old ... *)
Lemma replace_first_skip : forall x old' pre rest new,
  no_char x pre = true ->
  replace_first (pre ++ rest)%string (String x old') new = (pre ++ replace_first rest (String x old') new)%string.
Proof.
  intros x old'. induction pre as [|c pre IH]; intros rest new Hnc; simpl; [reflexivity|].
  unfold no_char in Hnc. simpl in Hnc. apply andb_true_iff in Hnc. destruct Hnc as [Hc Hnc].
  destruct (ascii_dec x c) as [E|N].
  - subst. rewrite Ascii.eqb_refl in Hc. discriminate.
  - f_equal. apply IH. exact Hnc.
Qed.

(* ... and is replaced where it stands *)
Lemma replace_first_hit : forall x old' rest new,
  replace_first (String x old' ++ rest)%string (String x old') new = (new ++ rest)%string.
Proof.
  intros x old' rest new.
  change (String x old' ++ rest)%string with (String x (old' ++ rest)%string).
  cbn [replace_first].
  change (String x (old' ++ rest)%string) with (String x old' ++ rest)%string.
  rewrite prefix_refl_app. rewrite drop_str_app. reflexivity.
Qed.

Lemma concat_nil_cons : forall (x : string) l, String.concat "" (x :: l) = (x ++ String.concat "" l)%string.
Proof.
  intros x l. destruct l as [|y l]; simpl; [rewrite sapp_nil_r; reflexivity | reflexivity].
Qed.

(* ---------------------------------------------------------------- key order *)
Lemma code_inj : forall x y, code x = code y -> x = y.
Proof.
  intros x y H. unfold code in H.
  rewrite <- (ascii_nat_embedding x), <- (ascii_nat_embedding y), H. reflexivity.
Qed.

Lemma str_leb_total : forall a b, str_leb a b = true \/ str_leb b a = true.
Proof.
  induction a as [|x a IH]; intros b; [left; reflexivity|].
  destruct b as [|y b]; [right; reflexivity|]. simpl.
  destruct (Nat.ltb (code x) (code y)) eqn:E1; [left; reflexivity|].
  destruct (Nat.ltb (code y) (code x)) eqn:E2; [right; reflexivity|].
  apply IH.
Qed.

Lemma str_leb_antisym : forall a b, str_leb a b = true -> str_leb b a = true -> a = b.
Proof.
  induction a as [|x a IH]; intros b H1 H2.
  - destruct b; [reflexivity | simpl in H2; discriminate].
  - destruct b as [|y b]; [simpl in H1; discriminate|]. simpl in H1, H2.
    destruct (Nat.ltb (code x) (code y)) eqn:E1.
    + apply Nat.ltb_lt in E1. destruct (Nat.ltb (code y) (code x)) eqn:E2; [apply Nat.ltb_lt in E2; lia | discriminate].
    + destruct (Nat.ltb (code y) (code x)) eqn:E2; [discriminate|].
      apply Nat.ltb_ge in E1. apply Nat.ltb_ge in E2.
      assert (x = y) by (apply code_inj; lia). subst. f_equal. apply IH; assumption.
Qed.

Lemma str_leb_cons : forall x a y b,
  str_leb (String x a) (String y b) = true <-> code x < code y \/ (x = y /\ str_leb a b = true).
Proof.
  intros x a y b. simpl.
  destruct (Nat.ltb (code x) (code y)) eqn:E1.
  - apply Nat.ltb_lt in E1. split; [left; assumption | reflexivity].
  - apply Nat.ltb_ge in E1. destruct (Nat.ltb (code y) (code x)) eqn:E2.
    + apply Nat.ltb_lt in E2. split; [discriminate | intros [H|[H _]]; [lia | subst; lia]].
    + apply Nat.ltb_ge in E2. assert (x = y) by (apply code_inj; lia). subst.
      split; [intros H; right; split; [reflexivity | assumption] | intros [H|[_ H]]; [lia | assumption]].
Qed.

Lemma str_leb_trans : forall a b c, str_leb a b = true -> str_leb b c = true -> str_leb a c = true.
Proof.
  induction a as [|x a IH]; intros b c H1 H2; [reflexivity|].
  destruct b as [|y b]; [simpl in H1; discriminate|].
  destruct c as [|z c]; [simpl in H2; discriminate|].
  apply str_leb_cons in H1. apply str_leb_cons in H2. apply str_leb_cons.
  destruct H1 as [H1|[E1 H1]]; destruct H2 as [H2|[E2 H2]]; subst.
  - left. lia.
  - left. assumption.
  - left. assumption.
  - right. split; [reflexivity | eapply IH; eassumption].
Qed.

Lemma str_leb_false : forall a b, str_leb a b = false -> str_leb b a = true.
Proof. intros a b H. destruct (str_leb_total a b) as [H1|H1]; [congruence | assumption]. Qed.

Lemma str_leb_strict : forall a b, a <> b -> str_leb a b = true -> str_leb b a = false.
Proof.
  intros a b Hne H. destruct (str_leb b a) eqn:E; [|reflexivity].
  exfalso. apply Hne. apply str_leb_antisym; assumption.
Qed.

(* ------------------------------------------------------------ insertion sort *)
Lemma insert_kv_perm : forall x l, Permutation (insert_kv x l) (x :: l).
Proof.
  intros x. induction l as [|y l IH]; simpl; [apply Permutation_refl|].
  destruct (str_leb (fst x) (fst y)); [apply Permutation_refl|].
  eapply Permutation_trans; [apply perm_skip; exact IH | apply perm_swap].
Qed.

Lemma sort_kv_perm : forall l, Permutation (sort_kv l) l.
Proof.
  induction l as [|x l IH]; simpl; [constructor|].
  eapply Permutation_trans; [apply insert_kv_perm | apply perm_skip; exact IH].
Qed.

Definition key_le (a b : string * string) : Prop := str_leb (fst a) (fst b) = true.

Lemma insert_kv_sorted : forall x l, Sorted key_le l -> Sorted key_le (insert_kv x l).
Proof.
  intros x. induction l as [|y l IH]; intros Hs; simpl; [repeat constructor|].
  destruct (str_leb (fst x) (fst y)) eqn:E.
  - constructor; [assumption | constructor; exact E].
  - inversion Hs as [|? ? Hs' Hhd]; subst. constructor; [apply IH; assumption|].
    destruct l as [|z l]; simpl.
    + constructor. apply str_leb_false. exact E.
    + destruct (str_leb (fst x) (fst z)).
      * constructor. apply str_leb_false. exact E.
      * inversion Hhd; subst. constructor. assumption.
Qed.

Lemma sort_kv_sorted : forall l, Sorted key_le (sort_kv l).
Proof. induction l as [|x l IH]; simpl; [constructor | apply insert_kv_sorted; exact IH]. Qed.

Lemma insert_kv_comm : forall l x y, fst x <> fst y ->
  insert_kv x (insert_kv y l) = insert_kv y (insert_kv x l).
Proof.
  induction l as [|z l IH]; intros x y Hne; simpl.
  - destruct (str_leb (fst x) (fst y)) eqn:E1.
    + rewrite (str_leb_strict _ _ Hne E1). reflexivity.
    + rewrite (str_leb_false _ _ E1). reflexivity.
  - destruct (str_leb (fst y) (fst z)) eqn:Eyz; destruct (str_leb (fst x) (fst z)) eqn:Exz; simpl.
    + destruct (str_leb (fst x) (fst y)) eqn:Exy.
      * rewrite (str_leb_strict _ _ Hne Exy). rewrite Eyz. reflexivity.
      * rewrite (str_leb_false _ _ Exy). rewrite Exz. reflexivity.
    + destruct (str_leb (fst x) (fst y)) eqn:Exy.
      * rewrite (str_leb_trans _ _ _ Exy Eyz) in Exz. discriminate.
      * rewrite Exz, Eyz. reflexivity.
    + rewrite Exz. destruct (str_leb (fst y) (fst x)) eqn:Eyx.
      * rewrite (str_leb_trans _ _ _ Eyx Exz) in Eyz. discriminate.
      * rewrite Eyz. reflexivity.
    + rewrite Exz, Eyz. f_equal. apply IH. exact Hne.
Qed.

(* sorting is a function of the SET of entries when the keys are pairwise distinct: the
   emitted order does not depend on the order in which a Go map was filled or ranged over *)
Lemma sort_kv_perm_eq : forall l l', Permutation l l' -> NoDup (map fst l) -> sort_kv l = sort_kv l'.
Proof.
  intros l l' Hp. induction Hp as [|x l l' Hp IH|x y l|l l' l'' Hp1 IH1 Hp2 IH2]; intros Hnd.
  - reflexivity.
  - simpl. inversion Hnd; subst. rewrite IH by assumption. reflexivity.
  - simpl. apply insert_kv_comm. simpl in Hnd. inversion Hnd as [|? ? Hni _]; subst.
    intros E. apply Hni. left. symmetry. exact E.
  - rewrite IH1 by assumption. apply IH2.
    eapply Permutation_NoDup; [apply Permutation_map; exact Hp1 | assumption].
Qed.

(* two maps with distinct keys and the same lookups hold the same entries *)
Lemma same_lookups_perm : forall a b : list (string * string),
  NoDup (map fst a) -> NoDup (map fst b) -> (forall k, map_get a k = map_get b k) -> Permutation a b.
Proof.
  intros a b Ha Hb Hg.
  assert (NDa : NoDup a) by (eapply NoDup_map_inv; exact Ha).
  assert (NDb : NoDup b) by (eapply NoDup_map_inv; exact Hb).
  apply NoDup_Permutation; [assumption | assumption|].
  intros [k v]. split; intros Hin.
  - apply map_get_some_in. rewrite <- Hg. apply map_get_in_nodup; assumption.
  - apply map_get_some_in. rewrite Hg. apply map_get_in_nodup; assumption.
Qed.
