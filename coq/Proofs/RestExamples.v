(* Concrete methods for property C06: inputs that satisfy the hypotheses of the theorems
   (non-vacuity), and witnesses of the open findings (refutations outside the guards).
   Everything here is closed by computation on the executable model. *)
From Coq Require Import String Ascii List Bool Arith ZArith Permutation.
From Shoot Require Import Base.Str Model.Transfer Model.Directive Model.Rest Model.RestSpec Model.RestStd Proofs.RestBase Proofs.RestProofs.
Import ListNotations.
Local Open Scope string_scope.
Local Open Scope list_scope.

Ltac conjs := repeat match goal with |- _ /\ _ => split end.
Ltac vmc := vm_compute; reflexivity.

(* simple instances of the standard-library parameters *)
Definition fmt_demo (v : sval) : string :=
  match v with SStr s => s | SInt _ => "<int>" | SBool true => "true" | SBool false => "false" end.
Definition join_demo (b p : string) : option string := Some (b ++ "|" ++ p)%string.
Definition json_demo (a : aval) : option string :=
  match a with AStruct _ _ => Some "<json of the struct>" | _ => Some "<json>" end.
Definition noq (u : string) : list (string * string) := [].
Definition idd (l : list (string * sval)) := l.
Definition ido : oracle := fun l => l.
Definition revo : oracle := @rev (string * string).
Definition lf : string := String (ascii_of_nat 10) EmptyString.
Definition doc_lines (l : list string) : string := String.concat "" (map (fun x => (x ++ lf)%string) l).

Definition d_dummy : mdata :=
  {| d_verb := ""; d_path := ""; d_alias := []; d_path_params := []; d_query_params := []; d_is_ptr := [];
     d_body := None; d_dict := None; d_ctx := None |}.
Definition get_ok (c : cres mdata) : mdata := match c with COk d => d | _ => d_dummy end.

Definition E0 : env :=
  {| e_pkg_types := [("User", true); ("QueryUsersReq", true); ("Client", false)];
     e_sel := [(("context", "Context"), SelCtx)];
     e_structs := [(("", "User"), [{| fd_names := ["ID"]; fd_type := "string"; fd_star := false; fd_tag := Some "`json:""id""`" |};
                                   {| fd_names := ["Name"]; fd_type := "string"; fd_star := false; fd_tag := Some "`json:""name""`" |}]);
                   (("", "QueryUsersReq"),
                    [{| fd_names := ["Name"]; fd_type := "string"; fd_star := false; fd_tag := Some "`shoot:""alias=name""`" |};
                     {| fd_names := ["PageSize"]; fd_type := "*int"; fd_star := true; fd_tag := Some "`shoot:""alias=size""`" |};
                     {| fd_names := ["PageIdx"]; fd_type := "int"; fd_star := false; fd_tag := None |};
                     {| fd_names := ["secret"]; fd_type := "string"; fd_star := false; fd_tag := None |}])] |}.
Definition ctxp : param_decl := {| pd_names := ["ctx"]; pd_type := TSel "context" "Context" |}.

(* 1. the first method of /repo/cmd/test/restclient/rest.go *)
Definition m_get : method_decl :=
  {| md_name := "GetUser";
     md_doc := Some (doc_lines ["shoot: Get(""/users/{id}"")"; "shoot: alias={userID:id}"]);
     md_params := [ctxp; {| pd_names := ["userID"]; pd_type := TIdent "string" |}] |}.
Definition s_get : mspec :=
  {| s_verb := "GET"; s_toks := [PLit "/users/"; PHole "id"]; s_alias := [("userID", "id")];
     s_params := [("ctx", KCtx); ("userID", KScalar false)] |}.
Definition a_get : list (string * aval) := [("ctx", ACtx (Some (7, false))); ("userID", AScalar (SStr "a b?c#d"))].

Lemma ex_get_linked : linked E0 m_get s_get.
Proof. split; [vmc|]. eexists. conjs; [reflexivity | vmc | vmc | vmc]. Qed.
Lemma ex_get_guards : wf_mspec s_get = true /\ args_in_guard fmt_demo s_get a_get = true.
Proof. conjs; vmc. Qed.
Lemma ex_get_request :
  exists d, cook_method ido E0 m_get = COk d /\
  exec fmt_demo join_demo json_demo noq idd (default_headers "GET") d "http://h/api" a_get
  = OSent {| rq_verb := "GET"; rq_path := "/users/a b?c#d"; rq_url := "http://h/api|/users/a b?c#d"; rq_query := None;
             rq_headers := [("Accept", "application/json")]; rq_body := None; rq_ctx := Some (7, false) |}.
Proof. exists (get_ok (cook_method ido E0 m_get)). conjs; vmc. Qed.

(* 2. GET with a pointer-to-struct (alias tags, a pointer field, a getter), a pointer scalar, an
      aliased scalar and a map; the interface sets two headers *)
Definition m_query : method_decl :=
  {| md_name := "QueryUsers";
     md_doc := Some (doc_lines ["QueryUsers lists users."; "shoot:  get( /orgs/{org}/users ) ;"; "shoot: alias={pageIdx:page_idx}, {orgID:org}"]);
     md_params := [ctxp; {| pd_names := ["orgID"; "pageIdx"]; pd_type := TIdent "int" |};
                   {| pd_names := ["limit"]; pd_type := TStar (TIdent "int") |};
                   {| pd_names := ["req"]; pd_type := TStar (TIdent "QueryUsersReq") |};
                   {| pd_names := ["extra"]; pd_type := TMapT |}] |}.
Definition f_name := {| fi_name := "Name"; fi_alias := "name"; fi_exported := true; fi_ptr := false |}.
Definition f_size := {| fi_name := "PageSize"; fi_alias := "size"; fi_exported := true; fi_ptr := true |}.
Definition f_idx := {| fi_name := "PageIdx"; fi_alias := ""; fi_exported := true; fi_ptr := false |}.
Definition f_secret := {| fi_name := "secret"; fi_alias := ""; fi_exported := false; fi_ptr := false |}.
Definition s_query : mspec :=
  {| s_verb := "GET"; s_toks := [PLit "/orgs/"; PHole "org"; PLit "/users"];
     s_alias := [("pageIdx", "page_idx"); ("orgID", "org")];
     s_params := [("ctx", KCtx); ("orgID", KScalar false); ("pageIdx", KScalar false); ("limit", KScalar true);
                  ("req", KStruct true [f_name; f_size; f_idx; f_secret]); ("extra", KMap false)] |}.
Definition a_query : list (string * aval) :=
  [("ctx", ACtx (Some (1, false))); ("orgID", AScalar (SStr "acme")); ("pageIdx", AScalar (SStr "3"));
   ("limit", APtr None);
   ("req", AStruct true (Some [("Name", FPlain (SStr "x&y")); ("PageSize", FPtr None); ("PageIdx", FPlain (SStr "0"));
                               ("secret", FPlain (SStr "s3"))]));
   ("extra", AMap [("sort", SStr "asc"); ("name", SStr "override")])].
Definition I_query : iface :=
  [IEmbed (Some (doc_lines ["shoot: headers={X-Api:k1},{Accept:text/plain}"])); IMethod m_get; IMethod m_query].

Lemma ex_query_linked : linked E0 m_query s_query.
Proof. split; [vmc|]. eexists. conjs; [reflexivity | vmc | vmc | vmc]. Qed.
Lemma ex_query_guards : wf_mspec s_query = true /\ args_in_guard fmt_demo s_query a_query = true.
Proof. conjs; vmc. Qed.
Lemma ex_query_request :
  exists d, cook_method revo E0 m_query = COk d /\
  exec fmt_demo join_demo json_demo noq idd (iface_headers revo I_query (d_verb d)) d "B" a_query
  = OSent {| rq_verb := "GET"; rq_path := "/orgs/acme/users"; rq_url := "B|/orgs/acme/users";
             rq_query := Some [("page_idx", "3"); ("name", "override"); ("pageIdx", "0"); ("secret", "s3"); ("sort", "asc")];
             rq_headers := [("Accept", "text/plain"); ("X-Api", "k1")]; rq_body := None; rq_ctx := Some (1, false) |}.
Proof. exists (get_ok (cook_method revo E0 m_query)). conjs; vmc. Qed.

(* 3. PUT: the struct argument is the body, the scalar fills the path, no context parameter *)
Definition m_put : method_decl :=
  {| md_name := "UpdateUser"; md_doc := Some (doc_lines ["shoot: Put(""/users/{id}"")"]);
     md_params := [{| pd_names := ["id"]; pd_type := TIdent "int" |}; {| pd_names := ["user"]; pd_type := TIdent "User" |}] |}.
Definition s_put : mspec :=
  {| s_verb := "PUT"; s_toks := [PLit "/users/"; PHole "id"]; s_alias := [];
     s_params := [("id", KScalar false);
                  ("user", KStruct false [{| fi_name := "ID"; fi_alias := ""; fi_exported := true; fi_ptr := false |};
                                          {| fi_name := "Name"; fi_alias := ""; fi_exported := true; fi_ptr := false |}])] |}.
Definition a_put : list (string * aval) :=
  [("id", AScalar (SInt 5)); ("user", AStruct false (Some [("ID", FPlain (SStr "u1")); ("Name", FPlain (SStr "n"))]))].
Lemma ex_put_linked : linked E0 m_put s_put.
Proof. split; [vmc|]. eexists. conjs; [reflexivity | vmc | vmc | vmc]. Qed.
Lemma ex_put_guards : wf_mspec s_put = true /\ args_in_guard fmt_demo s_put a_put = true.
Proof. conjs; vmc. Qed.
Lemma ex_put_request :
  exists d, cook_method ido E0 m_put = COk d /\
  exec fmt_demo join_demo json_demo noq idd (default_headers "PUT") d "B" a_put
  = OSent {| rq_verb := "PUT"; rq_path := "/users/<int>"; rq_url := "B|/users/<int>"; rq_query := None;
             rq_headers := [("Accept", "application/json"); ("Content-Type", "application/json")];
             rq_body := Some "<json of the struct>"; rq_ctx := None |}.
Proof. exists (get_ok (cook_method ido E0 m_put)). conjs; vmc. Qed.

(* ---------------------------------------------------------------- refutations *)
(* K_rest_alias_dup: two parameters aliased to one name; the path parameter depends on the
   iteration order of the alias map *)
Definition m_dup : method_decl :=
  {| md_name := "A"; md_doc := Some (doc_lines ["shoot: Get(""/u/{x}"")"; "shoot: alias={a:x},{b:x}"]);
     md_params := [ctxp; {| pd_names := ["a"; "b"]; pd_type := TIdent "string" |}] |}.
Lemma refuted_alias_dup :
  is_oracle ido /\ is_oracle revo /\
  (exists d1 d2, cook_method ido E0 m_dup = COk d1 /\ cook_method revo E0 m_dup = COk d2 /\
                 d_path_params d1 = ["b"] /\ d_path_params d2 = ["a"]).
Proof.
  split; [apply id_is_oracle|]. split; [apply rev_is_oracle|].
  exists (get_ok (cook_method ido E0 m_dup)), (get_ok (cook_method revo E0 m_dup)).
  conjs; vmc.
Qed.

(* K_rest_nil_struct_ptr: a well-formed GET method, well-typed arguments, the pointer-to-struct
   argument is nil: the generated code panics instead of omitting the parameters *)
Definition a_query_nil : list (string * aval) :=
  [("ctx", ACtx (Some (1, false))); ("orgID", AScalar (SStr "acme")); ("pageIdx", AScalar (SStr "3"));
   ("limit", APtr None); ("req", AStruct true None); ("extra", AMap [])].
Lemma refuted_nil_struct_ptr :
  linked E0 m_query s_query /\ wf_mspec s_query = true /\ args_typed s_query a_query_nil = true /\
  exists d, cook_method ido E0 m_query = COk d /\
            exec fmt_demo join_demo json_demo noq idd (default_headers "GET") d "B" a_query_nil = OPanic.
Proof.
  split; [exact ex_query_linked|]. split; [vm_compute; reflexivity|]. split; [vm_compute; reflexivity|].
  exists (get_ok (cook_method ido E0 m_query)). conjs; vmc.
Qed.

(* K_rest_ptr_map: the emitted method is not valid Go, whatever the arguments *)
Definition m_nobody : method_decl :=
  {| md_name := "A"; md_doc := Some (doc_lines ["shoot: Post(""/a/{id}"")"]);
     md_params := [ctxp; {| pd_names := ["id"]; pd_type := TIdent "int" |}; {| pd_names := ["note"]; pd_type := TIdent "string" |}] |}.
Definition m_ptrmap : method_decl :=
  {| md_name := "Q"; md_doc := Some (doc_lines ["shoot: Get(""/users"")"]);
     md_params := [ctxp; {| pd_names := ["params"]; pd_type := TStar TMapT |}] |}.
Lemma static_not_ok_no_compile : forall fmt_v join_path json_marshal url_query sigma_d hdrs d base args,
  static_ok d = false -> exec fmt_v join_path json_marshal url_query sigma_d hdrs d base args = ONoCompile.
Proof. intros. unfold exec. rewrite H. reflexivity. Qed.
(* repaired K_rest_body_no_struct: the method is refused with a diagnostic (shoot exits 1) *)
Lemma body_verb_without_struct_refused :
  cook_method ido E0 m_nobody = CFatal "a body verb needs a struct parameter as request body".
Proof. vmc. Qed.
Lemma refuted_ptr_map :
  exists d, cook_method ido E0 m_ptrmap = COk d /\ static_ok d = false.
Proof. exists (get_ok (cook_method ido E0 m_ptrmap)). conjs; vmc. Qed.

(* K_rest_subst_rescan: an argument text that contains a later placeholder *)
Definition toks_rescan : list ptok := [PLit "/u/"; PHole "id"; PLit "/"; PHole "name"].
Definition val_rescan (h : string) : string := if String.eqb h "id" then "{name}" else "nm".
Lemma refuted_subst_rescan :
  lits_no_brace toks_rescan = true /\
  subst_seq val_rescan (holes toks_rescan) (render_toks toks_rescan) = "/u/nm/{name}" /\
  fill val_rescan toks_rescan = "/u/{name}/nm".
Proof. conjs; vmc. Qed.

(* repaired K_rest_two_maps: a second query map is refused with a diagnostic *)
Definition m_twomaps : method_decl :=
  {| md_name := "T"; md_doc := Some (doc_lines ["shoot: Get(""/maps"")"]);
     md_params := [{| pd_names := ["a"; "b"]; pd_type := TMapT |}] |}.
Lemma second_map_refused : cook_method ido E0 m_twomaps = CFatal "ambiguous query map binding".
Proof. vmc. Qed.

(* repaired K_rest_header_value_trim: the value of a directive entry keeps its leading non-word characters *)
Lemma header_value_kept :
  parse_headers (doc_lines ["shoot: headers={Accept:*/*},{X-Sig: (a)}"]) = [("Accept", "*/*"); ("X-Sig", "(a)")].
Proof. vmc. Qed.

(* repaired in the review round: an unnamed or blank parameter, a pointer path parameter are refused; a
   qualified named scalar (time.Duration) of a GET method is a query parameter like any scalar *)
Definition m_unnamed : method_decl :=
  {| md_name := "U"; md_doc := Some (doc_lines ["shoot: Get(""/b"")"]);
     md_params := [{| pd_names := []; pd_type := TSel "context" "Context" |}; {| pd_names := []; pd_type := TIdent "int" |}] |}.
Lemma unnamed_param_refused : cook_method ido E0 m_unnamed = CFatal "parameters must be named".
Proof. vmc. Qed.
Definition m_ptrpath : method_decl :=
  {| md_name := "P"; md_doc := Some (doc_lines ["shoot: Get(""/p/{id}"")"]);
     md_params := [ctxp; {| pd_names := ["id"]; pd_type := TStar (TIdent "string") |}] |}.
Lemma ptr_path_param_refused : cook_method ido E0 m_ptrpath = CFatal "a path parameter must not be a pointer".
Proof. vmc. Qed.
Definition E_time : env :=
  {| e_pkg_types := []; e_sel := [(("context", "Context"), SelCtx); (("time", "Duration"), SelBasic)]; e_structs := [] |}.
Definition m_dur : method_decl :=
  {| md_name := "D"; md_doc := Some (doc_lines ["shoot: Get(""/a"")"]);
     md_params := [ctxp; {| pd_names := ["d"]; pd_type := TSel "time" "Duration" |}; {| pd_names := ["n"]; pd_type := TIdent "int" |}] |}.
Definition s_dur : mspec :=
  {| s_verb := "GET"; s_toks := [PLit "/a"]; s_alias := [];
     s_params := [("ctx", KCtx); ("d", KScalar false); ("n", KScalar false)] |}.
Lemma ex_dur_linked : linked E_time m_dur s_dur /\ wf_mspec s_dur = true.
Proof. split; [split; [vmc|]; eexists; conjs; [reflexivity | vmc | vmc | vmc] | vmc]. Qed.

(* K_rest_path_percent (open, the missing url.PathEscape): with the reference instance of url.JoinPath the
   argument ".." of GetUser makes the request go to the base path, not to <base>/users/.. *)
Definition a_get_dots : list (string * aval) := [("ctx", ACtx (Some (7, false))); ("userID", AScalar (SStr ".."))].
Lemma refuted_path_unescaped :
  linked E0 m_get s_get /\ wf_mspec s_get = true /\ args_typed s_get a_get_dots = true /\
  exists d r, cook_method ido E0 m_get = COk d /\
    exec fmt_demo (fun b p => Some (join_decoded b p)) json_demo noq idd (default_headers "GET") d "/api" a_get_dots = OSent r /\
    rq_path r = "/users/.." /\ rq_url r = "/api" /\ join_plain "/api" (rq_path r) = "/api/users/..".
Proof.
  split; [exact ex_get_linked|]. split; [vmc|]. split; [vmc|].
  exists (get_ok (cook_method ido E0 m_get)).
  exists {| rq_verb := "GET"; rq_path := "/users/.."; rq_url := "/api"; rq_query := None;
            rq_headers := [("Accept", "application/json")]; rq_body := None; rq_ctx := Some (7, false) |}.
  conjs; vmc.
Qed.
