(* C16: the boolean property [Pb] evaluated by the correspondence run is the
   statement of the theorems (it holds on the model's own observation wherever
   the theorems apply), and the input classes of the open findings are genuine:
   on a concrete witness of each class the literal model violates the
   declarative reading. *)
From Coq Require Import List String Ascii Bool Arith NArith Permutation.
From Shoot Require Import Model.Cli Model.CliSpec Corr.CliCorr Proofs.CliProofs Proofs.CliParseProofs.
Import ListNotations.
Local Open Scope string_scope.

Theorem Pb_holds_on_model : forall c args p fl vals,
  parse_common c args = POk fl vals -> flag_val "to" vals "" = "" ->
  wf_pkgb p = true -> known_class c fl p = false ->
  Pb c args p (model_obs c args p) = true.
Proof.
  intros c args p fl vals Hp Hto Hwf Hk.
  pose proof (run_meets_spec id_oracle c fl p id_oracle_perm Hwf (parse_common_flags_ok c args fl vals Hp) Hk) as M.
  unfold Pb, model_obs. rewrite (shoot_cli_run id_oracle c args p fl vals Hp Hto). rewrite Hp.
  destruct (run id_oracle c fl p) as [files listed|d]; simpl.
  - exact M.
  - exact M.
Qed.

(* the verdict on the model's own observation is "agree" wherever the theorems apply *)
Lemma perm_eqb_refl : forall l, perm_eqb l l = true.
Proof. intros l. apply perm_eqb_complete. apply Permutation_refl. Qed.

Lemma obs_eqb_refl : forall o, obs_eqb o o = true.
Proof.
  intros o. unfold obs_eqb. rewrite N.eqb_refl, !Bool.eqb_reflx, srcmap_same_refl, perm_eqb_refl.
  destruct (o_diag o) as [d|]; [destruct d|]; reflexivity.
Qed.

Theorem verdict_zero_on_model : forall c args p fl vals,
  parse_common c args = POk fl vals -> flag_val "to" vals "" = "" ->
  wf_pkgb p = true -> known_class c fl p = false ->
  verdict {| c_cmd := c; c_args := args; c_pkg := p; c_obs := model_obs c args p |} = 0%N.
Proof.
  intros c args p fl vals Hp Hto Hwf Hk. unfold verdict. destruct (not_modelled _); [reflexivity|]. simpl.
  rewrite (Pb_holds_on_model c args p fl vals Hp Hto Hwf Hk), obs_eqb_refl. reflexivity.
Qed.

(* ----------------------------------------------- witnesses of the findings *)

Definition st (n : string) : tspec :=
  {| ts_name := n; ts_alias := false; ts_rhs := RStruct; ts_int := false; ts_tparams := [] |}.
Definition it (n : string) : tspec :=
  {| ts_name := n; ts_alias := false; ts_rhs := RNamed; ts_int := true; ts_tparams := [] |}.

Definition w_star : pkg :=
  {| p_files := [ {| f_name := "a.go"; f_decls := [DType [st "Alpha"]] |};
                  {| f_name := "b.go"; f_decls := [DType [st "Order"]] |} ]; p_dest := []; p_others := [] |}.
Definition w_enum : pkg :=
  {| p_files := [ {| f_name := "a.go"; f_decls := [DType [it "Color"]; DConst "Color" ["ColorRed"; "ColorBlue"]] |} ];
     p_dest := []; p_others := [] |}.
Definition w_starsep : pkg :=
  {| p_files := [ {| f_name := "a.go"; f_decls := [DComment "//go:generate shoot new -type=* -sep"; DType [st "Alpha"]] |};
                  {| f_name := "b.go"; f_decls := [DType [st "Order"]] |} ]; p_dest := []; p_others := [] |}.
Definition w_local : pkg :=
  {| p_files := [ {| f_name := "a.go"; f_decls := [DType [st "Alpha"]; DFunc [st "Loc"]] |} ]; p_dest := []; p_others := [] |}.
Definition w_collide : pkg :=
  {| p_files := [ {| f_name := "a.go"; f_decls := [DType [st "Order"]; DType [st "ORDER"]] |} ]; p_dest := []; p_others := [] |}.

Definition refuted (c : subcmd) (args : list string) (p : pkg) (k : subcmd -> cflags -> pkg -> bool) : Prop :=
  exists fl vals, parse_common c args = POk fl vals /\ wf_pkgb p = true /\ k c fl p = true /\
                  meets c p (run id_oracle c fl p) (spec c fl p) = false.

(* the two findings that are still open *)
Theorem refuted_star_no_generate_line : refuted CNew ["-type=*"] w_star k_star_no_generate_line.
Proof. do 2 eexists. split; [reflexivity|]. vm_compute. auto. Qed.

Theorem refuted_star_sep_file : refuted CNew ["-type=*"; "-sep"] w_starsep k_star_sep_file.
Proof. do 2 eexists. split; [reflexivity|]. vm_compute. auto. Qed.

(* what the literal model does on the witnesses (the behaviour replayed against /repo on every run) *)
Example w_star_behaviour :
  shoot_cli id_oracle CNew ["-type=*"] w_star = COut (Done [(".shootnew.go", ["Alpha"; "Order"])] [".shootnew.go"]).
Proof. reflexivity. Qed.
Example w_starsep_behaviour :
  shoot_cli id_oracle CNew ["-type=*"; "-sep"] w_starsep =
  COut (Done [("a.shootnew.alpha.go", ["Alpha"]); ("a.shootnew.order.go", ["Order"])]
             ["a.shootnew.alpha.go"; "a.shootnew.order.go"]).
Proof. reflexivity. Qed.

(* the three repaired findings: the witnesses now behave as the reading demands
   (the model follows the repaired code; the old behaviour is replayed against
   /repo as a regression test on every run) *)
Example w_enum_repaired :
  shoot_cli id_oracle CEnum ["-type=Color,Nope"] w_enum = COut (Failed DgEnumNone) /\
  spec CEnum (flags_of CEnum ["-type=Color,Nope"] ["Color"; "Nope"] true "" true) w_enum = EFail.
Proof. split; reflexivity. Qed.
Example w_local_repaired :
  shoot_cli id_oracle CNew ["-file=a.go"] w_local = COut (Done [("a.shootnew.go", ["Alpha"])] ["a.shootnew.go"]) /\
  shoot_cli id_oracle CNew ["-type=Loc"] w_local = COut (Failed DgNotExists).
Proof. split; reflexivity. Qed.
Example w_collide_repaired :
  shoot_cli id_oracle CNew ["-type=Order,ORDER"] w_collide = COut (Failed DgSameFile) /\
  spec CNew (flags_of CNew ["-type=Order,ORDER"] ["Order"; "ORDER"] true "" true) w_collide = EFail.
Proof. split; reflexivity. Qed.
