(* C07: the iteration order of Go maps (the oracles of Model/Gen.v) and what earlier runs left in the directory
   do not reach the files that are written. *)
From Coq Require Import List String Ascii Bool Arith Lia Permutation.
From Shoot Require Import Model.Gen Proofs.GenBaseProofs Proofs.GenProofs.
Import ListNotations.
Local Open Scope string_scope.

(* a Go `range` over a map visits every entry exactly once, in some order *)
Definition legal (o : oracle) : Prop := forall (A : Type) (l : list A), Permutation (o A l) l.

Lemma legal_id : legal id_oracle.
Proof. intros A l. apply Permutation_refl. Qed.
Lemma legal_rev : legal rev_oracle.
Proof. intros A l. apply Permutation_sym, Permutation_rev. Qed.

(* ---------------------------------------------------------------- generic: sorted listing of a map *)
Lemma sorted_assoc_eq : forall {A} (m1 m2 : list (string * A)),
  NoDup (keys m1) -> NoDup (keys m2) -> (forall k, alookup k m1 = alookup k m2) ->
  sort_by_key fst m1 = sort_by_key fst m2.
Proof.
  intros A m1 m2 H1 H2 Heq. apply sort_by_key_perm.
  - apply lookup_eq_perm; auto.
  - intros [k1 v1] [k2 v2] Ha Hb E. cbn in E. subst.
    apply (alookup_in k2 v1 m1 H1) in Ha. apply (alookup_in k2 v2 m1 H1) in Hb. congruence.
Qed.

Lemma fold_ups_order : forall {A} (l1 l2 m : list (string * A)),
  Permutation l1 l2 -> NoDup (keys l1) -> NoDup (keys m) ->
  (forall k, alookup k (fold_left ups l1 m) = alookup k (fold_left ups l2 m)) /\
  NoDup (keys (fold_left ups l1 m)) /\ NoDup (keys (fold_left ups l2 m)).
Proof.
  intros A l1 l2 m Hp Hn Hm.
  assert (Hn2 : NoDup (keys l2)) by (eapply Permutation_NoDup; [apply Permutation_map; exact Hp | exact Hn]).
  split; [|split; apply fold_ups_nodup; auto].
  intros k. rewrite !alookup_fold_ups by auto. rewrite (alookup_perm l1 l2 k Hp Hn). reflexivity.
Qed.

(* ---------------------------------------------------------------- getGoFile *)
(* if every package-scope declaration named T lies in the same file, the map order of Defs does not matter *)
Lemma get_go_file_stable : forall o v T f,
  legal o ->
  (exists e, In e (type_defs v) /\ fst e = T) ->
  (forall e, In e (type_defs v) -> fst e = T -> snd e = f) ->
  get_go_file o v T = f.
Proof.
  intros o v T f Ho [e0 [Hin0 Hf0]] Hall. unfold get_go_file.
  destruct (find (fun e => fst e =? T) (o _ (type_defs v))) as [e|] eqn:E.
  - apply find_some in E. destruct E as [Hin He]. apply String.eqb_eq in He.
    apply Hall; auto. eapply Permutation_in; [apply Ho | exact Hin].
  - exfalso. assert (Hn : (fst e0 =? T) = false).
    { apply (find_none _ _ E e0). eapply Permutation_in; [apply Permutation_sym, Ho | exact Hin0]. }
    rewrite Hf0, String.eqb_refl in Hn. discriminate.
Qed.

Lemma get_go_file_oracle_irrelevant : forall o1 o2 v T,
  legal o1 -> legal o2 ->
  (forall e e', In e (type_defs v) -> In e' (type_defs v) -> fst e = T -> fst e' = T -> snd e = snd e') ->
  get_go_file o1 v T = get_go_file o2 v T.
Proof.
  intros o1 o2 v T H1 H2 Hall.
  destruct (find (fun e => fst e =? T) (type_defs v)) as [e0|] eqn:E.
  - apply find_some in E. destruct E as [Hin He]. apply String.eqb_eq in He.
    rewrite (get_go_file_stable o1 v T (snd e0)), (get_go_file_stable o2 v T (snd e0)); eauto.
  - unfold get_go_file.
    assert (Hn : forall o, legal o -> find (fun e => fst e =? T) (o _ (type_defs v)) = None).
    { intros o Ho. destruct (find (fun e => fst e =? T) (o _ (type_defs v))) as [e|] eqn:E'; auto.
      apply find_some in E'. destruct E' as [Hin He].
      exfalso. rewrite (find_none _ _ E e) in He; [discriminate|]. eapply Permutation_in; [apply Ho | exact Hin]. }
    rewrite (Hn o1 H1), (Hn o2 H2). reflexivity.
Qed.

(* ---------------------------------------------------------------- rest: alias reversal and header maps *)
Definition swap_kv (e : string * string) : string * string := (snd e, fst e).

Lemma fold_swap : forall l m,
  fold_left (fun mp (e : string * string) => upsert (snd e) (fst e) mp) l m = fold_left ups (map swap_kv l) m.
Proof. induction l as [|e l IH]; intros m; cbn; auto. Qed.

Definition alias_map (m : rmethod) : list (string * string) := fold_left (fun mp e => upsert (fst e) (snd e) mp) (rm_alias m) [].
(* the decidable guard excluding K_rest_alias_dup: no two parameters aliased to one name *)
Definition alias_injective (m : rmethod) : Prop := NoDup (map snd (alias_map m)).

Lemma alias_map_nodup : forall m, NoDup (keys (alias_map m)).
Proof. intros. unfold alias_map. change (fun mp (e : string * string) => upsert (fst e) (snd e) mp) with (@ups string). apply fold_ups_nodup. constructor. Qed.

Lemma revmap_lookup : forall o1 o2 (am : list (string * string)) n,
  legal o1 -> legal o2 -> NoDup (map snd am) ->
  alookup n (fold_left (fun mp (e : string * string) => upsert (snd e) (fst e) mp) (o1 _ am) []) =
  alookup n (fold_left (fun mp (e : string * string) => upsert (snd e) (fst e) mp) (o2 _ am) []).
Proof.
  intros o1 o2 am n H1 H2 Hn. rewrite !fold_swap.
  assert (Hk : forall o, legal o -> NoDup (keys (map swap_kv (o _ am)))).
  { intros o Ho. unfold keys. rewrite map_map. cbn. eapply Permutation_NoDup; [|exact Hn].
    apply Permutation_map, Permutation_sym, Ho. }
  rewrite !alookup_fold_ups by auto. cbn.
  rewrite (alookup_perm (map swap_kv (o1 _ am)) (map swap_kv (o2 _ am)) n); auto.
  apply Permutation_map. eapply perm_trans; [apply H1 | apply Permutation_sym, H2].
Qed.

Lemma rest_method_oracle : forall o1 o2 v h m,
  legal o1 -> legal o2 -> alias_injective m -> rest_method o1 v h m = rest_method o2 v h m.
Proof.
  intros o1 o2 v h m H1 H2 Hinj. unfold rest_method.
  fold (alias_map m).
  assert (E : map (fun n => match alookup n (fold_left (fun mp (e : string * string) => upsert (snd e) (fst e) mp) (o1 _ (alias_map m)) []) with
                            | Some r => r | None => n end) (rm_pparams m) =
              map (fun n => match alookup n (fold_left (fun mp (e : string * string) => upsert (snd e) (fst e) mp) (o2 _ (alias_map m)) []) with
                            | Some r => r | None => n end) (rm_pparams m)).
  { apply map_ext. intros n. rewrite (revmap_lookup o1 o2 (alias_map m) n H1 H2 Hinj). reflexivity. }
  rewrite E. reflexivity.
Qed.

(* the header map of one verb: every directive header is upserted, in map order *)
Lemma headers_fold : forall (l : list (string * string)) (dh : list (string * list (string * string))),
  fold_left (fun dh kv => map (fun e : string * list (string * string) => (fst e, upsert (fst kv) (snd kv) (snd e))) dh) l dh =
  map (fun e => (fst e, fold_left ups l (snd e))) dh.
Proof.
  induction l as [|kv l IH]; intros dh; cbn.
  - induction dh as [|[k v] dh IHd]; cbn; congruence.
  - rewrite IH. rewrite map_map. cbn. reflexivity.
Qed.

Lemma default_headers_nodup : forall e, In e default_headers -> NoDup (keys (snd e)).
Proof.
  intros e H. unfold default_headers in H. cbn in H.
  repeat (destruct H as [<-|H]; [cbn; repeat constructor; cbn; intuition discriminate|]). contradiction.
Qed.

Lemma alookup_map_snd : forall {A B} (f : A -> B) k (m : list (string * A)),
  alookup k (map (fun e => (fst e, f (snd e))) m) = option_map f (alookup k m).
Proof. induction m as [|[k' v] m IH]; cbn; auto. destruct (k' =? k); auto. Qed.

Definition iface_ok (r : riface) : Prop := forall m, In m (ri_methods r) -> alias_injective m.

Definition rrender := fun (_ : rstate) (d : rdata) => rest_render d.

(* for interfaces without two parameters aliased to one name, cookClient + template do not depend on any map order *)
Lemma rest_make_oracle : forall o1 o2 c st v T,
  legal o1 -> legal o2 ->
  (forall fn h r, find_iface_decl v T = Some (fn, h, r) -> iface_ok r) ->
  same_src rrender rrender (rest_make o1 c st v T) (rest_make o2 c st v T).
Proof.
  intros o1 o2 c st v T H1 H2 Hok. unfold rest_make.
  destruct (find_iface_decl v T) as [[[fn h] r]|] eqn:Ef; [|exact I].
  specialize (Hok fn h r eq_refl).
  assert (Em : forall acc,
    fold_left (fun a m => match a with
                          | None => None
                          | Some ms => if rm_hasdoc m then match rest_method o1 v h m with Some x => Some (ms ++ [x])%list | None => None end else Some ms
                          end) (ri_methods r) acc =
    fold_left (fun a m => match a with
                          | None => None
                          | Some ms => if rm_hasdoc m then match rest_method o2 v h m with Some x => Some (ms ++ [x])%list | None => None end else Some ms
                          end) (ri_methods r) acc).
  { revert Hok. unfold iface_ok. generalize (ri_methods r). induction l as [|m l IH]; intros Hok acc; cbn; auto.
    rewrite (rest_method_oracle o1 o2 v h m H1 H2) by (apply Hok; left; auto).
    apply IH. intros m' Hm'. apply Hok. right. auto. }
  rewrite Em.
  match goal with |- context [fold_left ?f (ri_methods r) (Some [])] => destruct (fold_left f (ri_methods r) (Some [])) as [ms|] end; [|exact I].
  cbn. split; auto. unfold rrender, rest_render. cbn [rd_cmd rd_type rd_methods rd_headers]. f_equal. f_equal. f_equal.
  apply map_ext. intros m.
  set (hm := fold_left (fun mp (e : string * string) => upsert (fst e) (snd e) mp) (ri_headers r) []).
  assert (Hhm : NoDup (keys hm)).
  { unfold hm. change (fun mp (e : string * string) => upsert (fst e) (snd e) mp) with (@ups string). apply fold_ups_nodup. constructor. }
  assert (Es : sort_by_key fst (match alookup (md_verb m) (fold_left (fun dh kv => map (fun e : string * list (string * string) => (fst e, upsert (fst kv) (snd kv) (snd e))) dh) (o1 _ hm) default_headers) with Some x => x | None => [] end) =
               sort_by_key fst (match alookup (md_verb m) (fold_left (fun dh kv => map (fun e : string * list (string * string) => (fst e, upsert (fst kv) (snd kv) (snd e))) dh) (o2 _ hm) default_headers) with Some x => x | None => [] end)).
  { rewrite !headers_fold, !alookup_map_snd.
    destruct (alookup (md_verb m) default_headers) as [hs0|] eqn:E0; cbn; auto.
    assert (Hn0 : NoDup (keys hs0)).
    { assert (Hin : In (md_verb m, hs0) default_headers).
      { apply alookup_in; auto. unfold default_headers, keys. cbn. repeat constructor; cbn; intuition discriminate. }
      apply (default_headers_nodup _ Hin). }
    assert (Hp : Permutation (o1 _ hm) (o2 _ hm)) by (eapply perm_trans; [apply H1 | apply Permutation_sym, H2]).
    assert (Hk1 : NoDup (keys (o1 _ hm))) by (eapply Permutation_NoDup; [apply Permutation_map, Permutation_sym, H1 | exact Hhm]).
    destruct (fold_ups_order (o1 _ hm) (o2 _ hm) hs0 Hp Hk1 Hn0) as [Hl [Hd1 Hd2]].
    apply sorted_assoc_eq; auto. }
  rewrite Es. reflexivity.
Qed.

(* ---------------------------------------------------------------- confirmTypes *)
Definition defs_at (v : view) (T f : string) : Prop :=
  (exists e, In e (type_defs v) /\ fst e = T) /\ forall e, In e (type_defs v) -> fst e = T -> snd e = f.
Definition undeclared (v : view) (T : string) : Prop := forall e, In e (type_defs v) -> fst e <> T.
(* T is declared at package scope in the same single file in both views (or in neither) *)
Definition same_defs (v1 v2 : view) (T : string) : Prop :=
  (exists f, defs_at v1 T f /\ defs_at v2 T f) \/ (undeclared v1 T /\ undeclared v2 T).

Lemma get_go_file_undeclared : forall o v T, legal o -> undeclared v T -> get_go_file o v T = "".
Proof.
  intros o v T Ho Hu. unfold get_go_file.
  destruct (find (fun e => fst e =? T) (o _ (type_defs v))) as [e|] eqn:E; auto.
  apply find_some in E. destruct E as [Hin He]. apply String.eqb_eq in He.
  exfalso. apply (Hu e); auto. eapply Permutation_in; [apply Ho | exact Hin].
Qed.

Lemma get_go_file_same : forall o1 o2 v1 v2 T, legal o1 -> legal o2 -> same_defs v1 v2 T ->
  get_go_file o1 v1 T = get_go_file o2 v2 T.
Proof.
  intros o1 o2 v1 v2 T H1 H2 [[f [[He1 Ha1] [He2 Ha2]]]|[Hu1 Hu2]].
  - rewrite (get_go_file_stable o1 v1 T f), (get_go_file_stable o2 v2 T f); auto.
  - rewrite !get_go_file_undeclared; auto.
Qed.

Lemma confirm_specified_ext : forall lt c o1 o2 v1 v2,
  specified c = true ->
  (forall T, In T (c_types c) -> get_go_file o1 v1 T = get_go_file o2 v2 T) ->
  confirm_types lt c o1 v1 = confirm_types lt c o2 v2.
Proof.
  intros lt c o1 o2 v1 v2 Hs Hg. unfold confirm_types. rewrite Hs.
  assert (G : forall l acc, (forall T, In T l -> get_go_file o1 v1 T = get_go_file o2 v2 T) ->
     fold_left (fun (a : option (list string * list (string * string))) T =>
                  match a with
                  | None => None
                  | Some (ts, fm) =>
                      let gofile := get_go_file o1 v1 T in
                      if c_file c =? "" then Some (ts, upsert T gofile fm) else if c_file c =? gofile then Some (ts, fm) else None
                  end) l acc =
     fold_left (fun (a : option (list string * list (string * string))) T =>
                  match a with
                  | None => None
                  | Some (ts, fm) =>
                      let gofile := get_go_file o2 v2 T in
                      if c_file c =? "" then Some (ts, upsert T gofile fm) else if c_file c =? gofile then Some (ts, fm) else None
                  end) l acc).
  { induction l as [|T l IH]; intros acc Hl; cbn; auto.
    rewrite (Hl T) by (left; auto). apply IH. intros T' H'. apply Hl. right. auto. }
  apply G. exact Hg.
Qed.

(* ---------------------------------------------------------------- the source map has distinct file names *)
Section Nodup.
  Context {St Data : Type}.
  Variable make : St -> pview -> string -> mres Data St.
  Variable render : St -> Data -> afile.

  Lemma gen_loop_nodup : forall c hw disk types fmap st ov sm sl sm' sl' ov' st',
    NoDup (keys sm) ->
    gen_loop make render c hw disk types fmap st ov sm sl = Some (sm', sl', ov', st') -> NoDup (keys sm').
  Proof.
    induction types as [|T r IH]; intros fmap st ov sm sl sm' sl' ov' st' Hn H; cbn [gen_loop] in H.
    - injection H as <- _ _ _. exact Hn.
    - destruct (make st (pview_of (mk_view hw disk ov)) T) as [d s st1|st1|]; [| |discriminate].
      + destruct (separate c).
        * destruct (ahas _ sm); [discriminate|]. eapply IH; [|exact H]. apply upsert_nodup. exact Hn.
        * eapply IH; [|exact H]. exact Hn.
      + eapply IH; eauto.
  Qed.

  Lemma generate_nodup : forall lt c o hw disk st sm,
    generate make render lt c o hw disk st = Some sm -> NoDup (keys sm).
  Proof.
    intros lt c o hw disk st sm H. unfold generate in H.
    destruct (confirm_types lt c o (mk_view hw disk [])) as [[types fmap]|]; [|discriminate].
    destruct (gen_loop make render c hw disk types fmap st [] [] []) as [[[[sm1 sl1] ov1] s1]|] eqn:E; [|discriminate].
    assert (Hn : NoDup (keys sm1)) by (eapply gen_loop_nodup; [|exact E]; constructor).
    destruct (merge sl1); injection H as <-; auto. apply upsert_nodup. exact Hn.
  Qed.
End Nodup.

Lemma run_generate_nodup : forall o p prior c sm, run_generate o p prior c = Some sm -> NoDup (keys sm).
Proof.
  intros o p prior c sm H. unfold run_generate in H.
  destruct (c_sub c); eapply generate_nodup; exact H.
Qed.

(* main.go: `for fname, src := range srcMap { notedownSrc(...) }` -- the directory afterwards does not depend on the
   order of the writes *)
Lemma write_loop_order : forall o1 o2 (sm prior : gfiles),
  legal o1 -> legal o2 -> NoDup (keys sm) -> NoDup (keys prior) ->
  listing (fold_left (fun d e => upsert (fst e) (snd e) d) (o1 _ sm) prior) =
  listing (fold_left (fun d e => upsert (fst e) (snd e) d) (o2 _ sm) prior).
Proof.
  intros o1 o2 sm prior H1 H2 Hs Hp.
  change (fun (d : gfiles) (e : string * afile) => upsert (fst e) (snd e) d) with (@ups afile).
  apply write_order_irrelevant; auto.
  - eapply perm_trans; [apply H1 | apply Permutation_sym, H2].
  - eapply Permutation_NoDup; [apply Permutation_map, Permutation_sym, H1 | exact Hs].
Qed.

(* writing the same files again changes nothing *)
Lemma rewrite_idempotent : forall (l : gfiles) (d : gfiles),
  NoDup (keys l) -> NoDup (keys d) ->
  listing (fold_left ups l (fold_left ups l d)) = listing (fold_left ups l d).
Proof.
  intros l d Hl Hd. apply listing_eq; try (repeat apply fold_ups_nodup; auto).
  intros k. rewrite !alookup_fold_ups by auto. destruct (alookup k l); auto.
Qed.

(* ---------------------------------------------------------------- enum and rest: schedule- and history-independence *)
Definition rest_pkg_ok (hw : list hfile) : Prop :=
  forall fn h r, In (fn, h, HIface r) (hand_decls (mk_view hw [] [])) -> iface_ok r.

Lemma find_iface_decl_in : forall v T fn h r, find_iface_decl v T = Some (fn, h, r) -> In (fn, h, HIface r) (pv_hand v).
Proof.
  intros v T fn h r H. unfold find_iface_decl in H.
  destruct (find (fun x : string * hfile * hdecl => match x with (_, _, HIface r0) => ri_name r0 =? T | _ => false end) (pv_hand v))
    as [[[fn' h'] d]|] eqn:E; [|discriminate].
  apply find_some in E. destruct E as [Hin _]. destruct d; try discriminate. injection H as -> -> ->. exact Hin.
Qed.

Lemma rest_make_rel : forall ro1 ro2 c hw disk st1 st2 ov T,
  legal ro1 -> legal ro2 -> rest_pkg_ok hw ->
  same_src rrender rrender (rest_make ro1 c st1 (pview_of (mk_view hw disk ov)) T) (rest_make ro2 c st2 (pview_of (mk_view hw disk ov)) T).
Proof.
  intros ro1 ro2 c hw disk st1 st2 ov T H1 H2 Hok.
  rewrite (rest_make_state_indep ro1 c st1 st2).
  apply rest_make_oracle; auto.
  intros fn h r Hf. apply find_iface_decl_in in Hf. cbn in Hf. rewrite hand_decls_mk_view in Hf. eapply Hok; eauto.
Qed.

(* the files `rest` writes, for -file= / -type=*: whatever the map iteration orders (in cookClient, in Generate, in
   main) and whatever earlier runs left in the directory *)
Theorem rest_unspecified_independent : forall ro1 ro2 o1 o2 c hw disk1 disk2 st1 st2,
  legal ro1 -> legal ro2 -> rest_pkg_ok hw -> specified c = false ->
  generate (rest_make ro1 c) rrender (list_types_of CRest) c o1 hw disk1 st1 =
  generate (rest_make ro2 c) rrender (list_types_of CRest) c o2 hw disk2 st2.
Proof.
  intros ro1 ro2 o1 o2 c hw disk1 disk2 st1 st2 H1 H2 Hok Hs.
  rewrite (generate_rel (rest_make ro1 c) rrender (rest_make ro2 c) rrender c hw disk1
             (fun s1 s2 ov T => rest_make_rel ro1 ro2 c hw disk1 s1 s2 ov T H1 H2 Hok) (list_types_of CRest) o1 st1 st1).
  apply (generate_blind_history (rest_make ro2 c) rrender (rest_same_out ro2 c) hw (rest_blind ro2 c _) CRest c Hs);
    intros e _; apply eligible_gen_enum_rest; auto.
Qed.

Theorem enum_unspecified_independent : forall o1 o2 c hw disk1 disk2 st1 st2,
  specified c = false ->
  generate (enum_make c) enum_render (list_types_of CEnum) c o1 hw disk1 st1 =
  generate (enum_make c) enum_render (list_types_of CEnum) c o2 hw disk2 st2.
Proof.
  intros. apply (generate_blind_history (enum_make c) enum_render (enum_same_out c) hw (enum_blind c _) CEnum c H);
    intros e _; apply eligible_gen_enum_rest; auto.
Qed.

(* with -type=A,B the output names come from getGoFile: the same holds when every named type is declared in one
   file in both directory states *)
Section BlindSpecified.
  Context {St Data : Type}.
  Variable make : St -> pview -> string -> mres Data St.
  Variable render : St -> Data -> afile.
  Hypothesis Hmake : forall st1 st2 v T, same_out render (make st1 v T) (make st2 v T).
  Variable hw : list hfile.
  Hypothesis Hblind : blind_at (hand_of hw) make.

  Lemma generate_blind_specified : forall lt c o1 o2 disk1 disk2 st1 st2,
    specified c = true -> legal o1 -> legal o2 ->
    (forall T, In T (c_types c) -> same_defs (mk_view hw disk1 []) (mk_view hw disk2 []) T) ->
    generate make render lt c o1 hw disk1 st1 = generate make render lt c o2 hw disk2 st2.
  Proof.
    intros lt c o1 o2 disk1 disk2 st1 st2 Hs H1 H2 Hd.
    rewrite (generate_blind make render Hmake hw Hblind lt c o1 st1 disk1 st1).
    rewrite (generate_blind make render Hmake hw Hblind lt c o2 st1 disk2 st2).
    rewrite (confirm_specified_ext lt c o1 o2 (mk_view hw disk1 []) (mk_view hw disk2 []) Hs); auto.
    intros T HT. apply get_go_file_same; auto.
  Qed.
End BlindSpecified.

(* ---------------------------------------------------------------- running twice *)
(* For a command whose source map does not depend on the directory content (hypothesis H: what the theorems above
   establish for enum and rest), a second run writes the same files and leaves the directory as the first did. *)
Lemma filter_true : forall {A} (l : list A), filter (fun _ => true) l = l.
Proof. induction l; cbn; congruence. Qed.

Lemma second_write : forall o1 o2 (sm prior : gfiles),
  legal o1 -> legal o2 -> NoDup (keys sm) -> NoDup (keys prior) ->
  listing (fold_left ups (o2 _ sm) (fold_left ups (o1 _ sm) prior)) = listing (fold_left ups (o1 _ sm) prior).
Proof.
  intros o1 o2 sm prior H1 H2 Hsm Hn.
  assert (Hk1 : NoDup (keys (o1 _ sm))) by (eapply Permutation_NoDup; [apply Permutation_map, Permutation_sym, H1 | exact Hsm]).
  assert (Hd1 : NoDup (keys (fold_left ups (o1 _ sm) prior))) by (apply fold_ups_nodup; auto).
  rewrite (write_order_irrelevant (o2 _ sm) (o1 _ sm) (fold_left ups (o1 _ sm) prior)).
  - apply rewrite_idempotent; auto.
  - eapply perm_trans; [apply H2 | apply Permutation_sym, H1].
  - eapply Permutation_NoDup; [apply Permutation_map, Permutation_sym, H2 | exact Hsm].
  - exact Hd1.
Qed.

(* a property of generated files that every rendered source has and MergeSources preserves holds for every file
   of the source map *)
Section FilesProp.
  Context {St Data : Type}.
  Variable make : St -> pview -> string -> mres Data St.
  Variable render : St -> Data -> afile.
  Variable P : afile -> Prop.
  Hypothesis Prender : forall st d, P (render st d).
  Hypothesis Pmerge : forall fs m, (forall f, In f fs -> P f) -> merge fs = Some m -> P m.

  Lemma gen_loop_prop : forall c hw disk types fmap st ov sm sl sm' sl' ov' st',
    (forall e, In e sm -> P (snd e)) -> (forall f, In f sl -> P f) ->
    gen_loop make render c hw disk types fmap st ov sm sl = Some (sm', sl', ov', st') ->
    (forall e, In e sm' -> P (snd e)) /\ (forall f, In f sl' -> P f).
  Proof.
    induction types as [|T r IH]; intros fmap st ov sm sl sm' sl' ov' st' Hsm Hsl H; cbn [gen_loop] in H.
    - injection H as <- <- _ _. auto.
    - destruct (make st (pview_of (mk_view hw disk ov)) T) as [d s st1|st1|]; [| |discriminate].
      + destruct (separate c).
        * destruct (ahas _ sm); [discriminate|]. eapply IH; [| |exact H]; auto.
          intros e He. clear - He Hsm Prender.
          revert He. generalize (file_name c (all_in_one_file c (mk_view hw disk ov)) fmap T). intros k.
          induction sm as [|[k' v'] sm IHs]; cbn; intros He.
          -- destruct He as [<-|[]]. apply Prender.
          -- destruct (k' =? k); cbn in He.
             ++ destruct He as [<-|He]; [apply Prender | apply Hsm; right; auto].
             ++ destruct He as [<-|He]; [apply Hsm; left; auto | apply IHs; auto]. intros e0 H0. apply Hsm. right. auto.
        * eapply IH; [| |exact H]; auto. intros f Hf. apply in_app_or in Hf. destruct Hf as [Hf|[<-|[]]]; auto.
      + eapply IH; eauto.
  Qed.

  Lemma generate_prop : forall lt c o hw disk st sm,
    generate make render lt c o hw disk st = Some sm -> forall e, In e sm -> P (snd e).
  Proof.
    intros lt c o hw disk st sm H. unfold generate in H.
    destruct (confirm_types lt c o (mk_view hw disk [])) as [[types fmap]|]; [|discriminate].
    destruct (gen_loop make render c hw disk types fmap st [] [] []) as [[[[sm1 sl1] ov1] s1]|] eqn:E; [|discriminate].
    destruct (gen_loop_prop _ _ _ _ _ _ _ _ _ _ _ _ _ (fun e (H0 : In e []) => match H0 with end) (fun f (H0 : In f []) => match H0 with end) E) as [H1 H2].
    destruct (merge sl1) as [m|] eqn:Em; injection H as <-; auto.
    intros e He. set (k := file_name c (all_in_one_file c (mk_view hw disk ov1)) fmap "") in *.
    clearbody k. clear - He H1 H2 Em Pmerge.
    induction sm1 as [|[k' v'] sm1 IHs]; cbn in He.
    - destruct He as [<-|[]]. cbn. eapply Pmerge; eauto.
    - destruct (k' =? k); cbn in He.
      + destruct He as [<-|He]; [cbn; eapply Pmerge; eauto | apply H1; right; auto].
      + destruct He as [<-|He]; [apply H1; left; auto | apply IHs; auto]. intros e0 H0. apply H1. right. auto.
  Qed.
End FilesProp.

Section TwiceFix.
  Variable p : pkg.
  Variable c : cmd.
  Hypothesis Hclean : forall v dir, clean c (all_in_one_file c v) dir = dir.     (* Clean is not active: -sep, -type=A,B or -file= *)

  (* If the source map computed over the directory the first run left equals the one computed over the directory it
     found (what the independence theorems establish), the second run writes the same files again. *)
  Theorem run_twice_fixpoint : forall o1 o2 prior w dir,
    legal o1 -> legal o2 -> NoDup (keys prior) ->
    run o1 p prior c = ODone w dir ->
    run_generate o2 p dir c = run_generate o1 p prior c ->
    exists w' dir', run o2 p dir c = ODone w' dir' /\ listing dir' = listing dir /\ Permutation w' w.
  Proof.
    intros o1 o2 prior w dir H1 H2 Hn Hr H. unfold run in *. rewrite H.
    destruct (run_generate o1 p prior c) as [sm|] eqn:Eg; [|discriminate].
    pose proof (run_generate_nodup _ _ _ _ _ Eg) as Hsm.
    destruct sm as [|e sm'].
    - injection Hr as <- <-.
      assert (E1 : o1 (string * afile)%type [] = []) by (apply Permutation_nil, Permutation_sym, H1).
      assert (E2 : o2 (string * afile)%type [] = []) by (apply Permutation_nil, Permutation_sym, H2).
      rewrite E1, E2. cbn. eexists. eexists. split; [reflexivity|]. split; auto.
    - rewrite !Hclean in *. injection Hr as <- <-.
      eexists. eexists. split; [reflexivity|]. split.
      + exact (second_write o1 o2 (e :: sm') prior H1 H2 Hsm Hn).
      + apply Permutation_map. eapply perm_trans; [apply H2 | apply Permutation_sym, H1].
  Qed.
End TwiceFix.

Lemma clean_inactive : forall c, separate c = true \/ c_file c <> "" -> forall v dir, clean c (all_in_one_file c v) dir = dir.
Proof.
  intros c [Hs|Hf] v dir; unfold clean.
  - rewrite Hs. reflexivity.
  - destruct (separate c); auto. unfold all_in_one_file.
    destruct (String.eqb_spec (c_file c) "") as [E|E]; [contradiction|]. reflexivity.
Qed.

(* ---------------------------------------------------------------- instances and witnesses *)
Theorem enum_run_independent : forall p c o1 o2 prior1 prior2,
  c_sub c = CEnum -> specified c = false ->
  run_generate o1 p prior1 c = run_generate o2 p prior2 c.
Proof.
  intros p c o1 o2 prior1 prior2 Hc Hs. unfold run_generate. rewrite Hc.
  apply enum_unspecified_independent. exact Hs.
Qed.

Theorem rest_run_independent : forall p c o1 o2 prior1 prior2,
  c_sub c = CRest -> specified c = false -> legal o1 -> legal o2 -> rest_pkg_ok (p_hw p) ->
  run_generate o1 p prior1 c = run_generate o2 p prior2 c.
Proof.
  intros p c o1 o2 prior1 prior2 Hc Hs H1 H2 Hok. unfold run_generate. rewrite Hc.
  apply rest_unspecified_independent; auto.
Qed.

(* generate twice = generate once, for every form in which Clean is not active (-sep, or -file=f: the usual
   //go:generate line, all-in-one included) *)
Theorem enum_twice_fixpoint : forall p c o1 o2 prior w dir,
  c_sub c = CEnum -> specified c = false -> c_sepflag c = true \/ c_file c <> "" ->
  legal o1 -> legal o2 -> NoDup (keys prior) ->
  run o1 p prior c = ODone w dir ->
  exists w' dir', run o2 p dir c = ODone w' dir' /\ listing dir' = listing dir /\ Permutation w' w.
Proof.
  intros p c o1 o2 prior w dir Hc Hs Hm H1 H2 Hn Hr.
  apply (run_twice_fixpoint p c (clean_inactive c (match Hm with
                                                    | or_introl E => or_introl (eq_trans (f_equal (fun b => specified c || b) E) (orb_true_r _))
                                                    | or_intror E => or_intror E
                                                    end)) o1 o2 prior w dir H1 H2 Hn Hr).
  apply enum_run_independent; auto.
Qed.

Theorem rest_twice_fixpoint : forall p c o1 o2 prior w dir,
  c_sub c = CRest -> specified c = false -> c_sepflag c = true \/ c_file c <> "" -> rest_pkg_ok (p_hw p) ->
  legal o1 -> legal o2 -> NoDup (keys prior) ->
  run o1 p prior c = ODone w dir ->
  exists w' dir', run o2 p dir c = ODone w' dir' /\ listing dir' = listing dir /\ Permutation w' w.
Proof.
  intros p c o1 o2 prior w dir Hc Hs Hm Hok H1 H2 Hn Hr.
  apply (run_twice_fixpoint p c (clean_inactive c (match Hm with
                                                    | or_introl E => or_introl (eq_trans (f_equal (fun b => specified c || b) E) (orb_true_r _))
                                                    | or_intror E => or_intror E
                                                    end)) o1 o2 prior w dir H1 H2 Hn Hr).
  apply rest_run_independent; auto.
Qed.

(* K_rest_alias_dup: two parameters aliased to one name -- two legal iteration orders, two outputs *)
Definition dup_method : rmethod :=
  {| rm_name := "Ping"; rm_hasdoc := true; rm_verb := "GET"; rm_path := "/a/{x}"; rm_pparams := ["x"];
     rm_alias := [("p", "x"); ("q", "x")];
     rm_params := [ {| rp_name := "p"; rp_ty := "int"; rp_kind := RScalar; rp_ptr := false |};
                    {| rp_name := "q"; rp_ty := "int"; rp_kind := RScalar; rp_ptr := false |} ];
     rm_result := ""; rm_result_ptr := false |}.
Definition dup_file : hfile := {| h_name := "api.go"; h_imports := []; h_gen := []; h_decls := [] |}.

Lemma alias_dup_not_injective : ~ alias_injective dup_method.
Proof. unfold alias_injective. vm_compute. intros H. inversion H as [|? ? Hn _]. apply Hn. left. reflexivity. Qed.

Lemma alias_dup_order_dependent :
  option_map md_pathparams (rest_method id_oracle {| pv_hand := []; pv_gen := [] |} dup_file dup_method) <>
  option_map md_pathparams (rest_method rev_oracle {| pv_hand := []; pv_gen := [] |} dup_file dup_method).
Proof. vm_compute. discriminate. Qed.

(* decidable forms of the guards *)
Fixpoint nodupb (l : list string) : bool :=
  match l with [] => true | x :: r => negb (smem x r) && nodupb r end.
Lemma nodupb_ok : forall l, nodupb l = true -> NoDup l.
Proof.
  induction l as [|x l IH]; cbn; intros H; [constructor|].
  apply andb_true_iff in H. destruct H as [H1 H2]. constructor; auto.
  intros Hin. apply smem_in in Hin. rewrite Hin in H1. discriminate.
Qed.
Definition alias_injectiveb (m : rmethod) : bool := nodupb (map snd (alias_map m)).
Definition rest_pkg_okb (hw : list hfile) : bool :=
  forallb (fun x : string * hfile * hdecl =>
             match x with
             | (_, _, HIface r) => forallb alias_injectiveb (ri_methods r)
             | _ => true
             end) (hand_decls (mk_view hw [] [])).
Lemma rest_pkg_okb_ok : forall hw, rest_pkg_okb hw = true -> rest_pkg_ok hw.
Proof.
  intros hw Hb fn h r Hin m Hm. unfold rest_pkg_okb in Hb. rewrite forallb_forall in Hb.
  specialize (Hb _ Hin). cbn in Hb. rewrite forallb_forall in Hb. specialize (Hb m Hm).
  apply nodupb_ok. exact Hb.
Qed.

(* -type=A,B (one file per type, Clean inactive): fixpoint for generators blind to generated files, when no generated
   file found or left in the directory declares a type named like a listed type *)
Section SpecifiedFix.
  Variable p : pkg.
  Variable c : cmd.
  Hypothesis Hspec : specified c = true.

  Lemma clean_specified : forall v dir, clean c (all_in_one_file c v) dir = dir.
  Proof. apply clean_inactive. left. unfold separate. rewrite Hspec. reflexivity. Qed.

  Theorem enum_specified_twice_fixpoint : forall o1 o2 prior w dir,
    c_sub c = CEnum -> legal o1 -> legal o2 -> NoDup (keys prior) ->
    (forall T, In T (c_types c) -> same_defs (mk_view (p_hw p) (disk_of p dir) []) (mk_view (p_hw p) (disk_of p prior) []) T) ->
    run o1 p prior c = ODone w dir ->
    exists w' dir', run o2 p dir c = ODone w' dir' /\ listing dir' = listing dir /\ Permutation w' w.
  Proof.
    intros o1 o2 prior w dir Hc H1 H2 Hn Hd Hr.
    apply (run_twice_fixpoint p c clean_specified o1 o2 prior w dir H1 H2 Hn Hr).
    unfold run_generate. rewrite Hc.
    apply (generate_blind_specified (enum_make c) enum_render (enum_same_out c) (p_hw p) (enum_blind c _)); auto.
  Qed.

  Theorem rest_specified_twice_fixpoint : forall o1 o2 prior w dir,
    c_sub c = CRest -> rest_pkg_ok (p_hw p) -> legal o1 -> legal o2 -> NoDup (keys prior) ->
    (forall T, In T (c_types c) -> same_defs (mk_view (p_hw p) (disk_of p dir) []) (mk_view (p_hw p) (disk_of p prior) []) T) ->
    run o1 p prior c = ODone w dir ->
    exists w' dir', run o2 p dir c = ODone w' dir' /\ listing dir' = listing dir /\ Permutation w' w.
  Proof.
    intros o1 o2 prior w dir Hc Hok H1 H2 Hn Hd Hr.
    apply (run_twice_fixpoint p c clean_specified o1 o2 prior w dir H1 H2 Hn Hr).
    unfold run_generate. rewrite Hc.
    transitivity (generate (rest_make o1 c) rrender (list_types_of CRest) c o2 (p_hw p) (disk_of p dir) rstate0).
    - exact (generate_rel (rest_make o2 c) rrender (rest_make o1 c) rrender c (p_hw p) (disk_of p dir)
               (fun s1 s2 ov T => rest_make_rel o2 o1 c (p_hw p) (disk_of p dir) s1 s2 ov T H2 H1 Hok)
               (list_types_of CRest) o2 rstate0 rstate0).
    - apply (generate_blind_specified (rest_make o1 c) rrender (rest_same_out o1 c) (p_hw p) (rest_blind o1 c _)); auto.
  Qed.
End SpecifiedFix.
