(* `new`: when no struct of the package embeds a struct, MakeData never looks at a generated file. *)
From Coq Require Import List String Ascii Bool Arith Lia Permutation.
From Shoot Require Import Model.Gen Proofs.GenBaseProofs Proofs.GenProofs Proofs.GenSeqProofs.
Import ListNotations.
Local Open Scope string_scope.

Definition is_field (it : sitem) : Prop := match it with IField _ => True | IEmbed _ _ _ => False end.
(* the guard: the complement of (a superset of) the input class of K_embed_order *)
Definition no_embedding (H : list (string * hfile * hdecl)) : Prop :=
  forall fn h s, In (fn, h, HStruct s) H -> Forall is_field (ss_items s).

Lemma fold_left_ext_in : forall {A B} (f g : A -> B -> A) l a,
  (forall a x, In x l -> f a x = g a x) -> fold_left f l a = fold_left g l a.
Proof.
  induction l as [|x l IH]; intros a H; cbn; auto.
  rewrite (H a x) by (left; auto). apply IH. intros a' x' Hx. apply H. right. auto.
Qed.

Lemma extract_top_no_embed : forall fuel fuel' c v v' s,
  Forall is_field (ss_items s) -> extract_top fuel c v s = extract_top fuel' c v' s.
Proof.
  intros fuel fuel' c v v' s H. unfold extract_top. apply fold_left_ext_in.
  intros a it Hin. rewrite Forall_forall in H. specialize (H it Hin). destruct it; [reflexivity | contradiction].
Qed.

Lemma check_shadow_append_noemb : forall fs f,
  Forall (fun g => fe_emb g = false) fs -> fe_emb f = false -> Forall (fun g => fe_emb g = false) (check_shadow_append fs f).
Proof.
  intros fs f Hfs Hf. unfold check_shadow_append. apply Forall_app. split.
  - apply Forall_forall. intros g Hg. apply in_map_iff in Hg. destruct Hg as [g0 [<- Hg0]].
    rewrite Forall_forall in Hfs. specialize (Hfs g0 Hg0).
    destruct ((fe_name g0 =? fe_name f) && Nat.ltb (fe_depth f) (fe_depth g0)); auto.
  - constructor; [|constructor].
    destruct (existsb (fun g => (fe_name g =? fe_name f) && Nat.ltb (fe_depth g) (fe_depth f)) fs); auto.
Qed.

Lemma extract_top_noemb : forall fuel c v s,
  Forall is_field (ss_items s) -> Forall (fun g => fe_emb g = false) (extract_top fuel c v s).
Proof.
  intros fuel c v s H. unfold extract_top.
  assert (G : forall items acc, Forall is_field items -> Forall (fun g => fe_emb g = false) acc ->
     Forall (fun g => fe_emb g = false)
       (fold_left (fun a it => match it with
                               | IEmbed n p dn => expand fuel v 0 n p dn a
                               | IField f =>
                                   if sf_newskip f then a
                                   else
                                     let gs := if c_getset c then parse_getset f else (false, false) in
                                     check_shadow_append a
                                       {| fe_name := sf_name f; fe_qty := sf_ty f; fe_depth := 0; fe_ptr := sf_ptr f; fe_shadow := false;
                                          fe_emb := false; fe_get := fst gs; fe_set := snd gs; fe_new := sf_dnew f; fe_def := sf_def f;
                                          fe_tag := if c_json c then sf_jsontag f else "" |}
                               end) items acc)).
  { induction items as [|it items IH]; intros acc Hi Ha; cbn; auto.
    inversion Hi as [|? ? Hit Hrest]; subst. apply IH; auto.
    destruct it as [f|]; [|contradiction].
    destruct (sf_newskip f); auto. apply check_shadow_append_noemb; auto. }
  apply G; auto.
Qed.

Lemma make_getset_loop_noemb : forall v v' g s fs once,
  Forall (fun f => fe_emb f = false) fs -> make_getset_loop v g s fs once = make_getset_loop v' g s fs once.
Proof.
  induction fs as [|f fs IH]; intros once H; cbn; auto.
  inversion H as [|? ? Hf Hfs]; subst.
  destruct (smem (fe_name f) once); auto.
  rewrite (IH (fe_name f :: once) Hfs). rewrite Hf. reflexivity.
Qed.

Lemma new_blind_at : forall c H, no_embedding H -> blind_at H (new_make c).
Proof.
  intros c H Hne st v v' T Hv Hv'. unfold new_make, new_make_gen.
  assert (Ef : find_struct v T = find_struct v' T) by (unfold find_struct; rewrite Hv, Hv'; reflexivity).
  rewrite <- Ef. destruct (has_prefix "_" T); auto. destruct (find_struct v T) as [[[fn h] s]|] eqn:E; auto.
  assert (Hs : Forall is_field (ss_items s)).
  { unfold find_struct in E.
    destruct (find (fun x : string * hfile * hdecl => match x with (_, _, HStruct s0) => ss_name s0 =? T | _ => false end) (pv_hand v))
      as [[[fn' h'] d]|] eqn:E'; [|discriminate].
    apply find_some in E'. destruct E' as [Hin _]. destruct d; try discriminate. injection E as -> -> ->.
    rewrite Hv in Hin. eapply Hne; eauto. }
  rewrite (extract_top_no_embed (S (List.length (pv_hand v))) (S (List.length (pv_hand v'))) c v v' s Hs).
  set (st2 := new_parse c (new_reset all_resets c st) s (extract_top (S (List.length (pv_hand v'))) c v' s)).
  rewrite (make_getset_loop_noemb v v' (n_getter st2) (n_setter st2) (n_fields st2) []); auto.
  unfold st2, new_parse. cbn [n_fields]. apply extract_top_noemb. exact Hs.
Qed.

(* the command line enters the output of a type only through the flags and the header *)
Lemma new_cmd_sim : forall c c' st v T,
  c_getset c = c_getset c' -> c_json c = c_json c' -> c_optflags c = c_optflags c' ->
  same_body (fun (_ : nstate) d => new_render d) (fun (_ : nstate) d => new_render d) (new_make c st v T) (new_make c' st v T).
Proof.
  intros c c' st v T Hg Hj Ho. unfold new_make, new_make_gen.
  destruct (has_prefix "_" T); [exact I|].
  destruct (find_struct v T) as [[[fn h] s]|]; [|exact I].
  assert (E1 : extract_top (S (List.length (pv_hand v))) c v s = extract_top (S (List.length (pv_hand v))) c' v s).
  { unfold extract_top. rewrite Hg, Hj. reflexivity. }
  assert (E2 : forall fields, new_parse c (new_reset all_resets c st) s fields =
                              {| n_data := ndata0 (c_line c); n_tparams := n_tparams (new_parse c' (new_reset all_resets c' st) s fields);
                                 n_tpmap := n_tpmap (new_parse c' (new_reset all_resets c' st) s fields);
                                 n_fields := fields;
                                 n_hasNew := n_hasNew (new_parse c' (new_reset all_resets c' st) s fields);
                                 n_gsm := n_gsm (new_parse c' (new_reset all_resets c' st) s fields);
                                 n_getter := n_getter (new_parse c' (new_reset all_resets c' st) s fields);
                                 n_setter := n_setter (new_parse c' (new_reset all_resets c' st) s fields) |}).
  { intros. unfold new_parse, new_reset. cbn. rewrite Hg. reflexivity. }
  rewrite E1, E2. cbn [n_getter n_setter n_fields].
  set (st2' := new_parse c' (new_reset all_resets c' st) s (extract_top (S (List.length (pv_hand v))) c' v s)).
  destruct (make_getset_loop v (n_getter st2') (n_setter st2') (extract_top (S (List.length (pv_hand v))) c' v s) [])
    as [[[[gl sl] gi] si] ms] eqn:Eg.
  assert (Ef : n_fields st2' = extract_top (S (List.length (pv_hand v))) c' v s) by reflexivity.
  rewrite Ef, Eg. unfold new_finish. cbn. split; auto.
  unfold c_optflags in Ho. injection Ho as Ho Hs.
  unfold body, new_render, mk_file. cbn. rewrite Hg, Hj, Ho, Hs. reflexivity.
Qed.

Definition nrender := fun (_ : nstate) (d : ndata) => new_render d.

Theorem new_aio_is_concatenation : forall c (cT : string -> cmd) hw o disk st types fmap sm,
  no_embedding (hand_of hw) ->
  (forall T, c_types (cT T) = [T] /\ c_file (cT T) = "" /\ c_getset (cT T) = c_getset c /\ c_json (cT T) = c_json c /\ c_optflags (cT T) = c_optflags c) ->
  separate c = false ->
  confirm_types (list_types_of CNew) c o (mk_view hw disk []) = Some (types, fmap) ->
  generate (new_make c) nrender (list_types_of CNew) c o hw disk st = Some sm ->
  (forall T o' disk' st', In T types ->
     generate (new_make (cT T)) nrender (list_types_of CNew) (cT T) o' hw disk' st' = None ->
     exists s, alone (new_make c) hw nstate0 T = MSkip s) /\
  forall o' disk' st',
    let singles := flat_map (fun T => single_file (generate (new_make (cT T)) nrender (list_types_of CNew) (cT T) o' hw disk' st')) types in
    match sm with
    | [] => singles = []
    | [(n, m)] =>
        a_decls m = flat_map a_decls singles /\ a_imports m = dedup (flat_map a_imports singles) /\
        a_stray m = flat_map (fun f => strays (a_decls f)) singles /\ n = out_name hw c fmap ""
    | _ => False
    end.
Proof.
  intros c cT hw o disk st types fmap sm Hne HcT.
  assert (H1 : forall T, c_types (cT T) = [T]) by (intros T; apply HcT).
  assert (H2 : forall T, c_file (cT T) = "") by (intros T; apply HcT).
  assert (H3 : forall T st' v, sim_body nrender nrender (new_make c st' v T) (new_make (cT T) st' v T)).
  { intros T st' v. destruct (HcT T) as [_ [_ [Hg [Hj Ho]]]]. apply same_sim_body. apply new_cmd_sim; auto. }
  exact (aio_is_concatenation new_make nrender new_same_out hw (fun c0 => new_blind_at c0 _ Hne) (list_types_of CNew) c cT H1 H2 H3 nstate0
           o disk st types fmap sm).
Qed.

Theorem new_unspecified_independent : forall o1 o2 c hw disk1 disk2 st1 st2,
  no_embedding (hand_of hw) -> specified c = false ->
  no_eligible_gen CNew disk1 -> no_eligible_gen CNew disk2 ->
  generate (new_make c) nrender (list_types_of CNew) c o1 hw disk1 st1 =
  generate (new_make c) nrender (list_types_of CNew) c o2 hw disk2 st2.
Proof.
  intros o1 o2 c hw disk1 disk2 st1 st2 Hne Hs Hn1 Hn2.
  apply (generate_blind_history (new_make c) nrender (new_same_out c) hw (new_blind_at c _ Hne) CNew c Hs); auto.
Qed.

(* decidable form of the guard *)
Definition no_embeddingb (H : list (string * hfile * hdecl)) : bool :=
  forallb (fun x : string * hfile * hdecl =>
             match x with
             | (_, _, HStruct s) => forallb (fun it => match it with IField _ => true | IEmbed _ _ _ => false end) (ss_items s)
             | _ => true
             end) H.
Lemma no_embeddingb_ok : forall H, no_embeddingb H = true -> no_embedding H.
Proof.
  intros H Hb fn h s Hin. unfold no_embeddingb in Hb. rewrite forallb_forall in Hb.
  specialize (Hb _ Hin). cbn in Hb. rewrite forallb_forall in Hb.
  apply Forall_forall. intros it Hit. specialize (Hb it Hit). destruct it; [exact I | discriminate].
Qed.

(* new -getset: every generated source is fed back through the overlay *)
Lemma new_stale : forall c st v T d s st', c_getset c = true -> new_make c st v T = MOk d s st' -> s = true.
Proof.
  intros c st v T d s st' Hg H. unfold new_make, new_make_gen in H.
  destruct (has_prefix "_" T); [discriminate|].
  destruct (find_struct v T) as [[[fn h] sx]|]; [|discriminate].
  unfold new_finish in H.
  match type of H with context [make_getset_loop ?a ?b ?cc ?dd ?e] => destruct (make_getset_loop a b cc dd e) as [[[[gl sl] gi] si] ms] end.
  injection H as _ <- _. cbn. exact Hg.
Qed.

(* C08, first sentence, for new -getset WITH embedding (no guard on the package): the all-in-one file is, declaration
   for declaration, what -type=T produces one type at a time when each run finds the files written by the earlier
   ones -- the overlay of the single run is that directory *)
Theorem new_aio_is_sequential : forall c (cT : string -> cmd) hw disk fmap o st st' types sm,
  c_getset c = true ->
  (forall T, c_types (cT T) = [T] /\ c_file (cT T) = "" /\ c_getset (cT T) = c_getset c /\ c_json (cT T) = c_json c /\ c_optflags (cT T) = c_optflags c) ->
  separate c = false ->
  confirm_types (list_types_of CNew) c o (mk_view hw disk []) = Some (types, fmap) ->
  NoDup (map (nm c hw fmap) types) ->
  generate (new_make c) nrender (list_types_of CNew) c o hw disk st = Some sm ->
  exists fs, seq_files new_make nrender c cT hw fmap st' types disk = Some fs /\
    match sm with
    | [] => fs = []
    | [(n, m)] =>
        a_decls m = flat_map a_decls fs /\ a_imports m = dedup (flat_map a_imports fs) /\
        a_stray m = flat_map (fun f => strays (a_decls f)) fs /\ n = nm c hw fmap ""
    | _ => False
    end.
Proof.
  intros c cT hw disk fmap o st st' types sm Hg HcT Hsep Hconf Hnd Hgen.
  assert (H3 : forall T st0 v, same_body nrender nrender (new_make c st0 v T) (new_make (cT T) st0 v T)).
  { intros T st0 v. destruct (HcT T) as [_ [_ [Hg' [Hj Ho]]]]. apply new_cmd_sim; auto. }
  exact (aio_is_sequential new_make nrender new_same_out (list_types_of CNew) c cT H3
           (fun st0 v T d s st'' => new_stale c st0 v T d s st'' Hg) hw disk fmap Hsep o st st' types sm Hconf Hnd Hgen).
Qed.

(* C07 for new, outside (a superset of) the input class of K_embed_order / K_aio_overlay_stale *)
(* the directory holds no generated file declaring a struct `new` would select (the client struct of a rest output:
   open finding K_new_selects_generated; new's own output only declares _json_T) *)
Theorem new_run_independent : forall p c o1 o2 prior1 prior2,
  c_sub c = CNew -> specified c = false -> no_embedding (hand_of (p_hw p)) ->
  no_eligible_gen CNew (disk_of p prior1) -> no_eligible_gen CNew (disk_of p prior2) ->
  run_generate o1 p prior1 c = run_generate o2 p prior2 c.
Proof.
  intros p c o1 o2 prior1 prior2 Hc Hs Hne Hn1 Hn2. unfold run_generate. rewrite Hc.
  apply (new_unspecified_independent o1 o2 c (p_hw p) _ _ nstate0 nstate0 Hne Hs Hn1 Hn2).
Qed.

From Shoot Require Import Proofs.GenSigmaProofs Proofs.GenPermProofs.
Theorem new_permutation : forall c c' hw o disk st st',
  no_embedding (hand_of hw) ->
  specified c = true -> specified c' = true ->
  Permutation (c_types c) (c_types c') -> c_file c = c_file c' -> c_sub c = c_sub c' ->
  c_star c = false -> c_star c' = false ->
  c_getset c = c_getset c' -> c_json c = c_json c' -> c_optflags c = c_optflags c' ->
  match generate (new_make c) nrender (list_types_of CNew) c o hw disk st,
        generate (new_make c') nrender (list_types_of CNew) c' o hw disk st' with
  | Some sm, Some sm' => map nb (listing sm) = map nb (listing sm')
  | None, None => True
  | _, _ => False
  end.
Proof.
  intros c c' hw o disk st st' Hne Hs Hs' Hp Hf Hsub H1 H2 Hg Hj Ho.
  apply (permutation_changes_no_content new_make nrender new_same_out hw (fun c0 => new_blind_at c0 _ Hne) (list_types_of CNew)
           c c' o disk st st' Hs Hs' Hp Hf Hsub H1 H2); auto.
  intros T st0 v. apply new_cmd_sim; auto.
Qed.

(* what `new` writes never declares a struct that `new` would select (only the _json_T helper) *)
Definition elig1 (x : adecl) : list string :=
  match d_kind x with KType => if has_prefix "_" (d_name x) then [] else [d_name x] | _ => [] end.

Lemma eligible_gen_new : forall a, eligible_gen CNew a = flat_map elig1 (a_decls a).
Proof.
  intros a. unfold eligible_gen. apply flat_map_ext. intros x. unfold elig1. destruct (d_kind x); reflexivity.
Qed.

Lemma flat_map_map_nil : forall {A B C} (g : B -> list C) (f : A -> B) l, (forall x, g (f x) = []) -> flat_map g (map f l) = [].
Proof. induction l as [|x l IH]; intros H; cbn; [reflexivity|]. rewrite H, IH; auto. Qed.

Lemma new_render_not_eligible : forall st d, eligible_gen CNew (nrender st d) = [].
Proof.
  intros st d. rewrite eligible_gen_new. unfold nrender, new_render, mk_file. cbn [a_decls].
  cbn [flat_map]. rewrite !flat_map_app. cbn [flat_map elig1 d_kind app].
  repeat match goal with
         | |- context [if ?b then _ else _] => destruct b
         end;
  cbn [flat_map elig1 d_kind d_name app]; rewrite ?flat_map_app; cbn [flat_map elig1 d_kind d_name app];
  rewrite ?flat_map_map_nil by (intros; reflexivity);
  repeat match goal with
         | |- context [match ?l with [] => _ | _ :: _ => _ end] => destruct l
         end; cbn [flat_map elig1 d_kind d_name app]; try reflexivity.
Qed.

Lemma in_upsert : forall {A} k (v : A) m e, In e (upsert k v m) -> e = (k, v) \/ In e m.
Proof.
  induction m as [|[k' v'] m IH]; intros e H; cbn in H.
  - destruct H as [<-|[]]. auto.
  - destruct (k' =? k); cbn in H.
    + destruct H as [<-|H]; auto. right. right. exact H.
    + destruct H as [<-|H]; [right; left; reflexivity|]. destruct (IH e H) as [E|Hin]; auto. right. right. exact Hin.
Qed.

Lemma in_fold_ups : forall {A} (l m : list (string * A)) e, In e (fold_left ups l m) -> In e l \/ In e m.
Proof.
  induction l as [|x l IH]; intros m e H; cbn in H; auto.
  destruct (IH _ e H) as [Hl|Hm]; [left; right; exact Hl|].
  unfold ups in Hm. apply in_upsert in Hm. destruct Hm as [->|Hm]; [left; left; destruct x; reflexivity | right; exact Hm].
Qed.

Lemma merge_not_eligible : forall fs m, (forall f, In f fs -> eligible_gen CNew f = []) -> merge fs = Some m -> eligible_gen CNew m = [].
Proof.
  intros fs m H Hm. rewrite eligible_gen_new, (merge_decls _ _ Hm).
  clear Hm. induction fs as [|f fs IH]; [reflexivity|]. cbn. rewrite flat_map_app.
  rewrite <- eligible_gen_new, (H f (or_introl eq_refl)). cbn. apply IH. intros g Hg. apply H. right. exact Hg.
Qed.

Theorem new_twice_fixpoint : forall p c o1 o2 prior w dir,
  c_sub c = CNew -> specified c = false -> c_sepflag c = true \/ c_file c <> "" -> no_embedding (hand_of (p_hw p)) ->
  no_eligible_gen CNew (p_aux p) -> no_eligible_gen CNew prior ->
  legal o1 -> legal o2 -> NoDup (keys prior) ->
  run o1 p prior c = ODone w dir ->
  exists w' dir', run o2 p dir c = ODone w' dir' /\ listing dir' = listing dir /\ Permutation w' w.
Proof.
  intros p c o1 o2 prior w dir Hc Hs Hm Hne Haux Hprior H1 H2 Hn Hr.
  assert (Hcl : forall v d, clean c (all_in_one_file c v) d = d).
  { apply clean_inactive. destruct Hm as [E|E]; [left; unfold separate; rewrite E; apply orb_true_r | right; exact E]. }
  apply (run_twice_fixpoint p c Hcl o1 o2 prior w dir H1 H2 Hn Hr).
  assert (Hd1 : no_eligible_gen CNew (disk_of p prior)).
  { intros e He. unfold disk_of, overlay_apply in He. apply in_fold_ups in He. destruct He; auto. }
  assert (Hd2 : no_eligible_gen CNew (disk_of p dir)).
  { intros e He. unfold disk_of, overlay_apply in He. apply in_fold_ups in He. destruct He as [He|He]; [|auto].
    unfold run in Hr. destruct (run_generate o1 p prior c) as [sm|] eqn:Eg; [|discriminate].
    assert (Hsm : forall e0, In e0 sm -> eligible_gen CNew (snd e0) = []).
    { unfold run_generate in Eg. rewrite Hc in Eg.
      apply (generate_prop (new_make c) (fun _ d => new_render d) (fun a => eligible_gen CNew a = [])
               (fun st d => new_render_not_eligible st d) merge_not_eligible _ _ _ _ _ _ _ Eg). }
    assert (Hdir : dir = fold_left (fun d e0 => upsert (fst e0) (snd e0) d) (o1 _ sm) prior).
    { destruct sm; injection Hr as _ <-; [reflexivity | rewrite Hcl; reflexivity]. }
    rewrite Hdir in He. apply (in_fold_ups (o1 _ sm) prior e) in He. destruct He as [He|He]; [|auto].
    apply Hsm. eapply Permutation_in; [apply H1 | exact He]. }
  apply new_run_independent; auto.
Qed.

(* ---------------------------------------------------------------- new WITHOUT -getset: no guard on embedding *)
Lemma new_stale_flag : forall c st v T d s st', new_make c st v T = MOk d s st' -> s = c_getset c.
Proof.
  intros c st v T d s st' H. unfold new_make, new_make_gen in H.
  destruct (has_prefix "_" T); [discriminate|].
  destruct (find_struct v T) as [[[fn h] sx]|]; [|discriminate].
  unfold new_finish in H.
  match type of H with context [make_getset_loop ?a ?b ?cc ?dd ?e] => destruct (make_getset_loop a b cc dd e) as [[[[gl sl] gi] si] ms] end.
  injection H as _ <- _. reflexivity.
Qed.

Theorem new_noget_aio_is_concatenation : forall c (cT : string -> cmd) hw disk fmap o st st' types sm,
  c_getset c = false ->
  (forall T, c_getset (cT T) = c_getset c /\ c_json (cT T) = c_json c /\ c_optflags (cT T) = c_optflags c) ->
  separate c = false ->
  confirm_types (list_types_of CNew) c o (mk_view hw disk []) = Some (types, fmap) ->
  generate (new_make c) nrender (list_types_of CNew) c o hw disk st = Some sm ->
  let fs := same_dir_files new_make nrender cT hw disk st' types in
  match sm with
  | [] => fs = []
  | [(n, m)] =>
      a_decls m = flat_map a_decls fs /\ a_imports m = dedup (flat_map a_imports fs) /\
      a_stray m = flat_map (fun f => strays (a_decls f)) fs /\ n = nm c hw fmap ""
  | _ => False
  end.
Proof.
  intros c cT hw disk fmap o st st' types sm Hg HcT Hsep Hconf Hgen.
  exact (aio_is_concat_same_dir new_make nrender new_same_out (list_types_of CNew) c cT
           (fun T s v => same_sim_body _ _ _ _ (new_cmd_sim c (cT T) s v T (eq_sym (proj1 (HcT T))) (eq_sym (proj1 (proj2 (HcT T)))) (eq_sym (proj2 (proj2 (HcT T))))))
           (fun s v T d b s' H => eq_trans (new_stale_flag c s v T d b s' H) Hg) hw disk fmap Hsep o st st' types sm Hconf Hgen).
Qed.

Theorem new_noget_permutation : forall c c' hw disk o st st',
  c_getset c = false -> c_getset c' = false ->
  specified c = true -> specified c' = true ->
  Permutation (c_types c) (c_types c') -> c_file c = c_file c' -> c_sub c = c_sub c' ->
  c_star c = false -> c_star c' = false -> c_json c = c_json c' -> c_optflags c = c_optflags c' ->
  match generate (new_make c) nrender (list_types_of CNew) c o hw disk st,
        generate (new_make c') nrender (list_types_of CNew) c' o hw disk st' with
  | Some sm, Some sm' => map nb (listing sm) = map nb (listing sm')
  | None, None => True
  | _, _ => False
  end.
Proof.
  intros c c' hw disk o st st' Hg Hg' Hs Hs' Hp Hf Hsub H1 H2 Hj Ho.
  apply (permutation_nostale new_make nrender new_same_out hw disk (list_types_of CNew) c c' o st st'
           (fun s v T d b s' H => eq_trans (new_stale_flag c s v T d b s' H) Hg)
           (fun s v T d b s' H => eq_trans (new_stale_flag c' s v T d b s' H) Hg')); auto.
  intros T st0 v. apply new_cmd_sim; auto. congruence.
Qed.

(* ---------------------------------------------------------------- new without -getset over directories without accessor interfaces *)
Definition no_iface_decls (g : list adecl) : Prop := forall d, In d g -> match d_kind d with KIface _ _ _ => False | _ => True end.

Lemma find_iface_none : forall v n, no_iface_decls (pv_gen v) -> find_iface v n = None.
Proof.
  intros v n H. unfold find_iface.
  destruct (find (fun d => (d_name d =? n) && match d_kind d with KIface _ _ _ => true | _ => false end) (pv_gen v)) as [d|] eqn:E; auto.
  apply find_some in E. destruct E as [Hin Hb]. specialize (H d Hin).
  destruct (d_kind d); try contradiction; rewrite andb_false_r in Hb; discriminate.
Qed.

Lemma make_getset_loop_noiface : forall v v' g s fs once,
  no_iface_decls (pv_gen v) -> no_iface_decls (pv_gen v') ->
  make_getset_loop v g s fs once = make_getset_loop v' g s fs once.
Proof.
  intros v v' g s fs. induction fs as [|f fs IH]; intros once H H'; cbn [make_getset_loop]; auto.
  destruct (smem (fe_name f) once); auto.
  rewrite (IH (fe_name f :: once) H H').
  rewrite !(find_iface_none v _ H), !(find_iface_none v' _ H'). rewrite !andb_false_r. cbn. reflexivity.
Qed.

Lemma expand_hand : forall fuel v v' depth tname ptr isnew acc, pv_hand v = pv_hand v' ->
  expand fuel v depth tname ptr isnew acc = expand fuel v' depth tname ptr isnew acc.
Proof.
  induction fuel as [|fu IH]; intros v v' depth tname ptr isnew acc H; cbn [expand]; auto.
  rewrite (find_struct_hand v v' tname H). destruct (find_struct v' tname) as [[[fn h] s]|]; auto.
  apply fold_left_ext. intros a it. destruct it; auto.
Qed.

Lemma extract_top_hand : forall fuel c v v' s, pv_hand v = pv_hand v' -> extract_top fuel c v s = extract_top fuel c v' s.
Proof.
  intros fuel c v v' s H. unfold extract_top. apply fold_left_ext. intros a it. destruct it; auto. apply expand_hand. exact H.
Qed.

(* with no accessor interface among the generated declarations, MakeData of `new` is a function of the hand-written part *)
Lemma new_make_noiface : forall c st v v' T,
  pv_hand v = pv_hand v' -> no_iface_decls (pv_gen v) -> no_iface_decls (pv_gen v') ->
  new_make c st v T = new_make c st v' T.
Proof.
  intros c st v v' T Hh H H'. unfold new_make, new_make_gen.
  rewrite (find_struct_hand v v' T Hh). destruct (has_prefix "_" T); auto.
  destruct (find_struct v' T) as [[[fn h] s]|]; auto.
  rewrite Hh, (extract_top_hand _ c v v' s Hh).
  set (st2 := new_parse c (new_reset all_resets c st) s (extract_top (S (List.length (pv_hand v'))) c v' s)).
  rewrite (make_getset_loop_noiface v v' (n_getter st2) (n_setter st2) (n_fields st2) [] H H'). reflexivity.
Qed.

Definition iface_free (disk : gfiles) : Prop := forall e, In e disk -> no_iface_decls (a_decls (snd e)).

Lemma in_gen_decls_mk_view : forall hw disk d, In d (gen_decls (mk_view hw disk [])) -> exists e, In e disk /\ In d (a_decls (snd e)).
Proof.
  intros hw disk d H. unfold gen_decls in H. apply in_flat_map in H. destruct H as [[n fc] [Hin Hd]].
  destruct fc as [h|a]; [destruct Hd|]. apply in_mk_view_gen in Hin. exists (n, a). split; auto.
Qed.

Lemma iface_free_view : forall hw disk, iface_free disk -> no_iface_decls (pv_gen (pview_of (mk_view hw disk []))).
Proof.
  intros hw disk H d Hd. cbn in Hd. apply in_gen_decls_mk_view in Hd. destruct Hd as [e [He Hde]]. exact (H e He d Hde).
Qed.

Definition erased (hw : list hfile) (c : cmd) : nstate -> pview -> string -> mres ndata nstate :=
  fun st _ T => new_make c st {| pv_hand := hand_of hw; pv_gen := [] |} T.

Lemma erased_blind : forall hw c H, blind_at H (erased hw c).
Proof. intros hw c H st v v' T _ _. reflexivity. Qed.

Lemma erased_same_out : forall hw c st1 st2 v T, same_out nrender (erased hw c st1 v T) (erased hw c st2 v T).
Proof. intros. unfold erased. apply new_same_out. Qed.

Lemma generate_erased : forall c hw disk o st,
  c_getset c = false -> iface_free disk ->
  generate (new_make c) nrender (list_types_of CNew) c o hw disk st =
  generate (erased hw c) nrender (list_types_of CNew) c o hw disk st.
Proof.
  intros c hw disk o st Hg Hfree.
  rewrite (generate_pinned new_make nrender hw disk c (list_types_of CNew) o st
             (fun s v T d b s' H => eq_trans (new_stale_flag c s v T d b s' H) Hg)).
  apply (generate_rel (pinned new_make hw disk c) nrender (erased hw c) nrender c hw disk).
  intros st1 st2 ov T. unfold pinned, erased.
  rewrite (new_make_noiface c st1 (pview_of (mk_view hw disk [])) {| pv_hand := hand_of hw; pv_gen := [] |} T).
  - rewrite (new_make_state_indep c st1 st2). apply same_out_src, same_out_refl.
  - cbn. apply hand_decls_mk_view.
  - apply iface_free_view. exact Hfree.
  - intros d [].
Qed.

(* C07 for new WITHOUT -getset, embedding allowed: whatever the directory holds, as long as it holds no accessor
   interfaces (a run without -getset never writes any) and no selectable generated struct *)
Theorem new_noget_unspecified_independent : forall o1 o2 c hw disk1 disk2 st1 st2,
  c_getset c = false -> specified c = false ->
  iface_free disk1 -> iface_free disk2 -> no_eligible_gen CNew disk1 -> no_eligible_gen CNew disk2 ->
  generate (new_make c) nrender (list_types_of CNew) c o1 hw disk1 st1 =
  generate (new_make c) nrender (list_types_of CNew) c o2 hw disk2 st2.
Proof.
  intros o1 o2 c hw disk1 disk2 st1 st2 Hg Hs Hf1 Hf2 Hn1 Hn2.
  rewrite (generate_erased c hw disk1 o1 st1 Hg Hf1), (generate_erased c hw disk2 o2 st2 Hg Hf2).
  apply (generate_blind_history (erased hw c) nrender (erased_same_out hw c) hw (erased_blind hw c _) CNew c Hs); auto.
Qed.
