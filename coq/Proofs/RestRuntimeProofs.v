(* Proofs about Model/RestRuntime.v (C19). *)
From Coq Require Import List ZArith Bool String Lia Arith Znumtheory.
From Shoot Require Import Model.RestRuntime.
Import ListNotations.
Local Close Scope Z_scope.   (* Znumtheory opens it *)

Lemma NoDup_app_snoc {A} (l : list A) (x : A) : NoDup l -> ~ In x l -> NoDup (l ++ [x]).
Proof.
  induction l as [|y l IH]; intros Hnd Hx; cbn.
  - constructor; [intros []|constructor].
  - inversion Hnd; subst. constructor.
    + intros Hin. apply in_app_or in Hin. destruct Hin as [Hin|[E|[]]]; [contradiction|].
      apply Hx. left. symmetry. exact E.
    + apply IH; [assumption|]. intros Hin. apply Hx. right. exact Hin.
Qed.

Section OptionProofs.
Context {M : Type}.
Notation conf := (conf M).
Notation opt := (opt M).

(* ------------------------------------------------------------------ *)
(* options: the last one that sets a field wins                        *)

Lemma apply_opts_snoc (os : list opt) (o : opt) :
  apply_opts (os ++ [o]) = denote o (apply_opts os).
Proof.
  unfold apply_opts, new_with. rewrite map_app, fold_left_app. reflexivity.
Qed.

(* "the value [a] is the argument of the last option of [os] that [sel]ects
   something, or [zero] if there is none" -- stated without any fold *)
Inductive last_arg {A : Type} (sel : opt -> option A) (zero : A) : list opt -> A -> Prop :=
| la_none : forall os,
    (forall o, In o os -> sel o = None) -> last_arg sel zero os zero
| la_some : forall os1 o os2 a,
    sel o = Some a -> (forall o', In o' os2 -> sel o' = None) ->
    last_arg sel zero (os1 ++ o :: os2) a.


Lemma picks_none {A} (sel : opt -> option A) os :
  (forall o, In o os -> sel o = None) -> picks sel os = [].
Proof.
  induction os as [|o os IH]; intros H; [reflexivity|].
  unfold picks in *. cbn. rewrite (H o) by (left; reflexivity). cbn.
  apply IH. intros o' Ho'. apply H. right. exact Ho'.
Qed.

Lemma picks_app {A} (sel : opt -> option A) a b :
  picks sel (a ++ b) = picks sel a ++ picks sel b.
Proof. unfold picks. apply flat_map_app. Qed.

Lemma last_snoc {A} (l : list A) (x d : A) : last (l ++ [x]) d = x.
Proof. induction l as [|y l IH]; [reflexivity|]. cbn [app].
  destruct (l ++ [x]) eqn:E; [destruct l; discriminate|]. cbn [last]. exact IH. Qed.

Lemma last_arg_fn {A} (sel : opt -> option A) zero os a :
  last_arg sel zero os a -> a = last_of sel zero os.
Proof.
  intros H. destruct H as [os Hn|os1 o os2 a Hs Hn]; unfold last_of.
  - rewrite picks_none by exact Hn. reflexivity.
  - rewrite picks_app. change (o :: os2) with ([o] ++ os2). rewrite picks_app.
    rewrite (picks_none sel os2) by exact Hn. rewrite app_nil_r.
    unfold picks at 2. cbn. rewrite Hs. cbn. rewrite last_snoc. reflexivity.
Qed.

Lemma last_arg_snoc_none {A} (sel : opt -> option A) zero os o a :
  last_arg sel zero os a -> sel o = None -> last_arg sel zero (os ++ [o]) a.
Proof.
  intros H Eo. destruct H as [os Hn|os1 o1 os2 a Hs Hn].
  - apply la_none. intros o' Ho'. apply in_app_or in Ho'.
    destruct Ho' as [Ho'|[<-|[]]]; [apply Hn; exact Ho'|exact Eo].
  - rewrite <- app_assoc. cbn [app].
    apply (la_some sel zero os1 o1 (os2 ++ [o]) _ Hs).
    intros o' Ho'. apply in_app_or in Ho'.
    destruct Ho' as [Ho'|[<-|[]]]; [apply Hn; exact Ho'|exact Eo].
Qed.

(* generic "last option wins" for a field [proj] that option [o] overwrites
   exactly when [sel o] says so *)
Lemma last_wins {A} (sel : opt -> option A) (proj : conf -> A) :
  (forall o r, proj (denote o r) = match sel o with Some a => a | None => proj r end) ->
  forall os, last_arg sel (proj conf0) os (proj (apply_opts os)).
Proof.
  intros Hsel os. induction os as [|o os IH] using rev_ind.
  - apply la_none. intros o [].
  - rewrite apply_opts_snoc, Hsel. destruct (sel o) as [a|] eqn:Eo.
    + apply (la_some sel (proj conf0) os o [] a Eo). intros o' [].
    + apply last_arg_snoc_none; assumption.
Qed.


Lemma base_last_wins (os : list opt) : last_arg sel_base EmptyString os (c_base (apply_opts os)).
Proof. apply (last_wins sel_base c_base). intros [s|d|b|h|m] r; reflexivity. Qed.
Lemma timeout_last_wins (os : list opt) : last_arg sel_timeout 0%Z os (c_timeout (apply_opts os)).
Proof. apply (last_wins sel_timeout c_timeout). intros [s|d|b|h|m] r; reflexivity. Qed.
Lemma logging_last_wins (os : list opt) : last_arg sel_logging false os (c_logging (apply_opts os)).
Proof. apply (last_wins sel_logging c_logging). intros [s|d|b|h|m] r; reflexivity. Qed.
Lemma headers_last_wins (os : list opt) : last_arg sel_headers None os (c_headers (apply_opts os)).
Proof. apply (last_wins sel_headers c_headers). intros [s|d|b|h|m] r; reflexivity. Qed.

Lemma mws_all_uses (os : list opt) : c_mws (apply_opts os) = uses os.
Proof.
  induction os as [|o os IH] using rev_ind; [reflexivity|].
  rewrite apply_opts_snoc. unfold uses in *. rewrite flat_map_app. cbn [flat_map].
  rewrite app_nil_r, <- IH. destruct o; cbn; rewrite ?app_nil_r; reflexivity.
Qed.

Lemma conf_of_options (os : list opt) :
  last_arg sel_base EmptyString os (c_base (apply_opts os)) /\
  last_arg sel_timeout 0%Z os (c_timeout (apply_opts os)) /\
  last_arg sel_logging false os (c_logging (apply_opts os)) /\
  last_arg sel_headers None os (c_headers (apply_opts os)) /\
  c_mws (apply_opts os) = uses os.
Proof.
  repeat split; [apply base_last_wins|apply timeout_last_wins|apply logging_last_wins|
                 apply headers_last_wins|apply mws_all_uses].
Qed.

(* ------------------------------------------------------------------ *)
(* the registry                                                        *)

Section RegistryProofs.
Variable Client : Type.
Notation ctor := (ctor M Client).
Notation registry := (registry M Client).
Notation op := (op M Client).
Notation outcome := (outcome Client).
Notation first_ctor := (first_ctor Client).
Notation outcome_spec := (outcome_spec Client).


Lemma first_ctor_none (pre : list op) t :
  first_ctor pre t = None <-> (forall c, ~ In (Register t c) pre).
Proof.
  induction pre as [|o pre IH]; cbn.
  - split; [intros _ c []|reflexivity].
  - destruct o as [t' c'|t' os'].
    + destruct (Nat.eqb_spec t' t) as [->|Hne].
      * split; [discriminate|]. intros H. exfalso. apply (H c'). left. reflexivity.
      * rewrite IH. split.
        -- intros H c [E|Hin]; [inversion E; congruence|exact (H c Hin)].
        -- intros H c Hin. apply (H c). right. exact Hin.
    + rewrite IH. split.
      * intros H c [E|Hin]; [discriminate|exact (H c Hin)].
      * intros H c Hin. apply (H c). right. exact Hin.
Qed.

Lemma first_ctor_some (pre : list op) t c :
  first_ctor pre t = Some c <->
  exists p1 p2, pre = p1 ++ Register t c :: p2 /\ forall c', ~ In (Register t c') p1.
Proof.
  split.
  - induction pre as [|o pre IH]; cbn; [discriminate|].
    destruct o as [t' c'|t' os'].
    + destruct (Nat.eqb_spec t' t) as [->|Hne].
      * intros E. inversion E; subst. exists [], pre. split; [reflexivity|intros c'' []].
      * intros E. destruct (IH E) as (p1 & p2 & -> & Hn).
        exists (Register t' c' :: p1), p2. split; [reflexivity|].
        intros c'' [E'|Hin]; [inversion E'; congruence|exact (Hn c'' Hin)].
    + intros E. destruct (IH E) as (p1 & p2 & -> & Hn).
      exists (NewRest t' os' :: p1), p2. split; [reflexivity|].
      intros c'' [E'|Hin]; [discriminate|exact (Hn c'' Hin)].
  - intros (p1 & p2 & -> & Hn). induction p1 as [|o p1 IH]; cbn.
    + rewrite Nat.eqb_refl. reflexivity.
    + destruct o as [t' c'|t' os'].
      * destruct (Nat.eqb_spec t' t) as [->|Hne].
        -- exfalso. apply (Hn c'). left. reflexivity.
        -- apply IH. intros c'' Hin. apply (Hn c''). right. exact Hin.
      * apply IH. intros c'' Hin. apply (Hn c''). right. exact Hin.
Qed.

Lemma lookup_app (r1 r2 : registry) t :
  lookup Client (r1 ++ r2) t =
  match lookup Client r1 t with Some c => Some c | None => lookup Client r2 t end.
Proof.
  induction r1 as [|[t' c'] r1 IH]; cbn; [reflexivity|].
  destruct (Nat.eqb t' t); [reflexivity|exact IH].
Qed.

Lemma lookup_none_notin (r : registry) t :
  lookup Client r t = None <-> ~ In t (map fst r).
Proof.
  induction r as [|[t' c'] r IH]; cbn.
  - split; [intros _ []|reflexivity].
  - destruct (Nat.eqb_spec t' t) as [->|Hne].
    + split; [discriminate|]. intros H. exfalso. apply H. left. reflexivity.
    + rewrite IH. split; [intros H [E|Hin]; [congruence|exact (H Hin)]|].
      intros H Hin. apply H. right. exact Hin.
Qed.

(* the registry after any history, started from [r] *)
Lemma lookup_run : forall (pre : list op) (r : registry) t,
  lookup Client (fst (run Client r pre)) t =
  match lookup Client r t with Some c => Some c | None => first_ctor pre t end.
Proof.
  induction pre as [|o pre IH]; intros r t.
  - cbn. destruct (lookup Client r t); reflexivity.
  - cbn [run]. destruct (step Client r o) as [r1 out] eqn:Es.
    specialize (IH r1 t). destruct (run Client r1 pre) as [r2 outs] eqn:Er. cbn [fst] in *.
    rewrite IH. clear IH. destruct o as [t' c'|t' os']; cbn [step] in Es.
    + destruct (lookup Client r t') as [c0|] eqn:El; inversion Es; subst; clear Es.
      * cbn [first_ctor]. destruct (Nat.eqb_spec t' t) as [->|Hne].
        -- rewrite El. reflexivity.
        -- reflexivity.
      * rewrite lookup_app. cbn [lookup first_ctor].
        destruct (lookup Client r t) as [c1|]; [reflexivity|].
        destruct (Nat.eqb t' t); reflexivity.
    + cbn [first_ctor]. destruct (lookup Client r t'); inversion Es; subst; reflexivity.
Qed.

Lemma lookup_state_after (pre : list op) t :
  lookup Client (state_after Client pre) t = first_ctor pre t.
Proof. unfold state_after. rewrite lookup_run. reflexivity. Qed.

Lemma step_spec (pre : list op) o :
  snd (step Client (state_after Client pre) o) = outcome_spec pre o.
Proof.
  destruct o as [t c|t os]; cbn [step outcome_spec]; rewrite lookup_state_after;
    destruct (first_ctor pre t); reflexivity.
Qed.

Lemma run_app : forall (a b : list op) (r : registry),
  run Client r (a ++ b) =
  let '(r1, o1) := run Client r a in
  let '(r2, o2) := run Client r1 b in (r2, o1 ++ o2).
Proof.
  induction a as [|o a IH]; intros b r.
  - cbn. destruct (run Client r b); reflexivity.
  - cbn [app run]. destruct (step Client r o) as [r1 out]. rewrite IH.
    destruct (run Client r1 a) as [r2 o1]. destruct (run Client r2 b) as [r3 o2]. reflexivity.
Qed.

Lemma run_length : forall (a : list op) (r : registry),
  List.length (snd (run Client r a)) = List.length a.
Proof.
  induction a as [|o a IH]; intros r; [reflexivity|].
  cbn [run]. destruct (step Client r o) as [r1 out]. specialize (IH r1).
  destruct (run Client r1 a). cbn in *. rewrite IH. reflexivity.
Qed.

(* the outcome of every operation of every history *)
Lemma history_outcome (pre : list op) o post :
  nth_error (snd (run Client [] (pre ++ o :: post))) (List.length pre) = Some (outcome_spec pre o).
Proof.
  rewrite run_app. pose proof (run_length pre []) as Hl.
  pose proof (step_spec pre o) as Hs. unfold state_after in Hs.
  destruct (run Client [] pre) as [r1 o1]. cbn [fst snd] in *.
  cbn [run]. destruct (step Client r1 o) as [r2 out]. cbn [snd] in Hs. subst out.
  destruct (run Client r2 post) as [r3 o3]. cbn [snd].
  rewrite nth_error_app2 by lia. rewrite Hl, Nat.sub_diag. reflexivity.
Qed.

(* the registry never holds a type twice *)
Lemma registry_nodup : forall (pre : list op) (r : registry),
  NoDup (map fst r) -> NoDup (map fst (fst (run Client r pre))).
Proof.
  induction pre as [|o pre IH]; intros r Hr; [exact Hr|].
  cbn [run]. destruct (step Client r o) as [r1 out] eqn:Es.
  specialize (IH r1). destruct (run Client r1 pre) as [r2 outs]. cbn [fst] in *. apply IH.
  destruct o as [t c|t os]; cbn [step] in Es.
  - destruct (lookup Client r t) eqn:El; inversion Es; subst; [exact Hr|].
    rewrite map_app. cbn. apply NoDup_app_snoc; [exact Hr|].
    apply lookup_none_notin. exact El.
  - destruct (lookup Client r t); inversion Es; subst; exact Hr.
Qed.

(* Prop-level reading of outcome_spec *)
Lemma register_panics_iff (pre : list op) t c :
  outcome_spec pre (Register t c) = PanicDup t <-> exists c', In (Register t c') pre.
Proof.
  cbn. destruct (first_ctor pre t) as [c0|] eqn:E.
  - split; [intros _|reflexivity]. apply first_ctor_some in E.
    destruct E as (p1 & p2 & -> & _). exists c0. apply in_or_app. right. left. reflexivity.
  - split; [discriminate|]. intros (c' & Hin). exfalso.
    exact (proj1 (first_ctor_none pre t) E c' Hin).
Qed.

Lemma register_ok_iff (pre : list op) t c :
  outcome_spec pre (Register t c) = Registered <-> forall c', ~ In (Register t c') pre.
Proof.
  cbn. rewrite <- first_ctor_none. destruct (first_ctor pre t); split; try discriminate; reflexivity.
Qed.

Lemma newrest_panics_iff (pre : list op) t os :
  outcome_spec pre (NewRest t os) = PanicNotReg t <-> forall c, ~ In (Register t c) pre.
Proof.
  cbn. rewrite <- first_ctor_none. destruct (first_ctor pre t); split; try discriminate; reflexivity.
Qed.

Lemma newrest_builds (p1 p2 : list op) t c os :
  (forall c', ~ In (Register t c') p1) ->
  outcome_spec (p1 ++ Register t c :: p2) (NewRest t os) = Built (c (apply_opts os)).
Proof.
  intros Hn. cbn.
  replace (first_ctor (p1 ++ Register t c :: p2) t) with (Some c); [reflexivity|].
  symmetry. apply first_ctor_some. exists p1, p2. split; [reflexivity|exact Hn].
Qed.

End RegistryProofs.

End OptionProofs.

(* ------------------------------------------------------------------ *)
(* the middleware chain                                                *)

Definition compose_chain (mws : list mw) (base : rt) : rt :=
  fold_right (fun m acc => m acc) base mws.      (* m1 (m2 (... (mk base))) *)

Lemma firstn_succ_nth {A} (l : list A) (i : nat) (d : A) :
  i < List.length l -> firstn (S i) l = firstn i l ++ [nth i l d].
Proof.
  revert i; induction l as [|x l IH]; intros i Hi; cbn in Hi; [lia|].
  destruct i as [|i]; [reflexivity|].
  change (x :: firstn (S i) l = x :: (firstn i l ++ [nth i l d])). f_equal. apply IH. lia.
Qed.

Lemma build_loop_firstn (mws : list mw) : forall k t,
  k <= List.length mws ->
  build_loop mws k t = compose_chain (firstn k mws) t.
Proof.
  induction k as [|i IH]; intros t Hk; [reflexivity|].
  cbn [build_loop]. rewrite IH by lia.
  rewrite (firstn_succ_nth mws i (fun x => x)) by lia.
  unfold compose_chain. rewrite fold_right_app. reflexivity.
Qed.

(* the reverse index loop composes the list left to right: first added = outermost *)
Lemma build_loop_compose (mws : list mw) (base : rt) :
  build_loop mws (List.length mws) base = compose_chain mws base.
Proof. rewrite build_loop_firstn by lia. rewrite firstn_all. reflexivity. Qed.

Lemma build_compose (mws : list mw) (logging : bool) (base : rt) :
  build mws logging base =
  if logging then log_mw (compose_chain mws base) else compose_chain mws base.
Proof. unfold build. rewrite build_loop_compose. reflexivity. Qed.

(* trace of a chain of tagging middlewares: properly nested *)
Lemma compose_tags (tags : list nat) (base : rt) :
  compose_chain (map tag_mw tags) base = map EIn tags ++ base ++ rev (map EOut tags).
Proof.
  induction tags as [|a tags IH]; cbn.
  - rewrite app_nil_r. reflexivity.
  - unfold compose_chain in IH. rewrite IH. unfold tag_mw. cbn.
    rewrite <- !app_assoc. reflexivity.
Qed.


Lemma build_tags_trace (tags : list nat) (logging : bool) :
  build (map tag_mw tags) logging [EBase] = nested_trace logging tags.
Proof.
  rewrite build_compose, compose_tags. unfold nested_trace, log_mw.
  destruct logging; cbn; rewrite <- ?app_assoc, ?app_nil_r; reflexivity.
Qed.


Lemma filter_entry_in tags : filter is_entry (map EIn tags) = map EIn tags.
Proof. induction tags as [|a l IH]; cbn; [reflexivity|]. rewrite IH. reflexivity. Qed.
Lemma filter_entry_out (l : list nat) : filter is_entry (rev (map EOut l)) = [].
Proof.
  induction l as [|a l IH]; cbn; [reflexivity|].
  rewrite filter_app, IH. reflexivity.
Qed.

Lemma build_tags_invocation_order (tags : list nat) (logging : bool) :
  entries (build (map tag_mw tags) logging [EBase]) =
  (if logging then [ELogIn] else []) ++ map EIn tags ++ [EBase].
Proof.
  rewrite build_tags_trace. unfold entries, nested_trace.
  rewrite !filter_app, filter_entry_in, filter_entry_out.
  destruct logging; cbn; rewrite ?app_nil_r; reflexivity.
Qed.

(* ------------------------------------------------------------------ *)
(* the generated client's timeout                                      *)

Lemma client_timeout_ideal {M} (F : fenv) (r : conf M) :
  F K_rest_timeout = false -> client_timeout F r = c_timeout r.
Proof. intros H. unfold client_timeout. rewrite H. reflexivity. Qed.

(* with the defect present the configured timeout survives only if it is 0 *)
Lemma wrap64_times_second_fix (t : Z) :
  in_int64 t = true -> (wrap64 (t * second) = t <-> t = 0%Z).
Proof.
  intros Hr. unfold in_int64 in Hr. apply andb_prop in Hr. destruct Hr as [H1 H2].
  apply Z.leb_le in H1. apply Z.ltb_lt in H2.
  split; [|intros ->; reflexivity].
  unfold wrap64. intros H.
  assert (Hm : ((t * second + 2 ^ 63) mod 2 ^ 64 = t + 2 ^ 63)%Z) by lia.
  assert (Hdiv : (2 ^ 64 | t * (second - 1))%Z).
  { apply Z.mod_divide; [lia|].
    replace (t * (second - 1))%Z with ((t * second + 2 ^ 63) - (t + 2 ^ 63))%Z by ring.
    rewrite Zminus_mod, Hm. rewrite (Z.mod_small (t + 2 ^ 63)) by lia.
    rewrite Z.sub_diag. reflexivity. }
  assert (Hg : (2 ^ 64 | t)%Z).
  { apply Gauss with (b := (second - 1)%Z); [rewrite Z.mul_comm; exact Hdiv|].
    apply Zgcd_1_rel_prime. vm_compute. reflexivity. }
  destruct Hg as [k Hk]. subst t. lia.
Qed.

Lemma timeout_refuted_witness :
  let r := @apply_opts nat [OTimeout (10 * second)] in
  in_int64 (c_timeout r) = true /\
  client_timeout all_defects r <> c_timeout r /\
  (client_timeout all_defects r < 0)%Z.
Proof. vm_compute. repeat split; discriminate. Qed.

(* ------------------------------------------------------------------ *)
(* all of it together: NewRest on a generated client                   *)

Lemma conf_chain_trace (os : list (opt nat)) :
  build_conf tag_mw (apply_opts os) [EBase] =
  nested_trace (last_of sel_logging false os) (uses os).
Proof.
  unfold build_conf. rewrite mws_all_uses, build_tags_trace.
  rewrite (last_arg_fn _ _ _ _ (logging_last_wins os)). reflexivity.
Qed.

Lemma newrest_generated_client (F : fenv) (g t : nat)
      (p1 p2 : list (op nat (gclient nat))) (os : list (opt nat)) :
  (forall c', ~ In (Register t c') p1) ->
  outcome_spec (gclient nat) (p1 ++ Register t (gen_ctor F tag_mw [EBase] g) :: p2) (NewRest t os) =
  Built {| g_iface := g;
           g_conf := apply_opts os;
           g_timeout := client_timeout F (apply_opts os);
           g_transport := nested_trace (last_of sel_logging false os) (uses os) |}.
Proof.
  intros Hn. rewrite newrest_builds by exact Hn. unfold gen_ctor.
  rewrite conf_chain_trace. reflexivity.
Qed.
