(* Lemmas about Model/RestHandle.v (C10). *)
From Coq Require Import List ZArith Bool String Ascii Lia.
From Shoot Require Import Model.RestHandle.
Import ListNotations.
Local Open Scope string_scope.
Local Open Scope Z_scope.

(* cook.go first flattens the result list into VALUES (resultValues) and then
   works on that list only; so do the lemmas: [method_values] is the pipeline
   on a list of values, [method_returns rs = method_values (values rs)] *)
Definition method_values {V X : Type} (decode : string -> body X -> dec_out V X)
           (body_verb : bool) (vs : list field) (o : outcome X)
  : fatal + option (list (slot V X) * list bevent) :=
  match cook_values vs with
  | inl f => inl f
  | inr c => inr (exec decode o (emit c body_verb) m0)
  end.

Lemma method_returns_values : forall V X (decode : string -> body X -> dec_out V X) bv rs o,
  method_returns decode bv rs o = method_values decode bv (values rs) o.
Proof. reflexivity. Qed.

(* ------------------------------------------------------------------ *)
(* the signature-level reading of a result list (specification side:    *)
(* independent of cook_values and of the template)                     *)

(* (printed type of the variable the body is decoded into, declared as pointer) *)
Definition declared_result (results : list field) : option (string * bool) :=
  match results with
  | [r; _; _] =>
      match f_type r with
      | TStar x => Some (print x, true)
      | t => Some (print t, false)
      end
  | _ => None
  end.

(* the shapes the generator lets through in result position *)
Definition result_shape_ok (t : texpr) : bool :=
  match t with TStar _ | TArray None _ | TMap _ _ => true | _ => false end.

(* the signatures the generator accepts, stated on the signature *)
Definition accepted (results : list field) : Prop :=
  match results with
  | [a; b] => print (f_type a) = "*http.Response" /\ print (f_type b) = "error"
  | [r; a; b] => print (f_type a) = "*http.Response" /\ print (f_type b) = "error"
                 /\ f_names r = [] /\ result_shape_ok (f_type r) = true
  | _ => False
  end.

(* status classes of the property text *)
Inductive sclass := Success | ClientError | ServerError | Unsupported.
Definition class_of (s : Z) : sclass :=
  if (200 <=? s) && (s <? 300) then Success
  else if (400 <=? s) && (s <? 500) then ClientError
  else if 500 <=? s then ServerError
  else Unsupported.

(* no field declares more than one name (`a, b T`) *)
Definition single_names (results : list field) : bool :=
  forallb (fun f => (List.length (f_names f) <=? 1)%nat) results.

(* identifiers are non-empty *)
Definition wf_results (results : list field) : bool := forallb (fun f => wf_texpr (f_type f)) results.

(* ------------------------------------------------------------------ *)
(* printing                                                             *)

Lemma append_nil_inv : forall a b : string, a ++ b = "" -> a = "" /\ b = "".
Proof. intros [|c a] b H; simpl in *; [auto | discriminate]. Qed.

Lemma print_nonempty : forall t, wf_texpr t = true -> print t <> "".
Proof.
  induction t as [n|p n|x IH|len e IH|k IHk v IHv|nd s]; simpl; intros Hwf.
  - destruct (String.eqb_spec n ""); [discriminate | assumption].
  - apply andb_true_iff in Hwf as [Hp _]. destruct (String.eqb_spec p ""); [discriminate|].
    intros H. apply append_nil_inv in H as [H _]. contradiction.
  - discriminate.
  - destruct len; discriminate.
  - discriminate.
  - destruct (String.eqb_spec s ""); [discriminate | assumption].
Qed.

(* ------------------------------------------------------------------ *)
(* cook_values                                                         *)

Lemma get_return_type_name_ok : forall t rr,
  get_return_type_name t = inr rr <->
  result_shape_ok t = true /\
  rr = match t with TStar x => (print x, true) | _ => (print t, false) end.
Proof.
  intros t rr; destruct t as [n|pk n|x|[l|] e|k v|nd pr]; simpl; split.
  all: try (intros H; discriminate H).
  all: try (intros [H _]; discriminate H).
  all: try (intros H; inversion H; subst; split; reflexivity).
  all: intros [_ H]; subst; reflexivity.
Qed.

Lemma eqb_neg_false : forall a b, negb (String.eqb a b) = false <-> a = b.
Proof. intros a b. destruct (String.eqb_spec a b); simpl; split; intros; try congruence; auto. Qed.

(* exactly the accepted signatures get a client; what the template receives
   is the signature-level result description and arity - 1 nils *)
Lemma cook_values_accepts : forall rs c,
  cook_values rs = inr c <->
  accepted rs /\
  ck_nils c = (List.length rs - 1)%nat /\
  ck_result c = match declared_result rs with Some rr => rr | None => ("", false) end.
Proof.
  intros rs c. unfold cook_values, accepted, declared_result, nth_type.
  destruct rs as [|a [|b [|d [|e rest]]]]; simpl.
  - split; [discriminate | tauto].
  - split; [discriminate | tauto].
  - (* two fields *)
    destruct (String.eqb_spec (print (f_type a)) "*http.Response") as [Ha|Ha]; simpl.
    + destruct (String.eqb_spec (print (f_type b)) "error") as [Hb|Hb]; simpl.
      * split.
        -- intros H; inversion H; subst; simpl; auto.
        -- intros (_ & Hn & Hr). destruct c as [cr cn]; simpl in *; subst; reflexivity.
      * split; [discriminate | tauto].
    + split; [discriminate | tauto].
  - (* three fields *)
    destruct (String.eqb_spec (print (f_type b)) "*http.Response") as [Hb|Hb]; simpl.
    + destruct (String.eqb_spec (print (f_type d)) "error") as [Hd|Hd]; simpl.
      * destruct (f_names a) as [|nm nms] eqn:Hn.
        -- destruct (get_return_type_name (f_type a)) as [f|rr] eqn:Hg.
           ++ split; [discriminate|]. intros ((_ & _ & _ & Hs) & _).
              destruct (f_type a) as [| | |[l|]| |]; simpl in *; discriminate.
           ++ apply get_return_type_name_ok in Hg as [Hs Hrr]. split.
              ** intros H; inversion H; subst; simpl. repeat split; auto.
                 destruct (f_type a); reflexivity.
              ** intros (_ & Hcn & Hcr). destruct c as [cr cn]; simpl in *; subst.
                 f_equal. destruct (f_type a); reflexivity.
        -- split; [discriminate|]. intros ((_ & _ & Hx & _) & _); discriminate.
      * split; [discriminate | tauto].
    + split; [discriminate | tauto].
  - split; [discriminate | tauto].
Qed.

Lemma cook_values_fatal_or_cooked : forall rs,
  (exists f, cook_values rs = inl f /\ ~ accepted rs) \/ (exists c, cook_values rs = inr c /\ accepted rs).
Proof.
  intros rs. destruct (cook_values rs) as [f|c] eqn:H.
  - left; exists f; split; auto. intros Ha.
    assert (Hc : cook_values rs = inr {| ck_result := match declared_result rs with Some rr => rr | None => ("", false) end;
                                          ck_nils := (List.length rs - 1)%nat |}).
    { apply cook_values_accepts; simpl; auto. }
    congruence.
  - right; exists c; split; auto. apply cook_values_accepts in H; tauto.
Qed.

(* why shoot refuses a signature: each fatal message characterised *)
Lemma cook_values_too_few : forall rs, (List.length rs < 2)%nat -> cook_values rs = inl FTooFew.
Proof. intros rs H. unfold cook_values. destruct (Nat.ltb_spec (List.length rs) 2); [reflexivity | lia]. Qed.

Lemma cook_values_too_many : forall rs, (3 < List.length rs)%nat -> cook_values rs = inl FTooMany.
Proof.
  intros rs H. unfold cook_values.
  destruct (Nat.ltb_spec (List.length rs) 2); [lia|].
  destruct (Nat.ltb_spec 3 (List.length rs)); [reflexivity | lia].
Qed.

Definition is_array (t : texpr) : bool :=
  match t with TArray (Some _) _ => true | _ => false end.

Lemma cook_values_unsupported : forall r a b,
  print (f_type a) = "*http.Response" -> print (f_type b) = "error" -> f_names r = [] ->
  result_shape_ok (f_type r) = false -> is_array (f_type r) = false ->
  cook_values [r; a; b] = inl (FUnsupported (node_name (f_type r))).
Proof.
  intros r a b Ha Hb Hn Hs Har. unfold cook_values, nth_type; simpl.
  rewrite Ha, Hb, Hn; simpl. destruct (f_type r) as [| | |[l|]| |]; simpl in *; try discriminate; reflexivity.
Qed.

(* an array result is refused: nil, returned by every error exit, is not a value of [n]T *)
Lemma cook_values_array : forall r a b,
  print (f_type a) = "*http.Response" -> print (f_type b) = "error" -> f_names r = [] ->
  is_array (f_type r) = true ->
  cook_values [r; a; b] = inl (FArray (print (f_type r))).
Proof.
  intros r a b Ha Hb Hn Har. unfold cook_values, nth_type; simpl.
  rewrite Ha, Hb, Hn; simpl. destruct (f_type r) as [| | |[l|]| |]; simpl in *; try discriminate; reflexivity.
Qed.

Lemma cook_values_named : forall r a b,
  print (f_type a) = "*http.Response" -> print (f_type b) = "error" -> f_names r <> [] ->
  cook_values [r; a; b] = inl FNamed.
Proof.
  intros r a b Ha Hb Hn. unfold cook_values, nth_type; simpl.
  rewrite Ha, Hb; simpl. destruct (f_names r); [contradiction | reflexivity].
Qed.

(* the template's test {{if not $result.Type}} separates exactly the
   two-value from the three-value signatures *)
Lemma declared_result_type_nonempty : forall rs ty p,
  wf_results rs = true -> declared_result rs = Some (ty, p) -> ty <> "".
Proof.
  intros rs ty p Hwf H. unfold declared_result in H.
  destruct rs as [|r [|a [|b [|? ?]]]]; try discriminate.
  simpl in Hwf. apply andb_true_iff in Hwf as [Hr _].
  pose proof (print_nonempty (f_type r) Hr) as Hp.
  destruct (f_type r) as [n|pk n|x|len e|k v|nd pr]; simpl in *; inversion H; subst; clear H; try exact Hp.
  apply print_nonempty; assumption.
Qed.

(* ------------------------------------------------------------------ *)
(* the status switch                                                    *)

Section Run.
Variable V X : Type.
Variable decode : string -> body X -> dec_out V X.

Notation slot := (slot V X).
Notation err := (err X).

Definition status_error (s : Z) (b : body X) : option err :=
  match class_of s with
  | Success => None
  | ClientError => Some (EText ("client error " ++ dec s ++ ": " ++ b_data b))
  | ServerError => Some (EText ("server error " ++ dec s ++ ": " ++ b_data b))
  | Unsupported => Some (EText ("not supported error " ++ dec s))
  end.

Lemma classify_spec : forall s (b : body X), fst (classify s b) = status_error s b.
Proof.
  intros s b. unfold classify, status_error, class_of, read_all.
  rewrite !Z.geb_leb.
  destruct (Z.leb_spec 500 s), (Z.leb_spec 400 s), (Z.leb_spec 300 s), (Z.ltb_spec s 200),
           (Z.leb_spec 200 s), (Z.ltb_spec s 300), (Z.ltb_spec s 500); simpl; try reflexivity; lia.
Qed.

Lemma class_of_success : forall s, class_of s = Success <-> 200 <= s < 300.
Proof.
  intros s. unfold class_of.
  destruct (Z.leb_spec 200 s), (Z.ltb_spec s 300), (Z.leb_spec 400 s), (Z.ltb_spec s 500), (Z.leb_spec 500 s);
    simpl; split; intros; try discriminate; try lia; reflexivity.
Qed.
Lemma class_of_client : forall s, class_of s = ClientError <-> 400 <= s < 500.
Proof.
  intros s. unfold class_of.
  destruct (Z.leb_spec 200 s), (Z.ltb_spec s 300), (Z.leb_spec 400 s), (Z.ltb_spec s 500), (Z.leb_spec 500 s);
    simpl; split; intros; try discriminate; try lia; reflexivity.
Qed.
Lemma class_of_server : forall s, class_of s = ServerError <-> 500 <= s.
Proof.
  intros s. unfold class_of.
  destruct (Z.leb_spec 200 s), (Z.ltb_spec s 300), (Z.leb_spec 400 s), (Z.ltb_spec s 500), (Z.leb_spec 500 s);
    simpl; split; intros; try discriminate; try lia; reflexivity.
Qed.
Lemma class_of_unsupported : forall s, class_of s = Unsupported <-> s < 200 \/ 300 <= s < 400.
Proof.
  intros s. unfold class_of.
  destruct (Z.leb_spec 200 s), (Z.ltb_spec s 300), (Z.leb_spec 400 s), (Z.ltb_spec s 500), (Z.leb_spec 500 s);
    simpl; split; intros; try discriminate; try lia; reflexivity.
Qed.

Lemma status_error_none_iff : forall s (b : body X), status_error s b = None <-> 200 <= s < 300.
Proof.
  intros s b. rewrite <- class_of_success. unfold status_error.
  destruct (class_of s); split; intros; try discriminate; reflexivity.
Qed.

(* which events touch the body: ReadAll exactly for 4xx and >= 500 *)
Lemma classify_events : forall s (b : body X),
  snd (classify s b) = match class_of s with ClientError | ServerError => [BReadAll] | _ => [] end.
Proof.
  intros s b. unfold classify, class_of.
  rewrite !Z.geb_leb.
  destruct (Z.leb_spec 500 s), (Z.leb_spec 400 s), (Z.leb_spec 300 s), (Z.ltb_spec s 200),
           (Z.leb_spec 200 s), (Z.ltb_spec s 300), (Z.ltb_spec s 500); simpl; try reflexivity; lia.
Qed.

(* ------------------------------------------------------------------ *)
(* the declarative account of what a method returns                     *)

(* Do did not return a response together with an error *)
Definition no_both (o : outcome X) : bool :=
  match o with OBoth _ _ => false | _ => true end.

Definition err_slot (e : option err) : slot :=
  match e with Some e => SErr e | None => SNil end.

Definition spec_returns (rs : list field) (o : outcome X) : list slot :=
  match o with
  | OFail _ x => (repeat SNil (List.length rs - 1) ++ [SErr (EForeign x)])%list
  | OBoth r x =>
      (* what the property text demands when Do hands back a response together with its error
         (redirect failure): the response next to the error, no result *)
      match declared_result rs with
      | None => [SResp r; SErr (EForeign x)]
      | Some _ => [SNil; SResp r; SErr (EForeign x)]
      end
  | OResp r =>
      let e := status_error (r_status r) (r_body r) in
      match declared_result rs with
      | None => [SResp r; err_slot e]
      | Some (ty, isptr) =>
          match e with
          | Some e => [SNil; SResp r; SErr e]
          | None =>
              match decode ty (r_body r) with
              | (_, Some (DOther x)) => [SNil; SResp r; SErr (EForeign x)]
              | (v, _) => [if isptr then SAddr v else SVal v; SResp r; SNil]
              end
          end
      end
  end.

Definition spec_events (rs : list field) (o : outcome X) : list bevent :=
  match o with
  | OFail _ _ => []
  | OBoth _ _ => []          (* net/http has closed that body already *)
  | OResp r =>
      match class_of (r_status r) with
      | ClientError | ServerError => [BReadAll; BClose]
      | Unsupported => [BClose]
      | Success => match declared_result rs with None => [BClose] | Some _ => [BDecode; BClose] end
      end
  end.

(* ------------------------------------------------------------------ *)
(* consequences in the words of the property                            *)

Section Accepted.
Variable rs : list field.
Hypothesis Hwf : wf_results rs = true.
Hypothesis Hacc : accepted rs.

Lemma accepted_length : List.length rs = 2%nat \/ List.length rs = 3%nat.
Proof. destruct rs as [|a [|b [|d [|e rest]]]]; simpl in *; try contradiction; auto. Qed.

Lemma declared_result_none_iff : declared_result rs = None <-> List.length rs = 2%nat.
Proof.
  destruct rs as [|a [|b [|d [|e rest]]]]; simpl in *; try contradiction.
  - split; auto.
  - split; [|discriminate]. destruct (f_type a); discriminate.
Qed.

(* the returned tuple always reads as (result?, response, error), and it has a
   result position exactly when the signature declares one *)
Lemma returns_view : forall o, exists rv,
  view (spec_returns rs o) = Some rv /\
  (rv_result rv = None <-> declared_result rs = None).
Proof.
  intros o. unfold spec_returns. destruct o as [st x|r|r x].
  3:{ destruct (declared_result rs) as [[ty p]|]; eexists; (split; [reflexivity|]); simpl; split; try discriminate; tauto. }
  - destruct accepted_length as [H|H]; rewrite H; simpl.
    + eexists; split; [reflexivity|]. simpl. apply declared_result_none_iff in H. tauto.
    + eexists; split; [reflexivity|]. simpl. split; [discriminate|].
      intros Hd. apply declared_result_none_iff in Hd. lia.
  - destruct (declared_result rs) as [[ty p]|].
    + destruct (status_error (r_status r) (r_body r)).
      * eexists; split; [reflexivity|]. simpl; split; discriminate.
      * destruct (decode ty (r_body r)) as [v [[|x]|]]; eexists; (split; [reflexivity|]); simpl; split; discriminate.
    + eexists; split; [reflexivity|]. simpl; tauto.
Qed.

(* transport (or earlier) failure: every position nil, the error unchanged *)
Lemma fail_returns : forall st x,
  spec_returns rs (OFail st x) = (repeat SNil (List.length rs - 1) ++ [SErr (EForeign x)])%list.
Proof. reflexivity. Qed.

Lemma fail_view : forall st x rv,
  view (spec_returns rs (OFail st x)) = Some rv ->
  rv_err rv = SErr (EForeign x) /\ rv_resp rv = SNil /\
  (rv_result rv = None \/ rv_result rv = Some SNil).
Proof.
  intros st x rv. rewrite fail_returns.
  destruct accepted_length as [H|H]; rewrite H; simpl; intros Hv; inversion Hv; subst; simpl; auto.
Qed.

(* once a response was received it is returned, with or without an error *)
Lemma response_always_returned : forall r rv,
  view (spec_returns rs (OResp r)) = Some rv -> rv_resp rv = SResp r.
Proof.
  intros r rv. unfold spec_returns.
  destruct (declared_result rs) as [[ty p]|].
  - destruct (status_error (r_status r) (r_body r)).
    + simpl; intros H; inversion H; reflexivity.
    + destruct (decode ty (r_body r)) as [v [[|x]|]]; simpl; intros H; inversion H; reflexivity.
  - simpl; intros H; inversion H; reflexivity.
Qed.

(* the ideal also for a response that comes together with an error *)
Lemma response_returned_with_error : forall r x rv,
  view (spec_returns rs (OBoth r x)) = Some rv ->
  rv_resp rv = SResp r /\ rv_err rv = SErr (EForeign x) /\ (rv_result rv = None \/ rv_result rv = Some SNil).
Proof.
  intros r x rv. unfold spec_returns.
  destruct (declared_result rs) as [[ty p]|]; simpl; intros H; inversion H; subst; simpl; auto.
Qed.

(* nil error exactly for 2xx whose body decodes (io.EOF counts as decoding) *)
Lemma nil_error_iff : forall o rv,
  view (spec_returns rs o) = Some rv ->
  (rv_err rv = SNil <->
   exists r, o = OResp r /\ 200 <= r_status r < 300 /\
     match declared_result rs with
     | None => True
     | Some (ty, _) => forall x, snd (decode ty (r_body r)) <> Some (DOther x)
     end).
Proof.
  intros o rv. destruct o as [st x|r|r x].
  3:{ unfold spec_returns. destruct (declared_result rs) as [[ty p]|]; simpl; intros H; inversion H; subst; simpl;
      (split; [discriminate | intros (r' & Hr & _); discriminate]). }
  - intros Hv. apply fail_view in Hv as (He & _). rewrite He. split; [discriminate|].
    intros (r & Hr & _); discriminate.
  - unfold spec_returns.
    pose proof (status_error_none_iff (r_status r) (r_body r)) as Hs.
    destruct (declared_result rs) as [[ty p]|].
    + destruct (status_error (r_status r) (r_body r)) as [e|].
      * simpl; intros H; inversion H; subst; simpl. split; [discriminate|].
        intros (r' & Hr & Hrange & _). inversion Hr; subst. apply Hs in Hrange. discriminate.
      * destruct (decode ty (r_body r)) as [v [[|x]|]] eqn:Hd; simpl; intros H; inversion H; subst; simpl.
        -- split; auto. intros _. exists r. split; auto. split; [apply Hs; reflexivity|].
           rewrite Hd; simpl. discriminate.
        -- split; [discriminate|]. intros (r' & Hr & _ & Hx). inversion Hr; subst.
           rewrite Hd in Hx. exfalso. apply (Hx x). reflexivity.
        -- split; auto. intros _. exists r. split; auto. split; [apply Hs; reflexivity|].
           rewrite Hd; simpl. discriminate.
    + simpl; intros H; inversion H; subst; simpl.
      destruct (status_error (r_status r) (r_body r)) as [e|]; simpl.
      * split; [discriminate|]. intros (r' & Hr & Hrange & _). inversion Hr; subst.
        apply Hs in Hrange. discriminate.
      * split; auto. intros _. exists r. split; auto. split; auto. apply Hs; reflexivity.
Qed.

(* the error text for each class of status, for EVERY status in Z *)
Lemma status_error_returned : forall r rv e,
  view (spec_returns rs (OResp r)) = Some rv ->
  status_error (r_status r) (r_body r) = Some e ->
  rv_err rv = SErr e /\ rv_resp rv = SResp r /\ (rv_result rv = None \/ rv_result rv = Some SNil).
Proof.
  intros r rv e. unfold spec_returns. intros Hv He. rewrite He in Hv.
  destruct (declared_result rs) as [[ty p]|]; simpl in Hv; inversion Hv; subst; simpl; auto.
Qed.

(* result nil on EVERY error path *)
Lemma error_means_nil_result : forall o rv,
  view (spec_returns rs o) = Some rv -> rv_err rv <> SNil ->
  rv_result rv = None \/ rv_result rv = Some SNil.
Proof.
  intros o rv Hv Hne. destruct o as [st x|r|r x].
  3:{ unfold spec_returns in Hv. destruct (declared_result rs) as [[ty p]|]; inversion Hv; subst; simpl; auto. }
  - apply fail_view in Hv; tauto.
  - unfold spec_returns in Hv.
    destruct (declared_result rs) as [[ty p]|].
    + destruct (status_error (r_status r) (r_body r)).
      * inversion Hv; subst; simpl; auto.
      * destruct (decode ty (r_body r)) as [v [[|x]|]]; inversion Hv; subst; simpl in *; auto; contradiction.
    + inversion Hv; subst; simpl; auto.
Qed.

(* 2xx: the decoded value is the result (its address for a declared pointer) *)
Lemma success_returns : forall r ty p v de,
  200 <= r_status r < 300 -> declared_result rs = Some (ty, p) ->
  decode ty (r_body r) = (v, de) -> (forall x, de <> Some (DOther x)) ->
  spec_returns rs (OResp r) = [if p then SAddr v else SVal v; SResp r; SNil].
Proof.
  intros r ty p v de Hr Hd Hdec Hok. unfold spec_returns. rewrite Hd.
  apply (status_error_none_iff _ (r_body r)) in Hr. rewrite Hr, Hdec.
  destruct de as [[|x]|]; try reflexivity. exfalso; apply (Hok x); reflexivity.
Qed.

Lemma success_no_result : forall r,
  200 <= r_status r < 300 -> declared_result rs = None ->
  spec_returns rs (OResp r) = [SResp r; SNil].
Proof.
  intros r Hr Hd. unfold spec_returns. rewrite Hd.
  apply (status_error_none_iff _ (r_body r)) in Hr. rewrite Hr. reflexivity.
Qed.

Lemma decode_error_returns : forall r ty p v x,
  200 <= r_status r < 300 -> declared_result rs = Some (ty, p) ->
  decode ty (r_body r) = (v, Some (DOther x)) ->
  spec_returns rs (OResp r) = [SNil; SResp r; SErr (EForeign x)].
Proof.
  intros r ty p v x Hr Hd Hdec. unfold spec_returns. rewrite Hd.
  apply (status_error_none_iff _ (r_body r)) in Hr. rewrite Hr, Hdec. reflexivity.
Qed.

(* the number of returned values is the number of FIELDS of the result list;
   it is the declared number of values when no field has two names *)
Lemma returns_length : forall o, List.length (spec_returns rs o) = List.length rs.
Proof.
  intros o. destruct (returns_view o) as (rv & Hv & Hiff).
  destruct o as [st x|r|r x].
  3:{ unfold spec_returns. destruct (declared_result rs) as [[ty p]|] eqn:Hd; simpl.
      - destruct accepted_length as [H|H]; auto. apply declared_result_none_iff in H. congruence.
      - apply declared_result_none_iff in Hd. lia. }
  - rewrite fail_returns, app_length, repeat_length; simpl. destruct accepted_length; lia.
  - unfold spec_returns in *. destruct (declared_result rs) as [[ty p]|] eqn:Hd.
    + assert (List.length rs = 3%nat).
      { destruct accepted_length as [H|H]; auto. apply declared_result_none_iff in H. congruence. }
      destruct (status_error (r_status r) (r_body r)); [simpl; lia|].
      destruct (decode ty (r_body r)) as [v [[|x]|]]; simpl; lia.
    + apply declared_result_none_iff in Hd. simpl; lia.
Qed.

End Accepted.

(* the literal pipeline (cook_values, the rendered statements, their
   execution) refines the declarative account *)
(* what the code does when Do returns a response together with an error: exactly what it
   does when Do returns only the error -- the response is dropped *)
Lemma eval_all_errret : forall (s1 s2 : mstate V X) n,
  m_err V X s1 = m_err V X s2 ->
  eval_all V X s1 (repeat XNil n ++ [XErr]) = eval_all V X s2 (repeat XNil n ++ [XErr]).
Proof.
  intros s1 s2 n He. induction n as [|n IH]; simpl.
  - rewrite He. reflexivity.
  - rewrite IH. reflexivity.
Qed.

Lemma method_values_both_is_fail : forall bv rs r x,
  method_values decode bv rs (OBoth r x) = method_values decode bv rs (OFail StDo x).
Proof.
  intros bv rs r x. unfold method_values. destruct (cook_values rs) as [f|c]; [reflexivity|].
  f_equal. unfold emit, errret. destruct (ck_result c) as [ty p].
  destruct bv; cbn; unfold do_return;
    rewrite (eval_all_errret (set_err V X (set_resp V X m0 r) (Some (EForeign x)))
                             (set_err V X m0 (Some (EForeign x))) (ck_nils c) eq_refl);
    reflexivity.
Qed.

Lemma method_values_refines_spec : forall bv rs o,
  wf_results rs = true -> accepted rs -> scenario_ok bv o = true -> no_both o = true ->
  method_values decode bv rs o = inr (Some (spec_returns rs o, spec_events rs o)).
Proof.
  intros bv rs o Hwf Hacc Hsc Hnb. unfold method_values.
  destruct (cook_values_fatal_or_cooked rs) as [(f & _ & Hn)|(c & Hc & _)]; [contradiction|].
  rewrite Hc. apply cook_values_accepts in Hc as (_ & Hnils & Hres). do 2 f_equal.
  destruct c as [[cty cptr] cn]; simpl in Hnils, Hres; subst cn.
  unfold emit, errret; cbn [ck_result ck_nils].
  destruct (declared_result rs) as [[ty p]|] eqn:Hd.
  - (* a result is declared: three fields *)
    pose proof (declared_result_type_nonempty rs ty p Hwf Hd) as Hne.
    inversion Hres; subst cty cptr; clear Hres.
    destruct (String.eqb_spec ty ""); [contradiction|].
    assert (Hlen : List.length rs = 3%nat).
    { destruct (accepted_length rs Hwf Hacc) as [H|H]; auto.
      apply (declared_result_none_iff rs Hwf Hacc) in H. congruence. }
    rewrite Hlen. unfold spec_returns, spec_events. rewrite Hd, Hlen.
    destruct o as [st x|r|r x]; [| |discriminate Hnb].
    + destruct st, bv; try discriminate Hsc; reflexivity.
    + pose proof (classify_spec (r_status r) (r_body r)) as Hcl.
      pose proof (classify_events (r_status r) (r_body r)) as Hev.
      destruct bv; cbn -[classify];
        destruct (classify (r_status r) (r_body r)) as [e ev]; simpl in Hcl, Hev; subst e ev;
        unfold status_error; destruct (class_of (r_status r)); cbn; try reflexivity;
        destruct (decode ty (r_body r)) as [v [[|x]|]]; cbn; destruct p; reflexivity.
  - (* no result: two fields *)
    inversion Hres; subst cty cptr; clear Hres.
    assert (Hlen : List.length rs = 2%nat) by (apply (declared_result_none_iff rs Hwf Hacc); assumption).
    rewrite Hlen. unfold spec_returns, spec_events. rewrite Hd, Hlen.
    destruct o as [st x|r|r x]; [| |discriminate Hnb].
    + destruct st, bv; try discriminate Hsc; reflexivity.
    + pose proof (classify_spec (r_status r) (r_body r)) as Hcl.
      pose proof (classify_events (r_status r) (r_body r)) as Hev.
      destruct bv; cbn -[classify];
        destruct (classify (r_status r) (r_body r)) as [e ev]; simpl in Hcl, Hev; subst e ev;
        unfold status_error; destruct (class_of (r_status r)); reflexivity.
Qed.

(* a rejected signature yields no method at all *)
Lemma method_values_rejected : forall bv rs o,
  ~ accepted rs -> exists f, method_values decode bv rs o = inl f.
Proof.
  intros bv rs o Hn. unfold method_values.
  destruct (cook_values_fatal_or_cooked rs) as [(f & Hf & _)|(c & _ & Ha)]; [|contradiction].
  exists f. rewrite Hf. reflexivity.
Qed.

(* the body is closed exactly once, as the last thing, on every path that
   received a response; it is read exactly for 4xx, >= 500 and a decoded 2xx *)
Lemma events_close_last : forall rs r,
  exists pre, spec_events rs (OResp r) = (pre ++ [BClose])%list /\ ~ In BClose pre.
Proof.
  intros rs r. unfold spec_events.
  destruct (class_of (r_status r)).
  - destruct (declared_result rs).
    + exists [BDecode]; split; [reflexivity|]. simpl; intros [H|[]]; discriminate.
    + exists []; split; [reflexivity|]. simpl; tauto.
  - exists [BReadAll]; split; [reflexivity|]. simpl; intros [H|[]]; discriminate.
  - exists [BReadAll]; split; [reflexivity|]. simpl; intros [H|[]]; discriminate.
  - exists []; split; [reflexivity|]. simpl; tauto.
Qed.

End Run.

Lemma declared_arity_single : forall rs,
  single_names rs = true -> declared_arity rs = List.length rs.
Proof.
  induction rs as [|f rs IH]; simpl; intros H; [reflexivity|].
  apply andb_true_iff in H as [Hf Hr]. rewrite (IH Hr).
  destruct (f_names f) as [|a [|b l]]; simpl in *; try reflexivity. discriminate.
Qed.

(* ------------------------------------------------------------------ *)
(* nil must be a value of the declared result type                      *)

Definition result_type_nilable (rs : list field) : bool :=
  match rs with
  | [r; _; _] => nilable (f_type r)
  | _ => true
  end.

Lemma accepted_nilable : forall rs, accepted rs -> result_type_nilable rs = true.
Proof.
  intros rs Ha. destruct rs as [|r [|a [|b [|? ?]]]]; simpl in *; try reflexivity.
  destruct Ha as (_ & _ & _ & Hs). destruct (f_type r) as [| | |[l|]| |]; simpl in *; try discriminate; reflexivity.
Qed.

(* ------------------------------------------------------------------ *)
(* decimal printing: the message quotes the status faithfully           *)

Local Arguments digit : simpl never.
Local Arguments Z.pow : simpl never.
Local Arguments Z.mul : simpl never.
Local Arguments Z.div : simpl never.
Local Arguments Z.modulo : simpl never.

Definition is_digit_c (c : ascii) : bool := (48 <=? nat_of_ascii c)%nat && (nat_of_ascii c <=? 57)%nat.

Fixpoint all_digits (s : string) : bool :=
  match s with
  | EmptyString => true
  | String c s' => is_digit_c c && all_digits s'
  end.

(* value of a digit string, most significant first *)
Fixpoint undec_acc (s : string) (acc : Z) : Z :=
  match s with
  | EmptyString => acc
  | String c s' => undec_acc s' (acc * 10 + (Z.of_nat (nat_of_ascii c) - 48))
  end.

Definition undec (s : string) : Z :=
  match s with
  | String "-" s' => - undec_acc s' 0
  | _ => undec_acc s 0
  end.

Lemma digit_code : forall d, 0 <= d < 10 -> Z.of_nat (nat_of_ascii (digit d)) - 48 = d.
Proof.
  intros d Hd. unfold digit. rewrite nat_ascii_embedding; lia.
Qed.

Lemma digit_is_digit : forall d, 0 <= d < 10 -> is_digit_c (digit d) = true.
Proof.
  intros d Hd. unfold is_digit_c, digit. rewrite nat_ascii_embedding by lia.
  apply andb_true_iff; split; [apply Nat.leb_le | apply Nat.leb_le]; lia.
Qed.

Lemma all_digits_single : forall c, is_digit_c c = true -> all_digits (String c "") = true.
Proof. intros c H. simpl. rewrite H. reflexivity. Qed.

Lemma undec_acc_single : forall c a, undec_acc (String c "") a = a * 10 + (Z.of_nat (nat_of_ascii c) - 48).
Proof. reflexivity. Qed.

Lemma undec_acc_app : forall s t acc, undec_acc (s ++ t) acc = undec_acc t (undec_acc s acc).
Proof. induction s as [|c s IH]; simpl; intros; [reflexivity | apply IH]. Qed.

Lemma sapp_assoc : forall a b c : string, (a ++ b) ++ c = a ++ (b ++ c).
Proof. induction a as [|x a IH]; simpl; intros; [reflexivity | rewrite IH; reflexivity]. Qed.

Lemma slength_app : forall s t : string, String.length (s ++ t) = (String.length s + String.length t)%nat.
Proof. induction s as [|c s IHs]; simpl; intros; [reflexivity | rewrite IHs; reflexivity]. Qed.

(* dec_digits prepends to its accumulator *)
Lemma dec_digits_acc : forall fuel n acc, dec_digits fuel n acc = dec_digits fuel n "" ++ acc.
Proof.
  induction fuel as [|f IH]; intros n acc; simpl; [reflexivity|].
  destruct (n / 10 =? 0).
  - reflexivity.
  - rewrite IH. rewrite (IH (n / 10) (String (digit (n mod 10)) "")).
    rewrite sapp_assoc. reflexivity.
Qed.

Lemma all_digits_app : forall s t, all_digits (s ++ t) = all_digits s && all_digits t.
Proof. induction s as [|c s IH]; simpl; intros; [reflexivity|]. rewrite IH, andb_assoc. reflexivity. Qed.

Lemma dec_digits_ok : forall fuel n,
  0 < n -> n < 2 ^ Z.of_nat fuel ->
  all_digits (dec_digits fuel n "") = true /\
  dec_digits fuel n "" <> "" /\
  forall a0, undec_acc (dec_digits fuel n "") a0 = a0 * 10 ^ Z.of_nat (String.length (dec_digits fuel n "")) + n.
Proof.
  induction fuel as [|f IH]; intros n Hn Hlt.
  - simpl in Hlt. lia.
  - simpl. assert (Hmod : 0 <= n mod 10 < 10) by (apply Z.mod_pos_bound; lia).
    destruct (Z.eqb_spec (n / 10) 0) as [Hq|Hq].
    + assert (n = n mod 10) by (rewrite (Z.div_mod n 10) at 1 by lia; rewrite Hq; lia).
      split; [|split].
      * apply all_digits_single, digit_is_digit; assumption.
      * discriminate.
      * intros a0. rewrite undec_acc_single, digit_code by assumption.
        change (String.length (String (digit (n mod 10)) "")) with 1%nat.
        change (Z.of_nat 1) with 1. rewrite Z.pow_1_r. lia.
    + assert (Hq0 : 0 < n / 10).
      { assert (0 <= n / 10) by (apply Z.div_pos; lia). lia. }
      assert (Hqlt : n / 10 < 2 ^ Z.of_nat f).
      { rewrite Nat2Z.inj_succ, Z.pow_succ_r in Hlt by lia.
        apply Z.div_lt_upper_bound; lia. }
      destruct (IH (n / 10) Hq0 Hqlt) as (Hd & Hne & Hval).
      rewrite dec_digits_acc. split; [|split].
      * rewrite all_digits_app, Hd. rewrite all_digits_single by (apply digit_is_digit; assumption). reflexivity.
      * intros H. apply append_nil_inv in H as [H _]. contradiction.
      * intros a0. rewrite undec_acc_app, Hval, undec_acc_single.
        rewrite digit_code by assumption.
        rewrite slength_app.
        change (String.length (String (digit (n mod 10)) "")) with 1%nat.
        rewrite Nat2Z.inj_add. change (Z.of_nat 1) with 1.
        rewrite Z.pow_add_r by lia. rewrite Z.pow_1_r.
        pose proof (Z.div_mod n 10 ltac:(lia)) as Hdm.
        set (L := 10 ^ Z.of_nat (String.length (dec_digits f (n / 10) ""))) in *.
        set (q := n / 10) in *. set (m := n mod 10) in *. rewrite Hdm. ring.
Qed.

Lemma log2_fuel : forall n, 0 < n -> n < 2 ^ Z.of_nat (S (Z.to_nat (Z.log2 n))).
Proof.
  intros n Hn. rewrite Nat2Z.inj_succ, Z2Nat.id by apply Z.log2_nonneg.
  apply Z.log2_spec. assumption.
Qed.

Lemma dec_nonneg_zero : dec_nonneg 0 = "0".
Proof. reflexivity. Qed.

Lemma dec_nonneg_ok : forall n, 0 <= n ->
  all_digits (dec_nonneg n) = true /\ dec_nonneg n <> "" /\ undec_acc (dec_nonneg n) 0 = n.
Proof.
  intros n Hn. destruct (Z.eq_dec n 0) as [->|Hnz].
  - rewrite dec_nonneg_zero. simpl. repeat split; discriminate.
  - unfold dec_nonneg. destruct (dec_digits_ok (S (Z.to_nat (Z.log2 n))) n) as (Hd & Hne & Hval);
      [lia | apply log2_fuel; lia |].
    repeat split; auto. rewrite Hval. lia.
Qed.

(* a digit string does not start with '-' *)
Lemma all_digits_no_minus : forall s, all_digits (String "-" s) = false.
Proof. reflexivity. Qed.

Lemma undec_dec : forall z, undec (dec z) = z.
Proof.
  intros z. unfold dec. destruct (Z.ltb_spec z 0) as [Hneg|Hpos].
  - simpl. destruct (dec_nonneg_ok (- z)) as (_ & _ & Hv); [lia|]. rewrite Hv. lia.
  - destruct (dec_nonneg_ok z Hpos) as (Hd & Hne & Hv).
    unfold undec. destruct (dec_nonneg z) as [|c s] eqn:He; [contradiction|].
    destruct (ascii_dec c "-") as [->|Hc].
    + simpl in Hd. discriminate.
    + assert (Hgoal : undec_acc (String c s) 0 = z) by exact Hv.
      destruct c as [[] [] [] [] [] [] [] []]; try exact Hgoal; try (exfalso; apply Hc; reflexivity).
Qed.

Lemma dec_injective : forall a b, dec a = dec b -> a = b.
Proof. intros a b H. rewrite <- (undec_dec a), <- (undec_dec b), H. reflexivity. Qed.

(* no ':' in a printed number *)
Fixpoint no_colon (s : string) : bool :=
  match s with
  | EmptyString => true
  | String c s' => negb (Ascii.eqb c ":") && no_colon s'
  end.

Lemma all_digits_no_colon : forall s, all_digits s = true -> no_colon s = true.
Proof.
  induction s as [|c s IH]; simpl; intros H; [reflexivity|].
  apply andb_true_iff in H as [Hc Hs]. rewrite (IH Hs), andb_true_r.
  destruct (Ascii.eqb_spec c ":") as [->|]; [discriminate | reflexivity].
Qed.

Lemma dec_no_colon : forall z, no_colon (dec z) = true.
Proof.
  intros z. unfold dec. destruct (Z.ltb_spec z 0).
  - simpl. apply all_digits_no_colon. apply dec_nonneg_ok. lia.
  - apply all_digits_no_colon. apply dec_nonneg_ok. lia.
Qed.

Lemma split_at_colon : forall u u' r r',
  no_colon u = true -> no_colon u' = true ->
  u ++ String ":" r = u' ++ String ":" r' -> u = u' /\ r = r'.
Proof.
  induction u as [|c u IH]; intros [|c' u'] r r' Hu Hu' H; simpl in *.
  - inversion H; auto.
  - inversion H; subst. rewrite Ascii.eqb_refl in Hu'. discriminate.
  - inversion H; subst. rewrite Ascii.eqb_refl in Hu. discriminate.
  - inversion H; subst. apply andb_true_iff in Hu as [_ Hu]. apply andb_true_iff in Hu' as [_ Hu'].
    destruct (IH u' r r' Hu Hu' H2) as [-> ->]. auto.
Qed.

Lemma append_inj_prefix : forall p a b : string, p ++ a = p ++ b -> a = b.
Proof. induction p as [|c p IH]; simpl; intros a b H; [assumption|]. inversion H. auto. Qed.

(* the status and the body can be read back from a client/server error text *)
Lemma quoted_text_injective : forall (kind : string) s s' b b',
  kind ++ dec s ++ ": " ++ b = kind ++ dec s' ++ ": " ++ b' -> s = s' /\ b = b'.
Proof.
  intros kind s s' b b' H. apply append_inj_prefix in H.
  change (": " ++ b) with (String ":" (String " " b)) in H.
  change (": " ++ b') with (String ":" (String " " b')) in H.
  apply split_at_colon in H; try apply dec_no_colon.
  destruct H as [Hd Hb]. inversion Hb. split; [apply dec_injective; assumption | reflexivity].
Qed.

Lemma unsupported_text_injective : forall s s',
  "not supported error " ++ dec s = "not supported error " ++ dec s' -> s = s'.
Proof. intros s s' H. apply append_inj_prefix in H. apply dec_injective; assumption. Qed.

(* ------------------------------------------------------------------ *)
(* the same facts, stated on the literal pipeline [method_values]      *)
(* (cook_values + the semantics of the template's tail)                *)

Section Literal.
Variable V X : Type.
Variable decode : string -> body X -> dec_out V X.

(* what the code makes of a scenario: a response that comes together with an error is
   handled like the error alone *)
Definition as_code (o : outcome X) : outcome X :=
  match o with OBoth _ x => OFail StDo x | _ => o end.

Lemma method_values_as_code : forall bv rs o,
  method_values decode bv rs o = method_values decode bv rs (as_code o).
Proof. intros bv rs [st x|r|r x]; try reflexivity. apply method_values_both_is_fail. Qed.

Lemma as_code_resp : forall o r, as_code o = OResp r <-> o = OResp r.
Proof. intros [st x|r0|r0 x] r; simpl; split; intros H; try discriminate; assumption. Qed.

Lemma method_values_inv : forall bv rs o slots ev,
  wf_results rs = true ->
  method_values decode bv rs o = inr (Some (slots, ev)) ->
  accepted rs /\ scenario_ok bv o = true /\
  slots = spec_returns V X decode rs (as_code o) /\ ev = spec_events X rs (as_code o).
Proof.
  intros bv rs o slots ev Hwf H.
  assert (Hacc : accepted rs).
  { unfold method_values in H. destruct (cook_values rs) as [f|c] eqn:Hc; [discriminate|].
    apply cook_values_accepts in Hc; tauto. }
  rewrite method_values_as_code in H.
  assert (Hsame : scenario_ok bv (as_code o) = scenario_ok bv o) by (destruct o as [[] ?|?|? ?]; reflexivity).
  rewrite <- Hsame.
  assert (Hnb : no_both X (as_code o) = true) by (destruct o; reflexivity).
  revert H Hnb. generalize (as_code o). clear Hsame o. intros o H Hnb.
  destruct (scenario_ok bv o) eqn:Hsc.
  - rewrite (method_values_refines_spec V X decode bv rs o Hwf Hacc Hsc Hnb) in H. inversion H; auto.
  - (* the failing call is not part of the method: nothing is returned *)
    exfalso. destruct o as [[] x|r|r x]; try discriminate Hsc. destruct bv; [discriminate Hsc|].
    unfold method_values in H. destruct (cook_values rs) as [f|c]; [discriminate|].
    inversion H as [H1]. unfold emit in H1. destruct (ck_result c) as [ty p].
    cbn in H1. destruct (String.eqb ty ""); discriminate H1.
Qed.

(* a client method exists exactly for the accepted signatures *)
Lemma mr_exists_iff : forall bv rs o,
  wf_results rs = true -> scenario_ok bv o = true ->
  ((exists res, method_values decode bv rs o = inr (Some res)) <-> accepted rs).
Proof.
  intros bv rs o Hwf Hsc. split.
  - intros ([slots ev] & H). apply method_values_inv in H; tauto.
  - intros Hacc. eexists. rewrite method_values_as_code. apply method_values_refines_spec; try assumption.
    + destruct o as [[] ?|?|? ?]; try assumption; reflexivity.
    + destruct o; reflexivity.
Qed.

(* a json.Marshal failure cannot happen in a method that sends no body *)
Lemma mr_impossible_scenario : forall rs x,
  wf_results rs = true -> accepted rs ->
  method_values decode false rs (OFail StMarshal x) = inr None.
Proof.
  intros rs x Hwf Hacc. unfold method_values.
  destruct (cook_values_fatal_or_cooked rs) as [(f & _ & Hn)|(c & Hc & _)]; [contradiction|].
  rewrite Hc. unfold emit. destruct (ck_result c) as [ty p]. cbn. destruct (String.eqb ty ""); reflexivity.
Qed.

Lemma mr_view : forall bv rs o slots ev,
  wf_results rs = true -> method_values decode bv rs o = inr (Some (slots, ev)) ->
  exists rv, view slots = Some rv /\ (rv_result rv = None <-> declared_result rs = None).
Proof.
  intros bv rs o slots ev Hwf H. apply method_values_inv in H as (Hacc & _ & -> & _); auto.
  apply returns_view; assumption.
Qed.

Lemma mr_nil_error_iff : forall bv rs o slots ev rv,
  wf_results rs = true -> method_values decode bv rs o = inr (Some (slots, ev)) -> view slots = Some rv ->
  (rv_err rv = SNil <->
   exists r, o = OResp r /\ 200 <= r_status r < 300 /\
     match declared_result rs with
     | None => True
     | Some (ty, _) => forall x, snd (decode ty (r_body r)) <> Some (DOther x)
     end).
Proof.
  intros bv rs o slots ev rv Hwf H Hv. apply method_values_inv in H as (Hacc & _ & -> & _); auto.
  rewrite (nil_error_iff V X decode rs Hwf Hacc (as_code o) rv Hv).
  split; intros (r & Hr & Hrest); exists r; (split; [apply as_code_resp; assumption | assumption]).
Qed.

Lemma mr_client_error : forall bv rs r slots ev rv,
  wf_results rs = true -> method_values decode bv rs (OResp r) = inr (Some (slots, ev)) -> view slots = Some rv ->
  400 <= r_status r < 500 ->
  rv_err rv = SErr (EText ("client error " ++ dec (r_status r) ++ ": " ++ b_data (r_body r))) /\
  rv_resp rv = SResp r /\ (rv_result rv = None \/ rv_result rv = Some SNil).
Proof.
  intros bv rs r slots ev rv Hwf H Hv Hs. apply method_values_inv in H as (Hacc & _ & -> & _); auto.
  eapply status_error_returned; eauto.
  unfold status_error. apply class_of_client in Hs. rewrite Hs. reflexivity.
Qed.

Lemma mr_server_error : forall bv rs r slots ev rv,
  wf_results rs = true -> method_values decode bv rs (OResp r) = inr (Some (slots, ev)) -> view slots = Some rv ->
  500 <= r_status r ->
  rv_err rv = SErr (EText ("server error " ++ dec (r_status r) ++ ": " ++ b_data (r_body r))) /\
  rv_resp rv = SResp r /\ (rv_result rv = None \/ rv_result rv = Some SNil).
Proof.
  intros bv rs r slots ev rv Hwf H Hv Hs. apply method_values_inv in H as (Hacc & _ & -> & _); auto.
  eapply status_error_returned; eauto.
  unfold status_error. apply class_of_server in Hs. rewrite Hs. reflexivity.
Qed.

Lemma mr_unsupported : forall bv rs r slots ev rv,
  wf_results rs = true -> method_values decode bv rs (OResp r) = inr (Some (slots, ev)) -> view slots = Some rv ->
  r_status r < 200 \/ 300 <= r_status r < 400 ->
  rv_err rv = SErr (EText ("not supported error " ++ dec (r_status r))) /\
  rv_resp rv = SResp r /\ (rv_result rv = None \/ rv_result rv = Some SNil).
Proof.
  intros bv rs r slots ev rv Hwf H Hv Hs. apply method_values_inv in H as (Hacc & _ & -> & _); auto.
  eapply status_error_returned; eauto.
  unfold status_error. apply class_of_unsupported in Hs. rewrite Hs. reflexivity.
Qed.

(* every status falls in exactly one class *)
Lemma status_classes_partition : forall s : Z,
  (200 <= s < 300 /\ ~ 400 <= s < 500 /\ ~ 500 <= s /\ ~ (s < 200 \/ 300 <= s < 400)) \/
  (400 <= s < 500 /\ ~ 200 <= s < 300 /\ ~ 500 <= s /\ ~ (s < 200 \/ 300 <= s < 400)) \/
  (500 <= s /\ ~ 200 <= s < 300 /\ ~ 400 <= s < 500 /\ ~ (s < 200 \/ 300 <= s < 400)) \/
  ((s < 200 \/ 300 <= s < 400) /\ ~ 200 <= s < 300 /\ ~ 400 <= s < 500 /\ ~ 500 <= s).
Proof. intros s. lia. Qed.

Lemma mr_failure : forall bv rs st x slots ev,
  wf_results rs = true -> method_values decode bv rs (OFail st x) = inr (Some (slots, ev)) ->
  slots = (repeat SNil (List.length rs - 1) ++ [SErr (EForeign x)])%list /\ ev = [] /\
  forall rv, view slots = Some rv ->
    rv_err rv = SErr (EForeign x) /\ rv_resp rv = SNil /\ (rv_result rv = None \/ rv_result rv = Some SNil).
Proof.
  intros bv rs st x slots ev Hwf H. apply method_values_inv in H as (Hacc & _ & -> & ->); auto.
  split; [reflexivity|]. split; [reflexivity|]. intros rv Hv.
  eapply fail_view; eauto.
Qed.

Lemma mr_response_always : forall bv rs r slots ev rv,
  wf_results rs = true -> method_values decode bv rs (OResp r) = inr (Some (slots, ev)) -> view slots = Some rv ->
  rv_resp rv = SResp r.
Proof.
  intros bv rs r slots ev rv Hwf H Hv. apply method_values_inv in H as (Hacc & _ & -> & _); auto.
  eapply response_always_returned; eauto.
Qed.

Lemma mr_error_nil_result : forall bv rs o slots ev rv,
  wf_results rs = true -> method_values decode bv rs o = inr (Some (slots, ev)) -> view slots = Some rv ->
  rv_err rv <> SNil -> rv_result rv = None \/ rv_result rv = Some SNil.
Proof.
  intros bv rs o slots ev rv Hwf H Hv Hne. apply method_values_inv in H as (Hacc & _ & -> & _); auto.
  eapply error_means_nil_result; eauto.
Qed.

Lemma mr_success : forall bv rs r ty p v de slots ev,
  wf_results rs = true -> method_values decode bv rs (OResp r) = inr (Some (slots, ev)) ->
  200 <= r_status r < 300 -> declared_result rs = Some (ty, p) ->
  decode ty (r_body r) = (v, de) -> (forall x, de <> Some (DOther x)) ->
  slots = [if p then SAddr v else SVal v; SResp r; SNil].
Proof.
  intros bv rs r ty p v de slots ev Hwf H Hs Hd Hdec Hok.
  apply method_values_inv in H as (Hacc & _ & -> & _); auto.
  eapply success_returns; eauto.
Qed.

Lemma mr_success_no_result : forall bv rs r slots ev,
  wf_results rs = true -> method_values decode bv rs (OResp r) = inr (Some (slots, ev)) ->
  200 <= r_status r < 300 -> declared_result rs = None ->
  slots = [SResp r; SNil].
Proof.
  intros bv rs r slots ev Hwf H Hs Hd. apply method_values_inv in H as (Hacc & _ & -> & _); auto.
  apply success_no_result; assumption.
Qed.

(* an empty body yields the zero value, given json's behaviour on an empty stream *)
Lemma mr_empty_body : forall (zero : string -> V) bv rs r ty p slots ev,
  (forall t, decode t {| b_data := ""; b_fault := None |} = (zero t, Some DEof)) ->
  wf_results rs = true -> method_values decode bv rs (OResp r) = inr (Some (slots, ev)) ->
  200 <= r_status r < 300 -> declared_result rs = Some (ty, p) ->
  r_body r = {| b_data := ""; b_fault := None |} ->
  slots = [if p then SAddr (zero ty) else SVal (zero ty); SResp r; SNil].
Proof.
  intros zero bv rs r ty p slots ev Hlaw Hwf H Hs Hd Hb.
  apply (mr_success bv rs r ty p (zero ty) (Some DEof) slots ev); auto.
  - rewrite Hb. apply Hlaw.
  - intros x; discriminate.
Qed.

Lemma mr_decode_error : forall bv rs r ty p v x slots ev,
  wf_results rs = true -> method_values decode bv rs (OResp r) = inr (Some (slots, ev)) ->
  200 <= r_status r < 300 -> declared_result rs = Some (ty, p) ->
  decode ty (r_body r) = (v, Some (DOther x)) ->
  slots = [SNil; SResp r; SErr (EForeign x)].
Proof.
  intros bv rs r ty p v x slots ev Hwf H Hs Hd Hdec.
  apply method_values_inv in H as (Hacc & _ & -> & _); auto.
  eapply decode_error_returns; eauto.
Qed.

Lemma mr_arity : forall bv rs o slots ev,
  wf_results rs = true ->
  method_values decode bv rs o = inr (Some (slots, ev)) ->
  List.length slots = List.length rs.
Proof.
  intros bv rs o slots ev Hwf H. apply method_values_inv in H as (Hacc & _ & -> & _); auto.
  apply returns_length; assumption.
Qed.

Lemma mr_body_closed_once : forall bv rs r slots ev,
  wf_results rs = true -> method_values decode bv rs (OResp r) = inr (Some (slots, ev)) ->
  exists pre, ev = (pre ++ [BClose])%list /\ ~ In BClose pre.
Proof.
  intros bv rs r slots ev Hwf H. apply method_values_inv in H as (_ & _ & _ & ->); auto.
  apply events_close_last.
Qed.

Lemma mr_rejected : forall bv rs o, ~ accepted rs -> exists f, method_values decode bv rs o = inl f.
Proof. intros. apply method_values_rejected; assumption. Qed.

End Literal.

(* ------------------------------------------------------------------ *)
(* from values back to the declared result list                         *)

Lemma values_cons : forall f rs, values (f :: rs) = (values [f] ++ values rs)%list.
Proof. intros. unfold values; simpl. rewrite app_nil_r. reflexivity. Qed.

Lemma values_one : forall f,
  values [f] = match f_names f with
               | [] => [f]
               | ns => map (fun n => {| f_names := [n]; f_type := f_type f |}) ns
               end.
Proof. intros f. unfold values; simpl. rewrite app_nil_r. reflexivity. Qed.

Lemma wf_values : forall rs, wf_results (values rs) = wf_results rs.
Proof.
  induction rs as [|f rs IH]; [reflexivity|].
  rewrite values_cons. unfold wf_results in *. rewrite forallb_app, IH, values_one.
  change (forallb (fun f0 : field => wf_texpr (f_type f0)) (f :: rs))
    with (wf_texpr (f_type f) && forallb (fun f0 : field => wf_texpr (f_type f0)) rs).
  f_equal. destruct (f_names f) as [|n ns]; simpl.
  - apply andb_true_r.
  - destruct (wf_texpr (f_type f)) eqn:Hw; simpl; [|reflexivity].
    induction ns as [|m ns IHn]; simpl; [reflexivity | rewrite Hw; exact IHn].
Qed.

(* the number of values a signature declares is the length of its value list *)
Lemma declared_arity_values : forall rs, declared_arity rs = List.length (values rs).
Proof.
  induction rs as [|f rs IH]; [reflexivity|].
  rewrite values_cons, app_length, <- IH, values_one.
  change (declared_arity (f :: rs))
    with ((match f_names f with [] => 1 | ns => List.length ns end + declared_arity rs)%nat).
  f_equal. destruct (f_names f) as [|n ns]; [reflexivity|]. rewrite map_length. reflexivity.
Qed.

(* a list without multi-name fields is its own value list, up to nothing at all
   for unnamed fields and a rebuilt record for single-name ones *)
Lemma values_single : forall rs, single_names rs = true -> values rs = rs.
Proof.
  induction rs as [|f rs IH]; [reflexivity|]. intros H. simpl in H.
  apply andb_true_iff in H as [Hf Hr]. rewrite values_cons, (IH Hr), values_one.
  destruct f as [[|n [|m ns]] t]; simpl in *; try reflexivity. discriminate.
Qed.

(* a signature with a multi-name field is never accepted: its values are judged
   one by one, and two values of one field have the same type *)
Lemma multi_name_never_accepted : forall rs,
  single_names rs = false -> ~ accepted (values rs).
Proof.
  intros rs Hsn Hacc.
  (* find the first multi-name field *)
  induction rs as [|f rs IH]; [discriminate|].
  simpl in Hsn. rewrite values_cons in Hacc.
  destruct (f_names f) as [|n [|m ns]] eqn:Hn.
  - (* f unnamed: one value *)
    simpl in Hsn. assert (Hv : values [f] = [f]) by (unfold values; simpl; rewrite Hn; reflexivity).
    rewrite Hv in Hacc. simpl in Hacc.
    (* the rest contains the multi-name field: its values are named and pairwise of one type *)
    clear IH Hv.
    assert (Hrest : exists g pre post n1 n2 more, rs = (pre ++ g :: post)%list /\ f_names g = n1 :: n2 :: more).
    { clear Hacc. induction rs as [|g rs IHr]; [discriminate|]. simpl in Hsn.
      destruct (f_names g) as [|n1 [|n2 more]] eqn:Hg.
      - destruct (IHr Hsn) as (g' & pre & post & a1 & a2 & mo & -> & Hg'). exists g', (g :: pre), post, a1, a2, mo. auto.
      - destruct (IHr Hsn) as (g' & pre & post & a1 & a2 & mo & -> & Hg'). exists g', (g :: pre), post, a1, a2, mo. auto.
      - exists g, [], rs, n1, n2, more. auto. }
    destruct Hrest as (g & pre & post & n1 & n2 & more & -> & Hg).
    (* values rs has at most 2 elements (accepted lists have 2 or 3 values), and g alone gives 2 of one type *)
    assert (Hvals : values (pre ++ g :: post) =
                    (values pre ++ {| f_names := [n1]; f_type := f_type g |} :: {| f_names := [n2]; f_type := f_type g |}
                       :: (map (fun n => {| f_names := [n]; f_type := f_type g |}) more ++ values post))%list).
    { unfold values. rewrite flat_map_app. simpl. rewrite Hg. simpl. reflexivity. }
    rewrite Hvals in Hacc.
    destruct (values pre) as [|p1 [|p2 ps]]; simpl in Hacc.
    + destruct (map _ more ++ values post)%list as [|q qs]; simpl in Hacc.
      * destruct Hacc as (Ha & Hb & _). simpl in Ha, Hb. rewrite Ha in Hb. discriminate.
      * contradiction.
    + destruct (map _ more ++ values post)%list; simpl in Hacc; contradiction.
    + destruct ps; simpl in Hacc; contradiction.
  - (* f has exactly one name *)
    simpl in Hsn. assert (Hv : values [f] = [{| f_names := [n]; f_type := f_type f |}])
      by (unfold values; simpl; rewrite Hn; reflexivity).
    rewrite Hv in Hacc. simpl in Hacc.
    (* the first value is named: only a two-value list could be accepted, and then rs = one single value *)
    destruct (values rs) as [|v1 [|v2 [|v3 vs]]] eqn:Hvs; simpl in Hacc; try contradiction.
    + (* two values: rs yields exactly one value, so rs has no multi-name field *)
      exfalso. clear Hacc IH Hv.
      assert (Hlen : List.length (values rs) = 1%nat) by (rewrite Hvs; reflexivity).
      rewrite <- declared_arity_values in Hlen. clear Hvs.
      induction rs as [|g rs IHr]; [discriminate|]. simpl in Hsn, Hlen.
      destruct (f_names g) as [|a1 [|a2 more]]; simpl in *.
      * assert (declared_arity rs = 0%nat) by lia. destruct rs as [|h rs']; [discriminate|].
        simpl in H. destruct (f_names h); simpl in H; lia.
      * assert (declared_arity rs = 0%nat) by lia. destruct rs as [|h rs']; [discriminate|].
        simpl in H. destruct (f_names h); simpl in H; lia.
      * lia.
    + (* three values, the first one named: refused *)
      destruct Hacc as (_ & _ & Hnm & _). discriminate.
  - (* f itself has two or more names *)
    assert (Hv : values [f] = ({| f_names := [n]; f_type := f_type f |} :: {| f_names := [m]; f_type := f_type f |}
                                :: map (fun k => {| f_names := [k]; f_type := f_type f |}) ns)%list)
      by (unfold values; simpl; rewrite Hn; simpl; rewrite app_nil_r; reflexivity).
    rewrite Hv in Hacc. simpl in Hacc.
    destruct (map _ ns ++ values rs)%list as [|q [|q2 qs]]; simpl in Hacc.
    + destruct Hacc as (Ha & Hb). simpl in Ha, Hb. rewrite Ha in Hb. discriminate.
    + destruct Hacc as (_ & _ & Hnm & _). discriminate.
    + contradiction.
Qed.

(* ------------------------------------------------------------------ *)
(* the facts on the declared result list [rs] (fields as go/ast has      *)
(* them), through rs -> values rs                                       *)

Definition sig_accepted (rs : list field) : Prop := accepted (values rs).
Definition sig_result (rs : list field) : option (string * bool) := declared_result (values rs).

Section Signature.
Variable V X : Type.
Variable decode : string -> body X -> dec_out V X.

Ltac to_values H := rewrite method_returns_values in H;
  match goal with Hw : wf_results _ = true |- _ => rewrite <- wf_values in Hw end.

Lemma sg_exists_iff : forall bv rs o,
  wf_results rs = true -> scenario_ok bv o = true ->
  ((exists res, method_returns decode bv rs o = inr (Some res)) <-> sig_accepted rs).
Proof.
  intros bv rs o Hwf Hsc. rewrite method_returns_values. unfold sig_accepted.
  rewrite <- wf_values in Hwf. exact (mr_exists_iff V X decode bv (values rs) o Hwf Hsc).
Qed.

Lemma sg_rejected : forall bv rs o, ~ sig_accepted rs -> exists f, method_returns decode bv rs o = inl f.
Proof. intros bv rs o H. rewrite method_returns_values. apply mr_rejected; assumption. Qed.

Lemma sg_impossible_scenario : forall rs x,
  wf_results rs = true -> sig_accepted rs ->
  method_returns decode false rs (OFail StMarshal x) = inr None.
Proof.
  intros rs x Hwf Ha. rewrite method_returns_values. rewrite <- wf_values in Hwf.
  exact (mr_impossible_scenario V X decode (values rs) x Hwf Ha).
Qed.

Lemma sg_cook_results : forall rs c,
  cook_results rs = inr c <->
  sig_accepted rs /\ ck_nils c = (declared_arity rs - 1)%nat /\
  ck_result c = match sig_result rs with Some rr => rr | None => ("", false) end.
Proof. intros rs c. unfold cook_results. rewrite declared_arity_values. apply cook_values_accepts. Qed.

Lemma sg_refines_spec : forall bv rs o,
  wf_results rs = true -> sig_accepted rs -> scenario_ok bv o = true -> no_both X o = true ->
  method_returns decode bv rs o
  = inr (Some (spec_returns V X decode (values rs) o, spec_events X (values rs) o)).
Proof.
  intros bv rs o Hwf Ha Hsc Hnb. rewrite method_returns_values. rewrite <- wf_values in Hwf.
  exact (method_values_refines_spec V X decode bv (values rs) o Hwf Ha Hsc Hnb).
Qed.

(* K_rest_redirect_response_dropped: when Do returns a response together with an error
   (following redirects failed), every generated method behaves as if only the error had
   been returned: the response is NOT returned next to the error *)
Lemma sg_both_is_fail : forall bv rs r x,
  method_returns decode bv rs (OBoth r x) = method_returns decode bv rs (OFail StDo x).
Proof. intros. rewrite !method_returns_values. apply method_values_both_is_fail. Qed.

Lemma sg_redirect_response_dropped : forall bv rs r x,
  wf_results rs = true -> sig_accepted rs ->
  exists slots, method_returns decode bv rs (OBoth r x) = inr (Some (slots, [])) /\
    forall rv, view slots = Some rv -> rv_resp rv = SNil /\ rv_err rv = SErr (EForeign x).
Proof.
  intros bv rs r x Hwf Ha. rewrite sg_both_is_fail.
  assert (Hsc : scenario_ok bv (OFail StDo x) = true) by reflexivity.
  rewrite (sg_refines_spec bv rs (OFail StDo x) Hwf Ha Hsc eq_refl).
  eexists; split; [reflexivity|]. intros rv Hv.
  rewrite <- wf_values in Hwf.
  destruct (fail_view V X decode (values rs) Hwf Ha StDo x rv Hv) as (He & Hr & _). auto.
Qed.

Lemma sg_view : forall bv rs o slots ev,
  wf_results rs = true -> method_returns decode bv rs o = inr (Some (slots, ev)) ->
  exists rv, view slots = Some rv /\ (rv_result rv = None <-> sig_result rs = None).
Proof. intros bv rs o slots ev Hwf H. to_values H. eapply mr_view; eauto. Qed.

Lemma sg_nil_error_iff : forall bv rs o slots ev rv,
  wf_results rs = true -> method_returns decode bv rs o = inr (Some (slots, ev)) -> view slots = Some rv ->
  (rv_err rv = SNil <->
   exists r, o = OResp r /\ 200 <= r_status r < 300 /\
     match sig_result rs with
     | None => True
     | Some (ty, _) => forall x, snd (decode ty (r_body r)) <> Some (DOther x)
     end).
Proof.
  intros bv rs o slots ev rv Hwf H Hv. to_values H. eapply mr_nil_error_iff; eauto.
Qed.

Lemma sg_client_error : forall bv rs r slots ev rv,
  wf_results rs = true -> method_returns decode bv rs (OResp r) = inr (Some (slots, ev)) -> view slots = Some rv ->
  400 <= r_status r < 500 ->
  rv_err rv = SErr (EText ("client error " ++ dec (r_status r) ++ ": " ++ b_data (r_body r))) /\
  rv_resp rv = SResp r /\ (rv_result rv = None \/ rv_result rv = Some SNil).
Proof.
  intros bv rs r slots ev rv Hwf H Hv Hs. to_values H. eapply mr_client_error; eauto.
Qed.

Lemma sg_server_error : forall bv rs r slots ev rv,
  wf_results rs = true -> method_returns decode bv rs (OResp r) = inr (Some (slots, ev)) -> view slots = Some rv ->
  500 <= r_status r ->
  rv_err rv = SErr (EText ("server error " ++ dec (r_status r) ++ ": " ++ b_data (r_body r))) /\
  rv_resp rv = SResp r /\ (rv_result rv = None \/ rv_result rv = Some SNil).
Proof.
  intros bv rs r slots ev rv Hwf H Hv Hs. to_values H. eapply mr_server_error; eauto.
Qed.

(* the property's class "5xx" ... *)
Lemma sg_5xx_server_error : forall bv rs r slots ev rv,
  wf_results rs = true -> method_returns decode bv rs (OResp r) = inr (Some (slots, ev)) -> view slots = Some rv ->
  500 <= r_status r < 600 ->
  rv_err rv = SErr (EText ("server error " ++ dec (r_status r) ++ ": " ++ b_data (r_body r))) /\
  rv_resp rv = SResp r /\ (rv_result rv = None \/ rv_result rv = Some SNil).
Proof. intros bv rs r slots ev rv Hwf H Hv Hs. eapply sg_server_error; eauto. lia. Qed.

(* ... and what the code does beyond it: a status of 600 and above is reported as a server
   error too, although the property text counts it among "any other status" *)
Lemma sg_600_and_above_server_error : forall bv rs r slots ev rv,
  wf_results rs = true -> method_returns decode bv rs (OResp r) = inr (Some (slots, ev)) -> view slots = Some rv ->
  600 <= r_status r ->
  rv_err rv = SErr (EText ("server error " ++ dec (r_status r) ++ ": " ++ b_data (r_body r))) /\
  rv_resp rv = SResp r /\ (rv_result rv = None \/ rv_result rv = Some SNil).
Proof. intros bv rs r slots ev rv Hwf H Hv Hs. eapply sg_server_error; eauto. lia. Qed.

Lemma sg_unsupported : forall bv rs r slots ev rv,
  wf_results rs = true -> method_returns decode bv rs (OResp r) = inr (Some (slots, ev)) -> view slots = Some rv ->
  r_status r < 200 \/ 300 <= r_status r < 400 ->
  rv_err rv = SErr (EText ("not supported error " ++ dec (r_status r))) /\
  rv_resp rv = SResp r /\ (rv_result rv = None \/ rv_result rv = Some SNil).
Proof.
  intros bv rs r slots ev rv Hwf H Hv Hs. to_values H. eapply mr_unsupported; eauto.
Qed.

Lemma sg_failure : forall bv rs st x slots ev,
  wf_results rs = true -> method_returns decode bv rs (OFail st x) = inr (Some (slots, ev)) ->
  slots = (repeat SNil (declared_arity rs - 1) ++ [SErr (EForeign x)])%list /\ ev = [] /\
  forall rv, view slots = Some rv ->
    rv_err rv = SErr (EForeign x) /\ rv_resp rv = SNil /\ (rv_result rv = None \/ rv_result rv = Some SNil).
Proof.
  intros bv rs st x slots ev Hwf H. to_values H. rewrite declared_arity_values.
  eapply mr_failure; eauto.
Qed.

Lemma sg_response_always : forall bv rs r slots ev rv,
  wf_results rs = true -> method_returns decode bv rs (OResp r) = inr (Some (slots, ev)) -> view slots = Some rv ->
  rv_resp rv = SResp r.
Proof.
  intros bv rs r slots ev rv Hwf H Hv. to_values H. eapply mr_response_always; eauto.
Qed.

Lemma sg_error_nil_result : forall bv rs o slots ev rv,
  wf_results rs = true -> method_returns decode bv rs o = inr (Some (slots, ev)) -> view slots = Some rv ->
  rv_err rv <> SNil -> rv_result rv = None \/ rv_result rv = Some SNil.
Proof.
  intros bv rs o slots ev rv Hwf H Hv Hne. to_values H. eapply mr_error_nil_result; eauto.
Qed.

Lemma sg_success : forall bv rs r ty p v de slots ev,
  wf_results rs = true -> method_returns decode bv rs (OResp r) = inr (Some (slots, ev)) ->
  200 <= r_status r < 300 -> sig_result rs = Some (ty, p) ->
  decode ty (r_body r) = (v, de) -> (forall x, de <> Some (DOther x)) ->
  slots = [if p then SAddr v else SVal v; SResp r; SNil].
Proof.
  intros bv rs r ty p v de slots ev Hwf H Hs Hd Hdec Hok. to_values H.
  eapply mr_success; eauto.
Qed.

Lemma sg_success_no_result : forall bv rs r slots ev,
  wf_results rs = true -> method_returns decode bv rs (OResp r) = inr (Some (slots, ev)) ->
  200 <= r_status r < 300 -> sig_result rs = None ->
  slots = [SResp r; SNil].
Proof.
  intros bv rs r slots ev Hwf H Hs Hd. to_values H. eapply mr_success_no_result; eauto.
Qed.

Lemma sg_empty_body : forall (zero : string -> V) bv rs r ty p slots ev,
  (forall t, decode t {| b_data := ""; b_fault := None |} = (zero t, Some DEof)) ->
  wf_results rs = true -> method_returns decode bv rs (OResp r) = inr (Some (slots, ev)) ->
  200 <= r_status r < 300 -> sig_result rs = Some (ty, p) ->
  r_body r = {| b_data := ""; b_fault := None |} ->
  slots = [if p then SAddr (zero ty) else SVal (zero ty); SResp r; SNil].
Proof.
  intros zero bv rs r ty p slots ev Hlaw Hwf H Hs Hd Hb. to_values H.
  eapply mr_empty_body; eauto.
Qed.

Lemma sg_decode_error : forall bv rs r ty p v x slots ev,
  wf_results rs = true -> method_returns decode bv rs (OResp r) = inr (Some (slots, ev)) ->
  200 <= r_status r < 300 -> sig_result rs = Some (ty, p) ->
  decode ty (r_body r) = (v, Some (DOther x)) ->
  slots = [SNil; SResp r; SErr (EForeign x)].
Proof.
  intros bv rs r ty p v x slots ev Hwf H Hs Hd Hdec. to_values H.
  eapply mr_decode_error; eauto.
Qed.

(* the method returns exactly as many values as its signature declares: no guard *)
Lemma sg_arity : forall bv rs o slots ev,
  wf_results rs = true -> method_returns decode bv rs o = inr (Some (slots, ev)) ->
  List.length slots = declared_arity rs.
Proof.
  intros bv rs o slots ev Hwf H. to_values H. rewrite declared_arity_values.
  eapply mr_arity; eauto.
Qed.

Lemma sg_body_closed_once : forall bv rs r slots ev,
  wf_results rs = true -> method_returns decode bv rs (OResp r) = inr (Some (slots, ev)) ->
  exists pre, ev = (pre ++ [BClose])%list /\ ~ In BClose pre.
Proof.
  intros bv rs r slots ev Hwf H. to_values H. eapply mr_body_closed_once; eauto.
Qed.

End Signature.

(* nil is a value of every accepted result type: no guard *)
Lemma sg_nilable : forall rs, sig_accepted rs -> result_type_nilable (values rs) = true.
Proof. intros rs H. apply accepted_nilable; assumption. Qed.

(* ------------------------------------------------------------------ *)
(* the two repaired defects (K_rest_array_result, K_rest_multi_name_result): *)
(* what the code does now with their witnesses                          *)

Definition resp_field : field := {| f_names := []; f_type := TStar (TSel "http" "Response") |}.
Definition err_field : field := {| f_names := []; f_type := TIdent "error" |}.

Definition array_witness : list field :=
  [{| f_names := []; f_type := TArray (Some "2") (TIdent "int") |}; resp_field; err_field].

Lemma array_result_refused : cook_results array_witness = inl (FArray "[2]int").
Proof. reflexivity. Qed.

(* `(a, b *http.Response, err error)`: two fields, three values, the first one named *)
Definition multi_name_witness : list field :=
  [{| f_names := ["a"; "b"]; f_type := TStar (TSel "http" "Response") |};
   {| f_names := ["err"]; f_type := TIdent "error" |}].

Lemma multi_name_refused :
  declared_arity multi_name_witness = 3%nat /\ cook_results multi_name_witness = inl FNamed.
Proof. split; reflexivity. Qed.
