(* C09: a plan that passes the decidable check [plan_safe] never dereferences
   nil, for ANY well-typed input value (any nil pattern), any user functions,
   any recursion depth.  Structure: typing gives the nil positions of a struct
   value along leaf / embedded-pointer paths; the value lemmas of
   MapperValProofs.v turn "all those positions are checked / allocated" into
   "no Panic". *)
From Coq Require Import String Ascii List Bool Arith ZArith Lia.
From Shoot Require Import Base.Str Model.MapVal Model.Mapper Model.MapperEval Model.MapperSafe
     Proofs.MapperValProofs.
Import ListNotations.
Local Open Scope string_scope.
Local Open Scope list_scope.

(* ------------------------------------------------------------ reflection *)
Lemma path_eqb_eq a b : path_eqb a b = true <-> a = b.
Proof.
  revert b. induction a as [|x a IH]; intros [|y b]; simpl; split; intros H; try discriminate; auto.
  - apply andb_true_iff in H. destruct H as (H1 & H2). apply String.eqb_eq in H1. apply IH in H2. congruence.
  - inversion H; subst. rewrite String.eqb_refl. simpl. apply IH. reflexivity.
Qed.

Lemma path_prefix_app a b : path_prefix a b = true <-> exists r, b = a ++ r.
Proof.
  revert b. induction a as [|x a IH]; intros b; simpl.
  - split; eauto.
  - destruct b as [|y b]; simpl.
    + split; [discriminate|]. intros (r & H). discriminate.
    + split.
      * intros H. apply andb_true_iff in H. destruct H as (H1 & H2). apply String.eqb_eq in H1. subst.
        apply IH in H2. destruct H2 as (r & ->). eauto.
      * intros (r & H). inversion H; subst. rewrite String.eqb_refl. simpl. apply IH. eauto.
Qed.

Lemma proper_prefix_app q p : proper_prefix q p = true <-> exists r, p = q ++ r /\ r <> [].
Proof.
  unfold proper_prefix. rewrite andb_true_iff, negb_true_iff. split.
  - intros (H1 & H2). apply path_prefix_app in H1. destruct H1 as (r & ->). exists r. split; auto.
    intros ->. rewrite app_nil_r in H2. assert (path_eqb q q = true) by (apply path_eqb_eq; auto). congruence.
  - intros (r & -> & N). split. { apply path_prefix_app. eauto. }
    destruct (path_eqb q (q ++ r)) eqn:E; auto. apply path_eqb_eq in E.
    rewrite <- (app_nil_r q) in E at 1. apply app_inv_head in E. congruence.
Qed.

Lemma mem_path_in p l : mem_path p l = true <-> In p l.
Proof.
  unfold mem_path. rewrite existsb_exists. split.
  - intros (x & I & E). apply path_eqb_eq in E. subst. auto.
  - intros I. exists p. split; auto. apply path_eqb_eq. auto.
Qed.

Lemma ty_eqb_eq a b : ty_eqb a b = true -> a = b.
Proof.
  revert b. induction a as [x|p n|x IH|x IH|k IHk v IHv]; intros [y|q m|y|y|k' v']; simpl; intros H; try discriminate.
  - unfold basic_eqb in H. apply Nat.eqb_eq in H. destruct x, y; simpl in H; try discriminate; reflexivity.
  - apply andb_true_iff in H. destruct H as (H1 & H2). apply String.eqb_eq in H2. subst.
    destruct p, q; simpl in H1; try discriminate; auto. apply String.eqb_eq in H1. subst. auto.
  - f_equal. auto.
  - f_equal. auto.
  - apply andb_true_iff in H. destruct H as (H1 & H2). f_equal; auto.
Qed.

(* ---------------------------------------------------- typed struct fields *)
Definition typed_fields (e : env) (kvs : list (string * val)) (fs : list sfield) : Prop :=
  Forall2 (fun kv sf => fst kv = sf_name sf /\ has_ty e (snd kv) (sf_ty sf)) kvs fs.

Lemma nodup_strs_cons x r : nodup_strs (x :: r) = true -> ~ In x r /\ nodup_strs r = true.
Proof.
  simpl. rewrite andb_true_iff, negb_true_iff. intros (A & B). split; auto.
  intros I. assert (existsb (String.eqb x) r = true); [|congruence].
  apply existsb_exists. exists x. split; auto. apply String.eqb_refl.
Qed.

Lemma assoc_typed e kvs fs sf :
  typed_fields e kvs fs -> nodup_strs (map sf_name fs) = true -> In sf fs ->
  exists x, assoc_val (sf_name sf) kvs = Some x /\ has_ty e x (sf_ty sf).
Proof.
  intros T. induction T as [|[k v] sf' kvs fs (Hn & Ht) T IH]; intros N I; [contradiction|].
  simpl in N. apply nodup_strs_cons in N. destruct N as (N1 & N2). simpl in *.
  destruct I as [->|I].
  - subst k. rewrite String.eqb_refl. eauto.
  - destruct (String.eqb (sf_name sf) k) eqn:E.
    + apply String.eqb_eq in E. exfalso. apply N1. subst k. rewrite <- E. apply in_map. auto.
    + apply IH; auto.
Qed.

Lemma env_ok_lookup e p n fs : env_ok e = true -> lookup_decl e p n = Some (DStruct fs) ->
  nodup_strs (map sf_name fs) = true.
Proof.
  unfold env_ok. intros H L. induction e as [|[[q m] d] e IH]; simpl in *; [discriminate|].
  apply andb_true_iff in H. destruct H as (H1 & H2).
  destruct (pkg_eqb p q && String.eqb n m).
  - inversion L; subst. exact H1.
  - apply IH; auto.
Qed.

Lemma has_ty_struct e v p n fs : has_ty e v (TNamed p n) -> lookup_decl e p n = Some (DStruct fs) ->
  exists kvs, v = VStruct kvs /\ typed_fields e kvs fs.
Proof.
  intros H L. inversion H as [ | | | | | | p' n' b v' Lb Bv | p' n' fs' kvs Ls F]; subst.
  - congruence.
  - rewrite L in Ls. inversion Ls; subst. eauto.
Qed.

Lemma has_ty_ptr e v t : has_ty e v (TPtr t) -> v = VNil \/ exists x, v = VPtr x /\ has_ty e x t.
Proof. intros H. inversion H; subst; eauto. Qed.

(* ----------------------------------------------- nil positions along leaves *)
Section Leaves.
  Variable e : env.
  Hypothesis Eok : env_ok e = true.

  Lemma in_rleaves fuel fs l : In l (rleaves e (S fuel) fs) ->
    exists sf, In sf fs /\
      ((sf_emb sf = false /\ l = {| rl_path := [sf_name sf]; rl_ty := sf_ty sf; rl_hops := [] |})
       \/ (sf_emb sf = true /\ exists p n gs l', sf_ty sf = TNamed p n /\ lookup_decl e p n = Some (DStruct gs)
                                                  /\ In l' (rleaves e fuel gs) /\ l = rl_under (sf_name sf) false l')
       \/ (sf_emb sf = true /\ exists p n gs l', sf_ty sf = TPtr (TNamed p n) /\ lookup_decl e p n = Some (DStruct gs)
                                                  /\ In l' (rleaves e fuel gs) /\ l = rl_under (sf_name sf) true l')).
  Proof.
    simpl. intros H. apply in_flat_map in H. destruct H as (sf & I & H). exists sf. split; auto.
    destruct (sf_emb sf) eqn:E.
    - destruct (sf_ty sf) as [|p n|t| |] eqn:T; try contradiction.
      + destruct (lookup_decl e p n) as [[|gs]|] eqn:L; try contradiction.
        apply in_map_iff in H. destruct H as (l' & <- & I'). right. left. split; auto. exists p, n, gs, l'. auto.
      + destruct t as [|p n| | |]; try contradiction.
        destruct (lookup_decl e p n) as [[|gs]|] eqn:L; try contradiction.
        apply in_map_iff in H. destruct H as (l' & <- & I'). right. right. split; auto. exists p, n, gs, l'. auto.
    - destruct H as [<-|[]]. left. auto.
  Qed.

  (* get_path on a struct value, one step *)
  Lemma get_struct_cons kvs n r : get_path (VStruct kvs) (n :: r) =
    match assoc_val n kvs with Some x => get_path x r | None => Stuck end.
  Proof. reflexivity. Qed.

  Lemma get_ptr_struct_cons kvs n r : get_path (VPtr (VStruct kvs)) (n :: r) = get_path (VStruct kvs) (n :: r).
  Proof. reflexivity. Qed.

  (* along a leaf path only the embedded POINTERS of the leaf can be nil *)
  Lemma leaf_nils : forall fuel fs kvs l,
    typed_fields e kvs fs -> nodup_strs (map sf_name fs) = true -> In l (rleaves e fuel fs) ->
    forall q r, rl_path l = q ++ r -> r <> [] -> get_path (VStruct kvs) q = Ok VNil -> In q (rl_hops l).
  Proof.
    induction fuel as [|fuel IH]; intros fs kvs l T N I q r E R G; [contradiction|].
    destruct (in_rleaves _ _ _ I) as (sf & Isf & C).
    destruct (assoc_typed _ _ _ _ T N Isf) as (x & Ax & Tx).
    destruct q as [|m q]; [simpl in G; discriminate|].
    assert (Hm : forall l', rl_path l = sf_name sf :: rl_path l' -> m = sf_name sf /\ rl_path l' = q ++ r).
    { intros l' P. rewrite P in E. simpl in E. inversion E. auto. }
    destruct C as [(Em & ->)|[(Em & p & n & gs & l' & Ty & L & I' & ->)|(Em & p & n & gs & l' & Ty & L & I' & ->)]].
    - simpl in E. inversion E as [[E1 E2]]. destruct q; [|discriminate]. simpl in E2. subst r. congruence.
    - destruct (Hm l' eq_refl) as (-> & P). rewrite get_struct_cons, Ax in G. rewrite Ty in Tx.
      destruct (has_ty_struct _ _ _ _ _ Tx L) as (kvs' & -> & T').
      simpl. apply in_map. eapply IH; eauto. eapply env_ok_lookup; eauto.
    - destruct (Hm l' eq_refl) as (-> & P). rewrite get_struct_cons, Ax in G. rewrite Ty in Tx.
      destruct (has_ty_ptr _ _ _ Tx) as [->|(y & -> & Ty')].
      + destruct q; [simpl; auto | simpl in G; discriminate].
      + destruct (has_ty_struct _ _ _ _ _ Ty' L) as (kvs' & -> & T').
        destruct q as [|m' q]; [simpl in G; discriminate|].
        rewrite get_ptr_struct_cons in G. simpl. right. apply in_map. eapply IH; eauto. eapply env_ok_lookup; eauto.
  Qed.

  (* if none of the leaf's embedded pointers is nil, the leaf is read, and is well typed *)
  Lemma leaf_read : forall fuel fs kvs l,
    typed_fields e kvs fs -> nodup_strs (map sf_name fs) = true -> In l (rleaves e fuel fs) ->
    (forall h, In h (rl_hops l) -> get_path (VStruct kvs) h <> Ok VNil) ->
    exists x, get_path (VStruct kvs) (rl_path l) = Ok x /\ has_ty e x (rl_ty l).
  Proof.
    induction fuel as [|fuel IH]; intros fs kvs l T N I H; [contradiction|].
    destruct (in_rleaves _ _ _ I) as (sf & Isf & C).
    destruct (assoc_typed _ _ _ _ T N Isf) as (x & Ax & Tx).
    destruct C as [(Em & ->)|[(Em & p & n & gs & l' & Ty & L & I' & ->)|(Em & p & n & gs & l' & Ty & L & I' & ->)]].
    - simpl. rewrite Ax. eauto.
    - rewrite Ty in Tx. destruct (has_ty_struct _ _ _ _ _ Tx L) as (kvs' & -> & T').
      simpl rl_path. rewrite get_struct_cons, Ax. simpl rl_ty.
      eapply IH; eauto. { eapply env_ok_lookup; eauto. }
      intros h Ih. specialize (H (sf_name sf :: h)). rewrite get_struct_cons, Ax in H. apply H.
      simpl. apply in_map. auto.
    - rewrite Ty in Tx. destruct (has_ty_ptr _ _ _ Tx) as [->|(y & -> & Ty')].
      + exfalso. apply (H [sf_name sf]); [simpl; auto|]. rewrite get_struct_cons, Ax. reflexivity.
      + destruct (has_ty_struct _ _ _ _ _ Ty' L) as (kvs' & -> & T').
        simpl rl_path. rewrite get_struct_cons, Ax. simpl rl_ty.
        assert (NE : rl_path l' <> []).
        { destruct fuel; [contradiction|]. destruct (in_rleaves _ _ _ I') as (sf' & _ & [(_ & ->)|[(_ & ? & ? & ? & ? & _ & _ & _ & ->)|(_ & ? & ? & ? & ? & _ & _ & _ & ->)]]); discriminate. }
        destruct (rl_path l') as [|m' q'] eqn:P; [congruence|]. rewrite get_ptr_struct_cons. rewrite <- P.
        eapply IH; eauto. { eapply env_ok_lookup; eauto. }
        intros h Ih. specialize (H (sf_name sf :: h)). rewrite get_struct_cons, Ax in H.
        destruct h as [|hh ht].
        * simpl. discriminate.
        * rewrite get_ptr_struct_cons in H. apply H. simpl. right. apply in_map. auto.
  Qed.

  (* ------------------------------------------- embedded-pointer positions *)
  Lemma in_rhops fuel fs h t : In (h, t) (rhops e (S fuel) fs) ->
    exists sf, In sf fs /\ sf_emb sf = true /\
      ((exists p n gs h', sf_ty sf = TNamed p n /\ lookup_decl e p n = Some (DStruct gs)
                          /\ In (h', t) (rhops e fuel gs) /\ h = sf_name sf :: h')
       \/ (exists p n gs, sf_ty sf = TPtr (TNamed p n) /\ lookup_decl e p n = Some (DStruct gs)
                          /\ ((h = [sf_name sf] /\ t = TNamed p n)
                              \/ exists h', In (h', t) (rhops e fuel gs) /\ h = sf_name sf :: h'))).
  Proof.
    simpl. intros H. apply in_flat_map in H. destruct H as (sf & I & H). exists sf. split; auto.
    destruct (sf_emb sf) eqn:E; [|contradiction]. split; auto.
    destruct (sf_ty sf) as [|p n|t0| |] eqn:T; try contradiction.
    - destruct (lookup_decl e p n) as [[|gs]|] eqn:L; try contradiction.
      apply in_map_iff in H. destruct H as ((h', t') & X & I'). inversion X; subst.
      left. exists p, n, gs, h'. auto.
    - destruct t0 as [|p n| | |]; try contradiction.
      destruct (lookup_decl e p n) as [[|gs]|] eqn:L; try contradiction.
      right. exists p, n, gs. split; auto. split; auto.
      destruct H as [H|H].
      + inversion H; subst. left. auto.
      + apply in_map_iff in H. destruct H as ((h', t') & X & I'). inversion X; subst. right. eauto.
  Qed.

  Lemma typed_fields_set kvs fs sf x :
    typed_fields e kvs fs -> nodup_strs (map sf_name fs) = true -> In sf fs -> has_ty e x (sf_ty sf) ->
    typed_fields e (assoc_set (sf_name sf) x kvs) fs.
  Proof.
    intros T. induction T as [|[k v] sf' kvs fs (Hn & Ht) T IH]; intros N I Hx; [contradiction|].
    simpl in N. apply nodup_strs_cons in N. destruct N as (N1 & N2). simpl in *.
    destruct I as [->|I].
    - subst k. rewrite String.eqb_refl. constructor; auto.
    - destruct (String.eqb (sf_name sf) k) eqn:E.
      + apply String.eqb_eq in E. exfalso. apply N1. subst k. rewrite <- E. apply in_map. auto.
      + constructor; auto. apply IH; auto.
  Qed.

  (* above an embedded-pointer position only embedded pointers can be nil *)
  Lemma hop_nils : forall fuel fs kvs h t,
    typed_fields e kvs fs -> nodup_strs (map sf_name fs) = true -> In (h, t) (rhops e fuel fs) ->
    forall q r, h = q ++ r -> r <> [] -> get_path (VStruct kvs) q = Ok VNil -> exists t', In (q, t') (rhops e fuel fs).
  Proof.
    induction fuel as [|fuel IH]; intros fs kvs h t T N I q r E R G; [contradiction|].
    destruct (in_rhops _ _ _ _ I) as (sf & Isf & Em & C).
    destruct (assoc_typed _ _ _ _ T N Isf) as (x & Ax & Tx).
    destruct q as [|m q]; [simpl in G; discriminate|].
    assert (Back : forall p n gs q' t', sf_ty sf = TNamed p n \/ sf_ty sf = TPtr (TNamed p n) ->
                     lookup_decl e p n = Some (DStruct gs) -> In (q', t') (rhops e fuel gs) ->
                     In (sf_name sf :: q', t') (rhops e (S fuel) fs)).
    { intros p n gs q' t' Ty L I'. simpl. apply in_flat_map. exists sf. split; auto. rewrite Em.
      destruct Ty as [Ty|Ty]; rewrite Ty, L.
      - apply in_map_iff. exists (q', t'). auto.
      - right. apply in_map_iff. exists (q', t'). auto. }
    destruct C as [(p & n & gs & h' & Ty & L & I' & ->)|(p & n & gs & Ty & L & [(-> & ->)|(h' & I' & ->)])].
    - simpl in E. inversion E; subst m. rewrite get_struct_cons, Ax in G. rewrite Ty in Tx.
      destruct (has_ty_struct _ _ _ _ _ Tx L) as (kvs' & -> & T').
      destruct (IH gs kvs' h' t T' (env_ok_lookup _ _ _ _ Eok L) I' q r) as (t' & It'); auto. exists t'. eapply Back; eauto.
    - simpl in E. inversion E as [[E1 E2]]. destruct q; [|discriminate]. simpl in E2. subst r. congruence.
    - simpl in E. inversion E; subst m. rewrite get_struct_cons, Ax in G. rewrite Ty in Tx.
      destruct (has_ty_ptr _ _ _ Tx) as [->|(y & -> & Ty')].
      + destruct q; [|simpl in G; discriminate]. exists (TNamed p n). simpl. apply in_flat_map. exists sf.
        split; auto. rewrite Em, Ty, L. left. reflexivity.
      + destruct (has_ty_struct _ _ _ _ _ Ty' L) as (kvs' & -> & T').
        destruct q as [|m' q]; [simpl in G; discriminate|]. rewrite get_ptr_struct_cons in G.
        destruct (IH gs kvs' h' t T' (env_ok_lookup _ _ _ _ Eok L) I' (m' :: q) r) as (t' & It'); auto.
        exists t'. eapply Back; eauto.
  Qed.

  (* allocating an embedded pointer keeps the struct well typed *)
  Lemma hop_set : forall fuel fs kvs h t z,
    typed_fields e kvs fs -> nodup_strs (map sf_name fs) = true -> In (h, t) (rhops e fuel fs) ->
    has_ty e z t ->
    forall v', set_path (VStruct kvs) h (VPtr z) = Ok v' -> exists kvs', v' = VStruct kvs' /\ typed_fields e kvs' fs.
  Proof.
    induction fuel as [|fuel IH]; intros fs kvs h t z T N I Hz v' S; [contradiction|].
    destruct (in_rhops _ _ _ _ I) as (sf & Isf & Em & C).
    destruct (assoc_typed _ _ _ _ T N Isf) as (x & Ax & Tx).
    destruct C as [(p & n & gs & h' & Ty & L & I' & ->)|(p & n & gs & Ty & L & [(-> & ->)|(h' & I' & ->)])].
    - rewrite set_path_cons, Ax in S. rewrite Ty in Tx.
      destruct (has_ty_struct _ _ _ _ _ Tx L) as (kvs' & -> & T').
      destruct (set_path (VStruct kvs') h' (VPtr z)) as [new| |] eqn:S'; simpl in S; try discriminate.
      inversion S; subst v'.
      destruct (IH gs kvs' h' t z T' (env_ok_lookup _ _ _ _ Eok L) I' Hz new S') as (kvs'' & -> & T'').
      eexists. split; [reflexivity|]. apply typed_fields_set; auto. rewrite Ty. eapply HT_struct; eauto.
    - rewrite set_path_cons, Ax in S. simpl in S. inversion S; subst v'.
      eexists. split; [reflexivity|]. apply typed_fields_set; auto. rewrite Ty. constructor. auto.
    - assert (NE : h' <> []).
      { destruct fuel; [contradiction|]. destruct (in_rhops _ _ _ _ I') as (? & _ & _ & [(?&?&?&?&_&_&_&X)|(?&?&?&_&_&[(X&_)|(?&_&X)])]); rewrite X; discriminate. }
      rewrite set_path_cons, Ax in S. rewrite Ty in Tx.
      destruct (has_ty_ptr _ _ _ Tx) as [->|(y & -> & Ty')].
      + destruct h' as [|m' q]; [congruence|]. simpl in S. discriminate.
      + destruct (has_ty_struct _ _ _ _ _ Ty' L) as (kvs' & -> & T').
        destruct h' as [|m' q]; [congruence|].
        assert (S2 : set_path (VPtr (VStruct kvs')) (m' :: q) (VPtr z)
                     = bind (set_path (VStruct kvs') (m' :: q) (VPtr z)) (fun w => match w with VStruct l => Ok (VPtr (VStruct l)) | _ => Stuck end)).
        { rewrite !set_path_cons. destruct (assoc_val m' kvs'); auto. destruct (set_path v q (VPtr z)); auto. }
        rewrite S2 in S.
        destruct (set_path (VStruct kvs') (m' :: q) (VPtr z)) as [new| |] eqn:S'; simpl in S; try discriminate.
        destruct (IH gs kvs' (m' :: q) t z T' (env_ok_lookup _ _ _ _ Eok L) I' Hz new S') as (kvs'' & -> & T'').
        simpl in S. inversion S; subst v'.
        eexists. split; [reflexivity|]. apply typed_fields_set; auto. rewrite Ty. constructor. eapply HT_struct; eauto.
  Qed.
End Leaves.

(* ------------------------------------------------------------ zero values *)
Lemma basic_zero b : basic_val b (match b with BString => VStr "" | BBool => VBool false | _ => VInt 0%Z end).
Proof. destruct b; simpl; eauto. Qed.

Lemma zero_typed e : forall zf t, zero_wf e zf t = true -> has_ty e (zero_val e zf t) t.
Proof.
  induction zf as [|f IH]; intros t H.
  - destruct t; simpl in *; try discriminate.
    + constructor. apply basic_zero.
    + constructor. + constructor. + constructor.
  - destruct t as [b|p n|t'|t'|k v]; simpl in *.
    + constructor. apply basic_zero.
    + destruct (lookup_decl e p n) as [[b|fs]|] eqn:L; try discriminate.
      * eapply HT_named_basic; eauto. apply basic_zero.
      * eapply HT_struct; eauto. clear L.
        induction fs as [|sf fs IHf]; simpl; constructor.
        -- simpl in H. apply andb_true_iff in H. destruct H as (H1 & H2). simpl. split; auto.
        -- simpl in H. apply andb_true_iff in H. destruct H as (H1 & H2). apply IHf. exact H2.
    + constructor. + constructor. + constructor.
Qed.

Lemma list_eqb_path a b : list_eqb path_eqb a b = true -> a = b.
Proof.
  revert b. induction a as [|x a IH]; intros [|y b]; simpl; intros H; try discriminate; auto.
  apply andb_true_iff in H. destruct H as (H1 & H2). apply path_eqb_eq in H1. f_equal; auto.
Qed.

Lemma find_leaf_in ls p l : find_leaf ls p = Some l -> In l ls /\ rl_path l = p.
Proof.
  induction ls as [|x ls IH]; simpl; [discriminate|].
  destruct (path_eqb (rl_path x) p) eqn:E.
  - intros H. inversion H; subst. apply path_eqb_eq in E. auto.
  - intros H. destruct (IH H). auto.
Qed.

Lemma find_plans_in pe n tp : find_plans pe n = Some tp -> In tp pe /\ tp_src tp = n.
Proof.
  induction pe as [|x pe IH]; simpl; [discriminate|].
  destruct (String.eqb (tp_src x) n) eqn:E.
  - intros H. inversion H; subst. apply String.eqb_eq in E. auto.
  - intros H. destruct (IH H). auto.
Qed.

(* every embedded pointer of a leaf lies strictly above the leaf *)
Lemma hops_prefix e : forall fuel fs l h, In l (rleaves e fuel fs) -> In h (rl_hops l) ->
  exists r, rl_path l = h ++ r /\ r <> [].
Proof.
  induction fuel as [|fuel IH]; intros fs l h I H; [contradiction|].
  destruct (in_rleaves e _ _ _ I) as (sf & Isf & [(Em & ->)|[(Em & p & n & gs & l' & Ty & L & I' & ->)|(Em & p & n & gs & l' & Ty & L & I' & ->)]]).
  - contradiction.
  - simpl in H. apply in_map_iff in H. destruct H as (h' & <- & H').
    destruct (IH _ _ _ I' H') as (r & E & R). exists r. simpl. rewrite E. auto.
  - simpl in H. destruct H as [<-|H].
    + exists (rl_path l'). split; auto.
      destruct fuel; [contradiction|].
      destruct (in_rleaves e _ _ _ I') as (? & _ & [(_ & ->)|[(_ & ? & ? & ? & ? & _ & _ & _ & ->)|(_ & ? & ? & ? & ? & _ & _ & _ & ->)]]); discriminate.
    + apply in_map_iff in H. destruct H as (h' & <- & H').
      destruct (IH _ _ _ I' H') as (r & E & R). exists r. simpl. rewrite E. auto.
Qed.

(* ------------------------------------------------- evaluation never panics *)
Section Safe.
  Variable e : env.
  Variable zf : nat.
  Variable U : usem.
  Variable pe : penv.
  Hypothesis Eok : env_ok e = true.

  Section Dir.
  Variable to_dir : bool.

  (* the struct type an inner call for source type sn receives a pointer to *)
  Definition arg_ty (sn : string) (tp : tplans) : ty :=
    if to_dir then TNamed PSrc sn else TNamed PDst (tp_dst tp).

  (* what the lemmas need of the recursive call *)
  Definition call_ok (call : string -> val -> out val) : Prop :=
    forall sn tp y, find_plans pe sn = Some tp -> has_ty e y (TPtr (arg_ty sn tp)) ->
      call sn y <> Panic /\ (forall s v, y = VPtr s -> call sn y = Ok v -> exists d, v = VPtr d).

  Lemma deref_call_ok call sn tp s :
    call_ok call -> find_plans pe sn = Some tp -> has_ty e s (arg_ty sn tp) -> deref (call sn (VPtr s)) <> Panic.
  Proof.
    intros C F T. destruct (C sn tp (VPtr s) F (HT_ptr _ _ _ T)) as (NP & Sh).
    destruct (call sn (VPtr s)) as [v| |] eqn:E; simpl; try congruence.
    destruct (Sh s v eq_refl eq_refl) as (d & ->). discriminate.
  Qed.

  Lemma sub_one_ok call sn tp (rp wp : bool) x :
    call_ok call -> find_plans pe sn = Some tp ->
    has_ty e x (if rp then TPtr (arg_ty sn tp) else arg_ty sn tp) ->
    sub_one (call sn) rp wp x <> Panic.
  Proof.
    intros C F T. unfold sub_one. destruct rp, wp.
    - destruct (C sn tp x F T) as (NP & _). destruct (call sn x); simpl; congruence.
    - destruct (has_ty_ptr _ _ _ T) as [->|(s & -> & Ts)]; [discriminate|].
      pose proof (deref_call_ok call sn tp s C F Ts) as D.
      destruct (deref (call sn (VPtr s))); simpl; congruence.
    - destruct (C sn tp (VPtr x) F (HT_ptr _ _ _ T)) as (NP & _). destruct (call sn (VPtr x)); simpl; congruence.
    - pose proof (deref_call_ok call sn tp x C F T) as D.
      destruct (deref (call sn (VPtr x))); simpl; congruence.
  Qed.

  Lemma each_one_ok call sn tp (rp wp : bool) zero x :
    call_ok call -> find_plans pe sn = Some tp ->
    has_ty e x (if rp then TPtr (arg_ty sn tp) else arg_ty sn tp) ->
    each_one (call sn) rp wp zero x <> Panic.
  Proof.
    intros C F T. unfold each_one. destruct rp, wp.
    - destruct (C sn tp x F T) as (NP & _). exact NP.
    - destruct (has_ty_ptr _ _ _ T) as [->|(s & -> & Ts)]; [discriminate|].
      apply (deref_call_ok call sn tp s C F Ts).
    - destruct (C sn tp (VPtr x) F (HT_ptr _ _ _ T)) as (NP & _). exact NP.
    - apply (deref_call_ok call sn tp x C F T).
  Qed.

  Lemma map_out_ok {A B} (f : A -> out B) (l : list A) :
    (forall x, In x l -> f x <> Panic) -> map_out f l <> Panic.
  Proof.
    induction l as [|x l IH]; intros H; simpl; [discriminate|].
    assert (f x <> Panic) by (apply H; left; auto).
    destruct (f x); simpl; try congruence.
    assert (map_out f l <> Panic) by (apply IH; intros y Y; apply H; right; auto).
    destruct (map_out f l); simpl; congruence.
  Qed.

  Lemma apply_strategy_ok call wpkg mh self h t x :
    call_ok call -> read_type_ok pe to_dir h t = true -> func_ok mh h = true -> has_ty e x t ->
    apply_strategy e zf U call wpkg to_dir (mapper_nil mh self) h x <> Panic.
  Proof.
    intros C R FO T. destruct h as [| a b | f | sp dp sn dn | sp dp sn dn]; simpl; try discriminate.
    - destruct mh; [discriminate|]. simpl. discriminate.
    - (* SMap *)
      simpl in R. apply andb_true_iff in R. destruct R as (R1 & R2). apply ty_eqb_eq in R1.
      destruct (find_plans pe sn) as [tp|] eqn:F; [|discriminate]. apply String.eqb_eq in R2.
      apply (sub_one_ok call sn tp (if to_dir then sp else dp) (if to_dir then dp else sp) x C F).
      unfold arg_ty. rewrite R2. subst t. destruct to_dir; destruct sp, dp; exact T.
    - (* SEach *)
      simpl in R. apply andb_true_iff in R. destruct R as (R1 & R2). apply ty_eqb_eq in R1.
      destruct (find_plans pe sn) as [tp|] eqn:F; [|discriminate]. apply String.eqb_eq in R2. subst dn.
      subst t. inversion T as [ | | | t0 | xs t0 FA | | | ]; [discriminate|]. subst.
      assert (M : map_out (each_one (call sn) (if to_dir then sp else dp) (if to_dir then dp else sp)
                             (zero_val e zf (TNamed wpkg (if to_dir then tp_dst tp else sn)))) xs <> Panic).
      { apply map_out_ok. intros y Y. rewrite Forall_forall in FA. specialize (FA y Y).
        apply (each_one_ok call sn tp _ _ _ y C F). unfold arg_ty.
        destruct to_dir; destruct sp, dp; exact FA. }
      destruct (map_out _ xs); simpl; congruence.
  Qed.

  (* the guard of a statement: the embedded pointers of the read leaf, parents first *)
  Lemma guard_ok fs rk l :
    typed_fields e rk fs -> nodup_strs (map sf_name fs) = true -> In l (rleaves e zf fs) ->
    forall g done,
      (forall h, In h g -> In h (rl_hops l)) ->
      (forall q, In q done -> get_path (VStruct rk) q <> Ok VNil) ->
      chain_ok (rl_hops l) done g = true ->
      eval_guard (VStruct rk) g <> Panic
      /\ (eval_guard (VStruct rk) g = Ok true ->
          forall h, In h g \/ In h done -> get_path (VStruct rk) h <> Ok VNil).
  Proof.
    intros T N I. induction g as [|h g IH]; intros done Hg Hd Ch; simpl.
    - split; [discriminate|]. intros _ h [[]|H]. auto.
    - simpl in Ch. apply andb_true_iff in Ch. destruct Ch as (C1 & C2).
      destruct (get_path (VStruct rk) h) as [x| |] eqn:G; simpl.
      + assert (NX : x <> VNil -> forall q, In q (h :: done) -> get_path (VStruct rk) q <> Ok VNil).
        { intros NX q [<-|Q]; [rewrite G; congruence | auto]. }
        destruct x; try (destruct (IH (h :: done)) as (A & B); auto;
                         [intros; apply Hg; right; auto | apply NX; discriminate |];
                         split; auto; intros E k [[<-|K]|K]; apply B; auto; right; [left|right]; auto).
        split; [discriminate|discriminate].
      + exfalso. destruct (get_path_panic _ _ G) as (q & r & E & R & Gq).
        assert (Ih : In h (rl_hops l)) by (apply Hg; left; auto).
        destruct (hops_prefix e _ _ _ _ I Ih) as (r2 & P & R2).
        assert (Iq : In q (rl_hops l)).
        { eapply (leaf_nils e Eok zf fs rk l T N I q (r ++ r2)); auto.
          - rewrite P, E, app_assoc. reflexivity.
          - destruct r; [congruence|discriminate]. }
        rewrite forallb_forall in C1. specialize (C1 q Iq).
        assert (PP : proper_prefix q h = true) by (apply proper_prefix_app; eauto).
        rewrite PP in C1. simpl in C1. apply mem_path_in in C1. apply (Hd q C1 Gq).
      + split; discriminate.
  Qed.
  
  (* ---------------------------------------------------------- statements *)
  Section Stmts.
    Variables rfs wfs : list sfield.
    Hypothesis Nr : nodup_strs (map sf_name rfs) = true.
    Let rls := rleaves e zf rfs.
    Let wls := rleaves e zf wfs.
    Let whops := rhops e zf wfs.

    (* the value being written: along its leaf paths only the leaf's embedded
       pointers can be nil, and the allocated ones are not *)
    Definition NPw (w : val) : Prop :=
      forall l, In l wls -> forall q r, rl_path l = q ++ r -> r <> [] -> get_path w q = Ok VNil -> In q (rl_hops l).
    Definition ALw (w : val) (A : list path) : Prop := forall h, In h A -> get_path w h <> Ok VNil.

    Lemma write_leaf_ok w A wl y :
      NPw w -> ALw w A -> In wl wls -> (forall h, In h (rl_hops wl) -> In h A) ->
      set_path w (rl_path wl) y <> Panic.
    Proof.
      intros NP AL I H S. destruct (set_path_panic _ _ _ S) as (q & r & E & R & G).
      apply (AL q); auto.
      apply H. eapply NP; eauto.
    Qed.

    Lemma write_leaf_keeps w A wl y w' :
      NPw w -> ALw w A -> In wl wls ->
      (forall l', In l' wls -> proper_prefix (rl_path wl) (rl_path l') = false) ->
      (forall h, In h A -> path_prefix (rl_path wl) h = false) ->
      set_path w (rl_path wl) y = Ok w' -> NPw w' /\ ALw w' A.
    Proof.
      intros NP AL I H1 H2 S. split.
      - intros l Il q r E R G. eapply NP; eauto.
        apply (set_path_frame _ _ _ _ S q); auto.
        destruct (path_prefix (rl_path wl) q) eqn:P; auto.
        apply path_prefix_app in P. destruct P as (r' & ->).
        assert (proper_prefix (rl_path wl) (rl_path l) = true); [|rewrite H1 in *; auto; discriminate].
        apply proper_prefix_app. exists (r' ++ r). rewrite E, app_assoc. split; auto.
        destruct r'; simpl; [auto|discriminate].
      - intros h Ih G. apply (AL h Ih). apply (set_path_frame _ _ _ _ S h); auto.
    Qed.

    Lemma stmts_ok call wpkg mh racc wacc rk :
      call_ok call -> typed_fields e rk rfs ->
      forall ss w A,
        NPw w -> ALw w A -> (forall h, In h A -> In h (map fst whops)) ->
        forallb (stmt_ok pe to_dir mh rls wls whops A) ss = true ->
        eval_stmts e zf U call wpkg to_dir mh racc wacc (VStruct rk) w ss <> Panic.
    Proof.
      intros C T. induction ss as [|s ss IH]; intros w A NP AL AW SS; simpl; [discriminate|].
      simpl in SS. apply andb_true_iff in SS. destruct SS as (S1 & S2).
      unfold stmt_ok in S1.
      apply andb_true_iff in S1. destruct S1 as (S1 & S3).
      apply andb_true_iff in S1. destruct S1 as (S1 & FO).
      apply andb_true_iff in S1. destruct S1 as (Ra & Wa).
      apply negb_true_iff in Ra. apply negb_true_iff in Wa.
      destruct (find_leaf rls (r_path (st_src s))) as [rl|] eqn:Fr; [|discriminate].
      destruct (find_leaf wls (r_path (st_dst s))) as [wl|] eqn:Fw; [|discriminate].
      destruct (find_leaf_in _ _ _ Fr) as (Irl & Prl). destruct (find_leaf_in _ _ _ Fw) as (Iwl & Pwl).
      repeat (apply andb_true_iff in S3; destruct S3 as (S3 & ?)).
      rename H into Hh, H0 into Hrt, H1 into Hlp, H2 into Hal, H3 into Hch.
      apply list_eqb_path in S3.
      destruct (guard_ok rfs rk rl T Nr Irl (st_guard s) []) as (G1 & G2).
      { intros h Ih. rewrite S3 in Ih. exact Ih. } { intros q []. } { rewrite S3. exact Hch. }
      destruct (eval_guard (VStruct rk) (st_guard s)) as [g| |] eqn:EG; simpl; try congruence.
      destruct g; [|apply (IH w A); auto].
      (* read *)
      unfold read_ref. rewrite Ra.
      destruct (leaf_read e Eok zf rfs rk rl T Nr Irl) as (x & Gx & Tx).
      { intros h Ih. apply (G2 eq_refl). left. rewrite S3. exact Ih. }
      rewrite <- Prl, Gx. simpl.
      pose proof (apply_strategy_ok call wpkg mh (if to_dir then VStruct rk else w) (st_how s) (rl_ty rl) x C Hrt FO Tx) as AS.
      destruct (apply_strategy e zf U call wpkg to_dir (mapper_nil mh (if to_dir then VStruct rk else w)) (st_how s) x) as [o| |]; simpl; try congruence.
      destruct o as [y|]; [|apply (IH w A); auto].
      unfold write_ref. rewrite Wa. rewrite <- Pwl.
      assert (WO : set_path w (rl_path wl) y <> Panic).
      { eapply write_leaf_ok; eauto. intros h Ih. rewrite forallb_forall in Hal. apply mem_path_in. apply Hal. auto. }
      destruct (set_path w (rl_path wl) y) as [w'| |] eqn:SW; simpl; try congruence.
      destruct (write_leaf_keeps w A wl y w' NP AL Iwl) as (NP' & AL'); auto.
      { intros l' Il'. rewrite forallb_forall in Hlp. specialize (Hlp l' Il'). rewrite Pwl.
        destruct (proper_prefix (r_path (st_dst s)) (rl_path l')); auto. }
      { intros h Ih. apply AW in Ih. apply in_map_iff in Ih. destruct Ih as ((h0, t0) & <- & Ih).
        rewrite forallb_forall in Hh. specialize (Hh (h0, t0) Ih). simpl in *. rewrite Pwl.
        destruct (path_prefix (r_path (st_dst s)) h0); auto. }
      apply (IH w' A); auto.
    Qed.
  End Stmts.
  End Dir.

  (* ------------------------------------------------------------ allocations *)
  Lemma alloc_run wfs :
    nodup_strs (map sf_name wfs) = true ->
    forall al kvs done,
      typed_fields e kvs wfs ->
      ALw (VStruct kvs) done ->
      (forall h q t, In h done -> In (q, t) (rhops e zf wfs) -> proper_prefix q h = true -> In q done) ->
      alloc_ok (rhops e zf wfs) done al = true ->
      forallb (fun a => zero_wf e zf (snd a)) al = true ->
      eval_alloc e zf (VStruct kvs) al <> Panic
      /\ (forall w1, eval_alloc e zf (VStruct kvs) al = Ok w1 ->
          exists kvs1, w1 = VStruct kvs1 /\ typed_fields e kvs1 wfs
                       /\ ALw w1 (map fst al ++ done)).
  Proof.
    intros Nw. induction al as [|[p t] al IH]; intros kvs done T AL DC AO ZW; simpl.
    - split; [discriminate|]. intros w1 H. inversion H; subst. eauto.
    - simpl in AO. apply andb_true_iff in AO. destruct AO as (AO & A3).
      apply andb_true_iff in AO. destruct AO as (A1 & A2).
      simpl in ZW. apply andb_true_iff in ZW. destruct ZW as (Z1 & Z2).
      apply existsb_exists in A1. destruct A1 as ((p0, t0) & Ih & E0). simpl in E0.
      apply andb_true_iff in E0. destruct E0 as (E1 & E2). apply path_eqb_eq in E1. apply ty_eqb_eq in E2. subst p0 t0.
      assert (Above : forall q r, p = q ++ r -> r <> [] -> get_path (VStruct kvs) q = Ok VNil -> False).
      { intros q r E R G.
        destruct (hop_nils e Eok zf wfs kvs p t T Nw Ih q r E R G) as (t' & Iq).
        rewrite forallb_forall in A2. specialize (A2 (q, t') Iq). simpl in A2.
        assert (PP : proper_prefix q p = true) by (apply proper_prefix_app; eauto).
        rewrite PP in A2. simpl in A2. apply mem_path_in in A2. apply (AL q A2 G). }
      assert (DC' : forall h q t', In h (p :: done) -> In (q, t') (rhops e zf wfs) -> proper_prefix q h = true -> In q (p :: done)).
      { intros h q t' [<-|Ihd] Iq PP.
        - right. rewrite forallb_forall in A2. specialize (A2 (q, t') Iq). simpl in A2. rewrite PP in A2.
          simpl in A2. apply mem_path_in. exact A2.
        - right. eapply DC; eauto. }
      destruct (get_path (VStruct kvs) p) as [x| |] eqn:G; simpl.
      + assert (Keep : x <> VNil ->
                  eval_alloc e zf (VStruct kvs) al <> Panic /\
                  (forall w1, eval_alloc e zf (VStruct kvs) al = Ok w1 ->
                     exists kvs1, w1 = VStruct kvs1 /\ typed_fields e kvs1 wfs /\ ALw w1 (p :: map fst al ++ done))).
        { intros NX. destruct (IH kvs (p :: done) T) as (I1 & I2); auto.
          - intros h [<-|Ihd]; [rewrite G; congruence | apply AL; auto].
          - split; auto. intros w1 H1. destruct (I2 w1 H1) as (k1 & -> & T1 & AL1). exists k1. split; auto. split; auto.
            intros h Hh. apply AL1. apply in_or_app. destruct Hh as [<-|Hh]; [right; left; auto|].
            apply in_app_or in Hh. destruct Hh; [left|right; right]; auto. }
        destruct x; try (apply Keep; discriminate).
        (* nil: allocate *)
        destruct (set_path (VStruct kvs) p (VPtr (zero_val e zf t))) as [d'| |] eqn:S; simpl.
        * destruct (hop_set e Eok zf wfs kvs p t (zero_val e zf t) T Nw Ih (zero_typed e zf t Z1) d' S) as (kvs' & -> & T').
          destruct (IH kvs' (p :: done) T') as (I1 & I2); auto.
          -- intros h [<-|Ihd] Gh.
             ++ rewrite (get_set_same _ _ _ _ S) in Gh. discriminate.
             ++ apply (AL h Ihd). apply (set_path_frame _ _ _ _ S h); auto.
                destruct (path_prefix p h) eqn:P; auto. exfalso.
                apply path_prefix_app in P. destruct P as (r & ->).
                destruct r as [|a r].
                ** rewrite app_nil_r in Ihd. apply (AL p Ihd G).
                ** assert (In p done).
                   { eapply (DC (p ++ a :: r) p t); eauto. apply proper_prefix_app. exists (a :: r). split; auto. discriminate. }
                   apply (AL p H G).
          -- split; auto. intros w1 H1. destruct (I2 w1 H1) as (k1 & -> & T1 & AL1). exists k1. split; auto. split; auto.
             intros h Hh. apply AL1. apply in_or_app. destruct Hh as [<-|Hh]; [right; left; auto|].
             apply in_app_or in Hh. destruct Hh; [left|right; right]; auto.
        * exfalso. destruct (set_path_panic _ _ _ S) as (q & r & E & R & Gq). eapply Above; eauto.
        * split; discriminate.
      + exfalso. destruct (get_path_panic _ _ G) as (q & r & E & R & Gq). eapply Above; eauto.
      + split; discriminate.
  Qed.
End Safe.

(* ----------------------------------------------------------- main theorems *)
Section Main.
  Variable e : env.
  Variable zf : nat.
  Variable U : usem.
  Variable pe : penv.
  Hypothesis SAFE : plans_safe e zf pe = true.

  Lemma safe_env : env_ok e = true.
  Proof. unfold plans_safe in SAFE. apply andb_true_iff in SAFE. tauto. Qed.

  Lemma safe_plan tp : In tp pe ->
    plan_safe e zf pe true (tp_mapper_hop tp) (decl_fields e PSrc (tp_src tp)) (decl_fields e PDst (tp_dst tp)) (tp_to tp) = true
    /\ plan_safe e zf pe false (tp_mapper_hop tp) (decl_fields e PDst (tp_dst tp)) (decl_fields e PSrc (tp_src tp)) (tp_from tp) = true
    /\ (exists fs, lookup_decl e PSrc (tp_src tp) = Some (DStruct fs))
    /\ (exists fs, lookup_decl e PDst (tp_dst tp) = Some (DStruct fs))
    /\ zero_wf e zf (TNamed PSrc (tp_src tp)) = true /\ zero_wf e zf (TNamed PDst (tp_dst tp)) = true.
  Proof.
    intros I. unfold plans_safe in SAFE. apply andb_true_iff in SAFE. destruct SAFE as (S & _).
    rewrite forallb_forall in S. specialize (S tp I).
    repeat (apply andb_true_iff in S; destruct S as (S & ?)).
    unfold is_struct_decl in *.
    destruct (lookup_decl e PSrc (tp_src tp)) as [[|fs1]|]; try discriminate.
    destruct (lookup_decl e PDst (tp_dst tp)) as [[|fs2]|]; try discriminate.
    repeat split; eauto.
  Qed.

  (* one generated method body, given a well-behaved recursive call: rfs/wfs are
     the declarations of the struct read / written *)
  Lemma body_ok to_dir call wpkg mh racc wacc wpm sn rp rn wp wn rfs wfs pl s manual :
    call_ok e pe to_dir call ->
    lookup_decl e rp rn = Some (DStruct rfs) -> lookup_decl e wp wn = Some (DStruct wfs) ->
    zero_wf e zf (TNamed wp wn) = true ->
    plan_safe e zf pe to_dir mh rfs wfs pl = true ->
    has_ty e s (TNamed rp rn) ->
    bind (match pl_ctor pl with
          | Some args => bind (eval_alloc e zf (zero_val e zf (TNamed wp wn)) wpm)
                              (fun w0 => eval_ctor e zf U sn racc wpm s w0 args)
          | None => eval_alloc e zf (zero_val e zf (TNamed wp wn)) (pl_alloc pl)
          end)
         (fun d1 => bind (eval_stmts e zf U call wpkg to_dir mh racc wacc s d1 (pl_stmts pl))
                         (fun d2 => Ok (VPtr (manual d2)))) <> Panic.
  Proof.
    intros C Lr Lw ZW PS Ts. pose proof safe_env as Eok.
    unfold plan_safe in PS. destruct (pl_ctor pl); [discriminate|].
    apply andb_true_iff in PS. destruct PS as (PS & P3). apply andb_true_iff in PS. destruct PS as (PS & P2).
    apply andb_true_iff in PS. destruct PS as (_ & P1).
    destruct (has_ty_struct _ _ _ _ _ Ts Lr) as (rk & -> & Tr).
    destruct (has_ty_struct _ _ _ _ _ (zero_typed e zf _ ZW) Lw) as (dk & Ez & Td). rewrite Ez.
    pose proof (env_ok_lookup _ _ _ _ Eok Lr) as Nr. pose proof (env_ok_lookup _ _ _ _ Eok Lw) as Nw.
    destruct (alloc_run e zf Eok wfs Nw (pl_alloc pl) dk [] Td) as (A1 & A2); auto.
    { intros h []. }
    destruct (eval_alloc e zf (VStruct dk) (pl_alloc pl)) as [d1| |] eqn:EA; simpl; try congruence.
    destruct (A2 d1 eq_refl) as (k1 & -> & T1 & AL1). rewrite app_nil_r in AL1.
    assert (SO : eval_stmts e zf U call wpkg to_dir mh racc wacc (VStruct rk) (VStruct k1) (pl_stmts pl) <> Panic).
    { apply (stmts_ok e zf U pe Eok to_dir rfs wfs Nr call wpkg mh racc wacc rk C Tr (pl_stmts pl) (VStruct k1) (map fst (pl_alloc pl))); auto.
      - intros l Il q r E R G. eapply (leaf_nils e Eok zf wfs k1 l T1 Nw Il); eauto.
      - (* allocated paths are embedded-pointer positions *)
        clear - P1. revert P1. generalize (@nil path). induction (pl_alloc pl) as [|[p t] al IH]; intros done P1 h Ih; [contradiction|].
        simpl in P1. apply andb_true_iff in P1. destruct P1 as (P1 & P3). apply andb_true_iff in P1. destruct P1 as (P1 & _).
        destruct Ih as [<-|Ih]; [|eapply IH; eauto].
        apply existsb_exists in P1. destruct P1 as ((p0, t0) & I0 & E0). simpl in E0.
        apply andb_true_iff in E0. destruct E0 as (E1 & _). apply path_eqb_eq in E1. subst p0.
        apply in_map_iff. exists (p, t0). auto. }
    destruct (eval_stmts e zf U call wpkg to_dir mh racc wacc (VStruct rk) (VStruct k1) (pl_stmts pl)); simpl; congruence.
  Qed.

  (* C09: ToX never panics, for every well-typed receiver (any nil pattern) and any recursion depth *)
  Theorem eval_to_no_panic : forall fuel tn recv,
    has_ty e recv (TPtr (TNamed PSrc tn)) -> eval_to e zf U pe fuel tn recv <> Panic.
  Proof.
    induction fuel as [|fuel IH]; intros tn recv T; simpl; [discriminate|].
    destruct (find_plans pe tn) as [tp|] eqn:F; [|discriminate].
    destruct (find_plans_in _ _ _ F) as (Itp & Etn).
    destruct (safe_plan tp Itp) as (P1 & _ & (rfs & Lr) & (wfs & Lw) & _ & ZW).
    destruct (has_ty_ptr _ _ _ T) as [->|(s & -> & Ts)]; [discriminate|].
    unfold decl_fields in P1. rewrite Lr, Lw in P1. rewrite <- Etn in Ts.
    apply (body_ok true (eval_to e zf U pe fuel) PDst (tp_mapper_hop tp) (tp_src_acc tp) (tp_dst_acc tp) (tp_dst_ptr tp)
                   (mapper_nil (tp_mapper_hop tp) s) PSrc (tp_src tp) PDst (tp_dst tp)
                   rfs wfs (tp_to tp) s (fun d2 => if pl_manual (tp_to tp) then u_manual_to U tn s d2 else d2)); auto.
    intros sn tp' y F' Ty. split.
    - apply IH. exact Ty.
    - intros s' v -> H. destruct fuel; simpl in H; [discriminate|].
      destruct (find_plans pe sn); [|discriminate].
      match type of H with bind ?X _ = _ => destruct X; simpl in H; try discriminate end.
      match type of H with bind ?X _ = _ => destruct X; simpl in H; try discriminate end.
      inversion H. eauto.
  Qed.

  (* C09: FromX never panics, for every well-typed argument, whatever the receiver *)
  Theorem eval_from_no_panic : forall fuel tn tp recv arg,
    find_plans pe tn = Some tp -> has_ty e arg (TPtr (TNamed PDst (tp_dst tp))) ->
    eval_from e zf U pe fuel tn recv arg <> Panic.
  Proof.
    induction fuel as [|fuel IH]; intros tn tp recv arg F T; simpl; [discriminate|].
    rewrite F. destruct (find_plans_in _ _ _ F) as (Itp & Etn).
    destruct (safe_plan tp Itp) as (_ & P2 & (rfs & Lr) & (wfs & Lw) & ZW & _).
    destruct (has_ty_ptr _ _ _ T) as [->|(d & -> & Td)]; [discriminate|].
    unfold decl_fields in P2. rewrite Lr, Lw in P2.
    assert (PR : pl_reset (tp_from tp) = true).
    { unfold plan_safe in P2. destruct (pl_ctor (tp_from tp)); [discriminate|].
      repeat (apply andb_true_iff in P2; destruct P2 as (P2 & _)). exact P2. }
    assert (Z : match recv with
                | VPtr c => if pl_reset (tp_from tp) then zero_val e zf (TNamed PSrc (tp_src tp)) else c
                | _ => zero_val e zf (TNamed PSrc (tp_src tp)) end
                = zero_val e zf (TNamed PSrc (tp_src tp))) by (rewrite PR; destruct recv; reflexivity).
    rewrite Z.
    apply (body_ok false (fun n y => eval_from e zf U pe fuel n VNil y) PSrc (tp_mapper_hop tp) (tp_dst_acc tp) (tp_src_acc tp) (tp_src_ptr tp)
                   (match recv with VNil => true | VPtr c => mapper_nil (tp_mapper_hop tp) c | _ => false end)
                   PDst (tp_dst tp) PSrc (tp_src tp) wfs rfs (tp_from tp) d
                   (fun s2 => if pl_manual (tp_from tp) then u_manual_from U tn d s2 else s2)); auto.
    intros sn tp' y F' Ty. split.
    - eapply IH; eauto.
    - intros s' v -> H. destruct fuel; simpl in H; [discriminate|].
      rewrite F' in H.
      match type of H with bind ?X _ = _ => destruct X; simpl in H; try discriminate end.
      match type of H with bind ?X _ = _ => destruct X; simpl in H; try discriminate end.
      inversion H. eauto.
  Qed.
End Main.

(* nil receiver / nil argument gives nil; FromX does not look at the receiver's content *)
Lemma eval_to_nil e zf U pe fuel tn tp :
  find_plans pe tn = Some tp -> eval_to e zf U pe (S fuel) tn VNil = Ok VNil.
Proof. intros F. simpl. rewrite F. reflexivity. Qed.

Lemma eval_from_nil e zf U pe fuel tn tp recv :
  find_plans pe tn = Some tp -> eval_from e zf U pe (S fuel) tn recv VNil = Ok VNil.
Proof. intros F. simpl. rewrite F. reflexivity. Qed.

(* FromX resets its receiver before anything is written ([pl_reset], the
   unconditional `*s = S{}` of the template), so the result does not depend on
   the receiver's previous CONTENT.  With a constructor the arguments are
   evaluated BEFORE the reset, on the old receiver: a mapper method selected
   through a pointer-embedded mapper looks at the old content, hence the side
   condition ... *)
Lemma eval_from_receiver e zf U pe fuel tn tp recv recv' arg :
  find_plans pe tn = Some tp -> pl_reset (tp_from tp) = true ->
  pl_ctor (tp_from tp) = None \/ tp_mapper_hop tp = None ->
  (recv = VNil <-> recv' = VNil) ->
  eval_from e zf U pe fuel tn recv arg = eval_from e zf U pe fuel tn recv' arg.
Proof.
  intros F R C H. destruct fuel; simpl; auto. rewrite F. destruct arg; auto. rewrite R.
  destruct C as [C|C]; rewrite C.
  - destruct recv, recv'; reflexivity.
  - destruct recv, recv'; simpl; try reflexivity; destruct H as (H1 & H2);
      try (specialize (H1 eq_refl); discriminate); try (specialize (H2 eq_refl); discriminate).
Qed.

(* ... and, when the source type has no constructor, not even at whether it is nil *)
Lemma eval_from_receiver_plain e zf U pe fuel tn tp recv recv' arg :
  find_plans pe tn = Some tp -> pl_reset (tp_from tp) = true -> pl_ctor (tp_from tp) = None ->
  eval_from e zf U pe fuel tn recv arg = eval_from e zf U pe fuel tn recv' arg.
Proof.
  intros F R C. destruct fuel; simpl; auto. rewrite F. destruct arg; auto. rewrite C, R.
  destruct recv, recv'; reflexivity.
Qed.

(* the decidable type check is sound *)
Lemma basic_val_b_sound b v : basic_val_b b v = true -> basic_val b v.
Proof. destruct b, v; simpl; intros H; try discriminate; eauto. Qed.

Lemma has_ty_b_sound e : forall fuel v t, has_ty_b e fuel v t = true -> has_ty e v t.
Proof.
  induction fuel as [|f IH]; intros v t H; [discriminate|]. simpl in H.
  destruct t as [b|p n|t'|t'|k x].
  - constructor. apply basic_val_b_sound; auto.
  - destruct (lookup_decl e p n) as [[b|fs]|] eqn:L; try discriminate.
    + eapply HT_named_basic; eauto. apply basic_val_b_sound; auto.
    + destruct v as [| | | | |kvs| |]; try discriminate. eapply HT_struct; eauto.
      clear L. revert fs H. induction kvs as [|kv kvs IHk]; intros [|sf fs] H; try discriminate; constructor.
      * apply andb_true_iff in H. destruct H as (H & _). apply andb_true_iff in H. destruct H as (H1 & H2).
        apply String.eqb_eq in H1. split; auto.
      * apply andb_true_iff in H. destruct H as (_ & H). apply IHk. exact H.
  - destruct v; try discriminate; constructor. apply IH. exact H.
  - destruct v as [| | | | | |xs|]; try discriminate; constructor.
    apply Forall_forall. intros x Ix. rewrite forallb_forall in H. apply IH. apply H. exact Ix.
  - constructor.
Qed.
