(* Lemmas about Model/Transfer.v used by several properties (C03 accessor names
   are exported; C02 parameter names are unexported; C05 name matching). *)
From Coq Require Import String Ascii List Bool Arith Lia.
From Shoot Require Import Base.Str Model.Transfer.
Import ListNotations.
Local Open Scope string_scope.

(* ---- bytes ---------------------------------------------------------- *)
Ltac by_bits c := destruct c as [[] [] [] [] [] [] [] []]; vm_compute; try reflexivity; try discriminate; auto.

Lemma upper_of_lower_is_upper c : is_lower c = true -> is_upper (to_upper_c c) = true.
Proof. by_bits c. Qed.
Lemma lower_of_upper_is_lower c : is_upper c = true -> is_lower (to_lower_c c) = true.
Proof. by_bits c. Qed.
Lemma to_upper_c_upper c : is_upper c = true -> to_upper_c c = c.
Proof. by_bits c. Qed.
Lemma to_lower_c_lower c : is_lower c = true -> to_lower_c c = c.
Proof. by_bits c. Qed.
Lemma to_lower_c_idem c : to_lower_c (to_lower_c c) = to_lower_c c.
Proof. by_bits c. Qed.
Lemma to_upper_c_idem c : to_upper_c (to_upper_c c) = to_upper_c c.
Proof. by_bits c. Qed.
Lemma upper_lower_disjoint c : is_upper c = true -> is_lower c = false.
Proof. by_bits c. Qed.
Lemma to_upper_c_not_lower c : is_lower (to_upper_c c) = false.
Proof. by_bits c. Qed.
Lemma to_lower_c_not_upper c : is_upper (to_lower_c c) = false.
Proof. by_bits c. Qed.

Definition is_letter (c : ascii) : bool := is_upper c || is_lower c.

Lemma to_upper_c_letter c : is_letter c = true -> is_upper (to_upper_c c) = true.
Proof. by_bits c. Qed.
Lemma to_lower_c_letter c : is_letter c = true -> is_lower (to_lower_c c) = true.
Proof. by_bits c. Qed.
Lemma letter_not_underscore c : is_letter c = true -> Ascii.eqb c "_"%char = false.
Proof. by_bits c. Qed.

(* ---- split_c in direct style ---------------------------------------- *)
Fixpoint split_d (sep : ascii) (s : string) : list string :=
  match s with
  | EmptyString => [EmptyString]
  | String c r =>
      if Ascii.eqb c sep then EmptyString :: split_d sep r
      else match split_d sep r with
           | h :: t => String c h :: t
           | [] => [String c EmptyString]
           end
  end.

Lemma split_d_nonempty sep s : split_d sep s <> [].
Proof. destruct s as [|c r]; cbn; [discriminate|].
  destruct (Ascii.eqb c sep); [discriminate|]. destruct (split_d sep r); discriminate. Qed.

Lemma split_c_aux_spec sep : forall s cur,
  split_c_aux sep s cur =
  match split_d sep s with h :: t => cur h :: t | [] => [] end.
Proof.
  induction s as [|c r IH]; intros cur; cbn; [reflexivity|].
  destruct (Ascii.eqb c sep).
  - rewrite IH. destruct (split_d sep r) eqn:E; [exfalso; eapply split_d_nonempty; eauto|reflexivity].
  - rewrite IH. destruct (split_d sep r) eqn:E; [exfalso; eapply split_d_nonempty; eauto|reflexivity].
Qed.

Lemma split_c_spec sep s : split_c sep s = split_d sep s.
Proof. unfold split_c. rewrite split_c_aux_spec. destruct (split_d sep s) eqn:E; [exfalso; eapply split_d_nonempty; eauto|reflexivity]. Qed.

Lemma split_d_head sep c r : Ascii.eqb c sep = false ->
  exists h t, split_d sep (String c r) = String c h :: t.
Proof. intros H. cbn. rewrite H. destruct (split_d sep r) as [|h t]; eauto. Qed.

(* ---- joining --------------------------------------------------------- *)
Lemma join_empty_cons x l : exists rest, join "" (x :: l) = x ++ rest.
Proof. unfold join. destruct l as [|y l]; cbn.
  - exists "". revert x. induction x as [|c x IH]; cbn; [reflexivity|]. now rewrite <- IH.
  - eexists. reflexivity. Qed.

(* ---- Pascal / camel of identifiers ---------------------------------- *)
(* Pascal-casing an identifier that starts with a letter yields an exported
   identifier (this is why generated accessors X()/SetX() are exported) *)
Lemma pascal_exported c r : is_letter c = true ->
  is_exported (to_pascal_case (String c r)) = true.
Proof.
  intros Hl. unfold to_pascal_case. rewrite split_c_spec.
  destruct (split_d_head "_"%char c r (letter_not_underscore c Hl)) as (h & t & E).
  rewrite E. cbn [map first_upper].
  destruct (join_empty_cons (String (to_upper_c c) h) (map first_upper t)) as (rest & J).
  rewrite J. cbn. apply to_upper_c_letter; assumption.
Qed.

Lemma pascal_first c r : is_letter c = true ->
  exists rest, to_pascal_case (String c r) = String (to_upper_c c) rest.
Proof.
  intros Hl. unfold to_pascal_case. rewrite split_c_spec.
  destruct (split_d_head "_"%char c r (letter_not_underscore c Hl)) as (h & t & E).
  rewrite E. cbn [map first_upper].
  destruct (join_empty_cons (String (to_upper_c c) h) (map first_upper t)) as (rest & J).
  rewrite J. cbn. eauto.
Qed.

(* smartMatch is reflexive and symmetric *)
Lemma smart_match_refl a : smart_match a a = true.
Proof. unfold smart_match. rewrite Nat.eqb_refl. cbn. now rewrite String.eqb_refl. Qed.

Lemma smart_match_sym a b : smart_match a b = smart_match b a.
Proof. unfold smart_match. rewrite (Nat.eqb_sym (String.length a)).
  destruct (Nat.eqb (String.length b) (String.length a)); cbn; [|reflexivity].
  rewrite (String.eqb_sym a b). destruct (String.eqb b a); [reflexivity|].
  apply String.eqb_sym. Qed.

(* identical names always match; names of different length never do *)
Lemma smart_match_length a b : smart_match a b = true -> String.length a = String.length b.
Proof. unfold smart_match. destruct (Nat.eqb (String.length a) (String.length b)) eqn:E; cbn; [|discriminate].
  intros _. now apply Nat.eqb_eq. Qed.

(* FirstLowerLetter yields one byte (receiver names of generated methods) *)
Lemma first_lower_letter_length s : s <> "" -> String.length (first_lower_letter s) = 1.
Proof. destruct s; [congruence|reflexivity]. Qed.
