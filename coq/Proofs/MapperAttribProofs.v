(* C05, attribution: under one-to-one name matching the passes give a
   name-matching pair (source field i, destination field j) exactly the
   strategy the declarative reading chooses (Model/MapperSpec.choose: mapper
   method > sub-struct > element-wise > assignment > conversion), the reader's
   Target is the partner, and nothing else ever touches the pair; with no
   applicable strategy the written field stays unclaimed.  Both directions.
   This is completeness and "which strategy wins" in one statement. *)
From Coq Require Import String Ascii List Bool Arith Lia.
From Shoot Require Import Base.Str Model.Transfer Model.MapVal Model.Mapper Model.MapperEval Model.MapperSpec
     Proofs.MapperProofs Proofs.MapperPlanProofs Proofs.MapperFlattenProofs Proofs.MapperAnalyseProofs
     Proofs.MapperReach Proofs.MapperInvProofs Proofs.TransferProofs.
Import ListNotations.
Local Open Scope string_scope.
Local Open Scope list_scope.

(* the strategy flags of a field *)
Definition sig (f : field) := (f_canassign f, f_isconv f, f_func f, f_canmap f, f_caneach f, f_type f).

Lemma src_at_to s i j g h k : i < length (s_src s) ->
  src_at (to_claim i j g h s) k = if Nat.eqb k i then h (set_target (Some j) (src_at s i)) else src_at s k.
Proof. intros H. unfold to_claim, src_at. simpl. rewrite nth_upd by auto. reflexivity. Qed.
Lemma dst_at_to s i j g h k : j < length (s_dst s) ->
  dst_at (to_claim i j g h s) k = if Nat.eqb k j then g (dst_at s j) else dst_at s k.
Proof. intros H. unfold to_claim, dst_at. simpl. rewrite nth_upd by auto. reflexivity. Qed.
Lemma src_at_from s i j g h k : i < length (s_src s) ->
  src_at (from_claim i j g h s) k = if Nat.eqb k i then g (src_at s i) else src_at s k.
Proof. intros H. unfold from_claim, src_at. simpl. rewrite nth_upd by auto. reflexivity. Qed.
Lemma dst_at_from s i j g h k : j < length (s_dst s) ->
  dst_at (from_claim i j g h s) k = if Nat.eqb k j then h (set_target (Some i) (dst_at s j)) else dst_at s k.
Proof. intros H. unfold from_claim, dst_at. simpl. rewrite nth_upd by auto. reflexivity. Qed.

Definition sigT := (bool * bool * string * bool * bool * option ty)%type.
Definition sg_func (n : string) (x : sigT) : sigT := let '(a, b, _, c, d, t) := x in (a, b, n, c, d, t).
Definition sg_sub (each : bool) (ty0 : ty) (x : sigT) : sigT :=
  let '(a, b, f, c, d, _) := x in (a, b, f, if each then c else true, if each then true else d, Some ty0).
Definition sg_assign (x : sigT) : sigT := let '(_, b, f, c, d, t) := x in (true, b, f, c, d, t).
Definition sg_conv (ty0 : ty) (x : sigT) : sigT := let '(a, _, f, c, d, _) := x in (a, true, f, c, d, Some ty0).
Lemma sig_set_func n f : sig (set_func n f) = sg_func n (sig f). Proof. reflexivity. Qed.
Lemma sig_set_submap b t f : sig (set_submap b t f) = sg_sub b t (sig f). Proof. reflexivity. Qed.
Lemma sig_set_isptr b f : sig (set_isptr b f) = sig f. Proof. reflexivity. Qed.
Lemma sig_set_canassign f : sig (set_canassign f) = sg_assign (sig f). Proof. reflexivity. Qed.
Lemma sig_set_isconv t f : sig (set_isconv t f) = sg_conv t (sig f). Proof. reflexivity. Qed.

Lemma kf_sig g f : keeps_flags g -> sig (g f) = sig f.
Proof. intros K. destruct (K f) as (a & b & c & d & x & y). unfold sig. congruence. Qed.

Section Attrib.
  Variable e : env.
  Variable tm : tagmap.
  Variable ic : bool.
  Variable fns : list mfunc.
  Hypothesis fn_names : forall fn, In fn fns -> mf_name fn <> "".
  Variables i j : nat.

  Notation REACH_AT := (reach_at e tm ic fns).
  Notation TRANS_AT := (trans_at e tm ic fns).

  Definition claimed_d (s : st) : bool := s_has (s_wdst s) (f_name (dst_at s j)).
  Definition claimed_s (s : st) : bool := s_has (s_wsrc s) (f_name (src_at s i)).
  (* what the To direction knows about the pair / what the From direction knows *)
  Definition TV (s : st) := (f_target (src_at s i), sig (dst_at s j), claimed_d s).
  Definition FV (s : st) := (f_target (dst_at s j), sig (src_at s i), claimed_s s).

  Lemma TV_to_claim s g h : in_range s i j -> keeps_core g -> keeps_target h ->
    TV (to_claim i j g h s) = (Some j, sig (g (dst_at s j)), true).
  Proof.
    intros (Hi & Hj) Kg Th. unfold TV, claimed_d. rewrite src_at_to, dst_at_to by auto. rewrite !Nat.eqb_refl.
    rewrite Th. simpl. destruct (Kg (dst_at s j)) as (N & _). rewrite N. rewrite String.eqb_refl. reflexivity.
  Qed.
  Lemma TV_from_claim s g h : in_range s i j -> keeps_target g -> keeps_core h -> keeps_flags h ->
    TV (from_claim i j g h s) = TV s.
  Proof.
    intros (Hi & Hj) Tg Kh Fh. unfold TV, claimed_d. rewrite src_at_from, dst_at_from by auto. rewrite !Nat.eqb_refl.
    rewrite Tg. rewrite (kf_sig h), (kf_sig (set_target (Some i))) by (auto; apply kf_target).
    destruct (Kh (set_target (Some i) (dst_at s j))) as (N & _). rewrite N. reflexivity.
  Qed.
  Lemma FV_from_claim s g h : in_range s i j -> keeps_core g -> keeps_target h ->
    FV (from_claim i j g h s) = (Some i, sig (g (src_at s i)), true).
  Proof.
    intros (Hi & Hj) Kg Th. unfold FV, claimed_s. rewrite src_at_from, dst_at_from by auto. rewrite !Nat.eqb_refl.
    rewrite Th. simpl. destruct (Kg (src_at s i)) as (N & _). rewrite N. rewrite String.eqb_refl. reflexivity.
  Qed.
  Lemma FV_to_claim s g h : in_range s i j -> keeps_target g -> keeps_core h -> keeps_flags h ->
    FV (to_claim i j g h s) = FV s.
  Proof.
    intros (Hi & Hj) Tg Kh Fh. unfold FV, claimed_s. rewrite src_at_to, dst_at_to by auto. rewrite !Nat.eqb_refl.
    rewrite Tg. rewrite (kf_sig h), (kf_sig (set_target (Some j))) by (auto; apply kf_target).
    destruct (Kh (set_target (Some j) (src_at s i))) as (N & _). rewrite N. reflexivity.
  Qed.

  Lemma dst_free_claimed s : f_isget (dst_at s j) = false -> dst_free s j = negb (claimed_d s).
  Proof. intros G. unfold dst_free, claimed_d. rewrite G. apply andb_true_r. Qed.
  Lemma src_free_claimed s : f_isget (src_at s i) = false -> src_free s i = negb (claimed_s s).
  Proof. intros G. unfold src_free, claimed_s. rewrite G. apply andb_true_r. Qed.

  (* facts kept by every step at the pair *)
  Record same_pair (s s' : st) : Prop := {
    sp_range : in_range s' i j;
    sp_ts : f_ty (src_at s' i) = f_ty (src_at s i);
    sp_td : f_ty (dst_at s' j) = f_ty (dst_at s j);
    sp_gd : f_isget (dst_at s' j) = f_isget (dst_at s j);
    sp_gs : f_isget (src_at s' i) = f_isget (src_at s i)
  }.
  Lemma same_pair_core s s' : in_range s i j -> Core s s' -> same_pair s s'.
  Proof.
    intros R C. destruct (ty_core _ _ C) as (A & B). destruct C as (a & b & c & d).
    constructor; auto.
    - destruct R. split; [rewrite a|rewrite b]; auto.
    - destruct (d j) as (_ & _ & X & _). exact X.
    - destruct (c i) as (_ & _ & X & _). exact X.
  Qed.

  Definition fits (t1 t2 : ty) (fn : mfunc) : bool := type_equals (mf_param fn) t1 && type_equals (mf_result fn) t2.

  Lemma tv_claimed a b : TV a = TV b -> claimed_d a = claimed_d b.
  Proof. unfold TV. intros H. inversion H. auto. Qed.
  Lemma tv_target a b : TV a = TV b -> f_target (src_at a i) = f_target (src_at b i).
  Proof. unfold TV. intros H. inversion H. auto. Qed.
  Lemma tv_sig a b : TV a = TV b -> sig (dst_at a j) = sig (dst_at b j).
  Proof. unfold TV. intros H. exact (f_equal (fun x => snd (fst x)) H). Qed.
  Lemma tv_set a t sg : TV a = (t, sg, true) -> claimed_d a = true.
  Proof. unfold TV. intros H. inversion H. auto. Qed.
  Lemma fv_claimed a b : FV a = FV b -> claimed_s a = claimed_s b.
  Proof. unfold FV. intros H. inversion H. auto. Qed.
  Lemma fv_target a b : FV a = FV b -> f_target (dst_at a j) = f_target (dst_at b j).
  Proof. unfold FV. intros H. inversion H. auto. Qed.
  Lemma fv_sig a b : FV a = FV b -> sig (src_at a i) = sig (src_at b i).
  Proof. unfold FV. intros H. exact (f_equal (fun x => snd (fst x)) H). Qed.
  Lemma fv_set a t sg : FV a = (t, sg, true) -> claimed_s a = true.
  Proof. unfold FV. intros H. inversion H. auto. Qed.

  (* ------------------------------------------------------------ makeFuncMap *)
  Lemma func_loop_tv : forall l s,
    in_range s i j -> f_isget (dst_at s j) = false ->
    let s' := func_loop l i j s in
    (claimed_d s = true -> TV s' = TV s)
    /\ (claimed_d s = false -> f_target (src_at s i) = None ->
        TV s' = match find (fits (f_ty (src_at s i)) (f_ty (dst_at s j))) l with
                | Some fn => (Some j, sg_func (mf_name fn) (sig (dst_at s j)), true)
                | None => TV s end).
  Proof.
    induction l as [|fn l IH]; intros s R Gd; simpl; [split; auto|].
    set (t1 := f_ty (src_at s i)). set (t2 := f_ty (dst_at s j)).
    set (s1 := if dst_free s j && (type_equals (mf_param fn) t1 && type_equals (mf_result fn) t2)
               then to_claim i j (set_func (mf_name fn)) (fun f => f) s else s).
    assert (C1 : Core s s1).
    { unfold s1. destruct (dst_free s j && _); [|apply Core_refl]. apply to_claim_core; auto. apply kc_func. apply kc_id. }
    pose proof (same_pair_core _ _ R C1) as P1.
    set (s2 := if src_free s1 i && (type_equals (mf_param fn) t2 && type_equals (mf_result fn) t1)
               then from_claim i j (set_func (mf_name fn)) (fun f => f) s1 else s1).
    assert (C12 : Core s1 s2).
    { unfold s2. destruct (src_free s1 i && _); [|apply Core_refl]. apply from_claim_core; auto.
      apply (sp_range _ _ P1). apply kc_func. apply kc_id. }
    assert (C2 : Core s s2) by (eapply Core_trans; eauto).
    pose proof (same_pair_core _ _ R C2) as P2.
    assert (T1 : TV s1 = if negb (claimed_d s) && fits t1 t2 fn
                         then (Some j, sg_func (mf_name fn) (sig (dst_at s j)), true) else TV s).
    { unfold s1. rewrite (dst_free_claimed s Gd). fold (fits t1 t2 fn).
      destruct (negb (claimed_d s) && fits t1 t2 fn); auto. rewrite <- sig_set_func.
      apply TV_to_claim; auto. apply kc_func. apply kt_id. }
    assert (T2 : TV s2 = TV s1).
    { unfold s2. destruct (src_free s1 i && _); auto. apply TV_from_claim; auto. apply (sp_range _ _ P1).
      apply kt_func. apply kc_id. apply kf_id. }
    rewrite T1 in T2. clear T1.
    assert (Gd2 : f_isget (dst_at s2 j) = false) by (rewrite (sp_gd _ _ P2); auto).
    destruct (IH s2 (sp_range _ _ P2) Gd2) as (I1 & I2).
    rewrite (sp_ts _ _ P2), (sp_td _ _ P2) in I2. fold t1 t2 in I2.
    set (res := match f_target (src_at s2 i) with
                | Some _ => match f_target (dst_at s2 j) with Some _ => s2 | None => func_loop l i j s2 end
                | None => func_loop l i j s2 end).
    assert (RES : res = s2 \/ res = func_loop l i j s2).
    { unfold res. destruct (f_target (src_at s2 i)); auto. destruct (f_target (dst_at s2 j)); auto. }
    split.
    - intros CD. rewrite CD in T2. simpl in T2.
      destruct RES as [-> | ->]; auto. rewrite I1; auto. rewrite (tv_claimed _ _ T2). exact CD.
    - intros CD TG. rewrite CD in T2. simpl in T2. destruct (fits t1 t2 fn) eqn:FT.
      + destruct RES as [-> | ->]; auto. rewrite I1; auto. eapply tv_set; eauto.
      + assert (TG2 : f_target (src_at s2 i) = None) by (rewrite (tv_target _ _ T2); exact TG).
        assert (E : res = func_loop l i j s2) by (unfold res; rewrite TG2; reflexivity).
        rewrite E, I2; auto; [|rewrite (tv_claimed _ _ T2); exact CD].
        rewrite (tv_sig _ _ T2), T2. reflexivity.
  Qed.

  Lemma func_loop_fv : forall l s,
    in_range s i j -> f_isget (src_at s i) = false ->
    let s' := func_loop l i j s in
    (claimed_s s = true -> FV s' = FV s)
    /\ (claimed_s s = false -> f_target (dst_at s j) = None ->
        FV s' = match find (fits (f_ty (dst_at s j)) (f_ty (src_at s i))) l with
                | Some fn => (Some i, sg_func (mf_name fn) (sig (src_at s i)), true)
                | None => FV s end).
  Proof.
    induction l as [|fn l IH]; intros s R Gs; simpl; [split; auto|].
    set (t1 := f_ty (src_at s i)). set (t2 := f_ty (dst_at s j)).
    set (s1 := if dst_free s j && (type_equals (mf_param fn) t1 && type_equals (mf_result fn) t2)
               then to_claim i j (set_func (mf_name fn)) (fun f => f) s else s).
    assert (C1 : Core s s1).
    { unfold s1. destruct (dst_free s j && _); [|apply Core_refl]. apply to_claim_core; auto. apply kc_func. apply kc_id. }
    pose proof (same_pair_core _ _ R C1) as P1.
    set (s2 := if src_free s1 i && (type_equals (mf_param fn) t2 && type_equals (mf_result fn) t1)
               then from_claim i j (set_func (mf_name fn)) (fun f => f) s1 else s1).
    assert (C12 : Core s1 s2).
    { unfold s2. destruct (src_free s1 i && _); [|apply Core_refl]. apply from_claim_core; auto.
      apply (sp_range _ _ P1). apply kc_func. apply kc_id. }
    assert (C2 : Core s s2) by (eapply Core_trans; eauto).
    pose proof (same_pair_core _ _ R C2) as P2.
    assert (F1 : FV s1 = FV s).
    { unfold s1. destruct (dst_free s j && _); auto. apply FV_to_claim; auto. apply kt_func. apply kc_id. apply kf_id. }
    assert (Gs1 : f_isget (src_at s1 i) = false) by (rewrite (sp_gs _ _ P1); auto).
    assert (F2 : FV s2 = if negb (claimed_s s) && fits t2 t1 fn
                         then (Some i, sg_func (mf_name fn) (sig (src_at s i)), true) else FV s).
    { unfold s2. rewrite (src_free_claimed s1 Gs1), (fv_claimed _ _ F1). fold (fits t2 t1 fn).
      destruct (negb (claimed_s s) && fits t2 t1 fn); [|exact F1]. rewrite <- (fv_sig _ _ F1), <- sig_set_func.
      apply FV_from_claim; auto. apply (sp_range _ _ P1). apply kc_func. apply kt_id. }
    assert (Gs2 : f_isget (src_at s2 i) = false) by (rewrite (sp_gs _ _ P2); auto).
    destruct (IH s2 (sp_range _ _ P2) Gs2) as (I1 & I2).
    rewrite (sp_ts _ _ P2), (sp_td _ _ P2) in I2. fold t1 t2 in I2.
    set (res := match f_target (src_at s2 i) with
                | Some _ => match f_target (dst_at s2 j) with Some _ => s2 | None => func_loop l i j s2 end
                | None => func_loop l i j s2 end).
    assert (RES : res = s2 \/ res = func_loop l i j s2).
    { unfold res. destruct (f_target (src_at s2 i)); auto. destruct (f_target (dst_at s2 j)); auto. }
    split.
    - intros CS. rewrite CS in F2. simpl in F2.
      destruct RES as [-> | ->]; auto. rewrite I1; auto. rewrite (fv_claimed _ _ F2). exact CS.
    - intros CS TG. rewrite CS in F2. simpl in F2. destruct (fits t2 t1 fn) eqn:FT.
      + destruct RES as [-> | ->]; auto. rewrite I1; auto. eapply fv_set; eauto.
      + assert (TG2 : f_target (dst_at s2 j) = None) by (rewrite (fv_target _ _ F2); exact TG).
        assert (E : res = func_loop l i j s2).
        { unfold res. rewrite TG2. destruct (f_target (src_at s2 i)); reflexivity. }
        rewrite E, I2; auto; [|rewrite (fv_claimed _ _ F2); exact CS].
        rewrite (fv_sig _ _ F2), F2. reflexivity.
  Qed.

  (* ------------------------------------------------------------- makeSubMap *)
  Lemma sub_map_views typ1 typ2 (b : bool) s :
    in_range s i j -> f_isget (dst_at s j) = false -> f_isget (src_at s i) = false ->
    let s' := sub_map i j typ1 typ2 b s in
    Core s s'
    /\ TV s' = (if claimed_d s then TV s
               else match sub_pair typ1 typ2 with
                    | Some (_, _, _, n2) => (Some j, sg_sub b (TNamed PDst n2) (sig (dst_at s j)), true)
                    | None => TV s end)
    /\ FV s' = (if claimed_s s then FV s
               else match sub_pair typ1 typ2 with
                    | Some (_, _, n1, _) => (Some i, sg_sub b (TNamed PSrc n1) (sig (src_at s i)), true)
                    | None => FV s end).
  Proof.
    intros R Gd Gs. unfold sub_map, sub_pair.
    destruct (strip_ptr typ1) as (isptr1, t1). destruct (strip_ptr typ2) as (isptr2, t2).
    assert (ID : Core s s /\ TV s = (if claimed_d s then TV s else TV s) /\ FV s = (if claimed_s s then FV s else FV s)).
    { split; [apply Core_refl|]. split; [destruct (claimed_d s)|destruct (claimed_s s)]; auto. }
    destruct t1 as [| p1 n1 | | |]; try exact ID. destruct p1; try exact ID.
    destruct t2 as [| p2 n2 | | |]; try exact ID. destruct p2; try exact ID. clear ID.
    set (g1 := fun f => set_isptr isptr2 (set_submap b (TNamed PDst n2) f)).
    set (g2 := fun f => set_isptr isptr1 (set_submap b (TNamed PSrc n1) f)).
    assert (Kg1 : keeps_core g1) by (apply (kc_comp (set_isptr isptr2) (set_submap b (TNamed PDst n2))); [apply kc_isptr | apply kc_submap]).
    assert (Kg2 : keeps_core g2) by (apply (kc_comp (set_isptr isptr1) (set_submap b (TNamed PSrc n1))); [apply kc_isptr | apply kc_submap]).
    assert (Tg1 : keeps_target g1) by (apply (kt_comp (set_isptr isptr2) (set_submap b (TNamed PDst n2))); [apply kt_isptr | apply kt_submap]).
    assert (Tg2 : keeps_target g2) by (apply (kt_comp (set_isptr isptr1) (set_submap b (TNamed PSrc n1))); [apply kt_isptr | apply kt_submap]).
    set (s1 := if dst_free s j then to_claim i j g1 (set_isptr isptr1) s else s).
    assert (C1 : Core s s1).
    { unfold s1. destruct (dst_free s j); [|apply Core_refl]. apply to_claim_core; auto; apply kc_isptr. }
    pose proof (same_pair_core _ _ R C1) as P1.
    assert (T1 : TV s1 = if claimed_d s then TV s else (Some j, sg_sub b (TNamed PDst n2) (sig (dst_at s j)), true)).
    { unfold s1. rewrite (dst_free_claimed s Gd). destruct (claimed_d s); cbn [negb]; auto.
      rewrite <- sig_set_submap, <- (sig_set_isptr isptr2). apply TV_to_claim; auto; apply kt_isptr. }
    assert (F1 : FV s1 = FV s).
    { unfold s1. destruct (dst_free s j); auto. apply FV_to_claim; auto; try apply kc_isptr; try apply kf_isptr. }
    assert (Gs1 : f_isget (src_at s1 i) = false) by (rewrite (sp_gs _ _ P1); auto).
    set (s2 := if src_free s1 i then from_claim i j g2 (set_isptr isptr2) s1 else s1).
    assert (C12 : Core s1 s2).
    { unfold s2. destruct (src_free s1 i); [|apply Core_refl]. apply from_claim_core; auto; try apply kc_isptr.
      apply (sp_range _ _ P1). }
    split; [eapply Core_trans; eauto|]. split.
    - transitivity (TV s1); [|exact T1]. unfold s2. destruct (src_free s1 i); auto.
      apply TV_from_claim; auto; try apply kc_isptr; try apply kf_isptr. apply (sp_range _ _ P1).
    - unfold s2. rewrite (src_free_claimed s1 Gs1), (fv_claimed _ _ F1). destruct (claimed_s s); cbn [negb]; [exact F1|].
      rewrite <- (fv_sig _ _ F1), <- sig_set_submap, <- (sig_set_isptr isptr1).
      apply FV_from_claim; auto; try apply kt_isptr. apply (sp_range _ _ P1).
  Qed.

  (* the strategy makeTypeMismatch gives the written field (as a change of its flags) *)
  Definition mm_choice (wpkg : pkg) (pick : bool * bool * string * string -> string) (rt wt st dt : ty) : option (sigT -> sigT) :=
    match find (fits rt wt) fns with
    | Some fn => Some (sg_func (mf_name fn))
    | None =>
        match sub_pair st dt with
        | Some x => Some (sg_sub false (TNamed wpkg (pick x)))
        | None =>
            match st, dt with
            | TSlice e1, TSlice e2 =>
                match sub_pair e1 e2 with
                | Some x => Some (sg_sub true (TNamed wpkg (pick x)))
                | None => None
                end
            | _, _ => None
            end
        end
    end.
  Definition pick_d (x : bool * bool * string * string) : string := snd x.
  Definition pick_s (x : bool * bool * string * string) : string := snd (fst x).

  Lemma step_mismatch_views s :
    in_range s i j -> f_isget (dst_at s j) = false -> f_isget (src_at s i) = false ->
    can_name_match (src_at s i) (dst_at s j) tm ic = true ->
    let s' := step_mismatch tm ic fns i j s in
    let t1 := f_ty (src_at s i) in let t2 := f_ty (dst_at s j) in
    Core s s'
    /\ (claimed_d s = true -> TV s' = TV s)
    /\ (claimed_d s = false -> f_target (src_at s i) = None ->
        TV s' = match mm_choice PDst pick_d t1 t2 t1 t2 with
                | Some f => (Some j, f (sig (dst_at s j)), true) | None => TV s end)
    /\ (claimed_s s = true -> FV s' = FV s)
    /\ (claimed_s s = false -> f_target (dst_at s j) = None ->
        FV s' = match mm_choice PSrc pick_s t2 t1 t1 t2 with
                | Some f => (Some i, f (sig (src_at s i)), true) | None => FV s end).
  Proof.
    intros R Gd Gs N. unfold step_mismatch. rewrite N. cbn [negb].
    set (t1 := f_ty (src_at s i)). set (t2 := f_ty (dst_at s j)).
    assert (C1 : Core s (func_loop fns i j s)).
    { apply (reach_at_core e tm ic fns i j). apply func_loop_reach; auto. }
    destruct (func_loop_tv fns s R Gd) as (TA & TB). destruct (func_loop_fv fns s R Gs) as (FA & FB).
    fold t1 t2 in TB, FB.
    set (s1 := func_loop fns i j s) in *.
    pose proof (same_pair_core _ _ R C1) as P1.
    assert (Gd1 : f_isget (dst_at s1 j) = false) by (rewrite (sp_gd _ _ P1); auto).
    assert (Gs1 : f_isget (src_at s1 i) = false) by (rewrite (sp_gs _ _ P1); auto).
    destruct (sub_map_views (f_ty (src_at s1 i)) (f_ty (dst_at s1 j)) false s1 (sp_range _ _ P1) Gd1 Gs1) as (C12 & T2 & F2).
    rewrite (sp_ts _ _ P1), (sp_td _ _ P1) in C12, T2, F2. fold t1 t2 in C12, T2, F2.
    rewrite (sp_ts _ _ P1), (sp_td _ _ P1). fold t1 t2.
    set (s2 := sub_map i j t1 t2 false s1) in *.
    assert (C2 : Core s s2) by (eapply Core_trans; eauto).
    pose proof (same_pair_core _ _ R C2) as P2.
    assert (Gd2 : f_isget (dst_at s2 j) = false) by (rewrite (sp_gd _ _ P2); auto).
    assert (Gs2 : f_isget (src_at s2 i) = false) by (rewrite (sp_gs _ _ P2); auto).
    unfold sub_list_map. rewrite (sp_ts _ _ P2), (sp_td _ _ P2). fold t1 t2.
    (* the third stage *)
    assert (S3 : exists s3, s3 = match t1 with
                                 | TSlice e1 => match t2 with TSlice e2 => sub_map i j e1 e2 true s2 | _ => s2 end
                                 | _ => s2 end
              /\ Core s2 s3
              /\ TV s3 = (if claimed_d s2 then TV s2 else
                          match t1, t2 with
                          | TSlice e1, TSlice e2 => match sub_pair e1 e2 with
                                                    | Some (_, _, _, n2) => (Some j, sg_sub true (TNamed PDst n2) (sig (dst_at s2 j)), true)
                                                    | None => TV s2 end
                          | _, _ => TV s2 end)
              /\ FV s3 = (if claimed_s s2 then FV s2 else
                          match t1, t2 with
                          | TSlice e1, TSlice e2 => match sub_pair e1 e2 with
                                                    | Some (_, _, n1, _) => (Some i, sg_sub true (TNamed PSrc n1) (sig (src_at s2 i)), true)
                                                    | None => FV s2 end
                          | _, _ => FV s2 end)).
    { eexists. split; [reflexivity|].
      assert (ID : Core s2 s2 /\ TV s2 = (if claimed_d s2 then TV s2 else TV s2) /\ FV s2 = (if claimed_s s2 then FV s2 else FV s2)).
      { split; [apply Core_refl|]. split; [destruct (claimed_d s2)|destruct (claimed_s s2)]; auto. }
      destruct t1; try exact ID. destruct t2; try exact ID.
      apply sub_map_views; auto. apply (sp_range _ _ P2). }
    destruct S3 as (s3 & -> & C23 & T3 & F3).
    split; [eapply Core_trans; eauto|].
    split; [|split; [|split]].
    - intros CD. rewrite T3. specialize (TA CD).
      assert (CD1 : claimed_d s1 = true) by (rewrite (tv_claimed _ _ TA); auto).
      rewrite CD1 in T2. assert (CD2 : claimed_d s2 = true) by (rewrite (tv_claimed _ _ T2); auto).
      rewrite CD2. congruence.
    - intros CD TG. rewrite T3. specialize (TB CD TG). unfold mm_choice.
      destruct (find (fits t1 t2) fns) as [fn|].
      + assert (CD1 : claimed_d s1 = true) by (eapply tv_set; eauto).
        rewrite CD1 in T2. assert (CD2 : claimed_d s2 = true) by (rewrite (tv_claimed _ _ T2); auto).
        rewrite CD2. congruence.
      + assert (CD1 : claimed_d s1 = false) by (rewrite (tv_claimed _ _ TB); auto).
        rewrite CD1 in T2. rewrite (tv_sig _ _ TB) in T2.
        destruct (sub_pair t1 t2) as [[[[sp dp] n1] n2]|].
        * assert (CD2 : claimed_d s2 = true) by (eapply tv_set; eauto). rewrite CD2. exact T2.
        * assert (CD2 : claimed_d s2 = false) by (rewrite (tv_claimed _ _ T2); auto). rewrite CD2.
          rewrite (tv_sig _ _ T2), (tv_sig _ _ TB). rewrite T2, TB.
          destruct t1; auto. destruct t2; auto. destruct (sub_pair t1 t2) as [[[[sp dp] n1] n2]|]; auto.
    - intros CS. rewrite F3. specialize (FA CS).
      assert (CS1 : claimed_s s1 = true) by (rewrite (fv_claimed _ _ FA); auto).
      rewrite CS1 in F2. assert (CS2 : claimed_s s2 = true) by (rewrite (fv_claimed _ _ F2); auto).
      rewrite CS2. congruence.
    - intros CS TG. rewrite F3. specialize (FB CS TG). unfold mm_choice.
      destruct (find (fits t2 t1) fns) as [fn|].
      + assert (CS1 : claimed_s s1 = true) by (eapply fv_set; eauto).
        rewrite CS1 in F2. assert (CS2 : claimed_s s2 = true) by (rewrite (fv_claimed _ _ F2); auto).
        rewrite CS2. congruence.
      + assert (CS1 : claimed_s s1 = false) by (rewrite (fv_claimed _ _ FB); auto).
        rewrite CS1 in F2. rewrite (fv_sig _ _ FB) in F2.
        destruct (sub_pair t1 t2) as [[[[sp dp] n1] n2]|].
        * assert (CS2 : claimed_s s2 = true) by (eapply fv_set; eauto). rewrite CS2. exact F2.
        * assert (CS2 : claimed_s s2 = false) by (rewrite (fv_claimed _ _ F2); auto). rewrite CS2.
          rewrite (fv_sig _ _ F2), (fv_sig _ _ FB). rewrite F2, FB.
          destruct t1; auto. destruct t2; auto. destruct (sub_pair t1 t2) as [[[[sp dp] n1] n2]|]; auto.
  Qed.

  (* ----------------------------------------------------------- makeTypeMatch *)
  Definition mt_choice (rt wt : ty) : option (sigT -> sigT) :=
    if type_equals rt wt then Some sg_assign
    else if convertible e rt wt && negb (may_mis_conv e rt wt) then Some (sg_conv wt)
    else None.

  Lemma match_type_choice rt wt :
    match_type e rt wt =
    (type_equals rt wt, if type_equals rt wt then convertible e rt wt
                        else convertible e rt wt && negb (may_mis_conv e rt wt)).
  Proof.
    unfold match_type. destruct (type_equals rt wt); simpl; auto;
      try (destruct (convertible e rt wt); simpl; auto; destruct (may_mis_conv e rt wt); auto).
  Qed.

  Lemma step_match_views s :
    in_range s i j -> f_isget (dst_at s j) = false -> f_isget (src_at s i) = false ->
    can_name_match (src_at s i) (dst_at s j) tm ic = true ->
    let s' := step_match e tm ic i j s in
    let t1 := f_ty (src_at s i) in let t2 := f_ty (dst_at s j) in
    Core s s'
    /\ TV s' = (if claimed_d s then TV s
               else match mt_choice t1 t2 with
                    | Some f => (Some j, f (sig (dst_at s j)), true) | None => TV s end)
    /\ FV s' = (if claimed_s s then FV s
               else match mt_choice t2 t1 with
                    | Some f => (Some i, f (sig (src_at s i)), true) | None => FV s end).
  Proof.
    intros R Gd Gs N. unfold step_match. rewrite N. cbn [negb].
    set (t1 := f_ty (src_at s i)). set (t2 := f_ty (dst_at s j)).
    rewrite (match_type_choice t1 t2), (match_type_choice t2 t1).
    set (same := type_equals t1 t2).
    assert (SY : type_equals t2 t1 = same) by (unfold same; apply type_equals_sym).
    rewrite SY.
    set (conv := if same then convertible e t1 t2 else convertible e t1 t2 && negb (may_mis_conv e t1 t2)).
    set (convback := if same then convertible e t2 t1 else convertible e t2 t1 && negb (may_mis_conv e t2 t1)).
    set (g1 := if same then set_canassign else set_isconv t2).
    set (g2 := if same then set_canassign else set_isconv t1).
    assert (Kg1 : keeps_core g1) by (unfold g1; destruct same; [apply kc_canassign | apply kc_isconv]).
    assert (Kg2 : keeps_core g2) by (unfold g2; destruct same; [apply kc_canassign | apply kc_isconv]).
    assert (Tg1 : keeps_target g1) by (unfold g1; destruct same; [apply kt_canassign | apply kt_isconv]).
    assert (Tg2 : keeps_target g2) by (unfold g2; destruct same; [apply kt_canassign | apply kt_isconv]).
    set (s1 := if dst_free s j && (same || conv) then to_claim i j g1 (fun f => f) s else s).
    assert (C1 : Core s s1).
    { unfold s1. destruct (dst_free s j && _); [|apply Core_refl]. apply to_claim_core; auto; apply kc_id. }
    pose proof (same_pair_core _ _ R C1) as P1.
    assert (CH1 : mt_choice t1 t2 = if same || conv then Some (if same then sg_assign else sg_conv t2) else None).
    { unfold mt_choice, conv. fold same. destruct same; simpl; auto;
        try (destruct (convertible e t1 t2 && negb (may_mis_conv e t1 t2)); auto). }
    assert (CH2 : mt_choice t2 t1 = if same || convback then Some (if same then sg_assign else sg_conv t1) else None).
    { unfold mt_choice, convback. rewrite SY. destruct same; simpl; auto;
        try (destruct (convertible e t2 t1 && negb (may_mis_conv e t2 t1)); auto). }
    assert (SGg1 : forall f, sig (g1 f) = (if same then sg_assign else sg_conv t2) (sig f)).
    { intros f. unfold g1. destruct same; reflexivity. }
    assert (SGg2 : forall f, sig (g2 f) = (if same then sg_assign else sg_conv t1) (sig f)).
    { intros f. unfold g2. destruct same; reflexivity. }
    assert (T1 : TV s1 = if claimed_d s then TV s
                         else match mt_choice t1 t2 with
                              | Some f => (Some j, f (sig (dst_at s j)), true) | None => TV s end).
    { unfold s1. rewrite (dst_free_claimed s Gd), CH1. destruct (claimed_d s); cbn [negb andb]; auto.
      destruct (same || conv); auto. rewrite <- SGg1. apply TV_to_claim; auto; apply kt_id. }
    assert (F1 : FV s1 = FV s).
    { unfold s1. destruct (dst_free s j && _); auto. apply FV_to_claim; auto; try apply kc_id; try apply kf_id. }
    assert (Gs1 : f_isget (src_at s1 i) = false) by (rewrite (sp_gs _ _ P1); auto).
    set (s2 := if src_free s1 i && (same || convback) then from_claim i j g2 (fun f => f) s1 else s1).
    assert (C12 : Core s1 s2).
    { unfold s2. destruct (src_free s1 i && _); [|apply Core_refl]. apply from_claim_core; auto; try apply kc_id.
      apply (sp_range _ _ P1). }
    split; [eapply Core_trans; eauto|]. split.
    - transitivity (TV s1); [|exact T1]. unfold s2. destruct (src_free s1 i && _); auto.
      apply TV_from_claim; auto; try apply kc_id; try apply kf_id. apply (sp_range _ _ P1).
    - unfold s2. rewrite (src_free_claimed s1 Gs1), (fv_claimed _ _ F1), CH2.
      destruct (claimed_s s); cbn [negb andb]; [exact F1|].
      destruct (same || convback); [|exact F1]. rewrite <- (fv_sig _ _ F1), <- SGg2.
      apply FV_from_claim; auto; try apply kt_id. apply (sp_range _ _ P1).
  Qed.

  (* ------------------------------------------------- the rest of the loops *)
  Definition NMp (s : st) (a b : nat) : Prop := can_name_match (src_at s a) (dst_at s b) tm ic = true.

  (* one-to-one name matching, both ways *)
  Definition inj2 (s : st) : Prop :=
    forall a b a' b', a < length (s_src s) -> a' < length (s_src s) -> b < length (s_dst s) -> b' < length (s_dst s) ->
      NMp s a b -> NMp s a' b' -> (a = a' <-> b = b').

  Record PairOK (s : st) : Prop := {
    po_range : in_range s i j;
    po_nm : NMp s i j;
    po_inj : inj2 s;
    po_nds : NoDup (map f_name (s_src s));
    po_ndd : NoDup (map f_name (s_dst s));
    po_gd : f_isget (dst_at s j) = false;
    po_gs : f_isget (src_at s i) = false
  }.

  Lemma NMp_core s s' a b : Core s s' -> NMp s a b <-> NMp s' a b.
  Proof.
    intros (_ & _ & A & B). unfold NMp. rewrite (can_name_match_core _ _ _ _ tm ic (A a) (B b)). tauto.
  Qed.

  Lemma PairOK_core s s' : Core s s' -> PairOK s -> PairOK s'.
  Proof.
    intros C P. pose proof C as (a & b & c & d).
    assert (NS : map f_name (s_src s') = map f_name (s_src s)).
    { apply (map_nth_ext f_name _ _ fdummy); auto. intros k. destruct (c k) as (X & _). exact X. }
    assert (ND : map f_name (s_dst s') = map f_name (s_dst s)).
    { apply (map_nth_ext f_name _ _ fdummy); auto. intros k. destruct (d k) as (X & _). exact X. }
    constructor.
    - eapply in_range_core; eauto. apply (po_range _ P).
    - apply (NMp_core _ _ _ _ C). apply (po_nm _ P).
    - intros x y x' y' H1 H2 H3 H4 N1 N2. rewrite a in H1, H2. rewrite b in H3, H4.
      apply (po_inj _ P x y x' y'); auto; apply (NMp_core _ _ _ _ C); auto.
    - rewrite NS. apply (po_nds _ P).
    - rewrite ND. apply (po_ndd _ P).
    - destruct (d j) as (_ & _ & X & _). rewrite X. apply (po_gd _ P).
    - destruct (c i) as (_ & _ & X & _). rewrite X. apply (po_gs _ P).
  Qed.

  Definition V (s : st) := (TV s, FV s).

  (* a claim at another pair does not touch this one *)
  Lemma frame_trans i' j' s s' :
    TRANS_AT i' j' s s' -> (i', j') <> (i, j) -> PairOK s -> V s' = V s.
  Proof.
    intros T NE P. destruct (po_range _ P) as (Hi & Hj).
    assert (X : forall (R : in_range s i' j') (N : NMp s i' j'), i' <> i /\ j' <> j).
    { intros (Hi' & Hj') N. pose proof (po_inj _ P i' j' i j Hi' Hi Hj' Hj N (po_nm _ P)) as Q.
      split; intros E; subst; apply NE; f_equal; tauto. }
    assert (NMS : forall k, k < length (s_src s) -> k <> i -> f_name (src_at s k) <> f_name (src_at s i)).
    { intros k Hk Ne E. apply Ne. apply (NoDup_map_nth f_name (s_src s) fdummy k i (po_nds _ P)); auto. }
    assert (NMD : forall k, k < length (s_dst s) -> k <> j -> f_name (dst_at s k) <> f_name (dst_at s j)).
    { intros k Hk Ne E. apply Ne. apply (NoDup_map_nth f_name (s_dst s) fdummy k j (po_ndd _ P)); auto. }
    destruct T as [s g h R F N C | s g h R F N C]; destruct (X R N) as (Ni & Nj); destruct R as (Hi' & Hj').
    - unfold V, TV, FV, claimed_d, claimed_s. rewrite !src_at_to, !dst_at_to by auto.
      destruct (Nat.eqb_spec i i'); [congruence|]. destruct (Nat.eqb_spec j j'); [congruence|].
      change (s_wdst (to_claim i' j' g h s)) with (s_add (s_wdst s) (f_name (dst_at s j'))).
      change (s_wsrc (to_claim i' j' g h s)) with (s_wsrc s). rewrite s_has_add.
      destruct (String.eqb_spec (f_name (dst_at s j)) (f_name (dst_at s j'))) as [E|]; [|reflexivity].
      exfalso. apply (NMD j' Hj' Nj). auto.
    - unfold V, TV, FV, claimed_d, claimed_s. rewrite !src_at_from, !dst_at_from by auto.
      destruct (Nat.eqb_spec i i'); [congruence|]. destruct (Nat.eqb_spec j j'); [congruence|].
      change (s_wsrc (from_claim i' j' g h s)) with (s_add (s_wsrc s) (f_name (src_at s i'))).
      change (s_wdst (from_claim i' j' g h s)) with (s_wdst s). rewrite s_has_add.
      destruct (String.eqb_spec (f_name (src_at s i)) (f_name (src_at s i'))) as [E|]; [|reflexivity].
      exfalso. apply (NMS i' Hi' Ni). auto.
  Qed.

  Lemma frame_reach i' j' s s' :
    REACH_AT i' j' s s' -> (i', j') <> (i, j) -> PairOK s -> V s' = V s.
  Proof.
    intros R NE. induction R as [|s s1 s2 T R IH]; intros P; auto.
    rewrite IH.
    - eapply frame_trans; eauto.
    - eapply PairOK_core; [|exact P]. apply (reach_at_core e tm ic fns i' j'). apply reach_at_one. exact T.
  Qed.

  Lemma fold_visit_nodup {A} (f : nat -> A -> A) (Pre Post : A -> Prop) (x : nat) : forall l,
    NoDup l ->
    (forall y a, In y l -> y <> x -> Pre a -> Pre (f y a)) ->
    (forall a, Pre a -> Post (f x a)) ->
    (forall y a, In y l -> y <> x -> Post a -> Post (f y a)) ->
    forall a, In x l -> Pre a -> Post (fold_left (fun a y => f y a) l a).
  Proof.
    induction l as [|y l IH]; intros ND HP HX HQ a I P; [contradiction|]. simpl. inversion ND; subst.
    destruct I as [->|I].
    - assert (Q : Post (f x a)) by auto.
      assert (K : forall l' b, (forall z, In z l' -> In z l) -> Post b -> Post (fold_left (fun a y => f y a) l' b)).
      { induction l' as [|z l' IHl]; intros b Sub Qb; simpl; auto.
        apply IHl. - intros w W. apply Sub. right; auto.
        - apply HQ; auto. + right. apply Sub. left; auto. + intros E. subst. apply H1. apply Sub. left; auto. }
      apply K; auto.
    - assert (y <> x) by (intros E; subst; contradiction).
      apply IH; auto.
      + intros z b Z. apply HP. right; auto.
      + intros z b Z. apply HQ. right; auto.
      + apply HP; auto. left; auto.
  Qed.

  (* the double loop changes the view of the pair exactly as its step at (i, j) does *)
  Lemma double_loop_view step v0 v1 s0 :
    (forall s i' j', in_range s i' j' -> REACH_AT i' j' s (step i' j' s)) ->
    (forall s, PairOK s -> Core s0 s -> V s = v0 -> V (step i j s) = v1) ->
    PairOK s0 -> V s0 = v0 ->
    let s' := double_loop step s0 in V s' = v1 /\ PairOK s' /\ Core s0 s'.
  Proof.
    intros Hstep Hvisit P0 V0. unfold double_loop.
    set (Pre := fun s => PairOK s /\ Core s0 s /\ V s = v0).
    set (Post := fun s => PairOK s /\ Core s0 s /\ V s = v1).
    assert (StepC : forall s i' j', PairOK s -> Core s0 s -> i' < length (s_src s) -> j' < length (s_dst s) ->
                      PairOK (step i' j' s) /\ Core s0 (step i' j' s)
                      /\ ((i', j') <> (i, j) -> V (step i' j' s) = V s)).
    { intros s i' j' P C Hi' Hj'. assert (R : REACH_AT i' j' s (step i' j' s)) by (apply Hstep; split; auto).
      pose proof (reach_at_core _ _ _ _ _ _ _ _ R) as C'. split; [eapply PairOK_core; eauto|].
      split; [eapply Core_trans; eauto|]. intros NE. eapply frame_reach; eauto. }
    assert (Row : forall (Q : st -> Prop) i', i' <> i ->
              (forall s, Q s -> PairOK s /\ Core s0 s) ->
              (forall s s', Q s -> PairOK s' -> Core s0 s' -> V s' = V s -> Q s') ->
              forall js s, Q s -> i' < length (s_src s) -> (forall k, In k js -> k < length (s_dst s)) ->
                Q (fold_left (fun s j' => step i' j' s) js s)).
    { intros Q i' NE Q1 Q2. induction js as [|k js IH]; intros s Qs Hi' Hjs; simpl; auto.
      destruct (Q1 s Qs) as (P & C).
      destruct (StepC s i' k P C Hi' (Hjs k (or_introl eq_refl))) as (P' & C' & F).
      pose proof C' as (a & b & _). pose proof C as (a0 & b0 & _).
      apply IH.
      - apply (Q2 s); auto. apply F. intros E. inversion E. congruence.
      - rewrite a, <- a0. exact Hi'.
      - intros k' Hk'. rewrite b, <- b0. apply Hjs. right; auto. }
    assert (PreQ1 : forall s, Pre s -> PairOK s /\ Core s0 s) by (intros s (A & B & _); auto).
    assert (PostQ1 : forall s, Post s -> PairOK s /\ Core s0 s) by (intros s (A & B & _); auto).
    assert (PreQ2 : forall s s', Pre s -> PairOK s' -> Core s0 s' -> V s' = V s -> Pre s').
    { intros s s' (_ & _ & X) A B E. split; auto. split; auto. congruence. }
    assert (PostQ2 : forall s s', Post s -> PairOK s' -> Core s0 s' -> V s' = V s -> Post s').
    { intros s s' (_ & _ & X) A B E. split; auto. split; auto. congruence. }
    destruct (po_range _ P0) as (Hi0 & Hj0).
    assert (Len : forall s, Core s0 s -> length (s_src s) = length (s_src s0) /\ length (s_dst s) = length (s_dst s0)).
    { intros s (a & b & _). auto. }
    assert (Fin : Post (fold_left (fun s i' => fold_left (fun s j' => step i' j' s) (seq 0 (length (s_dst s))) s)
                                  (seq 0 (length (s_src s0))) s0)).
    { apply (fold_visit_nodup (fun i' s => fold_left (fun s j' => step i' j' s) (seq 0 (length (s_dst s))) s) Pre Post i).
      - apply seq_NoDup.
      - intros y s Y NE Ps. apply in_seq in Y. destruct (PreQ1 s Ps) as (_ & C). destruct (Len s C) as (L1 & L2).
        apply (Row Pre y NE PreQ1 PreQ2); auto. rewrite L1. lia. intros k Hk. apply in_seq in Hk. lia.
      - intros s Ps. destruct (PreQ1 s Ps) as (P & C). destruct (Len s C) as (L1 & L2).
        apply (fold_visit_nodup (fun j' s => step i j' s) Pre Post j).
        + apply seq_NoDup.
        + intros y b Y NE (Pb & Cb & Vb). apply in_seq in Y. destruct (Len b Cb) as (M1 & M2).
          destruct (StepC b i y Pb Cb) as (P' & C' & F); try lia.
          split; auto. split; auto. rewrite F; auto. intros E. inversion E. congruence.
        + intros b (Pb & Cb & Vb). destruct (Len b Cb) as (M1 & M2).
          destruct (StepC b i j Pb Cb) as (P' & C' & _); try lia.
          split; auto.
        + intros y b Y NE (Pb & Cb & Vb). apply in_seq in Y. destruct (Len b Cb) as (M1 & M2).
          destruct (StepC b i y Pb Cb) as (P' & C' & F); try lia.
          split; auto. split; auto. rewrite F; auto. intros E. inversion E. congruence.
        + apply in_seq. lia.
        + exact Ps.
      - intros y s Y NE Ps. apply in_seq in Y. destruct (PostQ1 s Ps) as (_ & C). destruct (Len s C) as (L1 & L2).
        apply (Row Post y NE PostQ1 PostQ2); auto. rewrite L1. lia. intros k Hk. apply in_seq in Hk. lia.
      - apply in_seq. lia.
      - split; auto. split; auto. apply Core_refl. }
    destruct Fin as (A & B & C). auto.
  Qed.

  (* ---------------------------------------------------------- both passes *)
  Definition view := (option nat * sigT * bool)%type.
  Definition vstep (k : nat) (c : option (sigT -> sigT)) (v : view) : view :=
    let '(t, sg, cl) := v in
    if cl then v else match c with Some f => (Some k, f sg, true) | None => v end.
  Definition vwf (v : view) : Prop := let '(t, sg, cl) := v in cl = false -> t = None.

  Lemma vwf_vstep k c v : vwf v -> vwf (vstep k c v).
  Proof. destruct v as [[t sg] cl]. simpl. destruct cl; auto. destruct c; simpl; auto. discriminate. Qed.

  Definition to_mm (t1 t2 : ty) := mm_choice PDst pick_d t1 t2 t1 t2.
  Definition from_mm (t1 t2 : ty) := mm_choice PSrc pick_s t2 t1 t1 t2.

  Lemma step_mismatch_V s : PairOK s -> vwf (TV s) -> vwf (FV s) ->
    V (step_mismatch tm ic fns i j s) =
    (vstep j (to_mm (f_ty (src_at s i)) (f_ty (dst_at s j))) (TV s),
     vstep i (from_mm (f_ty (src_at s i)) (f_ty (dst_at s j))) (FV s)).
  Proof.
    intros P WT WF.
    destruct (step_mismatch_views s (po_range _ P) (po_gd _ P) (po_gs _ P) (po_nm _ P)) as (_ & TA & TB & FA & FB).
    unfold V. f_equal.
    - unfold TV in *. simpl in WT. unfold vstep. destruct (claimed_d s) eqn:CD; auto;
        try (rewrite TB; auto; unfold to_mm; destruct (mm_choice _ _ _ _ _ _); auto).
    - unfold FV in *. simpl in WF. unfold vstep. destruct (claimed_s s) eqn:CS; auto;
        try (rewrite FB; auto; unfold from_mm; destruct (mm_choice _ _ _ _ _ _); auto).
  Qed.

  Lemma step_match_V s : PairOK s ->
    V (step_match e tm ic i j s) =
    (vstep j (mt_choice (f_ty (src_at s i)) (f_ty (dst_at s j))) (TV s),
     vstep i (mt_choice (f_ty (dst_at s j)) (f_ty (src_at s i))) (FV s)).
  Proof.
    intros P.
    destruct (step_match_views s (po_range _ P) (po_gd _ P) (po_gs _ P) (po_nm _ P)) as (_ & T & F).
    unfold V. f_equal.
    - rewrite T. unfold TV, vstep. destruct (claimed_d s); auto.
    - rewrite F. unfold FV, vstep. destruct (claimed_s s); auto.
  Qed.

  Theorem passes_view s0 :
    PairOK s0 -> vwf (TV s0) -> vwf (FV s0) ->
    let s2 := run_passes e tm ic fns s0 in
    let t1 := f_ty (src_at s0 i) in let t2 := f_ty (dst_at s0 j) in
    TV s2 = vstep j (mt_choice t1 t2) (vstep j (to_mm t1 t2) (TV s0))
    /\ FV s2 = vstep i (mt_choice t2 t1) (vstep i (from_mm t1 t2) (FV s0))
    /\ PairOK s2 /\ Core s0 s2.
  Proof.
    intros P0 WT WF. unfold run_passes.
    set (t1 := f_ty (src_at s0 i)). set (t2 := f_ty (dst_at s0 j)).
    destruct (double_loop_view (step_mismatch tm ic fns) (V s0)
                (vstep j (to_mm t1 t2) (TV s0), vstep i (from_mm t1 t2) (FV s0)) s0) as (V1 & P1 & C1); auto.
    { intros s i' j' R. apply step_mismatch_reach; auto. }
    { intros s P C E. destruct (ty_core _ _ C) as (TS & TD).
      assert (E1 : TV s = TV s0) by exact (f_equal fst E). assert (E2 : FV s = FV s0) by exact (f_equal snd E).
      rewrite step_mismatch_V; auto; [|rewrite E1; auto|rewrite E2; auto].
      rewrite E1, E2, TS, TD. reflexivity. }
    set (s1 := double_loop (step_mismatch tm ic fns) s0) in *.
    destruct (double_loop_view (step_match e tm ic) (V s1)
                (vstep j (mt_choice t1 t2) (TV s1), vstep i (mt_choice t2 t1) (FV s1)) s1) as (V2 & P2 & C2); auto.
    { intros s i' j' R. apply step_match_reach; auto. }
    { intros s P C E. destruct (ty_core _ _ (Core_trans _ _ _ C1 C)) as (TS & TD).
      assert (E1 : TV s = TV s1) by exact (f_equal fst E). assert (E2 : FV s = FV s1) by exact (f_equal snd E).
      rewrite step_match_V; auto. rewrite E1, E2, TS, TD. reflexivity. }
    pose proof (f_equal fst V1) as A1. pose proof (f_equal snd V1) as A2.
    pose proof (f_equal fst V2) as B1. pose proof (f_equal snd V2) as B2. cbn [fst snd V] in A1, A2, B1, B2.
    rewrite B1, B2, A1, A2. split; [reflexivity|]. split; [reflexivity|]. split; [exact P2|]. eapply Core_trans; eauto.
  Qed.
End Attrib.

(* ------------------------------------------------ the choice is MapperSpec.choose *)
Section Choose.
  Variable e : env.
  Variable fns : list mfunc.
  Hypothesis fn_names : forall fn, In fn fns -> mf_name fn <> "".

  Definition fin_to (t1 t2 : ty) : option (sigT -> sigT) :=
    match to_mm fns t1 t2 with Some f => Some f | None => mt_choice e t1 t2 end.
  Definition fin_from (t1 t2 : ty) : option (sigT -> sigT) :=
    match from_mm fns t1 t2 with Some f => Some f | None => mt_choice e t2 t1 end.

  Definition sig0 (t : option ty) : sigT := (false, false, "", false, false, t).

  Lemma sig_fields w a b c d x y : sig w = (a, b, c, d, x, y) ->
    f_canassign w = a /\ f_isconv w = b /\ f_func w = c /\ f_canmap w = d /\ f_caneach w = x /\ f_type w = y.
  Proof. unfold sig. intros H. inversion H. auto 10. Qed.

  Lemma find_fits_in rt wt fn : find (fits rt wt) fns = Some fn -> mf_name fn <> "".
  Proof. intros H. apply find_some in H. apply fn_names. tauto. Qed.

  Lemma strip_fst_ptrness t p n : snd (strip_ptr t) = TNamed p n -> ptrness t = fst (strip_ptr t).
  Proof. unfold ptrness. destruct t; simpl; intros H; try discriminate; auto. Qed.

  Lemma sub_pair_spec st dt sp dp n1 n2 : sub_pair st dt = Some (sp, dp, n1, n2) ->
    snd (strip_ptr st) = TNamed PSrc n1 /\ snd (strip_ptr dt) = TNamed PDst n2
    /\ sp = fst (strip_ptr st) /\ dp = fst (strip_ptr dt).
  Proof.
    unfold sub_pair. destruct (strip_ptr st) as (a, s). destruct (strip_ptr dt) as (b, d). simpl.
    destruct s as [|p n| | |]; try discriminate. destruct p; try discriminate.
    destruct d as [|q m| | |]; try discriminate. destruct q; try discriminate.
    intros H. inversion H; subst. auto.
  Qed.

  (* ToX: w = destination field, r = source field *)
  Theorem fin_to_choose t1 t2 ty0 :
    match fin_to t1 t2, choose e fns true t1 t2 with
    | Some f, Some h =>
        forall w r, f_ty r = t1 -> f_ty w = t2 -> sig w = f (sig0 ty0) ->
          (f_canmap w || f_caneach w = true -> f_isptr r = ptrness t1 /\ f_isptr w = ptrness t2) ->
          strategies true w r = [h]
    | None, None => True
    | _, _ => False
    end.
  Proof.
    unfold fin_to, to_mm, mm_choice, choose.
    change (fun fn : mfunc => type_equals (mf_param fn) t1 && type_equals (mf_result fn) t2) with (fits t1 t2).
    destruct (find (fits t1 t2) fns) as [fn|] eqn:FD.
    { intros w r Tr Tw SG _. apply sig_fields in SG. destruct SG as (a & b & c & d & x & y).
      unfold strategies. rewrite a, b, c, d, x. pose proof (find_fits_in _ _ _ FD) as NE.
      destruct (String.eqb_spec (mf_name fn) ""); [congruence|]. reflexivity. }
    destruct (sub_pair t1 t2) as [[[[sp dp] n1] n2]|] eqn:SP.
    { intros w r Tr Tw SG PT. apply sig_fields in SG. destruct SG as (a & b & c & d & x & y).
      destruct (sub_pair_spec _ _ _ _ _ _ SP) as (S1 & S2 & -> & ->).
      unfold strategies. rewrite a, b, c, d, x, y. simpl.
      destruct PT as (P1 & P2). { rewrite d. auto. }
      rewrite P1, P2, Tr, (type_name_strip _ _ _ S1), (strip_fst_ptrness _ _ _ S1), (strip_fst_ptrness _ _ _ S2).
      reflexivity. }
    assert (EL : match match elem_of t1, elem_of t2 with Some a, Some b => sub_pair a b | _, _ => None end with
                 | Some x => match t1, t2 with TSlice e1, TSlice e2 => sub_pair e1 e2 = Some x | _, _ => False end
                 | None => match t1, t2 with TSlice e1, TSlice e2 => sub_pair e1 e2 = None | _, _ => True end
                 end).
    { destruct t1; simpl; auto. destruct t2; simpl; auto. destruct (sub_pair t1 t2); auto. }
    destruct (match elem_of t1, elem_of t2 with Some a, Some b => sub_pair a b | _, _ => None end)
      as [[[[sp dp] n1] n2]|].
    { destruct t1 as [| | |e1|]; try contradiction. destruct t2 as [| | |e2|]; try contradiction. rewrite EL.
      intros w r Tr Tw SG PT. apply sig_fields in SG. destruct SG as (a & b & c & d & x & y).
      destruct (sub_pair_spec _ _ _ _ _ _ EL) as (S1 & S2 & -> & ->).
      unfold strategies. rewrite a, b, c, d, x, y. simpl.
      destruct PT as (P1 & P2). { rewrite x. apply orb_true_r. }
      rewrite P1, P2, Tr. unfold ptrness. cbn [unslice]. rewrite S1. reflexivity. }
    assert (MM : match t1, t2 with
                 | TSlice e1, TSlice e2 => match sub_pair e1 e2 with
                                           | Some x => Some (sg_sub true (TNamed PDst (pick_d x))) | None => None end
                 | _, _ => None end = None).
    { destruct t1; auto. destruct t2; auto. rewrite EL. auto. }
    rewrite MM. unfold mt_choice.
    destruct (type_equals t1 t2).
    { intros w r Tr Tw SG _. apply sig_fields in SG. destruct SG as (a & b & c & d & x & y).
      unfold strategies. rewrite a, b, c, d, x. reflexivity. }
    destruct (convertible e t1 t2 && negb (may_mis_conv e t1 t2)); auto.
    intros w r Tr Tw SG _. apply sig_fields in SG. destruct SG as (a & b & c & d & x & y).
    unfold strategies. rewrite a, b, c, d, x, y, Tr. reflexivity.
  Qed.

  (* FromX: w = source field (type t1), r = destination field (type t2) *)
  Theorem fin_from_choose t1 t2 ty0 :
    match fin_from t1 t2, choose e fns false t2 t1 with
    | Some f, Some h =>
        forall w r, f_ty r = t2 -> f_ty w = t1 -> sig w = f (sig0 ty0) ->
          (f_canmap w || f_caneach w = true -> f_isptr r = ptrness t2 /\ f_isptr w = ptrness t1) ->
          strategies false w r = [h]
    | None, None => True
    | _, _ => False
    end.
  Proof.
    unfold fin_from, from_mm, mm_choice, choose.
    change (fun fn : mfunc => type_equals (mf_param fn) t2 && type_equals (mf_result fn) t1) with (fits t2 t1).
    destruct (find (fits t2 t1) fns) as [fn|] eqn:FD.
    { intros w r Tr Tw SG _. apply sig_fields in SG. destruct SG as (a & b & c & d & x & y).
      unfold strategies. rewrite a, b, c, d, x. pose proof (find_fits_in _ _ _ FD) as NE.
      destruct (String.eqb_spec (mf_name fn) ""); [congruence|]. reflexivity. }
    destruct (sub_pair t1 t2) as [[[[sp dp] n1] n2]|] eqn:SP.
    { intros w r Tr Tw SG PT. apply sig_fields in SG. destruct SG as (a & b & c & d & x & y).
      destruct (sub_pair_spec _ _ _ _ _ _ SP) as (S1 & S2 & -> & ->).
      unfold strategies. rewrite a, b, c, d, x, y. simpl.
      destruct PT as (P1 & P2). { rewrite d. auto. }
      rewrite P1, P2, Tr, (type_name_strip _ _ _ S2), (strip_fst_ptrness _ _ _ S1), (strip_fst_ptrness _ _ _ S2).
      reflexivity. }
    assert (EL : match match elem_of t1, elem_of t2 with Some a, Some b => sub_pair a b | _, _ => None end with
                 | Some x => match t1, t2 with TSlice e1, TSlice e2 => sub_pair e1 e2 = Some x | _, _ => False end
                 | None => match t1, t2 with TSlice e1, TSlice e2 => sub_pair e1 e2 = None | _, _ => True end
                 end).
    { destruct t1; simpl; auto. destruct t2; simpl; auto. destruct (sub_pair t1 t2); auto. }
    destruct (match elem_of t1, elem_of t2 with Some a, Some b => sub_pair a b | _, _ => None end)
      as [[[[sp dp] n1] n2]|].
    { destruct t1 as [| | |e1|]; try contradiction. destruct t2 as [| | |e2|]; try contradiction. rewrite EL.
      intros w r Tr Tw SG PT. apply sig_fields in SG. destruct SG as (a & b & c & d & x & y).
      destruct (sub_pair_spec _ _ _ _ _ _ EL) as (S1 & S2 & -> & ->).
      unfold strategies. rewrite a, b, c, d, x, y. simpl.
      destruct PT as (P1 & P2). { rewrite x. apply orb_true_r. }
      rewrite P1, P2, Tr. unfold ptrness. cbn [unslice]. rewrite S2. reflexivity. }
    assert (MM : match t1, t2 with
                 | TSlice e1, TSlice e2 => match sub_pair e1 e2 with
                                           | Some x => Some (sg_sub true (TNamed PSrc (pick_s x))) | None => None end
                 | _, _ => None end = None).
    { destruct t1; auto. destruct t2; auto. rewrite EL. auto. }
    rewrite MM. unfold mt_choice.
    destruct (type_equals t2 t1).
    { intros w r Tr Tw SG _. apply sig_fields in SG. destruct SG as (a & b & c & d & x & y).
      unfold strategies. rewrite a, b, c, d, x. reflexivity. }
    destruct (convertible e t2 t1 && negb (may_mis_conv e t2 t1)); auto.
    intros w r Tr Tw SG _. apply sig_fields in SG. destruct SG as (a & b & c & d & x & y).
    unfold strategies. rewrite a, b, c, d, x, y, Tr. reflexivity.
  Qed.
End Choose.

(* ------------------------------------------------ on the passes *)
Section PassesAttrib.
  Variable e : env.
  Variable tm : tagmap.
  Variable ic : bool.
  Variable fns : list mfunc.
  Hypothesis fn_names : forall fn, In fn fns -> mf_name fn <> "".
  Variables i j : nat.

  Lemma view_final (k : nat) (mm mt : option (sigT -> sigT)) (sg : sigT) :
    vstep k mt (vstep k mm (None, sg, false)) =
    match (match mm with Some f => Some f | None => mt end) with
    | Some f => (Some k, f sg, true)
    | None => (None, sg, false)
    end.
  Proof. destruct mm; simpl; auto; destruct mt; auto. Qed.

  Theorem passes_attrib_to s0 ty0 :
    PairOK tm ic i j s0 -> claimed_d j s0 = false -> f_target (src_at s0 i) = None ->
    sig (dst_at s0 j) = sig0 ty0 -> vwf (FV i j s0) ->
    let s2 := run_passes e tm ic fns s0 in
    (f_canmap (dst_at s2 j) || f_caneach (dst_at s2 j) = true -> f_target (src_at s2 i) = Some j ->
     f_isptr (src_at s2 i) = ptrness (f_ty (src_at s2 i)) /\ f_isptr (dst_at s2 j) = ptrness (f_ty (dst_at s2 j))) ->
    match choose e fns true (f_ty (src_at s0 i)) (f_ty (dst_at s0 j)) with
    | Some h => f_target (src_at s2 i) = Some j /\ strategies true (dst_at s2 j) (src_at s2 i) = [h]
    | None => f_target (src_at s2 i) = None /\ claimed_d j s2 = false
    end.
  Proof.
    intros P CD TG SG WF s2 PT.
    destruct (passes_view e tm ic fns fn_names i j s0 P) as (T & _ & P2 & C); auto.
    { unfold TV. simpl. auto. }
    fold s2 in T, P2, C. destruct (ty_core _ _ C) as (TS & TD).
    set (t1 := f_ty (src_at s0 i)) in *. set (t2 := f_ty (dst_at s0 j)) in *.
    unfold TV at 2 in T. rewrite CD, TG, SG in T. rewrite view_final in T.
    pose proof (fin_to_choose e fns fn_names t1 t2 ty0) as FC. unfold fin_to in FC.
    destruct (match to_mm fns t1 t2 with Some f => Some f | None => mt_choice e t1 t2 end) as [f|].
    - destruct (choose e fns true t1 t2) as [h|]; [|contradiction].
      unfold TV in T. injection T as T1 T2 T3. split; auto.
      apply FC; auto.
      + rewrite TS. reflexivity.
      + rewrite TD. reflexivity.
      + intros X. unfold t1, t2. rewrite <- (TS i), <- (TD j). apply PT; auto.
    - destruct (choose e fns true t1 t2) as [h|]; [contradiction|].
      unfold TV in T. injection T as T1 T2 T3. auto.
  Qed.

  Theorem passes_attrib_from s0 ty0 :
    PairOK tm ic i j s0 -> claimed_s i s0 = false -> f_target (dst_at s0 j) = None ->
    sig (src_at s0 i) = sig0 ty0 -> vwf (TV i j s0) ->
    let s2 := run_passes e tm ic fns s0 in
    (f_canmap (src_at s2 i) || f_caneach (src_at s2 i) = true -> f_target (dst_at s2 j) = Some i ->
     f_isptr (dst_at s2 j) = ptrness (f_ty (dst_at s2 j)) /\ f_isptr (src_at s2 i) = ptrness (f_ty (src_at s2 i))) ->
    match choose e fns false (f_ty (dst_at s0 j)) (f_ty (src_at s0 i)) with
    | Some h => f_target (dst_at s2 j) = Some i /\ strategies false (src_at s2 i) (dst_at s2 j) = [h]
    | None => f_target (dst_at s2 j) = None /\ claimed_s i s2 = false
    end.
  Proof.
    intros P CS TG SG WT s2 PT.
    destruct (passes_view e tm ic fns fn_names i j s0 P) as (_ & F & P2 & C); auto.
    { unfold FV. simpl. auto. }
    fold s2 in F, P2, C. destruct (ty_core _ _ C) as (TS & TD).
    set (t1 := f_ty (src_at s0 i)) in *. set (t2 := f_ty (dst_at s0 j)) in *.
    unfold FV at 2 in F. rewrite CS, TG, SG in F. rewrite view_final in F.
    pose proof (fin_from_choose e fns fn_names t1 t2 ty0) as FC. unfold fin_from in FC.
    destruct (match from_mm fns t1 t2 with Some f => Some f | None => mt_choice e t2 t1 end) as [f|].
    - destruct (choose e fns false t2 t1) as [h|]; [|contradiction].
      unfold FV in F. injection F as F1 F2 F3. split; auto.
      apply FC; auto.
      + rewrite TD. reflexivity.
      + rewrite TS. reflexivity.
      + intros X. unfold t1, t2. rewrite <- (TS i), <- (TD j). apply PT; auto.
    - destruct (choose e fns false t2 t1) as [h|]; [contradiction|].
      unfold FV in F. injection F as F1 F2 F3. auto.
  Qed.
End PassesAttrib.

(* ------------------------------------------------ on [analyse] *)
Lemma prepare_fresh jb pr :
  prepare jb = Some pr -> acc_guard jb ->
  Forall fresh (s_src (pr_s0 pr)) /\ Forall fresh (s_dst (pr_s0 pr))
  /\ s_rmap (pr_s0 pr) = [] /\ s_wmap (pr_s0 pr) = [].
Proof.
  unfold prepare, acc_guard.
  destruct (parse_fields (j_env jb) (j_fuel jb) PSrc (j_src jb) true) as [ps|] eqn:Ps; [|discriminate].
  destruct (parse_fields (j_env jb) (j_fuel jb) PDst (j_dst jb) false) as [pd|] eqn:Pd; [|discriminate].
  destruct (make_ctor_match _ _ _ _ _ (map ctor_field (j_dst_ctor jb)) _) as [[dctor wdst1] use_d].
  destruct (make_ctor_match _ _ _ _ _ (map ctor_field (j_src_ctor jb)) _) as [[sctor wsrc1] use_s].
  intros H (As & Ad). inversion H; subst; clear H. simpl.
  pose proof (compatlize_ok _ _ (good_filter _ _ (parse_fields_ok _ _ _ _ _ _ Ps)) As) as (Ns & Fs).
  pose proof (compatlize_ok _ _ (good_filter _ _ (parse_fields_ok _ _ _ _ _ _ Pd)) Ad) as (Nd & Fd).
  auto.
Qed.

Lemma analyse_inv2 sigma jb a pr :
  analyse sigma jb = Some a -> prepare jb = Some pr -> acc_guard jb ->
  (forall fn, In fn (j_funcs jb) -> mf_name fn <> "") ->
  Inv2 (j_env jb) (p_tags (pr_src pr)) (j_ic jb) (j_funcs jb) (s_wsrc (pr_s0 pr)) (s_wdst (pr_s0 pr)) (a_state a)
  /\ a_state a = run_passes (j_env jb) (p_tags (pr_src pr)) (j_ic jb) (j_funcs jb) (pr_s0 pr).
Proof.
  intros An Prep AG FN.
  destruct (analyse_state _ _ _ An) as (pr' & P' & S & _). rewrite Prep in P'. inversion P'; subst pr'.
  split; auto. rewrite S.
  destruct (prepare_ok _ _ Prep AG) as (I0 & Ns0 & _). destruct (prepare_fresh _ _ Prep AG) as (Fs & Fd & _).
  eapply inv2_reach; [apply passes_reach; exact FN|].
  apply inv2_init; auto.
  - intros i Hi. rewrite Forall_forall in Fs. destruct (Fs (src_at (pr_s0 pr) i)) as (_ & X); auto. apply nth_In; auto.
  - intros j Hj. rewrite Forall_forall in Fd. destruct (Fd (dst_at (pr_s0 pr) j)) as (_ & X); auto. apply nth_In; auto.
Qed.

Lemma fresh_sig f : fresh f -> sig f = sig0 (f_type f) /\ f_target f = None.
Proof.
  intros (Z & T). split; auto. apply flag0 in Z. destruct Z as (a & b & c & d & x).
  unfold sig, sig0. rewrite a, b, d, x. unfold has_func in c. apply negb_false_iff in c. apply String.eqb_eq in c.
  rewrite c. reflexivity.
Qed.

Section AnalyseAttrib.
  Variable sigma : oracle.
  Variable jb : job.
  Variable a : analysis.
  Variable pr : prep.
  Hypothesis An : analyse sigma jb = Some a.
  Hypothesis Prep : prepare jb = Some pr.
  Hypothesis AG : acc_guard jb.
  Hypothesis FN : forall fn, In fn (j_funcs jb) -> mf_name fn <> "".

  Notation s0 := (pr_s0 pr).
  Notation tm := (p_tags (pr_src pr)).
  Notation ic := (j_ic jb).
  Notation s2 := (a_state a).

  Hypothesis Inj : inj2 tm ic s0.
  Variables i j : nat.
  Hypothesis Hi : i < length (s_src s0).
  Hypothesis Hj : j < length (s_dst s0).
  Hypothesis NM : can_name_match (src_at s0 i) (dst_at s0 j) tm ic = true.
  Hypothesis Gd : f_isget (dst_at s0 j) = false.
  Hypothesis Gs : f_isget (src_at s0 i) = false.

  Lemma pair_ok : PairOK tm ic i j s0.
  Proof.
    destruct (prepare_ok _ _ Prep AG) as (_ & Ns & Nd).
    constructor; auto. split; auto.
  Qed.

  Lemma init_views : vwf (TV i j s0) /\ vwf (FV i j s0)
                     /\ sig (dst_at s0 j) = sig0 (f_type (dst_at s0 j)) /\ sig (src_at s0 i) = sig0 (f_type (src_at s0 i))
                     /\ f_target (src_at s0 i) = None /\ f_target (dst_at s0 j) = None.
  Proof.
    destruct (prepare_fresh _ _ Prep AG) as (Fs & Fd & _). rewrite Forall_forall in Fs, Fd.
    destruct (fresh_sig _ (Fs (src_at s0 i) (nth_In _ _ Hi))) as (A1 & A2).
    destruct (fresh_sig _ (Fd (dst_at s0 j) (nth_In _ _ Hj))) as (B1 & B2).
    unfold TV, FV, vwf. rewrite A2, B2. auto 10.
  Qed.

  (* ToX: the destination field j is written from the source field i with exactly
     the strategy of the declarative reading, or not written at all *)
  Theorem analyse_attrib_to :
    s_has (s_wdst s0) (f_name (dst_at s0 j)) = false ->
    match choose (j_env jb) (j_funcs jb) true (f_ty (src_at s0 i)) (f_ty (dst_at s0 j)) with
    | Some h =>
        (exists st, In st (pl_stmts (a_to a)) /\ st_dst st = ref_of (dst_at s2 j)
                    /\ st_src st = ref_of (src_at s2 i) /\ st_how st = h)
        /\ (forall st, In st (pl_stmts (a_to a)) -> r_name (st_dst st) = f_name (dst_at s0 j) ->
                       st_src st = ref_of (src_at s2 i) /\ st_how st = h)
    | None => forall st, In st (pl_stmts (a_to a)) -> r_name (st_dst st) <> f_name (dst_at s0 j)
    end.
  Proof.
    intros W0.
    destruct (analyse_inv2 _ _ _ _ An Prep AG FN) as (I2 & ES).
    destruct init_views as (WT & WF & SD & SS & TS0 & TD0).
    pose proof (passes_attrib_to (j_env jb) tm ic (j_funcs jb) FN i j s0 (f_type (dst_at s0 j)) pair_ok W0 TS0 SD WF) as AT.
    cbv zeta in AT. rewrite <- ES in AT.
    destruct (passes_view (j_env jb) tm ic (j_funcs jb) FN i j s0 pair_ok WT WF) as (_ & _ & P2 & C).
    rewrite <- ES in P2, C.
    pose proof C as (Ls & Ld & Cs & Cd).
    assert (Hi2 : i < length (s_src s2)) by (rewrite Ls; auto).
    assert (Hj2 : j < length (s_dst s2)) by (rewrite Ld; auto).
    assert (PT : f_canmap (dst_at s2 j) || f_caneach (dst_at s2 j) = true -> f_target (src_at s2 i) = Some j ->
                 f_isptr (src_at s2 i) = ptrness (f_ty (src_at s2 i)) /\ f_isptr (dst_at s2 j) = ptrness (f_ty (dst_at s2 j))).
    { intros X T. apply (i2_ptr_to _ _ _ _ _ _ _ I2 i j Hi2 T X). }
    specialize (AT PT).
    destruct (analyse_stmts _ _ _ An) as ((sp & need & E1) & _). rewrite E1.
    assert (NameJ : f_name (dst_at s2 j) = f_name (dst_at s0 j)) by (destruct (Cd j) as (X & _); exact X).
    (* any statement writing j comes from i *)
    assert (Only : forall st, In st (to_stmts sp need s2) -> r_name (st_dst st) = f_name (dst_at s0 j) ->
              exists h, f_target (src_at s2 i) = Some j /\ In h (strategies true (dst_at s2 j) (src_at s2 i))
                        /\ st_src st = ref_of (src_at s2 i) /\ st_how st = h).
    { intros st Hst Nm. apply to_stmts_in in Hst. destruct Hst as (i' & j' & h & Hi' & T & Hh & ->).
      simpl in Nm. pose proof (i2_inv _ _ _ _ _ _ _ I2) as (IT & _).
      destruct (iv_tgt _ _ _ _ _ _ IT i' j' Hi' T) as (Hj' & _ & NM' & _).
      assert (j' = j).
      { apply (NoDup_map_nth f_name (s_dst s2) fdummy j' j (po_ndd _ _ _ _ _ P2)); auto.
        unfold dst_at in *. congruence. }
      subst j'.
      assert (i' = i). { apply (po_inj _ _ _ _ _ P2 i' j i j); auto. apply (po_nm _ _ _ _ _ P2). }
      subst i'. exists h. simpl. auto. }
    destruct (choose (j_env jb) (j_funcs jb) true (f_ty (src_at s0 i)) (f_ty (dst_at s0 j))) as [h|].
    - destruct AT as (T & STR). split.
      + exists {| st_dst := ref_of (dst_at s2 j); st_src := ref_of (src_at s2 i); st_how := h;
                  st_guard := guard_of (need (f_name (src_at s2 i))) sp (f_name (src_at s2 i)) |}.
        split; [|simpl; repeat split; reflexivity].
        unfold to_stmts. apply in_flat_map. exists (src_at s2 i). split; [apply nth_In; auto|].
        rewrite T. rewrite STR. left. reflexivity.
      + intros st Hst Nm. destruct (Only st Hst Nm) as (h' & _ & Hh & A & B). rewrite STR in Hh.
        destruct Hh as [<-|[]]. auto.
    - destruct AT as (T & _). intros st Hst Nm. destruct (Only st Hst Nm) as (h' & T' & _). congruence.
  Qed.

  (* FromX: the source field i is written from the destination field j likewise *)
  Theorem analyse_attrib_from :
    s_has (s_wsrc s0) (f_name (src_at s0 i)) = false ->
    match choose (j_env jb) (j_funcs jb) false (f_ty (dst_at s0 j)) (f_ty (src_at s0 i)) with
    | Some h =>
        (exists st, In st (pl_stmts (a_from a)) /\ st_dst st = ref_of (src_at s2 i)
                    /\ st_src st = ref_of (dst_at s2 j) /\ st_how st = h)
        /\ (forall st, In st (pl_stmts (a_from a)) -> r_name (st_dst st) = f_name (src_at s0 i) ->
                       st_src st = ref_of (dst_at s2 j) /\ st_how st = h)
    | None => forall st, In st (pl_stmts (a_from a)) -> r_name (st_dst st) <> f_name (src_at s0 i)
    end.
  Proof.
    intros W0.
    destruct (analyse_inv2 _ _ _ _ An Prep AG FN) as (I2 & ES).
    destruct init_views as (WT & WF & SD & SS & TS0 & TD0).
    pose proof (passes_attrib_from (j_env jb) tm ic (j_funcs jb) FN i j s0 (f_type (src_at s0 i)) pair_ok W0 TD0 SS WT) as AT.
    cbv zeta in AT. rewrite <- ES in AT.
    destruct (passes_view (j_env jb) tm ic (j_funcs jb) FN i j s0 pair_ok WT WF) as (_ & _ & P2 & C).
    rewrite <- ES in P2, C.
    pose proof C as (Ls & Ld & Cs & Cd).
    assert (Hi2 : i < length (s_src s2)) by (rewrite Ls; auto).
    assert (Hj2 : j < length (s_dst s2)) by (rewrite Ld; auto).
    assert (PT : f_canmap (src_at s2 i) || f_caneach (src_at s2 i) = true -> f_target (dst_at s2 j) = Some i ->
                 f_isptr (dst_at s2 j) = ptrness (f_ty (dst_at s2 j)) /\ f_isptr (src_at s2 i) = ptrness (f_ty (src_at s2 i))).
    { intros X T. apply (i2_ptr_from _ _ _ _ _ _ _ I2 j i Hj2 T X). }
    specialize (AT PT).
    destruct (analyse_stmts _ _ _ An) as (_ & (dp & need & E1)). rewrite E1.
    assert (NameI : f_name (src_at s2 i) = f_name (src_at s0 i)) by (destruct (Cs i) as (X & _); exact X).
    assert (Only : forall st, In st (from_stmts dp need s2) -> r_name (st_dst st) = f_name (src_at s0 i) ->
              exists h, f_target (dst_at s2 j) = Some i /\ In h (strategies false (src_at s2 i) (dst_at s2 j))
                        /\ st_src st = ref_of (dst_at s2 j) /\ st_how st = h).
    { intros st Hst Nm. apply from_stmts_in in Hst. destruct Hst as (j' & i' & h & Hj' & T & Hh & ->).
      simpl in Nm. pose proof (i2_inv _ _ _ _ _ _ _ I2) as (_ & IFr).
      destruct (iv_tgt _ _ _ _ _ _ IFr j' i' Hj' T) as (Hi' & _ & NM' & _).
      assert (i' = i).
      { apply (NoDup_map_nth f_name (s_src s2) fdummy i' i (po_nds _ _ _ _ _ P2)); auto.
        unfold src_at in *. congruence. }
      subst i'.
      assert (j' = j). { symmetry. apply (po_inj _ _ _ _ _ P2 i j i j'); auto. apply (po_nm _ _ _ _ _ P2). }
      subst j'. exists h. simpl. auto. }
    destruct (choose (j_env jb) (j_funcs jb) false (f_ty (dst_at s0 j)) (f_ty (src_at s0 i))) as [h|].
    - destruct AT as (T & STR). split.
      + exists {| st_dst := ref_of (src_at s2 i); st_src := ref_of (dst_at s2 j); st_how := h;
                  st_guard := guard_of (need (f_name (src_at s2 i))) dp (f_name (dst_at s2 j)) |}.
        split; [|simpl; repeat split; reflexivity].
        unfold from_stmts. apply in_flat_map. exists (dst_at s2 j). split; [apply nth_In; auto|].
        rewrite T. rewrite STR. left. reflexivity.
      + intros st Hst Nm. destruct (Only st Hst Nm) as (h' & _ & Hh & A & B). rewrite STR in Hh.
        destruct Hh as [<-|[]]. auto.
    - destruct AT as (T & _). intros st Hst Nm. destruct (Only st Hst Nm) as (h' & T' & _). congruence.
  Qed.
End AnalyseAttrib.

(* a decidable form of inj2, for Examples and the correspondence *)
Definition inj2_b (tm : tagmap) (ic : bool) (s : st) : bool :=
  let ns := seq 0 (length (s_src s)) in
  let nd := seq 0 (length (s_dst s)) in
  forallb (fun a => forallb (fun b => forallb (fun a' => forallb (fun b' =>
    negb (can_name_match (src_at s a) (dst_at s b) tm ic && can_name_match (src_at s a') (dst_at s b') tm ic)
    || Bool.eqb (Nat.eqb a a') (Nat.eqb b b')) nd) ns) nd) ns.

Lemma inj2_b_sound tm ic s : inj2_b tm ic s = true -> inj2 tm ic s.
Proof.
  unfold inj2_b, inj2, NMp. intros H a b a' b' Ha Ha' Hb Hb' N1 N2.
  rewrite forallb_forall in H. specialize (H a). rewrite in_seq in H. specialize (H (conj (Nat.le_0_l _) Ha)).
  rewrite forallb_forall in H. specialize (H b). rewrite in_seq in H. specialize (H (conj (Nat.le_0_l _) Hb)).
  rewrite forallb_forall in H. specialize (H a'). rewrite in_seq in H. specialize (H (conj (Nat.le_0_l _) Ha')).
  rewrite forallb_forall in H. specialize (H b'). rewrite in_seq in H. specialize (H (conj (Nat.le_0_l _) Hb')).
  rewrite N1, N2 in H. simpl in H. apply eqb_prop in H.
  split; intros E.
  - subst. rewrite Nat.eqb_refl in H. symmetry in H. apply Nat.eqb_eq in H. exact H.
  - subst. rewrite Nat.eqb_refl in H. apply Nat.eqb_eq in H. exact H.
Qed.

(* ------------------------------------------------ what "the names match" means *)
(* identical names of two plain fields match (without a tag on the source name) *)
Lemma can_name_match_same f1 f2 tm ic :
  f_isget f1 = false -> f_isset f1 = false -> f_backing f1 = "" -> f_backing f2 = "" ->
  tm_get tm (f_name f1) = None -> f_name f1 = f_name f2 ->
  can_name_match f1 f2 tm ic = true.
Proof.
  intros G S B1 B2 T E. unfold can_name_match, matching_name. rewrite G, S, B1, B2. simpl. rewrite T, E.
  destruct ic.
  - unfold equal_fold. apply String.eqb_refl.
  - apply smart_match_refl.
Qed.

(* a tagged source field matches the destination field its tag names *)
Lemma can_name_match_tag f1 f2 tm t :
  f_isget f1 = false -> f_isset f1 = false -> f_backing f1 = "" -> f_backing f2 = "" ->
  tm_get tm (f_name f1) = Some t -> t = f_name f2 ->
  can_name_match f1 f2 tm false = true.
Proof.
  intros G S B1 B2 T E. unfold can_name_match, matching_name. rewrite G, S, B1, B2. simpl. rewrite T, E.
  apply smart_match_refl.
Qed.
