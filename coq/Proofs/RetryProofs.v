(* Proofs about Model/Retry.v (C20). *)
From Coq Require Import List ZArith Bool Lia Arith.
From Shoot Require Import Model.Retry.
Import ListNotations.

(* Declarative characterisation of "the first acceptable attempt". *)
Definition first_acceptable (script : nat -> rt_out) (a fuel j : nat) : Prop :=
  a <= j < a + fuel /\ acceptable (script j) = true /\
  forall i, a <= i < j -> acceptable (script i) = false.

Definition none_acceptable (script : nat -> rt_out) (a fuel : nat) : Prop :=
  forall i, a <= i < a + fuel -> acceptable (script i) = false.

(* The trace of a run whose last call is attempt [j], starting at attempt [a]:
   the call [a] (preceded by a sleep iff a > 0) then (sleep; call) pairs. *)
Definition trace_from (a j : nat) : list event :=
  match a with O => [] | S _ => [ESleep] end ++
  ECall a :: flat_map (fun i => [ESleep; ECall i]) (seq (S a) (j - a)).

Definition trace_to (j : nat) : list event := trace_from 0 j.

Lemma trace_from_step a j : a < j ->
  trace_from a j =
  match a with O => [] | S _ => [ESleep] end ++ ECall a :: trace_from (S a) j.
Proof.
  intros H. unfold trace_from.
  replace (j - a) with (S (j - S a)) by lia.
  cbn [seq flat_map app]. reflexivity.
Qed.

Lemma trace_from_self a :
  trace_from a a = match a with O => [] | S _ => [ESleep] end ++ [ECall a].
Proof. unfold trace_from. rewrite Nat.sub_diag. reflexivity. Qed.

Lemma loop_hit script : forall fuel a last j,
  first_acceptable script a fuel j ->
  loop script fuel a last = (trace_from a j, (fst (as_result (script j)), None)).
Proof.
  induction fuel as [|fuel IH]; intros a last j (Hr & Hacc & Hmin).
  - lia.
  - cbn [loop]. destruct (Nat.eq_dec a j) as [->|Hne].
    + rewrite Hacc, trace_from_self. reflexivity.
    + rewrite (Hmin a) by lia.
      rewrite (IH (S a) (as_result (script a)) j).
      * rewrite (trace_from_step a j) by lia. reflexivity.
      * repeat split; try lia; try assumption. intros i Hi. apply Hmin. lia.
Qed.

Lemma loop_miss script : forall fuel a last,
  none_acceptable script a (S fuel) ->
  loop script (S fuel) a last = (trace_from a (a + fuel), as_result (script (a + fuel))).
Proof.
  induction fuel as [|fuel IH]; intros a last Hn.
  - cbn [loop]. rewrite (Hn a) by lia. cbn [loop]. rewrite Nat.add_0_r, trace_from_self.
    reflexivity.
  - change (loop script (S (S fuel)) a last) with
      (let pre := match a with O => [] | S _ => [ESleep] end in
       let o := script a in
       if acceptable o then (pre ++ [ECall a], (fst (as_result o), None))
       else let '(ev, r) := loop script (S fuel) (S a) (as_result o) in
            (pre ++ ECall a :: ev, r)).
    cbv zeta. rewrite (Hn a) by lia.
    rewrite IH.
    + rewrite (trace_from_step a (a + S fuel)) by lia.
      replace (S a + fuel) with (a + S fuel) by lia. reflexivity.
    + intros i Hi. apply Hn. lia.
Qed.

Lemma calls_app l1 l2 : calls (l1 ++ l2) = calls l1 + calls l2.
Proof. unfold calls. rewrite filter_app, app_length. reflexivity. Qed.
Lemma sleeps_app l1 l2 : sleeps (l1 ++ l2) = sleeps l1 + sleeps l2.
Proof. unfold sleeps. rewrite filter_app, app_length. reflexivity. Qed.

Lemma calls_pairs a k :
  calls (flat_map (fun i => [ESleep; ECall i]) (seq a k)) = k.
Proof. revert a; induction k as [|k IH]; intros a; cbn; [reflexivity|].
  unfold calls in *. cbn. rewrite IH. reflexivity. Qed.
Lemma sleeps_pairs a k :
  sleeps (flat_map (fun i => [ESleep; ECall i]) (seq a k)) = k.
Proof. revert a; induction k as [|k IH]; intros a; cbn; [reflexivity|].
  unfold sleeps in *. cbn. rewrite IH. reflexivity. Qed.

Lemma calls_trace_to j : calls (trace_to j) = S j.
Proof. unfold trace_to, trace_from. cbn [app].
  change (ECall 0 :: ?l) with ([ECall 0] ++ l). rewrite calls_app, calls_pairs.
  cbn. lia. Qed.
Lemma sleeps_trace_to j : sleeps (trace_to j) = j.
Proof. unfold trace_to, trace_from. cbn [app].
  change (ECall 0 :: ?l) with ([ECall 0] ++ l). rewrite sleeps_app, sleeps_pairs.
  cbn. lia. Qed.

(* No sleep precedes the first call; every later call is immediately preceded
   by exactly one sleep: the trace is literally  Call 0 (Sleep Call i)*  . *)
Lemma trace_to_shape j :
  trace_to j = ECall 0 :: flat_map (fun i => [ESleep; ECall i]) (seq 1 j).
Proof. unfold trace_to, trace_from. rewrite Nat.sub_0_r. reflexivity. Qed.

(* first acceptable attempt, decidably (used to show the case split of the
   theorem is exhaustive) *)
Lemma first_or_none script : forall fuel a,
  (exists j, first_acceptable script a fuel j) \/ none_acceptable script a fuel.
Proof.
  induction fuel as [|fuel IH]; intros a.
  - right. intros i Hi. lia.
  - destruct (acceptable (script a)) eqn:Ha.
    + left. exists a. repeat split; try lia; try assumption; intros i Hi; lia.
    + destruct (IH (S a)) as [[j (Hr & Hacc & Hmin)]|Hn].
      * left. exists j. repeat split; try lia; try assumption.
        intros i Hi. destruct (Nat.eq_dec i a) as [->|]; [assumption|]. apply Hmin; lia.
      * right. intros i Hi. destruct (Nat.eq_dec i a) as [->|]; [assumption|]. apply Hn; lia.
Qed.

Lemma retry_hit n script j : (0 <= n)%Z ->
  first_acceptable script 0 (Z.to_nat (n + 1)) j ->
  retry n script = (trace_to j, (fst (as_result (script j)), None)).
Proof. intros Hn H. unfold retry. apply loop_hit. exact H. Qed.

Lemma retry_miss n script : (0 <= n)%Z ->
  none_acceptable script 0 (Z.to_nat (n + 1)) ->
  retry n script = (trace_to (Z.to_nat n), as_result (script (Z.to_nat n))).
Proof.
  intros Hn H. unfold retry.
  replace (Z.to_nat (n + 1)) with (S (Z.to_nat n)) in * by lia.
  rewrite loop_miss by exact H. reflexivity.
Qed.

Lemma retry_negative n script : (n < 0)%Z -> retry n script = ([], (None, None)).
Proof. intros Hn. unfold retry. replace (Z.to_nat (n + 1)) with O by lia. reflexivity. Qed.

Lemma retry_calls_bound n script : (0 <= n)%Z ->
  calls (fst (retry n script)) <= Z.to_nat (n + 1).
Proof.
  intros Hn. destruct (first_or_none script (Z.to_nat (n + 1)) 0) as [[j Hj]|Hnone].
  - rewrite (retry_hit n script j Hn Hj). cbn [fst]. rewrite calls_trace_to.
    destruct Hj as (Hr & _). lia.
  - rewrite (retry_miss n script Hn Hnone). cbn [fst]. rewrite calls_trace_to. lia.
Qed.

Lemma acceptable_spec o :
  acceptable o = true <-> exists r, o = RResp r /\ (r_status r < 500)%Z.
Proof.
  destruct o as [r|e r]; cbn.
  - rewrite Z.ltb_lt. split; [intros H; exists r; auto|intros (r' & E & H); inversion E; subst; auto].
  - split; [discriminate|intros (r' & E & _); discriminate].
Qed.
