(* The boolean property of the correspondence (Corr/FsCorr.v [Pb]) and the theorems:
   whenever the traced operations of a case ARE the model's plan, and the directory
   observed after the run is the model's final state, the conjuncts P_atomic and
   P_stable of [Pb] hold.  So a case cannot agree with the model and fail them: the
   oracle that decides "concrete violation" is the theorems' own statement. *)
From Coq Require Import String Ascii List Bool Arith Lia.
From Shoot Require Import Model.Fs Proofs.FsProofs Corr.FsCorr.
Import ListNotations.
Local Open Scope string_scope.

Lemma states_prefix ops : forall s0 s, In s (states s0 ops) <-> exists p, prefix_of p ops /\ s = exec s0 p.
Proof.
  induction ops as [|o ops IH]; intros s0 s; cbn [states].
  - split.
    + intros [<-|[]]. exists []. split; [apply prefix_of_nil|reflexivity].
    + intros (p & [r Hr] & ->). destruct p; [now left|discriminate].
  - split.
    + intros [<-|H].
      * exists []. split; [apply prefix_of_nil|reflexivity].
      * apply IH in H as (p & Hp & ->). exists (o :: p). split; [|reflexivity].
        destruct Hp as [r ->]. exists r. reflexivity.
    + intros (p & [r Hr] & ->). destruct p as [|o' p]; [now left|].
      cbn in Hr. injection Hr as <- Hr. right. apply IH. exists p. split; [exists r; exact Hr|reflexivity].
Qed.

Lemma opt_bytes_eqb_refl a : opt_bytes_eqb a a = true.
Proof. destruct a; cbn; [apply String.eqb_refl|reflexivity]. Qed.

Section Agree.
  Variables (k : case) (outs : list output).
  Let c := cfg_of k.
  Let init := init_of k.
  Hypothesis Hplan : k_ops k = plan c init outs.
  Hypothesis G0 : good c init outs.
  Let c' := reached c outs.
  Let G : good c' init outs := good_reached c init outs G0.
  (* the names of the observation are not this run's temporaries (they exist neither before nor after) *)
  Hypothesis Hnames : forall n, In n (names_of k) -> ~ In n (temps outs).
  (* the directory observed after the run is what the model computes *)
  Hypothesis Hafter : forall n, In n (names_of k) -> after_visible k n = visible (exec init (k_ops k)) n.

  Theorem agree_atomic : P_atomic k = true.
  Proof.
    unfold P_atomic. fold init. apply forallb_forall. intros s Hs. apply forallb_forall. intros n Hn.
    unfold obs_names in Hn. apply filter_In in Hn as [Hn _].
    apply states_prefix in Hs as (p & Hp & ->). rewrite Hplan in Hp.
    rewrite (Hafter n Hn), Hplan.
    change (plan c init outs) with (plan1 c' init outs) in *.
    destruct (final_state c' init outs G) as (A & B & C & D & _).
    destruct (in_dec String.string_dec n (names outs)) as [Ho|Ho].
    - apply in_map_iff in Ho as (o & <- & Ho).
      destruct (atomic c' init outs G p o Hp Ho) as [E|E]; rewrite E.
      + now rewrite opt_bytes_eqb_refl.
      + rewrite (A o Ho), opt_bytes_eqb_refl. apply orb_true_r.
    - pose proof (Hnames n Hn) as Ht.
      destruct (in_dec String.string_dec n (victims c' (exec init (write_ops (c_fd c') outs)))) as [Hv|Hv].
      + destruct (victim_old_or_gone c' init outs G p n Hp Hv) as [E|E]; rewrite E.
        * now rewrite opt_bytes_eqb_refl.
        * unfold visible at 2. rewrite (C n Hv), opt_bytes_eqb_refl. apply orb_true_r.
      + destruct (frame c' init outs G p n Hp Ho Ht Hv) as [_ E]. rewrite E. now rewrite opt_bytes_eqb_refl.
  Qed.

  Theorem agree_stable : P_stable k = true.
  Proof.
    unfold P_stable. fold init. apply forallb_forall. intros s Hs. apply forallb_forall. intros n Hn.
    unfold obs_names in Hn. apply filter_In in Hn as [Hn _].
    apply states_prefix in Hs as (p & [r Hr] & ->).
    destruct (lookup n (dir (exec init p))) as [i|] eqn:L; [|reflexivity].
    rewrite Hr. apply String.eqb_eq. symmetry.
    apply (reader_stability c' init outs G p r n i); auto.
    rewrite <- Hr, Hplan. change (plan c init outs) with (plan1 c' init outs). apply prefix_of_refl.
  Qed.
End Agree.
