(* The boolean property of the C20 correspondence (Corr/RetryCorr.v: Pb) is the
   theorems' statement: [first_acc] computes the declarative first acceptable
   attempt, and Pb holds of the model's own observation on every input. *)
From Coq Require Import List ZArith Bool Lia Arith.
From Shoot Require Import Model.Retry Proofs.RetryProofs Corr.RetryCorr.
Import ListNotations.

Lemma first_acc_some : forall l fuel a j,
  first_acc l a fuel = Some j -> first_acceptable (script_of l (RErr 0 None)) a fuel j.
Proof.
  induction fuel as [|fuel IH]; intros a j H; cbn in H; [discriminate|].
  destruct (acceptable (nth a l (RErr 0 None))) eqn:E.
  - inversion H; subst. repeat split; try lia; try exact E.
  - apply IH in H. destruct H as (Hr & Hacc & Hmin). split; [lia|]. split; [exact Hacc|].
    intros i Hi. destruct (Nat.eq_dec i a) as [->|]; [exact E|apply Hmin; lia].
Qed.

Lemma first_acc_none : forall l fuel a,
  first_acc l a fuel = None -> none_acceptable (script_of l (RErr 0 None)) a fuel.
Proof.
  induction fuel as [|fuel IH]; intros a H i Hi; [lia|]. cbn in H.
  destruct (acceptable (nth a l (RErr 0 None))) eqn:E; [discriminate|].
  destruct (Nat.eq_dec i a) as [->|]; [exact E|]. apply (IH (S a) H). lia.
Qed.

Lemma opt_nat_eqb_refl : forall a, opt_nat_eqb a a = true.
Proof. destruct a; cbn; [apply Nat.eqb_refl|reflexivity]. Qed.

Theorem Pb_holds_on_model : forall n l, Pb n l (model_obs n l) = true.
Proof.
  intros n l. unfold Pb, model_obs.
  destruct (Nat.eqb (Z.to_nat (n + 1)) 0) eqn:E0.
  - apply Nat.eqb_eq in E0. assert (n < 0)%Z as Hn by lia.
    rewrite (retry_negative n _ Hn). reflexivity.
  - apply Nat.eqb_neq in E0. assert (0 <= n)%Z as Hn by lia.
    destruct (first_acc l 0 (Z.to_nat (n + 1))) as [j|] eqn:F.
    + apply first_acc_some in F. rewrite (retry_hit n _ j Hn F).
      cbn [fst snd o_calls o_resp o_err o_sleeps].
      rewrite calls_trace_to, sleeps_trace_to, !Nat.eqb_refl. unfold script_of.
      rewrite !opt_nat_eqb_refl. reflexivity.
    + apply first_acc_none in F. rewrite (retry_miss n _ Hn F).
      replace (Z.to_nat (n + 1) - 1) with (Z.to_nat n) by lia.
      destruct (as_result (script_of l (RErr 0 None) (Z.to_nat n))) as [r e] eqn:R.
      cbn [fst snd o_calls o_resp o_err o_sleeps].
      rewrite calls_trace_to, sleeps_trace_to. unfold script_of in R. rewrite R. cbn [fst snd].
      replace (S (Z.to_nat n)) with (Z.to_nat (n + 1)) by lia.
      rewrite !Nat.eqb_refl, !opt_nat_eqb_refl. reflexivity.
Qed.

(* hence verdict 0 on the model's own observation: a non-zero verdict always is a
   difference between implementation and model *)
Corollary verdict_zero_on_model : forall n l,
  verdict {| c_n := n; c_script := l; c_obs := model_obs n l |} = 0%N.
Proof.
  intros n l. unfold verdict; cbn [c_n c_script c_obs]. rewrite Pb_holds_on_model. cbn [negb].
  assert (obs_eqb (model_obs n l) (model_obs n l) = true) as ->; [|reflexivity].
  unfold obs_eqb. rewrite !Nat.eqb_refl, !opt_nat_eqb_refl. reflexivity.
Qed.
