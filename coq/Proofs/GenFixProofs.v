(* C07: "running the same command twice in a row is a fixpoint" for the all-in-one form `-file=f` (the usual
   //go:generate line): Clean is not active there (allInOneFile is only set for -type=* without -file). *)
From Coq Require Import List String Ascii Bool Arith Lia Permutation.
From Shoot Require Import Model.Gen Proofs.GenBaseProofs Proofs.GenProofs Proofs.GenSigmaProofs Proofs.GenNewProofs.
Import ListNotations.
Local Open Scope string_scope.

Lemma aio_file_empty : forall c v, c_file c <> "" -> all_in_one_file c v = "".
Proof.
  intros c v H. unfold all_in_one_file. destruct (String.eqb_spec (c_file c) "") as [E|E]; [contradiction|]. reflexivity.
Qed.

Lemma clean_file_mode : forall c v dir, c_file c <> "" -> clean c (all_in_one_file c v) dir = dir.
Proof. intros c v dir H. rewrite (aio_file_empty c v H). unfold clean. destruct (separate c); reflexivity. Qed.

Section TwiceFixFile.
  Variable p : pkg.
  Variable c : cmd.
  Hypothesis Hfile : c_file c <> "".
  Hypothesis H : forall o1 o2 prior1 prior2, legal o1 -> legal o2 -> run_generate o1 p prior1 c = run_generate o2 p prior2 c.

  Theorem run_twice_fixpoint_file : forall o1 o2 prior w dir,
    legal o1 -> legal o2 -> NoDup (keys prior) ->
    run o1 p prior c = ODone w dir ->
    exists w' dir', run o2 p dir c = ODone w' dir' /\ listing dir' = listing dir /\ Permutation w' w.
  Proof.
    intros o1 o2 prior w dir H1 H2 Hn Hr. unfold run in *.
    rewrite (H o2 o1 dir prior H2 H1).
    destruct (run_generate o1 p prior c) as [sm|] eqn:Eg; [|discriminate].
    pose proof (run_generate_nodup _ _ _ _ _ Eg) as Hsm.
    destruct sm as [|e sm'].
    - injection Hr as <- <-.
      assert (E1 : o1 (string * afile)%type [] = []) by (apply Permutation_nil, Permutation_sym, H1).
      assert (E2 : o2 (string * afile)%type [] = []) by (apply Permutation_nil, Permutation_sym, H2).
      rewrite E1, E2. cbn. eexists. eexists. split; [reflexivity|]. split; auto.
    - rewrite !clean_file_mode in * by exact Hfile. injection Hr as <- <-.
      eexists. eexists. split; [reflexivity|]. split.
      + exact (second_write o1 o2 (e :: sm') prior H1 H2 Hsm Hn).
      + apply Permutation_map. eapply perm_trans; [apply H2 | apply Permutation_sym, H1].
  Qed.
End TwiceFixFile.

(* `shoot <cmd> -file=f` (one all-in-one file, or one file per type with -sep): generate twice = generate once *)
Theorem enum_twice_fixpoint_file : forall p c o1 o2 prior w dir,
  c_sub c = CEnum -> specified c = false -> c_file c <> "" ->
  legal o1 -> legal o2 -> NoDup (keys prior) ->
  run o1 p prior c = ODone w dir ->
  exists w' dir', run o2 p dir c = ODone w' dir' /\ listing dir' = listing dir /\ Permutation w' w.
Proof.
  intros p c o1 o2 prior w dir Hc Hs Hf. apply run_twice_fixpoint_file; auto.
  intros. apply enum_run_independent; auto.
Qed.

Theorem rest_twice_fixpoint_file : forall p c o1 o2 prior w dir,
  c_sub c = CRest -> specified c = false -> c_file c <> "" -> rest_pkg_ok (p_hw p) ->
  legal o1 -> legal o2 -> NoDup (keys prior) ->
  run o1 p prior c = ODone w dir ->
  exists w' dir', run o2 p dir c = ODone w' dir' /\ listing dir' = listing dir /\ Permutation w' w.
Proof.
  intros p c o1 o2 prior w dir Hc Hs Hf Hok. apply run_twice_fixpoint_file; auto.
  intros. apply rest_run_independent; auto.
Qed.

Theorem new_twice_fixpoint_file : forall p c o1 o2 prior w dir,
  c_sub c = CNew -> specified c = false -> c_file c <> "" -> no_embedding (hand_of (p_hw p)) ->
  legal o1 -> legal o2 -> NoDup (keys prior) ->
  run o1 p prior c = ODone w dir ->
  exists w' dir', run o2 p dir c = ODone w' dir' /\ listing dir' = listing dir /\ Permutation w' w.
Proof.
  intros p c o1 o2 prior w dir Hc Hs Hf Hne. apply run_twice_fixpoint_file; auto.
  intros. apply new_run_independent; auto.
Qed.
