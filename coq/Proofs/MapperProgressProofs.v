(* C09, progress: a safe plan on a well-typed input is never STUCK (the third
   outcome of the evaluator, "the plan does not fit the value") once the fuel
   covers the size of the input; with the no-panic theorems of
   MapperSafeProofs.v the generated ToX/FromX therefore RUN TO COMPLETION.
   Stuck-freedom needs much less than typing of the written value (which user
   mapper methods and conversions do not preserve): only its embedded
   STRUCTURE ([shaped]) matters. *)
From Coq Require Import String Ascii List Bool Arith ZArith Lia.
From Shoot Require Import Base.Str Model.Transfer Model.MapVal Model.Mapper Model.MapperEval Model.MapperSafe
     Model.MapperGen Proofs.MapperValProofs Proofs.MapperSafeProofs Proofs.MapperLeafProofs Proofs.MapperFlattenRel.
Import ListNotations.
Local Open Scope string_scope.
Local Open Scope list_scope.

(* ------------------------------------------------------------------ size *)
Fixpoint vsize (v : val) : nat :=
  match v with
  | VPtr x => S (vsize x)
  | VStruct fs => S ((fix go (l : list (string * val)) : nat :=
                        match l with [] => 0 | kv :: r => vsize (snd kv) + go r end) fs)
  | VList vs => S ((fix go (l : list val) : nat := match l with [] => 0 | x :: r => vsize x + go r end) vs)
  | _ => 1
  end.

Lemma vsize_pos v : 1 <= vsize v.
Proof. destruct v; simpl; lia. Qed.

Lemma vsize_assoc n fs x : assoc_val n fs = Some x -> vsize x < vsize (VStruct fs).
Proof.
  simpl. induction fs as [|[m v] fs IH]; simpl; [discriminate|].
  destruct (String.eqb n m).
  - intros H. inversion H; subst. lia.
  - intros H. specialize (IH H). lia.
Qed.

Lemma vsize_in x xs : In x xs -> vsize x < vsize (VList xs).
Proof.
  simpl. induction xs as [|y xs IH]; simpl; [contradiction|].
  intros [->|H]; [lia|]. specialize (IH H). lia.
Qed.

Lemma vsize_get : forall p v x, get_path v p = Ok x -> vsize x <= vsize v.
Proof.
  induction p as [|n r IH]; intros v x H; simpl in H.
  - inversion H. lia.
  - destruct v as [| | | |w|fs| |]; try discriminate.
    + destruct w as [| | | | |fs| |]; try discriminate.
      destruct (assoc_val n fs) as [y|] eqn:A; [|discriminate].
      specialize (IH _ _ H). pose proof (vsize_assoc _ _ _ A). simpl in *. lia.
    + destruct (assoc_val n fs) as [y|] eqn:A; [|discriminate].
      specialize (IH _ _ H). pose proof (vsize_assoc _ _ _ A). lia.
Qed.

Lemma vsize_get_struct n r fs x : get_path (VStruct fs) (n :: r) = Ok x -> vsize x < vsize (VStruct fs).
Proof.
  intros H. rewrite get_struct_cons in H. destruct (assoc_val n fs) as [y|] eqn:A; [|discriminate].
  pose proof (vsize_get _ _ _ H). pose proof (vsize_assoc _ _ _ A). lia.
Qed.

(* ----------------------------------------------------------------- shape *)
(* the embedded structure of a struct value: every declared field is there, an
   embedded struct is a struct value of that shape, an embedded pointer is nil or
   points to one; plain fields hold ANY value *)
Fixpoint shaped (e : env) (fuel : nat) (fs : list sfield) (kvs : list (string * val)) {struct fuel} : Prop :=
  Forall2 (fun kv sf =>
    fst kv = sf_name sf /\
    (sf_emb sf = true ->
     match fuel with
     | O => True
     | S f =>
         match emb_decl e (sf_ty sf) with
         | Some (false, _, _, gs) => exists k, snd kv = VStruct k /\ shaped e f gs k
         | Some (true, _, _, gs) => snd kv = VNil \/ exists k, snd kv = VPtr (VStruct k) /\ shaped e f gs k
         | None => True
         end
     end)) kvs fs.

Lemma typed_shaped e : forall fuel fs kvs, typed_fields e kvs fs -> shaped e fuel fs kvs.
Proof.
  induction fuel as [|f IH]; intros fs kvs T.
  - simpl. induction T as [|kv sf kvs fs (A & B) T IHT]; constructor; auto.
  - simpl. induction T as [|kv sf kvs fs (A & B) T IHT]; constructor; auto.
    split; auto. intros Em.
    destruct (emb_decl e (sf_ty sf)) as [[[[ptr p] n] gs]|] eqn:D; auto.
    pose proof (emb_decl_lookup _ _ _ _ _ _ D) as L.
    unfold emb_decl in D. destruct (sf_ty sf) as [|p' n'|t'| |] eqn:Ty; try discriminate.
    + destruct (lookup_decl e p' n') as [[|gs']|] eqn:L'; try discriminate. inversion D; subst.
      destruct (has_ty_struct _ _ _ _ _ B L') as (k & E & Tk). exists k. split; auto.
    + destruct t' as [|p' n'| | |]; try discriminate.
      destruct (lookup_decl e p' n') as [[|gs']|] eqn:L'; try discriminate. inversion D; subst.
      destruct (has_ty_ptr _ _ _ B) as [E|(y & E & Ty')]; [left; auto|].
      destruct (has_ty_struct _ _ _ _ _ Ty' L') as (k & E2 & Tk). right. exists k. subst. split; auto.
Qed.

Lemma shaped_assoc e fuel fs kvs sf :
  shaped e fuel fs kvs -> nodup_strs (map sf_name fs) = true -> In sf fs ->
  exists x, assoc_val (sf_name sf) kvs = Some x /\
    (sf_emb sf = true ->
     match fuel with
     | O => True
     | S f =>
         match emb_decl e (sf_ty sf) with
         | Some (false, _, _, gs) => exists k, x = VStruct k /\ shaped e f gs k
         | Some (true, _, _, gs) => x = VNil \/ exists k, x = VPtr (VStruct k) /\ shaped e f gs k
         | None => True
         end
     end).
Proof.
  intros S. assert (S' := S). destruct fuel; simpl in S'.
  - clear S. induction S' as [|[k v] sf' kvs fs (Hn & Ht) T IH]; intros N I; [contradiction|].
    simpl in N. apply nodup_strs_cons in N. destruct N as (N1 & N2). simpl in *.
    destruct I as [->|I].
    + subst k. rewrite String.eqb_refl. eauto.
    + destruct (String.eqb_spec (sf_name sf) k) as [E|E].
      * exfalso. apply N1. rewrite Hn in E. rewrite <- E. apply in_map. auto.
      * apply IH; auto.
  - clear S. induction S' as [|[k v] sf' kvs fs (Hn & Ht) T IH]; intros N I; [contradiction|].
    simpl in N. apply nodup_strs_cons in N. destruct N as (N1 & N2). simpl in *.
    destruct I as [->|I].
    + subst k. rewrite String.eqb_refl. eauto.
    + destruct (String.eqb_spec (sf_name sf) k) as [E|E].
      * exfalso. apply N1. rewrite Hn in E. rewrite <- E. apply in_map. auto.
      * apply IH; auto.
Qed.

Lemma shaped_set e fuel fs kvs sf x :
  shaped e fuel fs kvs -> nodup_strs (map sf_name fs) = true -> In sf fs ->
  (sf_emb sf = true ->
     match fuel with
     | O => True
     | S f =>
         match emb_decl e (sf_ty sf) with
         | Some (false, _, _, gs) => exists k, x = VStruct k /\ shaped e f gs k
         | Some (true, _, _, gs) => x = VNil \/ exists k, x = VPtr (VStruct k) /\ shaped e f gs k
         | None => True
         end
     end) ->
  shaped e fuel fs (assoc_set (sf_name sf) x kvs).
Proof.
  intros S. assert (S' := S). destruct fuel; simpl in S' |- *.
  - clear S. induction S' as [|[k v] sf' kvs fs (Hn & Ht) T IH]; intros N I Hx; [contradiction|].
    simpl in N. apply nodup_strs_cons in N. destruct N as (N1 & N2). simpl in *.
    destruct I as [->|I].
    + subst k. rewrite String.eqb_refl. constructor; auto.
    + destruct (String.eqb_spec (sf_name sf) k) as [E|E].
      * exfalso. apply N1. rewrite Hn in E. rewrite <- E. apply in_map. auto.
      * constructor; auto.
  - clear S. induction S' as [|[k v] sf' kvs fs (Hn & Ht) T IH]; intros N I Hx; [contradiction|].
    simpl in N. apply nodup_strs_cons in N. destruct N as (N1 & N2). simpl in *.
    destruct I as [->|I].
    + subst k. rewrite String.eqb_refl. constructor; auto.
    + destruct (String.eqb_spec (sf_name sf) k) as [E|E].
      * exfalso. apply N1. rewrite Hn in E. rewrite <- E. apply in_map. auto.
      * constructor; auto.
Qed.

Lemma set_ptr_struct k m q x :
  set_path (VPtr (VStruct k)) (m :: q) x
  = bind (set_path (VStruct k) (m :: q) x) (fun w => match w with VStruct l => Ok (VPtr (VStruct l)) | _ => Stuck end).
Proof. rewrite !set_path_cons. destruct (assoc_val m k); auto. destruct (set_path v q x); auto. Qed.

Lemma emb_decl_named e p n gs : lookup_decl e p n = Some (DStruct gs) -> emb_decl e (TNamed p n) = Some (false, p, n, gs).
Proof. intros L. unfold emb_decl. rewrite L. reflexivity. Qed.
Lemma emb_decl_ptr e p n gs : lookup_decl e p n = Some (DStruct gs) -> emb_decl e (TPtr (TNamed p n)) = Some (true, p, n, gs).
Proof. intros L. unfold emb_decl. rewrite L. reflexivity. Qed.

Section Paths.
  Variable e : env.
  Hypothesis Eok : env_ok e = true.

  Lemma leaf_path_nonempty fuel fs l : In l (rleaves e fuel fs) -> rl_path l <> [].
  Proof.
    destruct fuel; [contradiction|]. intros I.
    destruct (in_rleaves e _ _ _ I) as (sf & _ & [(_ & ->)|[(_ & ? & ? & ? & ? & _ & _ & _ & ->)|(_ & ? & ? & ? & ? & _ & _ & _ & ->)]]);
      discriminate.
  Qed.

  (* reading along a leaf path (any prefix of it) is never stuck *)
  Lemma get_leaf_ns : forall fuel fs kvs l,
    shaped e fuel fs kvs -> nodup_strs (map sf_name fs) = true -> In l (rleaves e fuel fs) ->
    forall q r, rl_path l = q ++ r -> get_path (VStruct kvs) q <> Stuck.
  Proof.
    induction fuel as [|fuel IH]; intros fs kvs l S N I q r E; [contradiction|].
    destruct q as [|m q]; [simpl; discriminate|].
    destruct (in_rleaves e _ _ _ I) as (sf & Isf & C).
    destruct (shaped_assoc e _ _ _ sf S N Isf) as (x & Ax & Sx).
    destruct C as [(Em & ->)|[(Em & p & n & gs & l' & Ty & L & I' & ->)|(Em & p & n & gs & l' & Ty & L & I' & ->)]];
      simpl in E; inversion E; subst m; rewrite get_struct_cons, Ax.
    - destruct q; [simpl; discriminate|]. destruct r; discriminate.
    - specialize (Sx Em). rewrite Ty, (emb_decl_named _ _ _ _ L) in Sx. destruct Sx as (k & -> & Sk).
      destruct q as [|m' q']; [simpl; discriminate|].
      apply (IH gs k l' Sk (env_ok_lookup _ _ _ _ Eok L) I' (m' :: q') r). auto.
    - specialize (Sx Em). rewrite Ty, (emb_decl_ptr _ _ _ _ L) in Sx. destruct Sx as [->|(k & -> & Sk)].
      + destruct q; simpl; discriminate.
      + destruct q as [|m' q']; [simpl; discriminate|]. rewrite get_ptr_struct_cons.
        apply (IH gs k l' Sk (env_ok_lookup _ _ _ _ Eok L) I' (m' :: q') r). auto.
  Qed.

  (* ... nor is reading an embedded-pointer position *)
  Lemma get_hop_ns : forall fuel fs kvs h t,
    shaped e fuel fs kvs -> nodup_strs (map sf_name fs) = true -> In (h, t) (rhops e fuel fs) ->
    get_path (VStruct kvs) h <> Stuck.
  Proof.
    induction fuel as [|fuel IH]; intros fs kvs h t S N I; [contradiction|].
    destruct (in_rhops _ _ _ _ _ I) as (sf & Isf & Em & C).
    destruct (shaped_assoc e _ _ _ sf S N Isf) as (x & Ax & Sx). specialize (Sx Em).
    destruct C as [(p & n & gs & h' & Ty & L & I' & ->)|(p & n & gs & Ty & L & [(-> & ->)|(h' & I' & ->)])];
      rewrite get_struct_cons, Ax.
    - rewrite Ty, (emb_decl_named _ _ _ _ L) in Sx. destruct Sx as (k & -> & Sk).
      destruct h' as [|m' q']; [simpl; discriminate|].
      apply (IH gs k (m' :: q') t Sk (env_ok_lookup _ _ _ _ Eok L) I').
    - simpl. discriminate.
    - rewrite Ty, (emb_decl_ptr _ _ _ _ L) in Sx. destruct Sx as [->|(k & -> & Sk)].
      + destruct h'; simpl; discriminate.
      + destruct h' as [|m' q']; [simpl; discriminate|]. rewrite get_ptr_struct_cons.
        apply (IH gs k (m' :: q') t Sk (env_ok_lookup _ _ _ _ Eok L) I').
  Qed.

  (* writing a leaf (ANY value) is never stuck and keeps the shape *)
  Lemma set_leaf_ns : forall fuel fs kvs l y,
    shaped e fuel fs kvs -> nodup_strs (map sf_name fs) = true -> In l (rleaves e fuel fs) ->
    set_path (VStruct kvs) (rl_path l) y <> Stuck
    /\ forall w', set_path (VStruct kvs) (rl_path l) y = Ok w' -> exists k', w' = VStruct k' /\ shaped e fuel fs k'.
  Proof.
    induction fuel as [|fuel IH]; intros fs kvs l y S N I; [contradiction|].
    destruct (in_rleaves e _ _ _ I) as (sf & Isf & C).
    destruct (shaped_assoc e _ _ _ sf S N Isf) as (x & Ax & Sx).
    destruct C as [(Em & ->)|[(Em & p & n & gs & l' & Ty & L & I' & ->)|(Em & p & n & gs & l' & Ty & L & I' & ->)]];
      cbn [rl_path rl_under]; rewrite set_path_cons, Ax.
    - cbn [set_path bind]. split; [discriminate|]. intros w' H. inversion H; subst. eexists. split; [reflexivity|].
      apply shaped_set; auto. rewrite Em. discriminate.
    - specialize (Sx Em). rewrite Ty, (emb_decl_named _ _ _ _ L) in Sx. destruct Sx as (k & -> & Sk).
      destruct (IH gs k l' y Sk (env_ok_lookup _ _ _ _ Eok L) I') as (A & B).
      destruct (set_path (VStruct k) (rl_path l') y) as [new| |] eqn:SP; cbn [bind]; try congruence.
      + split; [discriminate|]. intros w' H. inversion H; subst.
        destruct (B new eq_refl) as (k' & -> & Sk'). eexists. split; [reflexivity|].
        apply shaped_set; auto. intros _. rewrite Ty, (emb_decl_named _ _ _ _ L). eauto.
      + split; [discriminate|]. discriminate.
    - specialize (Sx Em). rewrite Ty, (emb_decl_ptr _ _ _ _ L) in Sx.
      pose proof (leaf_path_nonempty _ _ _ I') as NE.
      destruct (rl_path l') as [|m' q'] eqn:P; [congruence|].
      destruct Sx as [->|(k & -> & Sk)].
      + cbn [set_path bind]. split; discriminate.
      + rewrite set_ptr_struct. rewrite <- P.
        destruct (IH gs k l' y Sk (env_ok_lookup _ _ _ _ Eok L) I') as (A & B).
        destruct (set_path (VStruct k) (rl_path l') y) as [new| |] eqn:SP; cbn [bind]; try congruence.
        * destruct (B new eq_refl) as (k' & -> & Sk'). cbn [bind].
          split; [discriminate|]. intros w' H. inversion H; subst. eexists. split; [reflexivity|].
          apply shaped_set; auto. intros _. rewrite Ty, (emb_decl_ptr _ _ _ _ L). right. eauto.
        * split; discriminate.
  Qed.

  (* allocating an embedded pointer is never stuck and keeps the shape *)
  Lemma set_hop_ns : forall fuel fs kvs h t z,
    shaped e fuel fs kvs -> nodup_strs (map sf_name fs) = true -> In (h, t) (rhops e fuel fs) ->
    has_ty e z t ->
    set_path (VStruct kvs) h (VPtr z) <> Stuck
    /\ forall w', set_path (VStruct kvs) h (VPtr z) = Ok w' -> exists k', w' = VStruct k' /\ shaped e fuel fs k'.
  Proof.
    induction fuel as [|fuel IH]; intros fs kvs h t z S N I Hz; [contradiction|].
    destruct (in_rhops _ _ _ _ _ I) as (sf & Isf & Em & C).
    destruct (shaped_assoc e _ _ _ sf S N Isf) as (x & Ax & Sx). specialize (Sx Em).
    destruct C as [(p & n & gs & h' & Ty & L & I' & ->)|(p & n & gs & Ty & L & [(-> & ->)|(h' & I' & ->)])];
      rewrite set_path_cons, Ax.
    - rewrite Ty, (emb_decl_named _ _ _ _ L) in Sx. destruct Sx as (k & -> & Sk).
      destruct (IH gs k h' t z Sk (env_ok_lookup _ _ _ _ Eok L) I' Hz) as (A & B).
      destruct (set_path (VStruct k) h' (VPtr z)) as [new| |] eqn:SP; cbn [bind]; try congruence.
      + split; [discriminate|]. intros w' H. inversion H; subst.
        destruct (B new eq_refl) as (k' & -> & Sk'). eexists. split; [reflexivity|].
        apply shaped_set; auto. intros _. rewrite Ty, (emb_decl_named _ _ _ _ L). eauto.
      + split; discriminate.
    - cbn [set_path bind]. split; [discriminate|]. intros w' H. inversion H; subst. eexists. split; [reflexivity|].
      apply shaped_set; auto. intros _. rewrite Ty, (emb_decl_ptr _ _ _ _ L). right.
      destruct (has_ty_struct _ _ _ _ _ Hz L) as (k & -> & Tk). exists k. split; auto. apply typed_shaped. auto.
    - rewrite Ty, (emb_decl_ptr _ _ _ _ L) in Sx.
      assert (NE : h' <> []).
      { destruct fuel; [contradiction|]. destruct (in_rhops _ _ _ _ _ I') as (? & _ & _ & [(?&?&?&?&_&_&_&X)|(?&?&?&_&_&[(X&_)|(?&_&X)])]); rewrite X; discriminate. }
      destruct h' as [|m' q']; [congruence|].
      destruct Sx as [->|(k & -> & Sk)].
      + cbn [set_path bind]. split; discriminate.
      + rewrite set_ptr_struct.
        destruct (IH gs k (m' :: q') t z Sk (env_ok_lookup _ _ _ _ Eok L) I' Hz) as (A & B).
        destruct (set_path (VStruct k) (m' :: q') (VPtr z)) as [new| |] eqn:SP; cbn [bind]; try congruence.
        * destruct (B new eq_refl) as (k' & -> & Sk'). cbn [bind].
          split; [discriminate|]. intros w' H. inversion H; subst. eexists. split; [reflexivity|].
          apply shaped_set; auto. intros _. rewrite Ty, (emb_decl_ptr _ _ _ _ L). right. eauto.
        * split; discriminate.
  Qed.
End Paths.

(* --------------------------------------------------- the evaluator is not stuck *)
Section NoStuck.
  Variable e : env.
  Variable zf : nat.
  Variable U : usem.
  Variable pe : penv.
  Hypothesis Eok : env_ok e = true.

  Section Dir.
  Variable to_dir : bool.
  Variable B : nat.
  Variable call : string -> val -> out val.
  Hypothesis Cok : call_ok e pe to_dir call.
  (* the recursive call is not stuck on arguments smaller than B *)
  Hypothesis Cns : forall sn tp y, find_plans pe sn = Some tp -> has_ty e y (TPtr (arg_ty to_dir sn tp)) ->
                     vsize y < B -> call sn y <> Stuck.

  Lemma deref_call_ns sn tp s :
    find_plans pe sn = Some tp -> has_ty e s (arg_ty to_dir sn tp) -> S (vsize s) < B ->
    deref (call sn (VPtr s)) <> Stuck.
  Proof.
    intros F T Sz. destruct (Cok sn tp (VPtr s) F (HT_ptr _ _ _ T)) as (NP & Sh).
    pose proof (Cns sn tp (VPtr s) F (HT_ptr _ _ _ T) Sz) as NS.
    destruct (call sn (VPtr s)) as [v| |] eqn:E; simpl; try congruence.
    destruct (Sh s v eq_refl eq_refl) as (d & ->). discriminate.
  Qed.

  Lemma sub_one_ns sn tp (rp wp : bool) x :
    find_plans pe sn = Some tp ->
    has_ty e x (if rp then TPtr (arg_ty to_dir sn tp) else arg_ty to_dir sn tp) -> S (vsize x) < B ->
    sub_one (call sn) rp wp x <> Stuck.
  Proof.
    intros F T Sz. unfold sub_one. destruct rp, wp.
    - assert (NS : call sn x <> Stuck) by (apply (Cns sn tp x F T); lia).
      destruct (call sn x); simpl; congruence.
    - destruct (has_ty_ptr _ _ _ T) as [->|(s & -> & Ts)]; [discriminate|].
      assert (D : deref (call sn (VPtr s)) <> Stuck) by (apply (deref_call_ns sn tp s F Ts); simpl in Sz; lia).
      destruct (deref (call sn (VPtr s))); simpl; congruence.
    - pose proof (Cns sn tp (VPtr x) F (HT_ptr _ _ _ T) Sz) as NS. destruct (call sn (VPtr x)); simpl; congruence.
    - pose proof (deref_call_ns sn tp x F T Sz) as D.
      destruct (deref (call sn (VPtr x))); simpl; congruence.
  Qed.

  Lemma each_one_ns sn tp (rp wp : bool) zero x :
    find_plans pe sn = Some tp ->
    has_ty e x (if rp then TPtr (arg_ty to_dir sn tp) else arg_ty to_dir sn tp) -> S (vsize x) < B ->
    each_one (call sn) rp wp zero x <> Stuck.
  Proof.
    intros F T Sz. unfold each_one. destruct rp, wp.
    - apply (Cns sn tp x F T). lia.
    - destruct (has_ty_ptr _ _ _ T) as [->|(s & -> & Ts)]; [discriminate|].
      apply (deref_call_ns sn tp s F Ts). simpl in Sz. lia.
    - apply (Cns sn tp (VPtr x) F (HT_ptr _ _ _ T) Sz).
    - apply (deref_call_ns sn tp x F T Sz).
  Qed.

  Lemma map_out_ns {A X} (f : A -> out X) (l : list A) :
    (forall x, In x l -> f x <> Stuck) -> map_out f l <> Stuck.
  Proof.
    induction l as [|x l IH]; intros H; simpl; [discriminate|].
    assert (f x <> Stuck) by (apply H; left; auto).
    destruct (f x); simpl; try congruence.
    assert (map_out f l <> Stuck) by (apply IH; intros y Y; apply H; right; auto).
    destruct (map_out f l); simpl; congruence.
  Qed.

  Lemma apply_strategy_ns wpkg mh self h t x :
    read_type_ok pe to_dir h t = true -> func_ok mh h = true -> has_ty e x t -> S (vsize x) < B ->
    apply_strategy e zf U call wpkg to_dir (mapper_nil mh self) h x <> Stuck.
  Proof.
    intros R FO T Sz. destruct h as [| a b | f | sp dp sn dn | sp dp sn dn]; simpl; try discriminate.
    - destruct mh; [discriminate|]. simpl. discriminate.
    - simpl in R. apply andb_true_iff in R. destruct R as (R1 & R2). apply ty_eqb_eq in R1.
      destruct (find_plans pe sn) as [tp|] eqn:F; [|discriminate]. apply String.eqb_eq in R2.
      apply (sub_one_ns sn tp (if to_dir then sp else dp) (if to_dir then dp else sp) x F); auto.
      unfold arg_ty. rewrite R2. subst t. destruct to_dir; destruct sp, dp; exact T.
    - simpl in R. apply andb_true_iff in R. destruct R as (R1 & R2). apply ty_eqb_eq in R1.
      destruct (find_plans pe sn) as [tp|] eqn:F; [|discriminate]. apply String.eqb_eq in R2. subst dn.
      subst t. inversion T as [ | | | t0 | xs t0 FA | | | ]; [discriminate|]. subst.
      assert (M : map_out (each_one (call sn) (if to_dir then sp else dp) (if to_dir then dp else sp)
                             (zero_val e zf (TNamed wpkg (if to_dir then tp_dst tp else sn)))) xs <> Stuck).
      { apply map_out_ns. intros y Y. rewrite Forall_forall in FA. specialize (FA y Y).
        apply (each_one_ns sn tp _ _ _ y F).
        - unfold arg_ty. destruct to_dir; destruct sp, dp; exact FA.
        - pose proof (vsize_in _ _ Y). lia. }
      destruct (map_out _ xs); simpl; congruence.
  Qed.

  Variables rfs wfs : list sfield.
  Hypothesis Nr : nodup_strs (map sf_name rfs) = true.
  Hypothesis Nw : nodup_strs (map sf_name wfs) = true.
  Notation rls := (rleaves e zf rfs).
  Notation wls := (rleaves e zf wfs).
  Notation whops := (rhops e zf wfs).

  Lemma eval_guard_ns rk l : shaped e zf rfs rk -> In l rls ->
    forall g, (forall h, In h g -> In h (rl_hops l)) -> eval_guard (VStruct rk) g <> Stuck.
  Proof.
    intros S I. induction g as [|p g IH]; intros H; simpl; [discriminate|].
    assert (G : get_path (VStruct rk) p <> Stuck).
    { destruct (hops_prefix _ _ _ _ _ I (H p (or_introl eq_refl))) as (r & E & _).
      apply (get_leaf_ns e Eok zf rfs rk l S Nr I p r E). }
    destruct (get_path (VStruct rk) p) as [x| |]; simpl; try congruence.
    destruct x; try (apply IH; intros h Hh; apply H; right; auto). discriminate.
  Qed.

  Lemma stmts_ns wpkg mh racc wacc rk :
    typed_fields e rk rfs -> S (vsize (VStruct rk)) <= B ->
    forall ss wk A,
      shaped e zf wfs wk ->
      forallb (stmt_ok pe to_dir mh rls wls whops A) ss = true ->
      eval_stmts e zf U call wpkg to_dir mh racc wacc (VStruct rk) (VStruct wk) ss <> Stuck.
  Proof.
    intros T Sz. pose proof (typed_shaped e zf rfs rk T) as Sr.
    induction ss as [|s ss IH]; intros wk A Sw SS; simpl; [discriminate|].
    simpl in SS. apply andb_true_iff in SS. destruct SS as (S1 & S2).
    unfold stmt_ok in S1.
    apply andb_true_iff in S1. destruct S1 as (S1 & S3).
    apply andb_true_iff in S1. destruct S1 as (S1 & FO).
    apply andb_true_iff in S1. destruct S1 as (Ra & Wa).
    apply negb_true_iff in Ra. apply negb_true_iff in Wa.
    destruct (find_leaf rls (r_path (st_src s))) as [rl|] eqn:Fr; [|discriminate].
    destruct (find_leaf wls (r_path (st_dst s))) as [wl|] eqn:Fw; [|discriminate].
    destruct (find_leaf_in _ _ _ Fr) as (Irl & Prl). destruct (find_leaf_in _ _ _ Fw) as (Iwl & Pwl).
    repeat (apply andb_true_iff in S3; destruct S3 as (S3 & ?)).
    rename H into Hh, H0 into Hrt, H1 into Hlp, H2 into Hal, H3 into Hch.
    apply list_eqb_path in S3.
    assert (GN : eval_guard (VStruct rk) (st_guard s) <> Stuck).
    { apply (eval_guard_ns rk rl Sr Irl). intros h Ih. rewrite S3 in Ih. exact Ih. }
    destruct (guard_ok e zf Eok rfs rk rl T Nr Irl (st_guard s) []) as (G1 & G2).
    { intros h Ih. rewrite S3 in Ih. exact Ih. } { intros q []. } { rewrite S3. exact Hch. }
    destruct (eval_guard (VStruct rk) (st_guard s)) as [g| |] eqn:EG; simpl; try congruence.
    destruct g; [|apply (IH wk A); auto].
    unfold read_ref. rewrite Ra.
    destruct (leaf_read e Eok zf rfs rk rl T Nr Irl) as (x & Gx & Tx).
    { intros h Ih. apply (G2 eq_refl). left. rewrite S3. exact Ih. }
    rewrite <- Prl, Gx. simpl.
    assert (SX : S (vsize x) < B).
    { pose proof (leaf_path_nonempty e zf rfs rl Irl) as NE.
      destruct (rl_path rl) as [|n0 r0]; [congruence|].
      pose proof (vsize_get_struct _ _ _ _ Gx). lia. }
    pose proof (apply_strategy_ns wpkg mh (if to_dir then VStruct rk else VStruct wk) (st_how s) (rl_ty rl) x Hrt FO Tx SX) as AS.
    destruct (apply_strategy e zf U call wpkg to_dir (mapper_nil mh (if to_dir then VStruct rk else VStruct wk)) (st_how s) x)
      as [o| |]; simpl; try congruence.
    destruct o as [y|]; [|apply (IH wk A); auto].
    unfold write_ref. rewrite Wa. rewrite <- Pwl.
    destruct (set_leaf_ns e Eok zf wfs wk wl y Sw Nw Iwl) as (WN & WS).
    destruct (set_path (VStruct wk) (rl_path wl) y) as [w'| |] eqn:SW; simpl; try congruence.
    destruct (WS w' eq_refl) as (k' & -> & Sk'). apply (IH k' A); auto.
  Qed.
  End Dir.
End NoStuck.

Section Main.
  Variable e : env.
  Variable zf : nat.
  Variable U : usem.
  Variable pe : penv.
  Hypothesis SAFE : plans_safe e zf pe = true.

  Lemma Eok : env_ok e = true.
  Proof. unfold plans_safe in SAFE. apply andb_true_iff in SAFE. tauto. Qed.

  Lemma alloc_ok_in whops : forall al done p t, alloc_ok whops done al = true -> In (p, t) al -> In (p, t) whops.
  Proof.
    induction al as [|[q u] al IH]; intros done p t H I; [contradiction|]. simpl in H.
    apply andb_true_iff in H. destruct H as (H & H3). apply andb_true_iff in H. destruct H as (H1 & _).
    destruct I as [E|I]; [|eapply IH; eauto]. inversion E; subst.
    apply existsb_exists in H1. destruct H1 as ((p0, t0) & I0 & E0). simpl in E0.
    apply andb_true_iff in E0. destruct E0 as (E1 & E2). apply path_eqb_eq in E1. apply ty_eqb_eq in E2. subst. auto.
  Qed.

  Lemma eval_alloc_ns wfs : nodup_strs (map sf_name wfs) = true ->
    forall al kvs, shaped e zf wfs kvs ->
      (forall p t, In (p, t) al -> In (p, t) (rhops e zf wfs) /\ zero_wf e zf t = true) ->
      eval_alloc e zf (VStruct kvs) al <> Stuck
      /\ forall w1, eval_alloc e zf (VStruct kvs) al = Ok w1 -> exists k1, w1 = VStruct k1 /\ shaped e zf wfs k1.
  Proof.
    intros Nw. induction al as [|[p t] al IH]; intros kvs S H; simpl.
    - split; [discriminate|]. intros w1 E. inversion E; subst. eauto.
    - destruct (H p t (or_introl eq_refl)) as (Ih & Z).
      pose proof (get_hop_ns e Eok zf wfs kvs p t S Nw Ih) as G.
      assert (H' : forall p0 t0, In (p0, t0) al -> In (p0, t0) (rhops e zf wfs) /\ zero_wf e zf t0 = true)
        by (intros; apply H; right; auto).
      destruct (get_path (VStruct kvs) p) as [x| |]; simpl; try congruence; [|split; discriminate].
      destruct (set_hop_ns e Eok zf wfs kvs p t (zero_val e zf t) S Nw Ih (zero_typed e zf t Z)) as (A & Bs).
      destruct x; try (apply IH; auto).
      destruct (set_path (VStruct kvs) p (VPtr (zero_val e zf t))) as [d'| |]; simpl; try congruence; [|split; discriminate].
      destruct (Bs d' eq_refl) as (k' & -> & Sk'). apply IH; auto.
  Qed.

  Lemma body_ns to_dir call wpkg mh racc wacc rp rn wp wn rfs wfs pl s manual :
    call_ok e pe to_dir call ->
    (forall sn tp y, find_plans pe sn = Some tp -> has_ty e y (TPtr (arg_ty to_dir sn tp)) ->
                     vsize y < S (vsize s) -> call sn y <> Stuck) ->
    lookup_decl e rp rn = Some (DStruct rfs) -> lookup_decl e wp wn = Some (DStruct wfs) ->
    zero_wf e zf (TNamed wp wn) = true ->
    plan_safe e zf pe to_dir mh rfs wfs pl = true ->
    has_ty e s (TNamed rp rn) ->
    bind (match pl_ctor pl with
          | Some args => Stuck
          | None => eval_alloc e zf (zero_val e zf (TNamed wp wn)) (pl_alloc pl)
          end)
         (fun d1 => bind (eval_stmts e zf U call wpkg to_dir mh racc wacc s d1 (pl_stmts pl))
                         (fun d2 => Ok (VPtr (manual d2)))) <> Stuck.
  Proof.
    intros C CN Lr Lw ZW PS Ts. pose proof Eok as Eo.
    unfold plan_safe in PS. destruct (pl_ctor pl); [discriminate|].
    apply andb_true_iff in PS. destruct PS as (PS & P3). apply andb_true_iff in PS. destruct PS as (PS & P2).
    apply andb_true_iff in PS. destruct PS as (_ & P1).
    destruct (has_ty_struct _ _ _ _ _ Ts Lr) as (rk & -> & Tr).
    destruct (has_ty_struct _ _ _ _ _ (zero_typed e zf _ ZW) Lw) as (dk & Ez & Td). rewrite Ez.
    pose proof (env_ok_lookup _ _ _ _ Eo Lr) as Nr. pose proof (env_ok_lookup _ _ _ _ Eo Lw) as Nw.
    destruct (eval_alloc_ns wfs Nw (pl_alloc pl) dk (typed_shaped e zf wfs dk Td)) as (A1 & A2).
    { intros p t I. split; [eapply alloc_ok_in; eauto|]. rewrite forallb_forall in P2. apply (P2 (p, t) I). }
    destruct (eval_alloc e zf (VStruct dk) (pl_alloc pl)) as [d1| |] eqn:EA; simpl; try congruence.
    destruct (A2 d1 eq_refl) as (k1 & -> & S1).
    assert (SO : eval_stmts e zf U call wpkg to_dir mh racc wacc (VStruct rk) (VStruct k1) (pl_stmts pl) <> Stuck).
    { apply (stmts_ns e zf U pe Eo to_dir (S (vsize (VStruct rk))) call C CN rfs wfs Nr Nw wpkg mh racc wacc rk Tr (le_n _)
               (pl_stmts pl) k1 (map fst (pl_alloc pl)) S1 P3). }
    destruct (eval_stmts e zf U call wpkg to_dir mh racc wacc (VStruct rk) (VStruct k1) (pl_stmts pl)); simpl; congruence.
  Qed.

  Lemma eval_to_ptr fuel tn s v : eval_to e zf U pe fuel tn (VPtr s) = Ok v -> exists d, v = VPtr d.
  Proof.
    intros H. destruct fuel; simpl in H; [discriminate|].
    destruct (find_plans pe tn); [|discriminate].
    match type of H with bind ?X _ = _ => destruct X; simpl in H; try discriminate end.
    match type of H with bind ?X _ = _ => destruct X; simpl in H; try discriminate end.
    inversion H. eauto.
  Qed.

  Lemma eval_from_ptr fuel tn recv s v : eval_from e zf U pe fuel tn recv (VPtr s) = Ok v -> exists d, v = VPtr d.
  Proof.
    intros H. destruct fuel; simpl in H; [discriminate|].
    destruct (find_plans pe tn); [|discriminate].
    match type of H with bind ?X _ = _ => destruct X; simpl in H; try discriminate end.
    match type of H with bind ?X _ = _ => destruct X; simpl in H; try discriminate end.
    inversion H. eauto.
  Qed.

  (* ToX is not stuck once the fuel covers the size of the receiver *)
  Theorem eval_to_ns : forall fuel tn tp recv,
    find_plans pe tn = Some tp -> has_ty e recv (TPtr (TNamed PSrc tn)) -> vsize recv <= fuel ->
    eval_to e zf U pe fuel tn recv <> Stuck.
  Proof.
    induction fuel as [|fuel IH]; intros tn tp recv F T Sz.
    { pose proof (vsize_pos recv). lia. }
    simpl. rewrite F. destruct (find_plans_in _ _ _ F) as (Itp & Etn).
    destruct (safe_plan e zf pe SAFE tp Itp) as (P1 & _ & (rfs & Lr) & (wfs & Lw) & _ & ZW).
    destruct (has_ty_ptr _ _ _ T) as [->|(s & -> & Ts)]; [discriminate|].
    unfold decl_fields in P1. rewrite Lr, Lw in P1. rewrite <- Etn in Ts.
    assert (PC : pl_ctor (tp_to tp) = None).
    { unfold plan_safe in P1. destruct (pl_ctor (tp_to tp)); [discriminate|reflexivity]. }
    rewrite PC.
    pose proof (body_ns true (eval_to e zf U pe fuel) PDst (tp_mapper_hop tp) (tp_src_acc tp) (tp_dst_acc tp)
                  PSrc (tp_src tp) PDst (tp_dst tp) rfs wfs (tp_to tp) s
                  (fun d2 => if pl_manual (tp_to tp) then u_manual_to U tn s d2 else d2)) as BN.
    rewrite PC in BN. apply BN; auto.
    - intros sn tp' y F' Ty. split.
      + apply (eval_to_no_panic e zf U pe SAFE). exact Ty.
      + intros s' v -> H. eapply eval_to_ptr; eauto.
    - intros sn tp' y F' Ty Sy. apply (IH sn tp' y F' Ty). simpl in Sz. lia.
  Qed.

  Theorem eval_from_ns : forall fuel tn tp recv arg,
    find_plans pe tn = Some tp -> has_ty e arg (TPtr (TNamed PDst (tp_dst tp))) -> vsize arg <= fuel ->
    eval_from e zf U pe fuel tn recv arg <> Stuck.
  Proof.
    induction fuel as [|fuel IH]; intros tn tp recv arg F T Sz.
    { pose proof (vsize_pos arg). lia. }
    simpl. rewrite F. destruct (find_plans_in _ _ _ F) as (Itp & Etn).
    destruct (safe_plan e zf pe SAFE tp Itp) as (_ & P2 & (rfs & Lr) & (wfs & Lw) & ZW & _).
    destruct (has_ty_ptr _ _ _ T) as [->|(d & -> & Td)]; [discriminate|].
    unfold decl_fields in P2. rewrite Lr, Lw in P2.
    assert (PC : pl_ctor (tp_from tp) = None).
    { unfold plan_safe in P2. destruct (pl_ctor (tp_from tp)); [discriminate|reflexivity]. }
    assert (PR : pl_reset (tp_from tp) = true).
    { unfold plan_safe in P2. rewrite PC in P2.
      repeat (apply andb_true_iff in P2; destruct P2 as (P2 & _)). exact P2. }
    assert (Z : match recv with
                | VPtr c => if pl_reset (tp_from tp) then zero_val e zf (TNamed PSrc (tp_src tp)) else c
                | _ => zero_val e zf (TNamed PSrc (tp_src tp)) end
                = zero_val e zf (TNamed PSrc (tp_src tp))) by (rewrite PR; destruct recv; reflexivity).
    rewrite Z, PC.
    pose proof (body_ns false (fun n y => eval_from e zf U pe fuel n VNil y) PSrc (tp_mapper_hop tp) (tp_dst_acc tp) (tp_src_acc tp)
                  PDst (tp_dst tp) PSrc (tp_src tp) wfs rfs (tp_from tp) d
                  (fun s2 => if pl_manual (tp_from tp) then u_manual_from U tn d s2 else s2)) as BN.
    rewrite PC in BN. apply BN; auto.
    - intros sn tp' y F' Ty. split.
      + eapply (eval_from_no_panic e zf U pe SAFE); eauto.
      + intros s' v -> H. eapply eval_from_ptr; eauto.
    - intros sn tp' y F' Ty Sy. apply (IH sn tp' VNil y F' Ty). simpl in Sz. lia.
  Qed.

  (* C09: a safe plan on a well-typed input RUNS TO COMPLETION *)
  Theorem eval_to_completes fuel tn tp recv :
    find_plans pe tn = Some tp -> has_ty e recv (TPtr (TNamed PSrc tn)) -> vsize recv <= fuel ->
    exists v, eval_to e zf U pe fuel tn recv = Ok v.
  Proof.
    intros F T Sz. pose proof (eval_to_no_panic e zf U pe SAFE fuel tn recv T) as NP.
    pose proof (eval_to_ns fuel tn tp recv F T Sz) as NS.
    destruct (eval_to e zf U pe fuel tn recv); eauto; congruence.
  Qed.

  Theorem eval_from_completes fuel tn tp recv arg :
    find_plans pe tn = Some tp -> has_ty e arg (TPtr (TNamed PDst (tp_dst tp))) -> vsize arg <= fuel ->
    exists v, eval_from e zf U pe fuel tn recv arg = Ok v.
  Proof.
    intros F T Sz. pose proof (eval_from_no_panic e zf U pe SAFE fuel tn tp recv arg F T) as NP.
    pose proof (eval_from_ns fuel tn tp recv arg F T Sz) as NS.
    destruct (eval_from e zf U pe fuel tn recv arg); eauto; congruence.
  Qed.
End Main.
