(* Correspondence for C02 (shoot new: NewT wiring).  One case = one struct type
   of a generated package: the spec, and what the implementation did (shoot's
   exit class, NewT's signature read by go/types, the values the in-package
   oracle read after calling NewT with sentinel arguments, go/types' own
   selector resolution).

   [model_obs] runs the model pipeline (flatten, make_new, eval_new);
   [Pb] is the property itself, evaluated on the implementation's observation
   from the declarative vocabulary of Model/CtorSpec.v ([resolve], [leaf_paths],
   the directives) WITHOUT using flatten/make_new/eval_new. *)
From Coq Require Import String Ascii List Bool Arith NArith ZArith.
From Shoot Require Import Base.Str Base.GoVal Model.Transfer Model.CtorDirective Model.Ctor Model.CtorSpec.
Import ListNotations.
Local Open Scope string_scope.

Record obs := {
  o_status : N;                         (* 0 generated, type-checks, NewT returned; 1 shoot exit status 1; 2 timeout;
                                           3 the generated file of this type does not type-check; 4 NewT panicked;
                                           5 not observable: the generated file of a SIBLING type does not type-check;
                                           6 the package type-checks but NewT / its oracle case is missing *)
  o_tparams : list (string * string);   (* NewT's type parameters (name, constraint) *)
  o_params : list (ident * string);     (* NewT's parameters (name, type) *)
  o_result : string;                    (* NewT's result type *)
  o_args : list string;                 (* token of the sentinel passed for each parameter *)
  o_reads : list (path * string);       (* token read at every leaf occurrence, by its full path *)
  o_ptrs : list (path * string);        (* every embedded pointer occurrence: "zero" (nil), "nilhop", or anything else (allocated) *)
  o_sel : list (ident * option path);   (* go/types' resolution of the selector T.name *)
  o_selreads : list (ident * string);   (* token of the executed selector expression v.name *)
  o_defs : list (ident * string)        (* token of each default text, evaluated by Go at the field's type *)
}.

Record case := { c_pkg : pkg_spec; c_flags : ctor_flags; c_name : ident; c_fuel : nat; c_obs : obs }.

Fixpoint passoc {A} (p : path) (l : list (path * A)) : option A :=
  match l with
  | [] => None
  | (q, a) :: r => if path_eqb p q then Some a else passoc p r
  end.

Definition str_pair_eqb (a b : string * string) : bool := String.eqb (fst a) (fst b) && String.eqb (snd a) (snd b).
Fixpoint list_eqb {A} (e : A -> A -> bool) (x y : list A) : bool :=
  match x, y with
  | [], [] => true
  | a :: x', b :: y' => e a b && list_eqb e x' y'
  | _, _ => false
  end.

Definition opt_path_eqb (a b : option path) : bool :=
  match a, b with Some p, Some q => path_eqb p q | None, None => true | _, _ => false end.

(* tokens *)
Definition tok_zero := "zero".
Definition tok_of (o : obs) (p : path) (r : res val) : string :=
  match r with
  | Ok (VSent i) => nth i (o_args o) "<no-such-argument>"
  | Ok VZero => tok_zero
  | Ok (VDef _) => match p with
                   | [n] => match assoc n (o_defs o) with Some t => t | None => "<no-default-probe>" end
                   | _ => "<default-below-top-level>" end
  | Ok VNil => tok_zero
  | Ok (VPtr _) => "alloc"
  | Ok _ => "<composite>"
  | Panic => "nilhop"
  | Stuck => "<stuck>"
  end.

Definition norm_ptr_tok (t : string) : string :=
  if String.eqb t "zero" then "zero" else if String.eqb t "nilhop" then "nilhop" else "alloc".

(* ---------------------------------------------------------------- the model *)
Definition sent_vals (n : nat) : list val := map VSent (seq 0 n).

Record mobs := {
  m_status : N;
  m_tparams : list (string * string);
  m_params : list (ident * string);
  m_result : string;
  m_reads : list (path * string);
  m_ptrs : list (path * string)
}.

Definition ptr_occs (pkg : pkg_spec) (fuel : nat) (sd : sdecl) : list path :=
  map fst (filter (fun o => occ_is_node pkg o && is_ptr_ty (occ_ty o)) (all_occ pkg fuel (self_inst sd))).

Definition model_obs (c : case) (sd : sdecl) : mobs :=
  let pkg := c_pkg c in let fuel := c_fuel c in
  match new_of pkg (c_flags c) fuel sd with
  | CFatal _ => {| m_status := 1; m_tparams := []; m_params := []; m_result := ""; m_reads := []; m_ptrs := [] |}
  | COutOfFuel => {| m_status := 2; m_tparams := []; m_params := []; m_result := ""; m_reads := []; m_ptrs := [] |}
  | COk nd =>
      let args := bind_args (nd_params nd) (sent_vals (length (nd_params nd))) in
      let v := eval_new pkg fuel sd (nd_body nd) args in
      let rd := fun p => tok_of (c_obs c) p (bind v (fun x => lookup x p)) in
      {| m_status := 0;
         m_tparams := tparams_flat (nd_tparams nd);
         m_params := nd_params nd;
         m_result := new_result_type sd;
         m_reads := map (fun p => (p, rd p)) (leaf_paths pkg fuel (self_inst sd) []);
         m_ptrs := map (fun p => (p, rd p)) (ptr_occs pkg fuel sd) |}
  end.

Definition reads_eqb (m : list (path * string)) (o : list (path * string)) (norm : string -> string) : bool :=
  Nat.eqb (length m) (length o) &&
  forallb (fun pr => match passoc (fst pr) o with
                     | Some t => String.eqb (norm t) (snd pr)
                     | None => false end) m.

Definition agree (c : case) (sd : sdecl) : bool :=
  let m := model_obs c sd in let o := c_obs c in
  N.eqb (m_status m) (o_status o) &&
  (negb (N.eqb (o_status o) 0) ||
   (list_eqb str_pair_eqb (m_tparams m) (o_tparams o) &&
    list_eqb str_pair_eqb (m_params m) (o_params o) &&
    String.eqb (m_result m) (o_result o) &&
    reads_eqb (m_reads m) (o_reads o) (fun t => t) &&
    reads_eqb (m_ptrs m) (o_ptrs o) norm_ptr_tok)).

(* ------------------------------------------------- the property, on the observation *)
Definition struct_tparams (sd : sdecl) : list (string * string) :=
  flat_map (fun g => map (fun n => (n, match tp_con g with CIdent c => c | COther c => c end)) (tp_names g))
           (sd_tparams sd).

(* the leaf a parameter is named after: a leaf Go selects by its bare name whose camel-cased name is p *)
Definition param_leaf (pkg : pkg_spec) (fuel : nat) (sd : sdecl) (p : ident) : option path :=
  find (fun q => String.eqb (to_camel_case (last q "")) p) (selectable_leaves pkg fuel sd).

Fixpoint index_of (p : path) (l : list path) (i : nat) : option nat :=
  match l with
  | [] => None
  | q :: r => if path_eqb p q then Some i else index_of p r (S i)
  end.

Fixpoint increasing (l : list (option nat)) (lo : option nat) : bool :=
  match l with
  | [] => true
  | None :: _ => false
  | Some i :: r => (match lo with Some j => Nat.ltb j i | None => true end) && increasing r (Some i)
  end.

Definition leaf_type (pkg : pkg_spec) (fuel : nat) (sd : sdecl) (p : path) : option ty :=
  option_map occ_ty (find_occ p (all_occ pkg fuel (self_inst sd))).

Definition Pb (c : case) (sd : sdecl) : bool :=
  let pkg := c_pkg c in let fuel := c_fuel c in let o := c_obs c in
  N.eqb (o_status o) 0 &&
  (* generics: the same type parameters and constraints *)
  list_eqb str_pair_eqb (o_tparams o) (struct_tparams sd) &&
  (* ... and NewT returns *T instantiated with exactly these parameters, in order *)
  String.eqb (o_result o)
    ("*" ++ sd_name sd ++ match struct_tparams sd with
                          | [] => ""
                          | tps => "[" ++ String.concat ", " (map fst tps) ++ "]" end) &&
  Nat.eqb (length (o_args o)) (length (o_params o)) &&
  let leaves := leaf_paths pkg fuel (self_inst sd) [] in
  let ppaths := map (fun pr => param_leaf pkg fuel sd (fst pr)) (o_params o) in
  (* every parameter: named after a selectable leaf, of that leaf's type, stored exactly there,
     marked new if any field is, not an excluded field *)
  forallb (fun ipr =>
     let '(i, (p, t)) := ipr in
     match param_leaf pkg fuel sd p with
     | None => false
     | Some q =>
         (match leaf_type pkg fuel sd q with Some ft => String.eqb t (type_string ft) | None => false end) &&
         (match passoc q (o_reads o) with Some tk => String.eqb tk (nth i (o_args o) "<none>") | None => false end) &&
         (negb (has_new_spec sd) || marked_new sd q) &&
         negb (excluded_top sd q)
     end) (combine (seq 0 (length (o_params o))) (o_params o)) &&
  (* completeness ("restricted to the marked fields WHEN any is marked", i.e. all eligible
     fields otherwise): every selectable leaf that is not excluded, and is marked new if any
     field is, is the field of some parameter (proved for the model as C02_parameter_list) *)
  forallb (fun q =>
     excluded_top sd q || (has_new_spec sd && negb (marked_new sd q)) ||
     existsb (fun oq => match oq with Some q' => path_eqb q q' | None => false end) ppaths)
    (selectable_leaves pkg fuel sd) &&
  (* declaration order, depth first *)
  increasing (map (fun oq => match oq with Some q => index_of q leaves 0 | None => None end) ppaths) None &&
  (* every other leaf: its default if it carries one, else zero *)
  Nat.eqb (length (o_reads o)) (length leaves) &&
  forallb (fun q =>
     if existsb (fun oq => match oq with Some q' => path_eqb q q' | None => false end) ppaths then true
     else match passoc q (o_reads o) with
          | None => false
          | Some tk =>
              let d := def_text sd q in
              if String.eqb d "" then String.eqb tk tok_zero
              else match q with
                   | [n] => match assoc n (o_defs o) with Some dt => String.eqb tk dt | None => false end
                   | _ => false end
          end) leaves &&
  (* pointer embeds are allocated *)
  Nat.eqb (length (o_ptrs o)) (length (ptr_occs pkg fuel sd)) &&
  forallb (fun q => match passoc q (o_ptrs o) with
                    | Some tk => String.eqb (norm_ptr_tok tk) "alloc" | None => false end) (ptr_occs pkg fuel sd) &&
  (* Go's own selector resolution is [resolve], and the executed selector reads the resolved field *)
  forallb (fun nr => opt_path_eqb (resolve pkg fuel sd (fst nr)) (snd nr)) (o_sel o) &&
  forallb (fun nt => match resolve pkg fuel sd (fst nt) with
                     | Some q => match passoc q (o_reads o) with
                                 | Some tk => String.eqb tk (snd nt)
                                 | None => false end
                     | None => false end) (o_selreads o).

(* verdict: 0 agree (and the property holds); 1 model and implementation differ but
   the property holds on the observation (or the case is outside the guard);
   2 inside the guard and the property fails on the implementation's observation;
   3 outside the guard (an open finding's input class), model and implementation agree;
   4 the case names a struct that is not in its package (harness error) *)
Definition verdict (c : case) : N :=
  match find_struct (c_pkg c) "" (c_name c) with
  | None => 4%N
  | Some sd =>
      if c02_guard (c_pkg c) (c_fuel c) sd then
        if N.eqb (o_status (c_obs c)) 5 then 5%N
        else if Pb c sd then (if agree c sd then 0%N else 1%N) else 2%N
      else if N.eqb (o_status (c_obs c)) 3 || N.eqb (o_status (c_obs c)) 5 || agree c sd then 3%N else 1%N
  end.

Fixpoint mismatches_from (i : N) (cs : list case) : list (N * N) :=
  match cs with
  | [] => []
  | c :: cs' =>
      let v := verdict c in
      if N.eqb v 0 then mismatches_from (N.succ i) cs'
      else (i, v) :: mismatches_from (N.succ i) cs'
  end.
Definition mismatches := mismatches_from 0%N.
