(* Correspondence for C08 and C07.  The harness (harness/c08.py, c07.py) renders a package of the grammar of
   Model/Gen.v, runs the freshly built shoot binary on it in several ways and records, per invocation, the exit
   class and, per file written, what cmd/astsig printed (declaration names, hash of the printed declaration,
   doc comment hash, import set, free-floating comments) plus a hash of the bytes.  Here the model is run on
   the same package and commands, and
     - the model's prediction is compared with the observation (names, doc presence, imports, strays,
       and: two declarations have equal text in the implementation iff they have equal tokens in the model),
     - the property itself is evaluated on the observation alone (Pb). *)
From Coq Require Import List String Ascii Bool Arith NArith ZArith.
From Shoot Require Import Model.Gen.
Import ListNotations.
Local Open Scope string_scope.

(* a package as the harness gives it: the files generated beforehand by `shoot new` (inputs of map) are named by
   the command that produced them; the model computes them *)
Record pkg0 := {
  q_hw : list hfile;
  q_auxcmd : option cmd;
  q_destname : string;
  q_dest : list hfile;
  q_destauxcmd : option cmd
}.

Definition aux_of (hw : list hfile) (oc : option cmd) : gfiles :=
  match oc with
  | None => []
  | Some c =>
      match run_generate id_oracle {| p_hw := hw; p_aux := []; p_destname := ""; p_dest := []; p_destaux := [] |} [] c with
      | Some fs => fs
      | None => []
      end
  end.
Definition pkg_of (q : pkg0) : pkg :=
  {| p_hw := q_hw q; p_aux := aux_of (q_hw q) (q_auxcmd q); p_destname := q_destname q;
     p_dest := q_dest q; p_destaux := aux_of (q_dest q) (q_destauxcmd q) |}.

(* ---------------------------------------------------------------- observations *)
Record odecl := { od_name : string; od_text : N; od_doc : N }.        (* od_doc = 0: no doc comment *)
Record ofile := {
  of_name : string;
  of_cmd : string;                 (* the command line quoted in the header *)
  of_imports : list string;        (* sorted *)
  of_decls : list odecl;
  of_floating : list string;       (* name of the declaration each free-floating comment precedes *)
  of_body : N                      (* hash of the bytes after the header line *)
}.
Inductive orun := OFail | OFiles (fs : list ofile).    (* exit status <> 0 | files written, sorted by name *)

Definition str_list_eqb (a b : list string) : bool :=
  Nat.eqb (List.length a) (List.length b) && forallb (fun p => fst p =? snd p) (combine a b).
Definition odecl_eqb (a b : odecl) : bool :=
  (od_name a =? od_name b) && N.eqb (od_text a) (od_text b) && N.eqb (od_doc a) (od_doc b).
Definition odecls_eqb (a b : list odecl) : bool :=
  Nat.eqb (List.length a) (List.length b) && forallb (fun p => odecl_eqb (fst p) (snd p)) (combine a b).
Definition set_eqb (a b : list string) : bool := str_list_eqb (sort_strings (dedup a)) (sort_strings (dedup b)).

(* ---------------------------------------------------------------- model side *)
Definition fix_import (destpath : string) (i : string) : string := if i =? "@dest" then destpath else i.

(* model prediction vs observation of one invocation: same outcome class, same files, per file the same
   declaration names in order, doc comments on the same declarations, same import set, same strays, same header *)
Definition file_agrees (destpath : string) (m : string * afile) (f : ofile) : bool :=
  (fst m =? of_name f) &&
  (a_cmd (snd m) =? of_cmd f) &&
  str_list_eqb (map d_name (a_decls (snd m))) (map od_name (of_decls f)) &&
  forallb (fun p => Bool.eqb (d_doc (fst p)) (negb (N.eqb (od_doc (snd p)) 0))) (combine (a_decls (snd m)) (of_decls f)) &&
  set_eqb (map (fix_import destpath) (a_imports (snd m))) (of_imports f) &&
  str_list_eqb (a_stray (snd m)) (of_floating f).

Definition run_agrees (destpath : string) (m : option gfiles) (ob : orun) : bool :=
  match m, ob with
  | None, OFail => true
  | Some fs, OFiles os =>
      let fs := listing fs in
      Nat.eqb (List.length fs) (List.length os) && forallb (fun p => file_agrees destpath (fst p) (snd p)) (combine fs os)
  | _, _ => false
  end.

(* all (name, tokens, text hash) triples of an invocation *)
Definition triples (m : option gfiles) (ob : orun) : list (string * list string * N) :=
  match m, ob with
  | Some fs, OFiles os =>
      flat_map (fun p => map (fun q => (d_name (fst q), d_toks (fst q), od_text (snd q)))
                             (combine (a_decls (snd (fst p))) (of_decls (snd p))))
               (combine (listing fs) os)
  | _, _ => []
  end.
(* equal text in the implementation iff equal tokens in the model, over all declarations of the same name *)
Fixpoint pattern_ok (l : list (string * list string * N)) : bool :=
  match l with
  | [] => true
  | (n, t, h) :: r =>
      forallb (fun x => match x with
                        | (n', t', h') => negb (n =? n') || Bool.eqb (str_list_eqb t t') (N.eqb h h')
                        end) r && pattern_ok r
  end.

(* ---------------------------------------------------------------- C08 *)
Record c08case := {
  k_pkg : pkg0;
  k_destpath : string;                       (* import path of the destination package (map) *)
  k_aio : cmd; k_aio_obs : orun;             (* all-in-one: -file=f / -type=* *)
  k_sep : cmd; k_sep_obs : orun;             (* the same selection with -sep *)
  k_singles : list (cmd * orun);             (* -type=T one at a time, in the same order, in ONE copy (cumulative) *)
  k_fresh : list (cmd * orun);               (* -type=T alone, each in a fresh copy *)
  k_perms : list (cmd * orun)                (* -type=<list>, -type=<permuted list>..., each in a fresh copy *)
}.

(* the cumulative one-at-a-time sequence in the model: every invocation sees what the earlier ones wrote *)
Fixpoint run_seq (p : pkg) (prior : gfiles) (cs : list cmd) : list (option gfiles) * gfiles :=
  match cs with
  | [] => ([], prior)
  | c :: r =>
      match run id_oracle p prior c with
      | OFatal => let '(l, d) := run_seq p prior r in (None :: l, d)
      | ODone _ dir => let '(l, d) := run_seq p dir r in (run_generate id_oracle p prior c :: l, d)
      end
  end.

Definition model_c08 (k : c08case) :=
  let p := pkg_of (k_pkg k) in
  (run_generate id_oracle p [] (k_aio k),
   run_generate id_oracle p [] (k_sep k),
   fst (run_seq p [] (map fst (k_singles k))),
   map (fun c => run_generate id_oracle p [] (fst c)) (k_fresh k),
   map (fun c => run_generate id_oracle p [] (fst c)) (k_perms k)).

Definition corr_c08 (k : c08case) : bool :=
  let '(ma, ms, mseq, mfresh, mperm) := model_c08 k in
  let dp := k_destpath k in
  run_agrees dp ma (k_aio_obs k) && run_agrees dp ms (k_sep_obs k) &&
  Nat.eqb (List.length mseq) (List.length (k_singles k)) &&
  forallb (fun p => run_agrees dp (fst p) (snd (snd p))) (combine mseq (k_singles k)) &&
  forallb (fun p => run_agrees dp (fst p) (snd (snd p))) (combine mfresh (k_fresh k)) &&
  forallb (fun p => run_agrees dp (fst p) (snd (snd p))) (combine mperm (k_perms k)) &&
  pattern_ok (triples ma (k_aio_obs k) ++ triples ms (k_sep_obs k) ++
              flat_map (fun p => triples (fst p) (snd (snd p))) (combine mseq (k_singles k)) ++
              flat_map (fun p => triples (fst p) (snd (snd p))) (combine mfresh (k_fresh k)) ++
              flat_map (fun p => triples (fst p) (snd (snd p))) (combine mperm (k_perms k))).

(* ---- the property on the observation alone ---- *)
Definition files_of (o : orun) : list ofile := match o with OFiles fs => fs | OFail => [] end.
Definition failed (o : orun) : bool := match o with OFail => true | _ => false end.

(* selected types, in processing order, with the structs they (transitively) embed *)
Definition struct_embeds (hw : list hfile) (T : string) : list string :=
  let v := pview_of (mk_view hw [] []) in
  let fix go (fuel : nat) (T : string) : list string :=
      match fuel with
      | O => []
      | S f => match find_struct v T with
               | Some (_, _, s) => flat_map (fun it => match it with IEmbed n _ _ => n :: go f n | IField _ => [] end) (ss_items s)
               | None => []
               end
      end in
  go (S (List.length (pv_hand v))) T.

(* input class of K_embed_order: `new` (the accessor interfaces of an embedded type are looked up in the package
   whether or not -getset is given), and some selected type embeds another selected struct *)
Definition embed_dep (hw : list hfile) (c : cmd) (sel : list string) : bool :=
  match c_sub c with
  | CNew => c_getset c && existsb (fun T => existsb (fun e => smem e sel) (struct_embeds hw T)) sel
  | _ => false
  end.

Fixpoint index_of (T : string) (l : list string) : nat :=
  match l with [] => 0 | x :: r => if x =? T then 0 else S (index_of T r) end.

(* the part of that class that matters along a same-command history: an embedded selected struct that is processed
   AFTER the struct embedding it (K_embed_order) ... *)
Definition embed_after (hw : list hfile) (c : cmd) (sel : list string) : bool :=
  match c_sub c with
  | CNew => c_getset c &&
            existsb (fun T => existsb (fun e => smem e sel && Nat.ltb (index_of T sel) (index_of e sel)) (struct_embeds hw T)) sel
  | _ => false
  end.

(* input class of K_merge_stray_comment: some source ends a declaration with a comment and continues with a
   declaration that has no doc comment (the rest template: ShootRest() { /*noop*/ } followed by func init()) *)
Definition stray_class (c : cmd) : bool := match c_sub c with CRest => true | _ => false end.

Definition concat_decls (os : list orun) : list odecl := flat_map (fun o => flat_map of_decls (files_of o)) os.
Definition union_imports (os : list orun) : list string := flat_map (fun o => flat_map of_imports (files_of o)) os.
Definition all_floating (os : list orun) : list string := flat_map (fun o => flat_map of_floating (files_of o)) os.

(* x.shootnew.t.go -> .shootnew.t.go: with -type=* the -sep files are named after the file holding the
   //go:generate line, the -type=T files after the file declaring T (naming is C16's subject) *)
Fixpoint from_shoot_l (s : list ascii) : list ascii :=
  match s with
  | [] => []
  | _ :: r => if prefix_l (chars ".shoot") s then s else from_shoot_l r
  end.
Fixpoint string_of_chars (l : list ascii) : string :=
  match l with [] => EmptyString | c :: r => String c (string_of_chars r) end.
Definition type_key (n : string) : string := string_of_chars (from_shoot_l (chars n)).
Definition lookup_file (n : string) (fs : list ofile) : option ofile := find (fun f => of_name f =? n) fs.
Definition lookup_key (n : string) (fs : list ofile) : option ofile := find (fun f => type_key (of_name f) =? type_key n) fs.
Definition same_content (a b : ofile) : bool :=
  odecls_eqb (of_decls a) (of_decls b) && str_list_eqb (of_imports a) (of_imports b) &&
  str_list_eqb (of_floating a) (of_floating b).

(* a selected struct that is processed BEFORE a selected struct embedding it: the one-at-a-time run in the same
   directory then sees its accessor interfaces, the run in a fresh copy does not (K_embed_order) *)
Definition embed_before (hw : list hfile) (c : cmd) (sel : list string) : bool :=
  match c_sub c with
  | CNew => c_getset c &&
            existsb (fun T => existsb (fun e => smem e sel && Nat.ltb (index_of e sel) (index_of T sel)) (struct_embeds hw T)) sel
  | _ => false
  end.

Definition count_eq (x : string) (l : list string) : nat := List.length (filter (String.eqb x) l).

Definition Pb_c08 (k : c08case) : bool :=
  let hw := q_hw (k_pkg k) in
  let singles := map snd (k_singles k) in
  let oks := filter (fun o => negb (failed o)) singles in
  let sel := flat_map (fun c => c_types (fst c)) (k_singles k) in
  (* (0) the all-in-one run is refused only if some one-at-a-time run is.  (The converse is allowed for a type that the
     all-in-one run skips silently -- an enum type without constants, a struct whose name starts with `_` -- and that
     an explicit -type=T refuses: such a type contributes nothing to (1), which is taken over the successful runs.) *)
  let p0 := implb (failed (k_aio_obs k)) (existsb failed singles) &&
            implb (failed (k_sep_obs k)) (existsb failed singles) in
  (* (1) the all-in-one file = the one-at-a-time outputs, in order, under one header *)
  let p1 :=
    failed (k_aio_obs k) ||
    match files_of (k_aio_obs k) with
    | [f] =>
        odecls_eqb (of_decls f) (concat_decls oks) &&
        set_eqb (of_imports f) (union_imports oks) &&
        (* free comments: those of the sources; for rest one more before every `func init()` (K_merge_stray_comment) *)
        (if stray_class (k_aio k)
         then str_list_eqb (filter (fun n => negb (n =? "init")) (of_floating f)) (all_floating oks) &&
              Nat.eqb (count_eq "init" (of_floating f)) (count_eq "init" (map od_name (concat_decls oks)))
         else str_list_eqb (of_floating f) (all_floating oks)) &&
        (of_cmd f =? c_line (k_aio k))
    | [] => match concat_decls oks with [] => true | _ => false end
    | _ => false
    end in
  (* (2) -sep writes exactly the one-at-a-time files *)
  let p2 :=
    failed (k_sep_obs k) ||
    (let sf := files_of (k_sep_obs k) in
     let one := flat_map files_of oks in
     Nat.eqb (List.length sf) (List.length one) &&
     forallb (fun f => match lookup_key (of_name f) sf with Some g => same_content f g | None => false end) one) in
  (* (3) what a type gets does not depend on earlier invocations having run (outside the K_embed_order class) *)
  let p3 :=
    embed_before hw (k_aio k) sel ||
    forallb (fun p => Bool.eqb (failed (snd (fst p))) (failed (snd (snd p))) &&
                      match files_of (snd (fst p)), files_of (snd (snd p)) with
                      | [f], [g] => (of_name f =? of_name g) && same_content f g && N.eqb (of_body f) (of_body g)
                      | [], [] => true
                      | _, _ => false
                      end) (combine (k_singles k) (k_fresh k)) in
  (* (4) permuting -type changes no file (the header quotes the command line: compared from the second line on) *)
  let p4 :=
    match k_perms k with
    | [] => true
    | (c0, o0) :: r =>
        embed_dep hw c0 (c_types c0) ||
        forallb (fun co =>
                   Bool.eqb (failed (snd co)) (failed o0) &&
                   Nat.eqb (List.length (files_of (snd co))) (List.length (files_of o0)) &&
                   forallb (fun f => match lookup_file (of_name f) (files_of (snd co)) with
                                     | Some g => same_content f g && N.eqb (of_body f) (of_body g) && (of_cmd g =? c_line (fst co))
                                     | None => false
                                     end) (files_of o0)) r
    end in
  p0 && p1 && p2 && p3 && p4.

(* how much of a case is exempt from (3) / (4) because of the open finding's class, for the evidence *)
Definition exempt_c08 (k : c08case) : N :=
  let hw := q_hw (k_pkg k) in
  let sel := flat_map (fun c => c_types (fst c)) (k_singles k) in
  ((if embed_before hw (k_aio k) sel then 1 else 0) +
   2 * (match k_perms k with (c0, _) :: _ => if embed_dep hw c0 (c_types c0) then 1 else 0 | [] => 0 end))%N.

(* 0 agree; 1 model and implementation differ while the property holds on the observation; 2 the property
   fails on the observation *)
Definition verdict_c08 (k : c08case) : N :=
  if negb (Pb_c08 k) then 2%N else if corr_c08 k then 0%N else 1%N.

Fixpoint mism_from {A : Type} (v : A -> N) (i : N) (cs : list A) : list (N * N) :=
  match cs with
  | [] => []
  | c :: r => let x := v c in if N.eqb x 0 then mism_from v (N.succ i) r else (i, x) :: mism_from v (N.succ i) r
  end.
Definition mismatches_c08 := mism_from verdict_c08 0%N.

(* ---------------------------------------------------------------- C07 *)
(* one process execution: exit class, the generated files of this subcommand in the directory afterwards
   (name, hash of the bytes, hash of the bytes after the header line), the names it (re)wrote *)
Record exec_obs := {
  x_ok : bool;
  x_files : list (string * N * N);      (* sorted by name *)
  x_written : list string               (* sorted *)
}.
(* one point of a history *)
Record hpoint := {
  hp_edit : option pkg0;                (* the hand-written sources are replaced first (earlier output stays: stale) *)
  hp_delete : bool;                     (* ... the earlier output is deleted first *)
  hp_execs : list exec_obs;             (* process executions from this same point: in place and in a relocated module *)
  hp_dirarg : option exec_obs;          (* the command given [dir] from the parent directory (its header quotes that) *)
  hp_ref : exec_obs                     (* the same command on a fresh copy of the current sources *)
}.
Record c07case := { h_pkg : pkg0; h_cmd : cmd; h_points : list hpoint }.

Definition adecl_eqb (a b : adecl) : bool :=
  (d_name a =? d_name b) && Bool.eqb (d_doc a) (d_doc b) && Bool.eqb (d_tail a) (d_tail b) && str_list_eqb (d_toks a) (d_toks b).
Definition afile_eqb (a b : afile) : bool :=
  (a_cmd a =? a_cmd b) && set_eqb (a_imports a) (a_imports b) && str_list_eqb (a_stray a) (a_stray b) &&
  Nat.eqb (List.length (a_decls a)) (List.length (a_decls b)) &&
  forallb (fun p => adecl_eqb (fst p) (snd p)) (combine (a_decls a) (a_decls b)).

Definition n3_fst (e : string * N * N) : string := fst (fst e).
Definition n3_bytes (e : string * N * N) : N := snd (fst e).
Definition n3_body (e : string * N * N) : N := snd e.
Definition lookup3 (n : string) (l : list (string * N * N)) : option (string * N * N) := find (fun e => n3_fst e =? n) l.

Definition exec_eqb (a b : exec_obs) : bool :=
  Bool.eqb (x_ok a) (x_ok b) && str_list_eqb (x_written a) (x_written b) &&
  Nat.eqb (List.length (x_files a)) (List.length (x_files b)) &&
  forallb (fun p => (n3_fst (fst p) =? n3_fst (snd p)) && N.eqb (n3_bytes (fst p)) (n3_bytes (snd p))) (combine (x_files a) (x_files b)).

(* selection of the command on the current sources (fresh tree), for the guards *)
Definition selection (p : pkg) (c : cmd) : list string :=
  match confirm_types (list_types_of (c_sub c)) c id_oracle (mk_view (p_hw p) (p_aux p) []) with
  | Some (ts, _) => ts
  | None => []
  end.

(* the model along a history: (sources, generated files in the directory, files of the previous directory) *)
Fixpoint corr_points (c : cmd) (p : pkg) (dir : gfiles) (pts : list hpoint) (prev_obs : list (string * N * N)) : bool :=
  match pts with
  | [] => true
  | pt :: rest =>
      let p' := match hp_edit pt with Some q => pkg_of q | None => p end in
      let dir0 := if hp_delete pt then [] else dir in
      let prev0 := if hp_delete pt then [] else prev_obs in
      match hp_execs pt with
      | [] => false
      | x :: _ =>
          match run id_oracle p' dir0 c with
          | OFatal =>
              negb (x_ok x) && str_list_eqb (x_written x) [] &&
              str_list_eqb (map fst (listing dir0)) (map n3_fst (x_files x)) &&
              corr_points c p' dir0 rest (x_files x)
          | ODone written dir' =>
              x_ok x &&
              str_list_eqb (sort_strings written) (x_written x) &&
              str_list_eqb (map fst (listing dir')) (map n3_fst (x_files x)) &&
              (* "equal to what was there before this step": model (content) and implementation (bytes) agree *)
              forallb (fun e => match alookup (n3_fst e) dir0, alookup (n3_fst e) dir', lookup3 (n3_fst e) prev0 with
                                | Some a, Some b, Some e0 => Bool.eqb (afile_eqb a b) (N.eqb (n3_bytes e0) (n3_bytes e))
                                | _, _, _ => true
                                end) (x_files x) &&
              corr_points c p' dir' rest (x_files x)
          end
      end
  end.
Definition corr_c07 (k : c07case) : bool := corr_points (h_cmd k) (pkg_of (h_pkg k)) [] (h_points k) [].

(* the property on the observation: every execution of a point gives the same bytes; with [dir] the same bytes after
   the header line; what a run writes is what the same command writes on a fresh copy of the current sources
   (outside the input class of K_embed_order / K_aio_overlay_stale: some selected type embeds a selected struct) *)
Fixpoint Pb_points (c : cmd) (p : pkg) (pts : list hpoint) : bool :=
  match pts with
  | [] => true
  | pt :: rest =>
      let p' := match hp_edit pt with Some q => pkg_of q | None => p end in
      match hp_execs pt with
      | [] => false
      | x :: xs =>
          forallb (exec_eqb x) xs &&
          match hp_dirarg pt with
          | None => true
          | Some y =>
              (* with -type=* the [dir] argument is part of the command line the //go:generate line is matched
                 against, so the file may be named differently (C16): files are matched by their .shoot<cmd>... suffix *)
              Bool.eqb (x_ok x) (x_ok y) &&
              str_list_eqb (sort_strings (map type_key (x_written x))) (sort_strings (map type_key (x_written y))) &&
              forallb (fun n => match lookup3 n (x_files x),
                                      find (fun e => type_key (n3_fst e) =? type_key n)
                                           (filter (fun e => smem (n3_fst e) (x_written y)) (x_files y)) with
                                | Some a, Some b => N.eqb (n3_body a) (n3_body b)
                                | _, _ => false
                                end) (x_written x)
          end &&
          (* ... or, all-in-one output only, an edit over the stale all-in-one file (K_aio_overlay_stale) *)
          (embed_after (p_hw p') c (selection p' c) ||
           (negb (separate c) && embed_dep (p_hw p') c (selection p' c) &&
            match hp_edit pt with Some _ => negb (hp_delete pt) | None => false end) ||
           (Bool.eqb (x_ok x) (x_ok (hp_ref pt)) && str_list_eqb (x_written x) (x_written (hp_ref pt)) &&
            forallb (fun n => match lookup3 n (x_files x), lookup3 n (x_files (hp_ref pt)) with
                              | Some a, Some b => N.eqb (n3_bytes a) (n3_bytes b)
                              | _, _ => false
                              end) (x_written x))) &&
          Pb_points c p' rest
      end
  end.
Definition Pb_c07 (k : c07case) : bool := Pb_points (h_cmd k) (pkg_of (h_pkg k)) (h_points k).

(* number of points whose fresh-reference comparison is exempt (class of K_embed_order / K_aio_overlay_stale) *)
Fixpoint skipped_points (c : cmd) (p : pkg) (pts : list hpoint) : N :=
  match pts with
  | [] => 0%N
  | pt :: rest =>
      let p' := match hp_edit pt with Some q => pkg_of q | None => p end in
      ((if embed_after (p_hw p') c (selection p' c) ||
           (negb (separate c) && embed_dep (p_hw p') c (selection p' c) &&
            match hp_edit pt with Some _ => negb (hp_delete pt) | None => false end) then 1 else 0) +
       skipped_points c p' rest)%N
  end.
Definition skipped_c07 (k : c07case) : N := skipped_points (h_cmd k) (pkg_of (h_pkg k)) (h_points k).

Definition verdict_c07 (k : c07case) : N :=
  if negb (Pb_c07 k) then 2%N else if corr_c07 k then 0%N else 1%N.
Definition mismatches_c07 := mism_from verdict_c07 0%N.
