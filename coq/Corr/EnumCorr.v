(* Correspondence for C04 / C12 / C14 (shoot enum).

   The harness (harness/enumrun.py + enumgen.py) renders a package spec, runs the real
   `shoot enum`, compiles what it generated and executes it through an
   in-package oracle.  One [case] = (package spec, type, flags, what the
   implementation did).  Here the model pipeline (Model/Enum.v) is run on the
   same spec and inputs and compared component by component; independently the
   property itself ([Pb04], [Pb12], [Pb14]: written against the declarative
   [declared] constants, NOT against the model's tables) is evaluated on the
   implementation's observation.

   verdict code = 3: the model's own observation fails the property inside the guard (drift), else
   verdict code = 10 * component + v,  v = 0 agree
                                        v = 1 model <> implementation, property holds on the observation
                                        v = 2 the property fails on the observation            *)
From Coq Require Import List ZArith Bool String Ascii NArith.
From Shoot Require Import Model.Enum Proofs.EnumTables.
Import ListNotations.
Local Open Scope string_scope.
Local Open Scope Z_scope.

(* ------------------------------------------------------------ observations *)

Record obs := {
  o_built : bool;                               (* the package (with the generated files) compiles *)
  o_consts : list (string * Z);                 (* name, int64/uint64 of every constant of the type's kind *)
  o_values : list Z;
  o_strings : list string;
  o_vmap : list (string * Z);
  o_smap : list (Z * string);
  o_points : list (Z * (string * bool));        (* x, String(x), IsValid(x) *)
  (* codecs: error codes 0 nil | 1 "should be a string" | 2 "was not found" | 3 "bad enum type" | 9 other *)
  o_mjson : list (Z * string);                  (* x, MarshalJSON *)
  o_mtext : list (Z * string);
  o_sqlval : list (Z * string);                 (* x, Value().(string) *)
  o_ujson : list (string * option string * Z * (Z * Z));
                                                (* data, what json.Unmarshal(data, &string) gave for it (None = error),
                                                   target before, (error code, target after) *)
  o_utext : list (string * Z * (Z * Z));
  o_scan : list (sqlv * Z * (Z * Z));
  o_rt : list (Z * Z * Z * (Z * Z));            (* codec (0 json,1 text,2 sql,3 encoding/json), c, target before, (err, after) *)
  o_parse : list (string * (Z * Z));            (* ParseEnum: s, (value, error code) *)
  o_try : list (string * Z * (bool * Z));       (* TryParseEnum: s, target before, (result, after) *)
  o_isenum : list (kind * Z * bool);            (* IsEnum[T, TV](v): TV, v, result *)
  o_gorm : list string;                         (* [GormDataType(); GormDBDataType()] under -gorm *)
  (* -bit, exhaustive over x in [0, o_bitn) *)
  o_bitn : Z;
  o_bitstr : list string;                       (* String(x) for x = 0 .. o_bitn-1 *)
  o_bitops : list (Z * (Z * (Z * (Z * (list Z * list Z)))));
                                                (* flag f, (mask of x.Has(f), (mask of x.Add(f).Has(f), (mask of
                                                   x.Remove(f).Has(f), (x.Add(f)s, x.Remove(f)s)))) *)
  o_bitpairs : list (Z * Z * (bool * (Z * (Z * (bool * bool)))));
                                                (* x, f over the whole kind (also negative, sign bit):
                                                   Has, Add, Remove, Add.Has, Remove.Has *)
  o_ctypes : list (string * (string * Z))       (* EVERY named constant of the package: name, (name of its
                                                   package-level named type or "", value) *)
}.

Record case := { c_pkg : pkg; c_type : string; c_flags : flags; c_obs : obs }.

(* the stale-guard pass: the package was generated from c_pkg, then the source
   was edited into s_pkg2 WITHOUT regenerating *)
Record stale_case := {
  s_pkg : pkg; s_targets : list (string * flags); s_pkg2 : pkg;
  s_shimmed : bool;              (* the K_bit_map observation shim is applied to -bit outputs *)
  s_built : bool                 (* go build of the edited package *)
}.

(* --------------------------------------------------------------- utilities *)

Fixpoint list_eqb {A} (eqb : A -> A -> bool) (a b : list A) : bool :=
  match a, b with
  | [], [] => true
  | x :: a', y :: b' => eqb x y && list_eqb eqb a' b'
  | _, _ => false
  end.

(* same length and every element of a occurs in b (the keys of a map are distinct) *)
Definition set_eqb {A} (eqb : A -> A -> bool) (a b : list A) : bool :=
  Nat.eqb (List.length a) (List.length b) && forallb (fun x => existsb (eqb x) b) a.

Definition pair_eqb {A B} (ea : A -> A -> bool) (eb : B -> B -> bool) (x y : A * B) : bool :=
  ea (fst x) (fst y) && eb (snd x) (snd y).

Definition sqlv_eqb (a b : sqlv) : bool :=
  match a, b with
  | SNil, SNil => true
  | SBytes x, SBytes y | SStr x, SStr y => String.eqb x y
  | SInt x, SInt y | SFloat x, SFloat y | STime x, STime y => Z.eqb x y
  | SBool x, SBool y => Bool.eqb x y
  | _, _ => false
  end.

Definition err_code (e : option errk) : Z :=
  match e with
  | None => 0
  | Some ENotString => 1
  | Some ENotFound => 2
  | Some EBadType => 3
  end.

Fixpoint insert_z (x : Z) (l : list Z) : list Z :=
  match l with [] => [x] | y :: l' => if y <? x then y :: insert_z x l' else x :: l end.
Fixpoint sort_z (l : list Z) : list Z :=
  match l with [] => [] | x :: l' => insert_z x (sort_z l') end.

Fixpoint range_from (a : Z) (n : nat) : list Z :=
  match n with O => [] | S n' => a :: range_from (a + 1) n' end.

(* concrete instance of the JSON string codec for the input class the
   harness generates (no whitespace padding, no escapes): json.Marshal of a
   string without special characters, json.Unmarshal into a *string *)
Definition jenc (s : string) : string := """" ++ s ++ """".

Fixpoint last_char (s : string) : option ascii :=
  match s with
  | EmptyString => None
  | String c EmptyString => Some c
  | String _ s' => last_char s'
  end.
Fixpoint drop_last (s : string) : string :=
  match s with
  | EmptyString => EmptyString
  | String c EmptyString => EmptyString
  | String c s' => String c (drop_last s')
  end.
Definition dquote : ascii := """"%char.
Definition jdec (data : string) : option string :=
  if String.eqb data "null" then Some ""
  else match data with
       | String c rest =>
           if Ascii.eqb c dquote then
             match last_char rest with
             | Some l => if Ascii.eqb l dquote then Some (drop_last rest) else None
             | None => None
             end
           else None
       | EmptyString => None
       end.

(* the concrete codec satisfies the one law the C12 theorems assume *)
Lemma last_char_app_q : forall s, last_char (s ++ String dquote EmptyString) = Some dquote.
Proof.
  induction s as [|c s IH]; [reflexivity|].
  simpl. destruct (s ++ String dquote EmptyString)%string eqn:E.
  - destruct s; discriminate.
  - exact IH.
Qed.

Lemma drop_last_app_q : forall s, drop_last (s ++ String dquote EmptyString) = s.
Proof.
  induction s as [|c s IH]; [reflexivity|].
  simpl. destruct (s ++ String dquote EmptyString)%string eqn:E.
  - destruct s; discriminate.
  - rewrite IH. reflexivity.
Qed.

Lemma jdec_jenc : forall s, jdec (jenc s) = Some s.
Proof.
  intros s. unfold jdec, jenc. cbn [append].
  change (String.eqb (String dquote (s ++ String dquote EmptyString)) "null") with false.
  cbn [Ascii.eqb]. change (Ascii.eqb dquote dquote) with true. cbv iota.
  rewrite last_char_app_q. change (Ascii.eqb dquote dquote) with true. cbv iota.
  rewrite drop_last_app_q. reflexivity.
Qed.

(* ------------------------------------------------------- model observation *)

Definition the_gen (c : case) : option gen := generate (c_pkg c) (c_type c) (c_flags c).

Definition kind_consts (p : pkg) (k : kind) : list (string * Z) :=
  map (fun e => (ce_name e, ce_val e))
      (filter (fun e => match kind_of_ctype p (ce_type e) with
                        | Some k' => kind_eqb k k'
                        | None => false
                        end) (named_entries (const_env p))).

Definition mask_of (f : Z -> bool) (xs : list Z) : Z :=
  fold_left (fun m x => if f x then Z.lor m (Z.shiftl 1 x) else m) xs 0.

Definition u3 {A} (f : string -> Z -> A) (i : string * Z * (Z * Z)) : A := f (fst (fst i)) (snd (fst i)).

(* what go/types says about every constant: its package-level named type (or "") and its value *)
Definition all_ctypes (p : pkg) : list (string * (string * Z)) :=
  map (fun e => (ce_name e, (match ce_type e with CNamed t => t | _ => "" end, ce_val e)))
      (named_entries (const_env p)).

Definition model_obs (c : case) (o : obs) : obs :=
  let p := c_pkg c in
  let ce := const_env p in
  match the_gen c with
  | None => {| o_built := true; o_consts := []; o_values := []; o_strings := []; o_vmap := []; o_smap := [];
               o_points := []; o_mjson := []; o_mtext := []; o_sqlval := []; o_ujson := []; o_utext := [];
               o_scan := []; o_rt := []; o_parse := []; o_try := []; o_isenum := []; o_gorm := [];
               o_bitn := 0; o_bitstr := []; o_bitops := []; o_bitpairs := []; o_ctypes := all_ctypes p |}
  | Some g =>
      let fl := c_flags c in
      let res (r : option errk * Z) := (err_code (fst r), snd r) in
      let xs := range_from 0 (Z.to_nat (o_bitn o)) in
      {| o_built := compiles ce g false;     (* the -bit output is observed through the K_bit_map shim *)
         o_consts := kind_consts p (g_kind g);
         o_values := t_values ce g;
         o_strings := t_strings g;
         o_vmap := t_value_map ce g;
         o_smap := t_string_map ce g;
         o_points := map (fun xo => (fst xo, (str_of ce g (fst xo), is_valid ce g (fst xo)))) (o_points o);
         o_mjson := map (fun xo => (fst xo, marshal_json ce g jenc (fst xo))) (o_mjson o);
         o_mtext := map (fun xo => (fst xo, marshal_text ce g (fst xo))) (o_mtext o);
         o_sqlval := map (fun xo => (fst xo, str_of ce g (fst xo))) (o_sqlval o);
         (* the JSON decoding of each input is the one encoding/json itself produced *)
         o_ujson := map (fun i => let '(data, dec, t0) := fst i in
                                  (fst i, res (unmarshal_json ce g (fun _ => dec) data t0))) (o_ujson o);
         o_utext := map (fun i => (fst i, res (u3 (unmarshal_text ce g) i))) (o_utext o);
         o_scan := map (fun i => (fst i, res (scan ce g (fst (fst i)) (snd (fst i))))) (o_scan o);
         o_rt := map (fun i =>
                        let '(codec, x, t0) := fst i in
                        (fst i,
                         if codec =? 0 then res (unmarshal_json ce g jdec (marshal_json ce g jenc x) t0)
                         else if codec =? 1 then res (unmarshal_text ce g (marshal_text ce g x) t0)
                         else if codec =? 2 then res (scan ce g (sql_value ce g x) t0)
                         else res (unmarshal_json ce g jdec (marshal_json ce g jenc x) t0))) (o_rt o);
         o_parse := map (fun i => (fst i, let r := parse_enum ce g (fst i) in (fst r, err_code (snd r)))) (o_parse o);
         o_try := map (fun i => (fst i, try_parse_enum ce g (fst (fst i)) (snd (fst i)))) (o_try o);
         o_isenum := map (fun i => (fst i, is_enum ce g (snd (fst i)))) (o_isenum o);
         o_gorm := if f_gorm fl then [gorm_data_type; gorm_db_data_type g] else [];
         o_bitn := o_bitn o;
         o_bitstr := if f_bit fl then map (str_of ce g) xs else [];
         o_bitops := if f_bit fl
                     then map (fun fo => let f := fst fo in
                                         (f, (mask_of (fun x => has x f) xs,
                                              (mask_of (fun x => has (add x f) f) xs,
                                               (mask_of (fun x => has (remove x f) f) xs,
                                                (map (fun x => add x f) xs, map (fun x => remove x f) xs))))))
                              (o_bitops o)
                     else [];
         o_bitpairs := if f_bit fl
                       then map (fun i => let '(x, f) := fst i in
                                          (fst i, (has x f, (add x f, (remove x f,
                                                   (has (add x f) f, has (remove x f) f))))))
                                (o_bitpairs o)
                       else [];
         o_ctypes := all_ctypes p |}
  end.

(* component-wise comparison; returns the 1-based index of the first
   differing component, 0 if all agree *)
Definition zz := pair_eqb Z.eqb Z.eqb.
Definition szzz := pair_eqb (pair_eqb String.eqb Z.eqb) zz.
Definition opt_s_eqb (a b : option string) : bool :=
  match a, b with Some x, Some y => String.eqb x y | None, None => true | _, _ => false end.

Definition components (a b : obs) : list bool :=
  [ Bool.eqb (o_built a) (o_built b);
    list_eqb (pair_eqb String.eqb Z.eqb) (o_consts a) (o_consts b);
    list_eqb Z.eqb (o_values a) (o_values b);
    list_eqb String.eqb (o_strings a) (o_strings b);
    set_eqb (pair_eqb String.eqb Z.eqb) (o_vmap a) (o_vmap b);     (* the oracle orders aliases by name *)
    list_eqb (pair_eqb Z.eqb String.eqb) (o_smap a) (o_smap b);
    list_eqb (pair_eqb Z.eqb (pair_eqb String.eqb Bool.eqb)) (o_points a) (o_points b);
    list_eqb (pair_eqb Z.eqb String.eqb) (o_mjson a) (o_mjson b);
    list_eqb (pair_eqb Z.eqb String.eqb) (o_mtext a) (o_mtext b);
    list_eqb (pair_eqb Z.eqb String.eqb) (o_sqlval a) (o_sqlval b);
    list_eqb (pair_eqb (pair_eqb (pair_eqb String.eqb opt_s_eqb) Z.eqb) zz) (o_ujson a) (o_ujson b);
    list_eqb szzz (o_utext a) (o_utext b);
    list_eqb (pair_eqb (pair_eqb sqlv_eqb Z.eqb) zz) (o_scan a) (o_scan b);
    list_eqb (pair_eqb (pair_eqb zz Z.eqb) zz) (o_rt a) (o_rt b);
    list_eqb (pair_eqb String.eqb zz) (o_parse a) (o_parse b);
    list_eqb (pair_eqb (pair_eqb String.eqb Z.eqb) (pair_eqb Bool.eqb Z.eqb)) (o_try a) (o_try b);
    list_eqb (pair_eqb (pair_eqb kind_eqb Z.eqb) Bool.eqb) (o_isenum a) (o_isenum b);
    list_eqb String.eqb (o_gorm a) (o_gorm b);
    Z.eqb (o_bitn a) (o_bitn b);
    list_eqb String.eqb (o_bitstr a) (o_bitstr b);
    list_eqb (pair_eqb Z.eqb (pair_eqb Z.eqb (pair_eqb Z.eqb (pair_eqb Z.eqb
              (pair_eqb (list_eqb Z.eqb) (list_eqb Z.eqb)))))) (o_bitops a) (o_bitops b);
    list_eqb (pair_eqb zz (pair_eqb Bool.eqb (pair_eqb Z.eqb (pair_eqb Z.eqb (pair_eqb Bool.eqb Bool.eqb)))))
             (o_bitpairs a) (o_bitpairs b);
    list_eqb (pair_eqb String.eqb (pair_eqb String.eqb Z.eqb)) (o_ctypes a) (o_ctypes b) ].

Fixpoint first_false (i : Z) (l : list bool) : Z :=
  match l with [] => 0 | b :: l' => if b then first_false (i + 1) l' else i end.

(* which components each property looks at (1-based indices into [components]) *)
Definition comps04 : list Z := [1; 2; 3; 4; 5; 6; 7; 23].
Definition comps12 : list Z := [1; 2; 3; 5; 8; 9; 10; 11; 12; 13; 14; 15; 16; 17; 18; 23].
Definition comps14 : list Z := [1; 2; 3; 6; 7; 19; 20; 21; 22; 23].

Fixpoint first_false_in (sel : list Z) (i : Z) (l : list bool) : Z :=
  match l with
  | [] => 0
  | b :: l' => if negb b && mem_z i sel then i else first_false_in sel (i + 1) l'
  end.

(* ---------------------------------------- the properties on an observation *)

(* D: declared constants (names and types from the spec, independently of the
   generator's walk); their VALUES are taken from what the Go compiler computed
   (o_consts), so that a slip of the model's constant evaluator shows up as a
   correspondence mismatch of component 2, not as a false violation *)
Definition declared_obs (c : case) (o : obs) : list (string * Z) :=
  map (fun nv => (fst nv, match assoc_s (fst nv) (o_consts o) with Some v => v | None => snd nv end))
      (declared (c_type c) (c_pkg c)).

Definition trim (c : case) (n : string) : string := trim_prefix n (c_type c).

(* the name that stands for a value: its first declared constant (Model/Enum.first_name) *)
Definition name_of_val (D : list (string * Z)) (x : Z) : option string := first_name D x.

(* remove repeated values from a sorted list *)
Fixpoint dedup_z (prev : option Z) (l : list Z) : list Z :=
  match l with
  | [] => []
  | x :: l' =>
      if match prev with Some b => b =? x | None => false end
      then dedup_z (Some x) l' else x :: dedup_z (Some x) l'
  end.

(* specification of the -bit String(): declared -> name; a non-empty union of
   declared single-bit flags -> names ascending, joined by ", "; else decimal *)
Definition bits_of (x : Z) : list Z :=
  filter (fun b => Z.testbit x (Z.log2 b)) (map (fun i => 2 ^ i) (bits_upto x)).

Definition spec_bit_string (c : case) (D : list (string * Z)) (x : Z) : string :=
  match name_of_val D x with
  | Some n => trim c n
  | None =>
      if (0 <? x) && forallb (fun b => mem_z b (map snd D)) (bits_of x)
      then join ", " (map (fun b => match name_of_val D b with Some n => trim c n | None => "?" end) (bits_of x))
      else dec x
  end.

Definition spec_string (c : case) (D : list (string * Z)) (x : Z) : string :=
  if f_bit (c_flags c) then spec_bit_string c D x
  else match name_of_val D x with Some n => trim c n | None => dec x end.

Definition Pb04 (c : case) (o : obs) : bool :=
  let D := declared_obs c o in
  let vals := map snd D in
  o_built o
  && list_eqb Z.eqb (o_values o) (dedup_z None (sort_z vals))         (* ascending, each declared value once *)
  && Nat.eqb (List.length (o_strings o)) (List.length (o_values o))
  && list_eqb String.eqb (o_strings o)                               (* index-aligned: the first declared name *)
       (map (fun v => match name_of_val D v with Some n => trim c n | None => "?" end) (o_values o))
  && Nat.eqb (List.length (o_smap o)) (List.length (o_values o))
  && Nat.eqb (List.length (o_vmap o)) (List.length D)
  && forallb (fun nv =>                     (* value -> first declared name (trimmed); every trimmed name -> value *)
       match assoc_z (snd nv) (o_smap o), assoc_s (trim c (fst nv)) (o_vmap o), name_of_val D (snd nv) with
       | Some s, Some v, Some n1 => String.eqb s (trim c n1) && (v =? snd nv)
       | _, _, _ => false
       end) D
  && forallb (fun xo =>
       let '(x, (s, b)) := xo in
       Bool.eqb b (mem_z x vals) && String.eqb s (spec_string c D x)) (o_points o).

Definition Pb12 (c : case) (o : obs) : bool :=
  let D := declared_obs c o in
  let VM := map (fun nv => (trim c (fst nv), snd nv)) D in
  let decode (s : string) (t0 : Z) (r : Z * Z) :=
    match assoc_s s VM with
    | Some v => (fst r =? 0) && (snd r =? v)
    | None => negb (fst r =? 0) && (snd r =? t0)
    end in
  let reject (t0 : Z) (r : Z * Z) := negb (fst r =? 0) && (snd r =? t0) in
  o_built o
  (* marshal = String() *)
  && forallb (fun xo => String.eqb (snd xo) (jenc (spec_string c D (fst xo)))) (o_mjson o)
  && forallb (fun xo => String.eqb (snd xo) (spec_string c D (fst xo))) (o_mtext o)
  && forallb (fun xo => String.eqb (snd xo) (spec_string c D (fst xo))) (o_sqlval o)
  (* unmarshal: only declared names; everything else is an error and leaves the target alone *)
  && forallb (fun i => let '(data, dec, t0, r) := i in
                       match dec with Some s => decode s t0 r | None => reject t0 r end) (o_ujson o)
  && forallb (fun i => let '(s, t0, r) := i in decode s t0 r) (o_utext o)
  && forallb (fun i => let '(v, t0, r) := i in
                       match v with SBytes s | SStr s => decode s t0 r | _ => reject t0 r end) (o_scan o)
  (* decode(encode(c)) = c for declared c *)
  && forallb (fun i => let '(_, x, t0, r) := i in
                       if mem_z x (map snd D) then (fst r =? 0) && (snd r =? x) else true) (o_rt o)
  (* the helpers agree with the generated ValueMap() and Values() *)
  && forallb (fun i => let '(s, (v, e)) := i in
                       match assoc_s s (o_vmap o) with
                       | Some v' => (e =? 0) && (v =? v')
                       | None => negb (e =? 0)
                       end) (o_parse o)
  && forallb (fun i => let '(s, t0, (ok, t1)) := i in
                       match assoc_s s (o_vmap o) with
                       | Some v' => ok && (t1 =? v')
                       | None => negb ok && (t1 =? t0)
                       end) (o_try o)
  (* IsEnum agrees with Values() for every integer, of every argument type *)
  && forallb (fun i => let '(tv, v, b) := i in Bool.eqb b (mem_z v (o_values o))) (o_isenum o).

(* String(x) against the specification.  "declared -> name" and "negative -> decimal" do not depend
   on the bit-flag grammar and are always checked; the union / undeclared-bit cases are stated for the
   grammar (C14 bits_declared: non-negative values, every bit of every declared value is a declared
   flag) and are checked inside it only (outside it the model alone is compared) *)
Definition string_ok (c : case) (D : list (string * Z)) (in_grammar : bool) (x : Z) (s : string) : bool :=
  match name_of_val D x with
  | Some n => String.eqb s (trim c n)
  | None => if x <? 0 then String.eqb s (dec x)
            else if in_grammar then String.eqb s (spec_string c D x) else true
  end.

Definition Pb14 (c : case) (o : obs) : bool :=
  let D := declared_obs c o in
  let xs := range_from 0 (Z.to_nat (o_bitn o)) in
  let in_grammar := bits_declared_b (map snd D) || negb (f_bit (c_flags c)) in
  o_built o
  && (if f_bit (c_flags c)
      then Nat.eqb (List.length (o_bitstr o)) (List.length xs)
           && forallb (fun xs => string_ok c D in_grammar (fst xs) (snd xs)) (combine xs (o_bitstr o))
      else match o_bitstr o with [] => true | _ => false end)
  && forallb (fun xo => let '(x, (s, _)) := xo in string_ok c D in_grammar x s) (o_points o)
  && forallb (fun fo =>
       let '(f, (hm, (hma, (hmr, (adds, rems))))) := fo in
       Nat.eqb (List.length adds) (List.length xs) && Nat.eqb (List.length rems) (List.length xs)
       && forallb (fun xa => let '(x, a) := xa in                     (* Add: f set, outside f unchanged *)
                    (Z.land a f =? f) && (Z.ldiff a f =? Z.ldiff x f)) (combine xs adds)
       && forallb (fun xr => let '(x, r) := xr in                     (* Remove: f cleared, outside f unchanged *)
                    (Z.land r f =? 0) && (Z.ldiff r f =? Z.ldiff x f)) (combine xs rems)
       && forallb (fun x => Bool.eqb (Z.testbit hm x) (Z.land x f =? f)    (* Has is bit inclusion *)
                            && Z.testbit hma x                             (* x.Add(f).Has(f), executed *)
                            && (if f =? 0 then true else negb (Z.testbit hmr x)))   (* not x.Remove(f).Has(f) *)
                  xs)
     (o_bitops o)
  && forallb (fun i =>                                  (* the same on operands of the whole kind, also negative *)
       let '(x, f, (h, (a, (r, (ha, hr))))) := i in
       Bool.eqb h (Z.land x f =? f)
       && (Z.land a f =? f) && (Z.ldiff a f =? Z.ldiff x f)
       && (Z.land r f =? 0) && (Z.ldiff r f =? Z.ldiff x f)
       && ha && (if f =? 0 then true else negb hr))
     (o_bitpairs o).

(* ------------------------------------------------------------------ verdicts *)

(* the theorems' guard (Proofs/EnumTables.enum_guard) *)
Definition in_guard (c : case) : bool := enum_guard (c_pkg c) (c_type c).

(* code 3: inside the guard the MODEL's own observation fails Pb -- the boolean
   property and the theorems have drifted apart (never expected; reported as a
   broken correspondence, not as a failing input) *)
Definition verdict (Pb : case -> obs -> bool) (sel : list Z) (c : case) : N :=
  let o := c_obs c in
  let m := model_obs c o in
  let comp := first_false_in sel 1 (components m o) in
  if negb (Pb c o) then Z.to_N (10 * comp + 2)
  else if in_guard c && negb (Pb c m) then 3%N
  else if comp =? 0 then 0%N else Z.to_N (10 * comp + 1).

Fixpoint mismatches_from (v : case -> N) (i : N) (cs : list case) : list (N * N) :=
  match cs with
  | [] => []
  | c :: cs' =>
      let r := v c in
      if N.eqb r 0 then mismatches_from v (N.succ i) cs'
      else (i, r) :: mismatches_from v (N.succ i) cs'
  end.

(* how many cases lie inside the theorems' guard (reported in the evidence; the generator is
   expected to keep every compared target inside) *)
Definition guard_count (cs : list case) : N := N.of_nat (List.length (filter in_guard cs)).

Definition mismatches04 := mismatches_from (verdict Pb04 comps04) 0%N.
Definition mismatches12 := mismatches_from (verdict Pb12 comps12) 0%N.
Definition mismatches14 := mismatches_from (verdict Pb14 comps14) 0%N.

(* ------------------------------------------------------- stale guard (C04) *)

Definition gens_of (p : pkg) (ts : list (string * flags)) : list gen :=
  flat_map (fun tf => match generate p (fst tf) (snd tf) with Some g => [g] | None => [] end) ts.

Definition model_stale_built (s : stale_case) : bool :=
  let ce2 := const_env (s_pkg2 s) in
  forallb (fun g => compiles ce2 g (negb (s_shimmed s))) (gens_of (s_pkg s) (s_targets s)).

(* the property: if the value of some declared constant of a generated type has
   changed (or the constant is gone), the package must not build any more.  Judged
   for the types inside the theorems' guard (a type generated alongside that has
   an implicitly typed constant, K_enum_implicit_type, is only compared with the model) *)
Definition some_value_changed (s : stale_case) : bool :=
  let ce1 := const_env (s_pkg s) in
  let ce2 := const_env (s_pkg2 s) in
  existsb (fun tf =>
     enum_guard (s_pkg s) (fst tf) &&
     existsb (fun nv =>
        match lookup_c (fst nv) ce2 with
        | Some e => negb (ce_val e =? snd nv)
        | None => true
        end) (declared (fst tf) (s_pkg s))) (s_targets s).

Definition Pb_stale (s : stale_case) : bool :=
  if some_value_changed s then negb (s_built s) else true.

Definition stale_verdict (s : stale_case) : N :=
  if negb (Pb_stale s) then 2%N
  else if Bool.eqb (model_stale_built s) (s_built s) then 0%N else 1%N.

Fixpoint stale_from (i : N) (cs : list stale_case) : list (N * N) :=
  match cs with
  | [] => []
  | c :: cs' =>
      let r := stale_verdict c in
      if N.eqb r 0 then stale_from (N.succ i) cs' else (i, r) :: stale_from (N.succ i) cs'
  end.
Definition stale_mismatches := stale_from 0%N.
