(* L1 correspondence for Model/Transfer.v: each case = function tag, inputs,
   what the Go function returned. *)
From Coq Require Import String Ascii List Bool NArith.
From Shoot Require Import Base.Str Model.Transfer.
Import ListNotations.
Local Open Scope string_scope.

Inductive tcase :=
| TPascal (i o : string) | TCamel (i o : string) | TCamelGO (i o : string)
| TFirstLower (i o : string) | TSmart (a b : string) (o : bool).

Definition tcheck (c : tcase) : bool :=
  match c with
  | TPascal i o => String.eqb (to_pascal_case i) o
  | TCamel i o => String.eqb (to_camel_case i) o
  | TCamelGO i o => String.eqb (to_camel_case_go i) o
  | TFirstLower i o => String.eqb (first_lower_letter i) o
  | TSmart a b o => Bool.eqb (smart_match a b) o
  end.

Fixpoint tmismatches_from (i : N) (cs : list tcase) : list (N * N) :=
  match cs with
  | [] => []
  | c :: r => if tcheck c then tmismatches_from (N.succ i) r
              else (i, 1%N) :: tmismatches_from (N.succ i) r
  end.
Definition tmismatches := tmismatches_from 0%N.
