(* Correspondence for C13 (shoot new -opt).  One case = one struct type of a generated
   package run through `shoot new -opt [-short]`: the option functions go/types
   reports, whether *T has a SetDefault method, and a number of runs, each an
   entry point (T.With on NewT(sentinels), T.With on the zero value, shoot.NewWith)
   with an option sequence, observed as the leaf values before and after.

   [model_run] executes Model/CtorOpt.v; [Pb_run] is the property itself on the
   observation (last option on a field, else its default, else what was there;
   nothing else changes), stated with [resolve] / [leaf_paths] / the directives only. *)
From Coq Require Import String Ascii List Bool Arith NArith ZArith.
From Shoot Require Import Base.Str Base.GoVal Model.Transfer Model.CtorDirective Model.Ctor Model.CtorSpec Model.CtorOpt.
From Shoot Require Import Corr.CtorCorr.
Import ListNotations.
Local Open Scope string_scope.

Record run_obs := {
  r_entry : N;                          (* 0 NewT(sentinels).With(...)   1 (&T{}).With(...)   2 shoot.NewWith(...) *)
  r_fields : list ident;                (* the option sequence, by field; option j carries sentinel 100+j ... *)
  r_zero : list bool;                   (* ... unless flag j is set: then it carries the zero value (nil) of the field's type *)
  r_opttoks : list string;              (* token of the value given to option j *)
  r_panic : bool;                       (* the run panicked (nil pointer dereference) *)
  r_before : list (path * string);      (* leaf tokens of the start value *)
  r_after : list (path * string)        (* leaf tokens of the result *)
}.

Record ocase := {
  oc_pkg : pkg_spec; oc_flags : ctor_flags; oc_name : ident; oc_fuel : nat;
  oc_status : N;                        (* as o_status of CtorCorr (0..6) *)
  oc_options : list (string * string);  (* option functions of T: (name, parameter type) *)
  oc_has_setdefault : bool;             (* *T has a method SetDefault *)
  oc_args : list string;                (* tokens of the sentinels given to NewT (entry 0) *)
  oc_defs : list (ident * string);      (* token of each default text evaluated by Go *)
  oc_runs : list run_obs
}.

Definition otok (c : ocase) (r : run_obs) (p : path) (x : res val) : string :=
  match x with
  | Ok (VSent i) => if Nat.ltb i 100 then nth i (oc_args c) "<no-such-argument>"
                    else nth (i - 100) (r_opttoks r) "<no-such-option>"
  | Ok VZero => "zero"
  | Ok (VDef _) => match p with
                   | [n] => match assoc n (oc_defs c) with Some t => t | None => "<no-default-probe>" end
                   | _ => "<default-below-top-level>" end
  | Ok VNil => "zero"
  | Ok _ => "<composite>"
  | Panic => "nilhop"
  | Stuck => "<stuck>"
  end.

Fixpoint opts_of (fs : list ident) (zs : list bool) (j : nat) : list optv :=
  match fs with
  | [] => []
  | f :: r => OptV f (if hd false zs then VZero else VSent (100 + j)) :: opts_of r (tl zs) (S j)
  end.

(* ---------------------------------------------------------------- the model *)
Definition start_value (c : ocase) (sd : sdecl) (nd : new_data) (entry : N) : res val :=
  if N.eqb entry 0 then
    eval_new (oc_pkg c) (oc_fuel c) sd (nd_body nd)
             (bind_args (nd_params nd) (sent_vals (length (nd_params nd))))
  else Ok (VPtr (zero_struct (oc_pkg c) (oc_fuel c) (self_inst sd))).

Definition model_run (c : ocase) (sd : sdecl) (nd : new_data) (od : opt_data) (r : run_obs) : res val :=
  let opts := opts_of (r_fields r) (r_zero r) 0 in
  if N.eqb (r_entry r) 2 then new_with_real (oc_pkg c) (oc_flags c) (oc_fuel c) sd opts
  else bind (start_value c sd nd (r_entry r)) (fun v => with_ (oc_pkg c) (oc_fuel c) sd od v opts).

Definition leaves (c : ocase) (sd : sdecl) : list path := leaf_paths (oc_pkg c) (oc_fuel c) (self_inst sd) [].

Definition run_agrees (c : ocase) (sd : sdecl) (nd : new_data) (od : opt_data) (r : run_obs) : bool :=
  match model_run c sd nd od r with
  | Ok v => negb (r_panic r) &&
            reads_eqb (map (fun p => (p, otok c r p (lookup v p))) (leaves c sd)) (r_after r) (fun t => t)
  | Panic => r_panic r
  | Stuck => false
  end.

Definition options_agree (od : opt_data) (obs : list (string * string)) : bool :=
  Nat.eqb (length (od_options od)) (length obs) &&
  forallb (fun o => match assoc (fst (fst o)) obs with
                    | Some t => String.eqb t (snd o)
                    | None => false end) (od_options od).

Definition agree_opt (c : ocase) (sd : sdecl) : bool :=
  match opt_of (oc_pkg c) (oc_flags c) (oc_fuel c) sd with
  | COk (nd, od) =>
      N.eqb (oc_status c) 0 && options_agree od (oc_options c) &&
      Bool.eqb (is_some (setdefault_target (oc_pkg c) (oc_fuel c) sd)) (oc_has_setdefault c) &&
      forallb (run_agrees c sd nd od) (oc_runs c)
  | CFatal _ => N.eqb (oc_status c) 1
  | COutOfFuel => N.eqb (oc_status c) 2
  end.

(* ------------------------------------------- the property on the observation *)
(* the type has a default of its own (so With / NewWith start with SetDefault) *)
Definition has_def_spec (sd : sdecl) : bool := decl_has_def sd.

Fixpoint last_index (f : ident) (fs : list ident) (j : nat) (acc : option nat) : option nat :=
  match fs with
  | [] => acc
  | g :: r => last_index f r (S j) (if String.eqb g f then Some j else acc)
  end.

Definition is_option_leaf (c : ocase) (sd : sdecl) (q : path) : bool :=
  match resolve (oc_pkg c) (oc_fuel c) sd (last q "") with
  | Some p => path_eqb p q && negb (excluded_top sd q)
  | None => false
  end.

(* a nil embedded pointer lies on the path of some assignment of the run: the run
   panics (K_opt_nil_embed); the property's sentence is not evaluated on it *)
Definition run_hits_nil (c : ocase) (sd : sdecl) (r : run_obs) : bool :=
  negb (N.eqb (r_entry r) 0) &&
  existsb (fun q => is_option_leaf c sd q &&
                    (existsb (String.eqb (last q "")) (r_fields r) ||
                     (has_def_spec sd && negb (String.eqb (def_text sd q) ""))) &&
                    match passoc q (r_before r) with Some t => String.eqb t "nilhop" | None => false end)
          (leaves c sd).

Definition Pb_run (c : ocase) (sd : sdecl) (r : run_obs) : bool :=
  if run_hits_nil c sd r then r_panic r else
  negb (r_panic r) &&
  Nat.eqb (length (r_after r)) (length (leaves c sd)) &&
  forallb (fun q =>
    match passoc q (r_after r), passoc q (r_before r) with
    | Some a, Some b =>
        if is_option_leaf c sd q then
          match last_index (last q "") (r_fields r) 0 None with
          | Some j => String.eqb a (nth j (r_opttoks r) "<none>")
          | None =>
              let d := def_text sd q in
              if has_def_spec sd && negb (String.eqb d "") then
                match q with
                | [n] => match assoc n (oc_defs c) with Some dt => String.eqb a dt | None => false end
                | _ => false end
              else String.eqb a b
          end
        else String.eqb a b
    | _, _ => false
    end) (leaves c sd).

Definition Pb_options (c : ocase) (sd : sdecl) : bool :=
  let pkg := oc_pkg c in let fuel := oc_fuel c in
  let ls := filter (fun q => negb (excluded_top sd q)) (selectable_leaves pkg fuel sd) in
  Nat.eqb (length (oc_options c)) (length ls) &&
  forallb (fun q =>
     let f := last q "" in
     match assoc (opt_fn_name (fl_short (oc_flags c)) (sd_name sd) f) (oc_options c) with
     | Some t => match leaf_type pkg fuel sd q with Some ft => String.eqb t (type_string ft) | None => false end
     | None => false
     end) ls &&
  Bool.eqb (oc_has_setdefault c) (has_def_spec sd).

Definition Pb_opt (c : ocase) (sd : sdecl) : bool :=
  N.eqb (oc_status c) 0 && Pb_options c sd && forallb (Pb_run c sd) (oc_runs c).

(* verdicts as in CtorCorr: 0 agree and the property holds; 1 model and implementation
   differ (inside or outside the guard); 2 inside the guard and the property fails on the
   observation (status 6 = output missing fails it); 3 outside the guard (input class of an open
   finding), compared with the literal model unless its output does not compile; 4 harness
   error; 5 inside the guard but not observable because a sibling type's output does not compile *)
Definition runs_not_evaluated (c : ocase) : nat :=
  match find_struct (oc_pkg c) "" (oc_name c) with
  | None => 0
  | Some sd => length (filter (run_hits_nil c sd) (oc_runs c))
  end.
Definition overdict (c : ocase) : N :=
  match find_struct (oc_pkg c) "" (oc_name c) with
  | None => 4%N
  | Some sd =>
      if c13_guard (fl_short (oc_flags c)) (oc_pkg c) (oc_fuel c) sd then
        if N.eqb (oc_status c) 5 then 5%N
        else if Pb_opt c sd then (if agree_opt c sd then 0%N else 1%N) else 2%N
      else if N.eqb (oc_status c) 3 || N.eqb (oc_status c) 5 || agree_opt c sd then 3%N else 1%N
  end.

Fixpoint omismatches_from (i : N) (cs : list ocase) : list (N * N) :=
  match cs with
  | [] => []
  | c :: cs' =>
      let v := overdict c in
      if N.eqb v 0 then omismatches_from (N.succ i) cs'
      else (i, v) :: omismatches_from (N.succ i) cs'
  end.
Definition omismatches := omismatches_from 0%N.
