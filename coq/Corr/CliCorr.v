(* Correspondence for C16: per case the harness writes the package skeleton, the
   arguments the real shoot binary was run with, and what it did (exit status,
   diagnostic class, written files with the types found in each through the
   marker methods, the file list of the success message, any other change of
   the directory tree).  [verdict] recomputes the model and compares, and
   evaluates the property itself ([Pb] = CliSpec.meets against CliSpec.spec,
   the statement of the theorems of Properties/C16.v) on the observation. *)
From Coq Require Import List String Ascii Bool Arith NArith.
From Shoot Require Import Model.Cli Model.CliSpec.
Import ListNotations.
Local Open Scope string_scope.

Record obs := {
  o_exit : N;                      (* process exit status *)
  o_msg : bool;                    (* a diagnostic line was printed (the cross-mark prefix of logx.Fatal) *)
  o_diag : option diag;            (* its class, when recognised *)
  o_nothing : bool;                (* the "nothing generated" warning was printed *)
  o_files : srcmap;                (* created files: name -> types (marker-method receivers, source order) *)
  o_listed : list string;          (* the file names listed under the success message *)
  o_stray : bool                   (* anything else created, modified or deleted under the case's directory tree *)
}.

Record case := { c_cmd : subcmd; c_args : list string; c_pkg : pkg; c_obs : obs }.

Definition diag_eqb (a b : diag) : bool :=
  match a, b with
  | DgNotExists, DgNotExists | DgNotStruct, DgNotStruct | DgNotInFile, DgNotInFile
  | DgAlias, DgAlias | DgNonIntConst, DgNonIntConst | DgRestNotExists, DgRestNotExists
  | DgSrcNotExists, DgSrcNotExists | DgDestNotExists, DgDestNotExists
  | DgFileNotGo, DgFileNotGo | DgFileNotExists, DgFileNotExists
  | DgEnumNone, DgEnumNone | DgSameFile, DgSameFile => true
  | _, _ => false
  end.

Definition odiag_eqb (a b : option diag) : bool :=
  match a, b with
  | Some x, Some y => diag_eqb x y
  | None, None => true
  | _, _ => false
  end.

Definition is_nil {A} (l : list A) : bool := match l with [] => true | _ => false end.

(* what the model says the process does *)
Definition obs_of_out (r : cli_out) : obs :=
  let quiet e := {| o_exit := e; o_msg := false; o_diag := None; o_nothing := false;
                    o_files := []; o_listed := []; o_stray := false |} in
  match r with
  | CUsage2 => quiet 2%N
  | CHelp0 => quiet 0%N
  | CNotModelled => quiet 255%N
  | COut (Failed d) => {| o_exit := 1; o_msg := true; o_diag := Some d; o_nothing := false;
                          o_files := []; o_listed := []; o_stray := false |}
  | COut (Done files listed) => {| o_exit := 0; o_msg := false; o_diag := None; o_nothing := is_nil files;
                                   o_files := files; o_listed := listed; o_stray := false |}
  end.

Definition model_obs (c : subcmd) (args : list string) (p : pkg) : obs :=
  obs_of_out (shoot_cli id_oracle c args p).

Definition obs_eqb (m i : obs) : bool :=
  N.eqb (o_exit m) (o_exit i) && Bool.eqb (o_msg m) (o_msg i) && odiag_eqb (o_diag m) (o_diag i)
  && Bool.eqb (o_nothing m) (o_nothing i)
  && srcmap_same (o_files m) (o_files i) && perm_eqb (o_listed m) (o_listed i)
  && Bool.eqb (o_stray m) (o_stray i).

(* the observation read as an outcome: exit 0 = Done; a non-zero exit counts as
   a clean failure only with a diagnostic and without any created file *)
Definition obs_outcome (o : obs) : option outcome :=
  if N.eqb (o_exit o) 0 then Some (Done (o_files o) (o_listed o))
  else if o_msg o && is_nil (o_files o)
       then Some (Failed (match o_diag o with Some d => d | None => DgNotExists end))
       else None.

(* The property on the observation, from the declarative spec alone. *)
Definition Pb (c : subcmd) (args : list string) (p : pkg) (o : obs) : bool :=
  negb (o_stray o) &&
  match parse_common c args with
  | PUsage2 => negb (N.eqb (o_exit o) 0) && is_nil (o_files o)     (* usage error: non-zero exit, no file *)
  | PExit0 => is_nil (o_files o)
  | POk fl _ =>
      match obs_outcome o with
      | Some r => meets c p r (spec c fl p)
      | None => false
      end
  end.

(* the case lies in the input class of an open finding, or outside the grammar *)
Definition outside (c : subcmd) (args : list string) (p : pkg) : bool :=
  match parse_common c args with
  | POk fl _ => negb (wf_pkgb p) || known_class c fl p
  | _ => false
  end.

(* 0 = agree; 1 = model and implementation differ but the property holds on the
   observation; 2 = the property fails on the observation (and the case is not
   an instance of an open finding reproduced exactly as the model predicts) *)
Definition not_modelled (k : case) : bool :=
  match shoot_cli id_oracle (c_cmd k) (c_args k) (c_pkg k) with CNotModelled => true | _ => false end.

Definition verdict (k : case) : N :=
  if not_modelled k then 0%N else       (* `map -to`: outside the model; the harness never generates it and reports the count (class 7) *)
  let agree := obs_eqb (model_obs (c_cmd k) (c_args k) (c_pkg k)) (c_obs k) in
  if Pb (c_cmd k) (c_args k) (c_pkg k) (c_obs k) then (if agree then 0%N else 1%N)
  else if agree && outside (c_cmd k) (c_args k) (c_pkg k) then 0%N else 2%N.

Fixpoint mismatches_from (i : N) (cs : list case) : list (N * N) :=
  match cs with
  | [] => []
  | k :: cs' =>
      let v := verdict k in
      if N.eqb v 0 then mismatches_from (N.succ i) cs' else (i, v) :: mismatches_from (N.succ i) cs'
  end.
Definition mismatches := mismatches_from 0%N.

(* classes of the cases, for the coverage counters of the evidence:
   0 inside the theorems' guard; 2, 3 the open finding classes; 8 the command
   line is rejected by flag parsing; 9 outside the grammar *)
Definition case_class (k : case) : N :=
  if not_modelled k then 7%N else
  match parse_common (c_cmd k) (c_args k) with
  | POk fl _ =>
      if negb (wf_pkgb (c_pkg k)) then 9%N
      else if k_star_no_generate_line (c_cmd k) fl (c_pkg k) then 2%N
      else if k_star_sep_file (c_cmd k) fl (c_pkg k) then 3%N
      else 0%N
  | _ => 8%N
  end.
Definition classes (cs : list case) : list N := map case_class cs.

(* what the model predicts, printable (used by the replay files) *)
Definition predicted (k : case) : obs := model_obs (c_cmd k) (c_args k) (c_pkg k).
Definition property_holds (k : case) : bool := Pb (c_cmd k) (c_args k) (c_pkg k) (c_obs k).
