(* Correspondence for C11 (shoot new -json).  One case = one generated package run through
   `shoot new [-getset] -json -tagcase=<c> -type=<declaration order>`: per struct whether T declares
   MarshalJSON/UnmarshalJSON, the fields of the shadow struct _json_T (go/types), and what the in-package
   oracle observed: the members of json.Marshal(NewT(sentinels)) in order with their raw JSON text, the raw
   JSON text of every leaf of that value and of the zero value of every leaf's type, and every leaf of a
   second value w = NewT(other sentinels) before and after json.Unmarshal(thatJSON, w).

   [model_*] runs Model/CtorJson.v on top of the threaded view of Model/CtorGetSet.v; [Pb_*] is the property on
   the observation from the declarative vocabulary only (selectable leaves, the accessor table, Go's method
   selection, explicit tags, the -tagcase transform). *)
From Coq Require Import String Ascii List Bool Arith NArith ZArith.
From Shoot Require Import Base.Str Base.GoVal Model.Transfer Model.CtorDirective Model.Ctor Model.CtorSpec Model.CtorOpt
                          Model.CtorGetSet Model.CtorJson.
From Shoot Require Import Corr.CtorCorr Corr.CtorGetSetCorr.
Import ListNotations.
Local Open Scope string_scope.

Record jobs := {
  jo_name : ident;
  jo_status : N;                          (* 0 observed; 3 the generated code of the type does not type-check; 5 sibling errors / not observed; 6 T or NewT missing *)
  jo_has_json : bool;                     (* T declares MarshalJSON and UnmarshalJSON *)
  jo_shadow : list (string * string * string);   (* fields of _json_T: Go name, printed type, tag text *)
  jo_err : bool;                          (* Marshal / Unmarshal returned an error or panicked *)
  jo_keys : list (string * string);       (* members of json.Marshal(v), in order: key, raw JSON *)
  jo_leaves : list (path * string);       (* raw JSON of every leaf of v = NewT(sentinels) *)
  jo_zeros : list (path * string);        (* raw JSON of the zero value of every leaf's type *)
  jo_before : list (path * string);       (* leaves of w = NewT(other sentinels) *)
  jo_after : list (path * string)         (* leaves of w after json.Unmarshal(json.Marshal(v), w) *)
}.

Record jcase := {
  jc_pkg : pkg_spec; jc_flags : ctor_flags; jc_fuel : nat;
  jc_order : list ident; jc_status : N;
  jc_structs : list jobs
}.

Definition triple_eqb (a b : string * string * string) : bool :=
  String.eqb (fst (fst a)) (fst (fst b)) && String.eqb (snd (fst a)) (snd (fst b)) && String.eqb (snd a) (snd b).

(* ---------------------------------------------------------------- the model *)
Definition jtok (zeros : list (path * string)) (p : option path) (r : res val) : string :=
  match r with
  | Ok (VS t) => t
  | Ok VZero => match p with
                | Some q => match passoc q zeros with Some z => z | None => "<no-zero-probe>" end
                | None => "<no-path>" end
  | Ok _ => "<not-a-leaf>"
  | Panic => "nilhop"
  | Stuck => "<stuck>"
  end.

(* the value the oracle read, rebuilt: a leaf whose raw JSON is the raw JSON of its type's zero value is the zero value
   (VZero), any other leaf holds its token; embedded pointers are allocated (NewT) *)
Fixpoint jobs_value (pkg : pkg_spec) (fuel : nat) (zeros reads : list (path * string)) (si : sinst) (pre : path) : val :=
  VStruct (map (fun tf : tfield => let '(n, ft, emb) := tf in
    (n, match (if emb then struct_of pkg ft else None) with
        | Some si' =>
            match fuel with
            | O => VZero
            | S fuel' => let x := jobs_value pkg fuel' zeros reads si' (pre ++ [n])%list in
                         if is_ptr_ty ft then VPtr x else x
            end
        | None => match passoc (pre ++ [n])%list reads, passoc (pre ++ [n])%list zeros with
                  | Some t, Some z => if String.eqb t z then VZero else VS t
                  | Some t, None => VS t
                  | None, _ => VZero end
        end)) (struct_fields si)).

Definition value_of (c : jcase) (sd : sdecl) (zeros reads : list (path * string)) : val :=
  VPtr (jobs_value (jc_pkg c) (jc_fuel c) zeros reads (self_inst sd) []).

Definition jleaves (c : jcase) (sd : sdecl) : list path := leaf_paths (jc_pkg c) (jc_fuel c) (self_inst sd) [].

Definition model_keys (c : jcase) (v : view) (sd : sdecl) (jd : json_data) (o : jobs) : option (list (string * string)) :=
  match marshal_fields (jc_pkg c) v (jc_fuel c) sd jd (value_of c sd (jo_zeros o) (jo_leaves o)) (jd_list jd) with
  | Ok fy => Some (map (fun p : ident * val =>
                          (json_key jd (fst p), jtok (jo_zeros o) (resolve (jc_pkg c) (jc_fuel c) sd (fst p)) (Ok (snd p))))
                       (filter (json_kept jd) fy))
  | _ => None
  end.

Definition model_after (c : jcase) (v : view) (sd : sdecl) (jd : json_data) (o : jobs) : option (list (path * string)) :=
  let kv := map (fun kr : string * string => (fst kr, VS (snd kr))) (jo_keys o) in
  match unmarshal (jc_pkg c) v (jc_fuel c) sd jd kv (value_of c sd (jo_zeros o) (jo_before o)) with
  | Ok w => Some (map (fun p => (p, jtok (jo_zeros o) (Some p) (lookup w p))) (jleaves c sd))
  | _ => None
  end.

Definition pair_eqb (a b : string * string) : bool := String.eqb (fst a) (fst b) && String.eqb (snd a) (snd b).

Definition jstruct_agrees (c : jcase) (out : list (ident * gs_data * new_data)) (v : view) (o : jobs) : bool :=
  match find_struct (jc_pkg c) "" (jo_name o), find_out (jo_name o) out with
  | Some sd, Some (d, nd) =>
      match flatten (jc_pkg c) (jc_flags c) (jc_fuel c) sd with
      | COk (fields, _) =>
          let jd := make_json (jc_flags c) sd d fields in
          N.eqb (jo_status o) 0 &&
          Bool.eqb (jd_json jd) (jo_has_json o) &&
          list_eqb triple_eqb (shadow_struct nd jd) (jo_shadow o) &&
          (negb (jd_json jd) ||
           (negb (jo_err o) &&
            match model_keys c v sd jd o with Some ks => list_eqb pair_eqb ks (jo_keys o) | None => false end &&
            match model_after c v sd jd o with Some rs => reads_eqb rs (jo_after o) (fun t => t) | None => false end))
      | _ => false
      end
  | _, _ => false
  end.

Definition agree_js (c : jcase) : bool :=
  match run_getset (jc_pkg c) (jc_flags c) (jc_fuel c) (jc_order c) [] with
  | COk (out, v) => N.eqb (jc_status c) 0 && Nat.eqb (length (jc_structs c)) (length (jc_order c)) &&
                    forallb (jstruct_agrees c out v) (jc_structs c)
  | CFatal _ => N.eqb (jc_status c) 1
  | COutOfFuel => N.eqb (jc_status c) 2
  end.

(* ------------------------------------------- the property on the observation *)
Definition jstructs_of_order (c : jcase) : list sdecl :=
  flat_map (fun t => match find_struct (jc_pkg c) "" t with Some sd => [sd] | None => [] end) (jc_order c).

Definition jspec_view (c : jcase) : view := map (spec_entry (jc_flags c)) (jstructs_of_order c).

(* does *T have the accessor of the leaf at path p (own, or promoted), by Go's method selection over the
   declarative accessor tables; the JSON code of T uses getters (setters) only when T's type-level directive
   admits them (commit "new -json honours the type-level getter/setter directive") *)
Definition leaf_accessor (c : jcase) (sv : view) (sd : sdecl) (getter : bool) (p : path) : bool :=
  let n := last p "" in
  let m := if getter then getter_name n else setter_name n in
  match find_method (jc_pkg c) sv (jc_fuel c) (self_inst sd) m with
  | Some pm => mkind_eqb (gm_kind (snd pm)) (if getter then MGet else MSet) && path_eqb (accessor_path pm) p
  | None => false
  end.

Record leaf_spec := { ls_path : path; ls_key : string; ls_tag : string; ls_exp : bool; ls_get : bool; ls_set : bool }.

Definition leaf_specs (c : jcase) (sv : view) (sd : sdecl) : list leaf_spec :=
  map (fun p => {| ls_path := p; ls_key := spec_member (jc_pkg c) (jc_flags c) (jc_fuel c) sd p;
                   ls_tag := if fl_json (jc_flags c) then spec_tag (jc_pkg c) (jc_fuel c) sd p else "";
                   ls_exp := is_exported (last p "");
                   ls_get := negb (is_exported (last p "")) && fst (type_switch (jc_flags c) sd) && leaf_accessor c sv sd true p;
                   ls_set := negb (is_exported (last p "")) && snd (type_switch (jc_flags c) sd) && leaf_accessor c sv sd false p |})
      (selectable_leaves (jc_pkg c) (jc_fuel c) sd).

(* a field tagged json:"-" is no member and is not touched *)
Definition ls_dash (l : leaf_spec) : bool := String.eqb (ls_tag l) "-".
Definition ls_in_json (l : leaf_spec) : bool := negb (ls_dash l) && (ls_exp l || ls_get l || ls_set l).

(* "some field needs the JSON code": an accessor-backed unexported field, or an untagged exported field whose
   transformed name differs from its name *)
Definition needs_json (c : jcase) (sd : sdecl) (ls : list leaf_spec) : bool :=
  existsb (fun l => negb (ls_dash l) &&
                    if ls_exp l
                    then String.eqb (ls_tag l) "" && negb (String.eqb (ls_key l) (last (ls_path l) ""))
                    else ls_get l || ls_set l) ls.

(* an embedded selected struct of the closure has JSON code of its own: its MarshalJSON / UnmarshalJSON are promoted to a
   struct that has none (finding K_json_promoted_marshaler) *)
Definition embedded_has_json (c : jcase) (sd : sdecl) : bool :=
  existsb (fun e : ident * ty => match find (fun o => String.eqb (jo_name o) (fst e)) (jc_structs c) with
                                 | Some oe => jo_has_json oe | None => false end)
          (first_embedded (jc_pkg c) (jc_fuel c) sd).

Definition Pb_jstruct (c : jcase) (sv : view) (o : jobs) : bool :=
  match find_struct (jc_pkg c) "" (jo_name o) with
  | None => false
  | Some sd =>
      let ls := leaf_specs c sv sd in
      N.eqb (jo_status o) 0 &&
      (* a struct none of whose fields needs the JSON code: encoding/json's defaults must give the same members (the
         sentences below are evaluated all the same) -- unless an embedded struct's MarshalJSON is promoted to it *)
      if negb (needs_json c sd ls) &&
         (embedded_has_json c sd ||
          (* encoding/json's own dominance rule works on member names, Go's on field names: with a shadowed leaf the
             defaults may list both fields; only shoot-generated code is judged there *)
          negb (Nat.eqb (length (selectable_leaves (jc_pkg c) (jc_fuel c) sd)) (length (jleaves c sd))))
      then true
      else
        (negb (needs_json c sd ls) || jo_has_json o) && negb (jo_err o) &&
        (* one key per exported field and per unexported field with an accessor, named by the explicit tag else the
           transformed name, in declaration order; the value: the field's (getter / exported), zero without a getter;
           a member with option omitempty is left out when its value is zero *)
        list_eqb pair_eqb (jo_keys o)
          (flat_map (fun l =>
                       let tok := match passoc (ls_path l) (if ls_exp l || ls_get l then jo_leaves o else jo_zeros o) with
                                  | Some t => t | None => "<no-read>" end in
                       let zero := match passoc (ls_path l) (jo_zeros o) with Some z => z | None => "<no-zero>" end in
                       if tag_omitempty (ls_tag l) && String.eqb tok zero then [] else [(ls_key l, tok)])
                    (filter ls_in_json ls)) &&
        (* Unmarshal(Marshal v) into w: exported fields and fields with both accessors hold v's value, a setter
           without getter gives zero, everything else in w (incl. fields tagged "-") is untouched *)
        Nat.eqb (length (jo_after o)) (length (jleaves c sd)) &&
        forallb (fun p =>
           match passoc p (jo_after o) with
           | None => false
           | Some a =>
               let expected :=
                 match find (fun l => path_eqb (ls_path l) p) ls with
                 | Some l => if ls_dash l then passoc p (jo_before o)
                             else if negb (needs_json c sd ls) && tag_omitempty (ls_tag l) &&
                                     (match passoc p (jo_leaves o), passoc p (jo_zeros o) with
                                      | Some t, Some z => String.eqb t z | _, _ => false end)
                             (* no JSON code and the member left out (omitempty, v's field zero): encoding/json's own
                                decoder leaves w's field alone (the generated code would assign the zero of its fresh
                                shadow struct); into a zero w both give v's value *)
                             then passoc p (jo_before o)
                             else if ls_exp l || (ls_get l && ls_set l) then passoc p (jo_leaves o)
                             else if ls_set l then passoc p (jo_zeros o)
                             else passoc p (jo_before o)
                 | None => passoc p (jo_before o)
                 end in
               match expected with Some e => String.eqb a e | None => false end
           end) (jleaves c sd)
  end.

Definition jany_directive_on_exported (c : jcase) : bool :=
  fl_getset (jc_flags c) && existsb directive_on_exported (jstructs_of_order c).

Definition Pb_js (c : jcase) : bool :=
  if jany_directive_on_exported c then N.eqb (jc_status c) 1
  else N.eqb (jc_status c) 0 && Nat.eqb (length (jc_structs c)) (length (jc_order c)) &&
       (let sv := jspec_view c in forallb (Pb_jstruct c sv) (jc_structs c)).

(* member names distinct under case folding, non-empty *)
Definition spec_keys_ok (ls : list leaf_spec) : bool :=
  let ks := map (fun l => lower (ls_key l)) (filter ls_in_json ls) in
  nodup_str ks && forallb (fun k => negb (String.eqb k "")) ks.

Definition before_in (l : list ident) (a b : ident) : bool :=
  match index_str a l 0, index_str b l 0 with Some i, Some j => Nat.ltb i j | _, _ => false end.

(* every selected embedded struct of the closure precedes the struct in the order: the view is complete when the
   struct is analysed (the dependence on the order is C03's subject, finding K_embed_order) *)
Definition complete_view (c : jcase) (sd : sdecl) : bool :=
  forallb (fun e : ident * ty =>
             negb (existsb (String.eqb (fst e)) (jc_order c)) || before_in (jc_order c) (fst e) (sd_name sd))
          (first_embedded (jc_pkg c) (jc_fuel c) sd).

(* the accessor Go selects on *T for the NAME Pascal(f) / Set+Pascal(f) of a selected unexported leaf f is an accessor
   of f itself -- makeJson looks accessors up by name only (finding K_json_accessor_by_name: an own field without setter
   next to an embedded struct that promotes a setter of the same name for ITS field) *)
Definition by_name_ok (c : jcase) (sv : view) (sd : sdecl) : bool :=
  forallb (fun p =>
     let n := last p "" in
     is_exported n ||
     forallb (fun getter : bool =>
        let on := if getter then fst (type_switch (jc_flags c) sd) else snd (type_switch (jc_flags c) sd) in
        negb on ||
        match find_method (jc_pkg c) sv (jc_fuel c) (self_inst sd) (if getter then getter_name n else setter_name n) with
        | Some pm => negb (mkind_eqb (gm_kind (snd pm)) (if getter then MGet else MSet)) || path_eqb (accessor_path pm) p
        | None => true
        end) [true; false])
    (selectable_leaves (jc_pkg c) (jc_fuel c) sd).

(* Fifth bank: the guard of the CORRESPONDENCE is wider than the guard of the theorems by one class.  own_names_fresh
   (finding K_getset_once_shadow: an own field declared after an embedded struct that carries its name gets no accessors)
   is about accessor fields; an EXPORTED own field has no accessors, Go selects it (depth 0) over every promoted field of
   that name and the JSON code must list it once.  Such structs are judged by Pb (and compared with the model) although
   C11_key_names / C11_round_trip do not cover them: own_first_x is own_first with exported names exempt. *)
Fixpoint own_first_x (pkg : pkg_spec) (fuel : nat) (fds : list fdecl) (seen : list ident) : bool :=
  match fds with
  | [] => true
  | fd :: r =>
      match fd_names fd with
      | [] => own_first_x pkg fuel r (names_below pkg fuel (fd_ty fd) ++ seen)%list
      | ns => forallb (fun n => is_exported n || negb (existsb (String.eqb n) seen)) ns && own_first_x pkg fuel r seen
      end
  end.

Definition c11_guard_x (pkg : pkg_spec) (fl : ctor_flags) (fuel : nat) (sd : sdecl) : bool :=
  c02_guard pkg fuel sd && no_excluded_fields sd && own_first_x pkg fuel (sd_fields sd) [] &&
  embedded_names_fresh pkg fuel sd && accessor_fields_ok fl sd && accessor_names_free fl sd &&
  no_promoted_json_tags pkg fuel sd && plain_json_tags sd.

Definition guard_js (c : jcase) : bool :=
  nodup_str (jc_order c) &&
  Nat.eqb (length (jstructs_of_order c)) (length (jc_order c)) &&
  (let sv := jspec_view c in
   forallb (fun sd => (c11_guard (jc_pkg c) (jc_flags c) (jc_fuel c) sd ||
                       c11_guard_x (jc_pkg c) (jc_flags c) (jc_fuel c) sd) &&
                      accessors_visible (jc_pkg c) sv (jc_fuel c) sd &&
                      not_self_embedded (jc_pkg c) (jc_fuel c) sd &&
                      complete_view c sd && by_name_ok c sv sd &&
                      spec_keys_ok (leaf_specs c sv sd)) (jstructs_of_order c)).

(* member names that collide under case folding (computed from what go/types shows of the shadow struct):
   encoding/json silently drops such fields; that behaviour is not modelled *)
Definition shadow_keys_collide (o : jobs) : bool :=
  negb (nodup_str (map (fun r : string * string * string => lower (snd r)) (jo_shadow o))).

(* the hypotheses of the round-trip theorem, evaluated on the model's output for every struct with JSON code *)
Definition aligned_js (c : jcase) : bool :=
  match run_getset (jc_pkg c) (jc_flags c) (jc_fuel c) (jc_order c) [] with
  | COk (out, v) =>
      forallb (fun t => match find_struct (jc_pkg c) "" t, find_out t out with
                        | Some sd, Some (d, nd) =>
                            match flatten (jc_pkg c) (jc_flags c) (jc_fuel c) sd with
                            | COk (fields, _) =>
                                let jd := make_json (jc_flags c) sd d fields in
                                negb (jd_json jd) || (json_aligned (jc_pkg c) v (jc_fuel c) sd jd && json_keys_ok jd)
                            | _ => true end
                        | _, _ => true end) (jc_order c)
  | _ => true
  end.

(* verdicts as in CtorGetSetCorr *)
(* verdicts: 0 agree and the property holds; 1 model and implementation differ; 2 inside the guard and the property fails
   on the observation -- or the hypotheses of the round-trip theorem (json_aligned, json_keys_ok) FAIL on the model's
   output: the JSON code would call an accessor of another field; 3 outside the guard; 4 harness error *)
Definition jverdict (c : jcase) : N :=
  if guard_js c then
    if aligned_js c then (if Pb_js c then (if agree_js c then 0%N else 1%N) else 2%N) else 2%N
  else if existsb (fun o => negb (N.eqb (jo_status o) 0)) (jc_structs c) || existsb shadow_keys_collide (jc_structs c) ||
          agree_js c then 3%N else 1%N.

(* for the evidence: which in-guard packages fail the alignment check (expected: none) *)
Definition aligned_failures (cs : list jcase) : list bool := map (fun c => guard_js c && negb (aligned_js c)) cs.

Fixpoint jmismatches_from (i : N) (cs : list jcase) : list (N * N) :=
  match cs with
  | [] => []
  | c :: cs' =>
      let v := jverdict c in
      if N.eqb v 0 then jmismatches_from (N.succ i) cs'
      else (i, v) :: jmismatches_from (N.succ i) cs'
  end.
Definition jmismatches := jmismatches_from 0%N.
