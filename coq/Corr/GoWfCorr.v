(* C01 correspondence: what one shoot run wrote into a package (observed with
   harness/go/cmd/declsig, gofmt -l and go build) against Model/GoWf.v.

   A case carries the package as it was before the run (declared names and
   struct fields of all files, earlier outputs included), the template data of
   every type the run generated for (computed from the spec by the generator
   models where they exist), and what was observed afterwards. *)
From Coq Require Import String Ascii List Bool NArith.
From Shoot Require Import Base.Str Model.Transfer Model.GoWf Model.Enum.
From Shoot Require Model.Ctor Model.CtorSpec Model.CtorOpt Model.CtorGetSet Model.CtorJson Model.MapperSpec Corr.MapperCorr Model.RestSpec.
Import ListNotations.
Local Open Scope string_scope.
Local Open Scope list_scope.

Inductive gdata :=
| GNew (d : new_data)
| GEnumData (d : enum_data)
| GEnumSpec (p : Enum.pkg) (T : string) (fl : Enum.flags)   (* data computed by Model/Enum.v *)
| GRest (d : rest_data)
| GMap (d : map_data)
(* `new` on struct T of a Model/Ctor.v package: template data computed by Ctor.new_of / CtorOpt
   when only -opt/-short are given; with -getset/-json only the guard is computed (no skeleton yet) *)
| GNewSpec (p : Ctor.pkg_spec) (fl : Ctor.ctor_flags) (fuel : nat) (T : string)
(* `map`: the pair specification decides the guard (Model/MapperSpec.v pair_guard) *)
| GMapSpec (ps : MapperCorr.pairspec) (d : map_data)
(* `rest`: the structured directives of the interface's methods decide the guard (Model/RestSpec.v wf_mspec) *)
| GRestSpec (mss : list RestSpec.mspec) (d : rest_data)
(* no model of the declared names: only the property itself is evaluated *)
| GOpaque.

Record ofile := {
  of_header : string;
  of_pkg : string;
  of_tops : list string;
  of_meths : list (string * string)
}.

Record case := {
  c_pkg : string;
  c_hand_tops : list string;
  c_hand_meths : list (string * string);
  c_fields : list (string * string);
  c_args : list string;            (* the command line after `shoot` *)
  c_data : list gdata;
  c_bit_fixed : bool;              (* measured: K_bit_map no longer reproduces *)
  c_exit0 : bool;
  c_abnormal : bool;               (* the run panicked or had to be killed by the timeout *)
  c_files : list ofile;            (* the files the run wrote *)
  c_gofmt : bool;
  c_build : bool
}.

Definition keys_of (tops : list string) (meths : list (string * string)) : list key :=
  map KTop tops ++ map (fun rm => KMeth (fst rm) (snd rm)) meths.

Definition enum_data_of (g : Enum.gen) : enum_data :=
  {| ed_type := g_type g; ed_names := g_names g;
     ed_bit := f_bit (g_flags g); ed_json := f_json (g_flags g); ed_text := f_text (g_flags g);
     ed_sql := f_sql (g_flags g); ed_gorm := f_gorm (g_flags g) |}.

Definition ctor_struct (p : Ctor.pkg_spec) (T : string) : option Ctor.sdecl := Ctor.find_struct p "" T.

Definition ctor_plainish (fl : Ctor.ctor_flags) : bool :=
  negb (Ctor.fl_getset fl) && negb (Ctor.fl_json fl).

Definition new_data_of (fl : Ctor.ctor_flags) (T : string) (nd : Ctor.new_data) : new_data :=
  {| nd_type := T; nd_all := Ctor.nd_all nd; nd_defaults := Ctor.nd_def_list nd;
     nd_getters := []; nd_setters := []; nd_get_ifaces := []; nd_set_ifaces := [];
     nd_getset := false; nd_opt := Ctor.fl_opt fl; nd_short := Ctor.fl_short fl; nd_json := false |}.

(* the input classes of the theorems' guards (and of the open findings of the generator's own checks) *)
Definition data_in_guard (d : gdata) : bool :=
  match d with
  | GNewSpec p fl fuel T =>
      match ctor_struct p T with
      | Some sd =>
          (if Ctor.fl_opt fl then CtorOpt.c13_guard (Ctor.fl_short fl) p fuel sd
           else CtorSpec.c02_guard p fuel sd && (ctor_plainish fl || CtorOpt.not_generic sd))
          && (if Ctor.fl_json fl then CtorJson.c11_guard p fl fuel sd
              else if Ctor.fl_getset fl then CtorGetSet.c03_guard p fl fuel sd else true)
      | None => false
      end
  | GMapSpec ps _ => MapperSpec.pair_guard (MapperCorr.ps_env ps) (MapperCorr.ps_fuel ps) (MapperCorr.ps_jobs ps)
  | GRestSpec mss _ => forallb RestSpec.wf_mspec mss
  | _ => true
  end.

(* is there a skeleton (declared names) to compare with? *)
Definition data_has_skeleton (d : gdata) : bool :=
  match d with
  | GNewSpec _ fl _ _ => ctor_plainish fl
  | GOpaque => false
  | _ => true
  end.

(* the model's files for the run (header/version are compared separately) *)
Definition model_file (c : case) (d : gdata) : list gfile :=
  let cmd := cmdline (c_args c) in
  match d with
  | GNew d => [new_file (c_pkg c) cmd "" d]
  | GEnumData d => [enum_file (c_bit_fixed c) (c_pkg c) cmd "" d]
  | GEnumSpec p T fl =>
      match Enum.generate p T fl with
      | Some g => [enum_file (c_bit_fixed c) (c_pkg c) cmd "" (enum_data_of g)]
      | None => []          (* a type without constants: silently skipped *)
      end
  | GRest d => [rest_file (c_pkg c) cmd "" d]
  | GMap d => [map_file (c_pkg c) cmd "" d]
  | GMapSpec _ d => [map_file (c_pkg c) cmd "" d]
  | GRestSpec _ d => [rest_file (c_pkg c) cmd "" d]
  | GNewSpec p fl fuel T =>
      match ctor_struct p T with
      | Some sd =>
          match Ctor.new_of p fl fuel sd with
          | Ctor.COk nd => [new_file (c_pkg c) cmd "" (new_data_of fl T nd)]
          | _ => []
          end
      | None => []
      end
  | GOpaque => []
  end.

Definition model_files (c : case) : list gfile := flat_map (model_file c) (c_data c).
Definition case_in_guard (c : case) : bool := forallb data_in_guard (c_data c).
Definition case_has_skeleton (c : case) : bool := forallb data_has_skeleton (c_data c).

Definition subsetb (a b : list key) : bool := forallb (fun k => memb k b) a.
Definition same_keys (a b : list key) : bool := subsetb a b && subsetb b a.

Definition obs_defs (c : case) : list key :=
  flat_map (fun f => keys_of (of_tops f) (of_meths f)) (c_files c).

(* header: prefix up to and including the command line, as the model builds it *)
Definition header_prefix (c : case) : string :=
  "// Code generated by """ +++ cmdline (c_args c) +++ """; DO NOT EDIT.".

Definition model_wf (c : case) : bool :=
  wf (c_pkg c) (keys_of (c_hand_tops c) (c_hand_meths c)) (c_fields c) (model_files c).

(* 1 .. : which component of the correspondence differs (0 = none) *)
Definition corr_component (c : case) : N :=
  if case_has_skeleton c && negb (same_keys (obs_defs c) (flat_map gf_defs (model_files c))) then 1%N
  else if negb (forallb (fun f => String.prefix (header_prefix c) (of_header f)) (c_files c)) then 2%N
  else if case_has_skeleton c && negb (Bool.eqb (model_wf c) (c_build c)) then 3%N
  else 0%N.

(* the property, on what the implementation did, for an input inside the feature set: the run exits 0
   (no panic, no timeout) and left gofmt-clean files with the header, in the package's namespace, that
   compile with the package *)
Definition Pb (c : case) : bool :=
  c_exit0 c && negb (c_abnormal c)
  && forallb (fun f => header_ok (of_header f) && String.eqb (of_pkg f) (c_pkg c)) (c_files c)
  && c_gofmt c && c_build c.

(* verdict (kind, component):
   0      agrees
   1 k    the property holds on the observation but correspondence component k differs
   2 k    the property fails on the observation of an input inside all guards: a concrete failing input
   8 1    the property fails on an input OUTSIDE the input class of the generator's own theorems (classes of
          open findings of the other properties): excused by the harness only while an open finding that
          lists C01 reproduces for that subcommand, counted, otherwise a violation
   8 2    the property fails and the hypotheses of the C01 theorems fail on this input: the names the
          (possibly partial) skeleton declares collide with each other or with the hand-written package
          (open findings K_opt_short_collision, K_ctor_method_name_collision, K_rest_unexported_iface):
          excused only while one of those reproduces, counted
   9 1    outside the generator guards, property holds: not compared further, counted *)
(* which data entries (types of the run, in order) are inside their generator's guard: bit i = entry i *)
Fixpoint guard_mask (ds : list gdata) (bit : N) : N :=
  match ds with
  | [] => 0%N
  | d :: r => ((if data_in_guard d then bit else 0) + guard_mask r (bit * 2))%N
  end.

Definition verdict (c : case) : N * N :=
  if negb (case_in_guard c) then (if Pb c then (9%N, 1%N) else (8%N, (1 + 10 * guard_mask (c_data c) 1)%N))
  else if negb (Pb c) then
    (if negb (model_wf c) && c_exit0 c && negb (c_abnormal c) && negb (c_build c) then (8%N, 2%N)
     else (2%N, corr_component c))
  else match corr_component c with 0%N => (0%N, 0%N) | k => (1%N, k) end.

Fixpoint mismatches_from (i : N) (cs : list case) : list (N * N) :=
  match cs with
  | [] => []
  | c :: r =>
      let v := verdict c in
      match fst v with
      | 0%N => mismatches_from (N.succ i) r
      | k => (i, (k + 10 * snd v)%N) :: mismatches_from (N.succ i) r
      end
  end.
Definition mismatches := mismatches_from 0%N.
