(* Correspondence for the stack layer of C20 (Model/RetryStack.v): the harness drives a REAL stack
   RetryMiddleware(outer) . RetryMiddleware(n) . [LoggingMiddleware] . RetryMiddleware(inner) over a
   scripted wire transport and records what came out and how often the wire was called; [sverdict]
   recomputes the same stack in the model and compares. *)
From Coq Require Import List ZArith Bool NArith.
From Shoot Require Import Model.Retry Model.RetryStack Corr.RetryCorr.
Import ListNotations.

Record scase := {
  s_outer : option Z; s_n : Z; s_login : bool; s_inner : option Z;
  s_script : list rt_out; s_obs : obs }.

Definition stack_of (c : scase) : tr :=
  let w := wire (script_of (s_script c) (RErr 0 None)) in
  let t1 := match s_inner c with Some k => retry_tr k w | None => w end in
  let t2 := if s_login c then log_tr t1 else t1 in
  let t3 := retry_tr (s_n c) t2 in
  match s_outer c with Some k => retry_tr k t3 | None => t3 end.

Definition stack_obs (c : scase) : obs :=
  let '(ev, (r, e), _) := stack_of c 0 in
  {| o_calls := calls ev; o_resp := option_map r_id r; o_err := e; o_sleeps := sleeps ev |}.

Definition sverdict (c : scase) : N :=
  if obs_eqb (stack_obs c) (s_obs c) then 0%N else 1%N.

Fixpoint smismatches_from (i : N) (cs : list scase) : list (N * N) :=
  match cs with
  | [] => []
  | c :: cs' =>
      let v := sverdict c in
      if N.eqb v 0 then smismatches_from (N.succ i) cs'
      else (i, v) :: smismatches_from (N.succ i) cs'
  end.
Definition smismatches := smismatches_from 0%N.
