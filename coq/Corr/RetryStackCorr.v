(* Correspondence for the stack layer of C20 (Model/RetryStack.v): the harness drives a REAL stack
   RetryMiddleware(outer) . RetryMiddleware(n) . [LoggingMiddleware] . RetryMiddleware(inner) over a
   scripted wire transport and records what came out and how often the wire was called; [sverdict]
   recomputes the same stack in the model and compares. *)
From Coq Require Import List ZArith Bool NArith.
From Shoot Require Import Model.Retry Model.RetryStack Model.ChainSem Corr.RetryCorr.
Import ListNotations.

Record scase := {
  s_via : bool;        (* assembled by shoot.Use options + RestConf.BuildMiddleware (else by hand) *)
  s_logout : bool;     (* LoggingMiddleware outside everything (RestConf: EnableLogging(true)) *)
  s_outer : option Z; s_n : Z; s_login : bool; s_inner : option Z;
  s_script : list rt_out; s_obs : obs }.

Definition stack_of (c : scase) : tr :=
  let w := wire (script_of (s_script c) (RErr 0 None)) in
  let t1 := match s_inner c with Some k => retry_tr k w | None => w end in
  let t2 := if s_login c then log_tr t1 else t1 in
  let t3 := retry_tr (s_n c) t2 in
  let t4 := match s_outer c with Some k => retry_tr k t3 | None => t3 end in
  if s_logout c then log_tr t4 else t4.

(* the same stack as BuildMiddleware assembles it: the literal reverse loop of Model/ChainSem.v over
   the middlewares in the order they were added with Use (logging inside is not expressible there) *)
Definition opt_list (o : option Z) : list Z := match o with Some k => [k] | None => [] end.
Definition chain_of (c : scase) : tr :=
  retry_chain (opt_list (s_outer c) ++ [s_n c] ++ opt_list (s_inner c)) (s_logout c)
              (wire (script_of (s_script c) (RErr 0 None))).

Definition stack_obs (c : scase) : obs :=
  let '(ev, (r, e), _) := (if s_via c then chain_of c else stack_of c) 0 in
  {| o_calls := calls ev; o_resp := option_map r_id r; o_err := e; o_sleeps := sleeps ev |}.

Definition sverdict (c : scase) : N :=
  if obs_eqb (stack_obs c) (s_obs c) then 0%N else 1%N.

Fixpoint smismatches_from (i : N) (cs : list scase) : list (N * N) :=
  match cs with
  | [] => []
  | c :: cs' =>
      let v := sverdict c in
      if N.eqb v 0 then smismatches_from (N.succ i) cs'
      else (i, v) :: smismatches_from (N.succ i) cs'
  end.
Definition smismatches := smismatches_from 0%N.
