(* Correspondence for C18.  The harness renders an [input] of Model/Fail.v as a
   Go package + command line + directory state, runs the freshly built shoot
   binary on it and records what happened ([obs]).  [verdict] recomputes the
   model's prediction and compares; it also evaluates the property itself
   ([Pb]) on the observation.

   Three kinds of cases:
     - exact: the model predicts exit status, diagnostic class, whether the
       directory changed and (on exit 0) which entries changed;
     - uncertain render: for the listed type names the outcome of
       text/template + goimports + gofmt is not known to the harness (ill-typed
       fields, keyword-like names, -raw): the observation must agree with the
       model for SOME value of the oracle;
     - opaque: the package is syntactically damaged (token deletion) and has
       no model input: only Pb is evaluated (packages.Load on broken input is
       not modelled). *)
From Coq Require Import List String Bool Arith NArith.
From Shoot Require Import Base.Str Model.Fail.
Import ListNotations.
Local Open Scope string_scope.

Record obs := {
  o_exit : nat;              (* exit status (124 when killed by the harness timeout) *)
  o_diag : diag;             (* class of the last diagnostic line (DOther: unclassified) *)
  o_hasdiag : bool;          (* something was printed *)
  o_panic : bool;            (* stderr contains `panic:` or `goroutine ` *)
  o_timeout : bool;
  o_changed : bool;          (* recursive hash of the whole scratch module differs *)
  o_files : list string      (* entries of the package directory that were created, modified or deleted (sorted) *)
}.

Inductive ckind :=
| KModel (i : input) (uncertain : list string)
| KFault (i : input) (k : nat)          (* the k-th fallible system call of the write/cleanup phases was made to fail *)
| KOpaque.

Record case := { c_kind : ckind; c_obs : obs }.

(* ---------------------------------------------------------------- Pb *)

(* C18 on one observation: terminates with exit status 0, 1 or 2 and a
   diagnostic, no Go runtime panic, and a non-zero exit changed nothing *)
Definition Pb (o : obs) : bool :=
  negb (o_timeout o) && negb (o_panic o) &&
  (Nat.eqb (o_exit o) 0 || Nat.eqb (o_exit o) 1 || Nat.eqb (o_exit o) 2) &&
  (Nat.eqb (o_exit o) 0 || (o_hasdiag o && negb (o_changed o))).

(* ------------------------------------------------- model observation *)

Definition entry_eqb (a b : entry) : bool :=
  match a, b with
  | EFile x, EFile y => x =? y
  | EDir, EDir => true
  | EDangling, EDangling => true
  | _, _ => false
  end.

Definition opt_entry_eqb (a b : option entry) : bool :=
  match a, b with
  | Some x, Some y => entry_eqb x y
  | None, None => true
  | _, _ => false
  end.

Definition changed_names (before after : list (string * entry)) : list string :=
  sort_names (dedup (filter (fun n => negb (opt_entry_eqb (assoc n before) (assoc n after)))
                            (map fst before ++ map fst after)%list)).

Definition diag_eqb (a b : diag) : bool :=
  match a, b with
  | DVersion, DVersion | DHelp, DHelp | DSuccess, DSuccess | DNothing, DNothing
  | DUsageNoArgs, DUsageNoArgs | DUsageUnknownSub, DUsageUnknownSub | DTopFlag, DTopFlag
  | DUsageNoSubArgs, DUsageNoSubArgs | DFlagError, DFlagError | DUsageNoTypeNoFile, DUsageNoTypeNoFile
  | DWorkDir, DWorkDir | DFileNotGo, DFileNotGo | DFileNotExists, DFileNotExists
  | DGormNeedsSql, DGormNeedsSql | DToNeedsType, DToNeedsType | DToAlign, DToAlign | DDestDir, DDestDir
  | DLoadError, DLoadError | DNoPackage, DNoPackage | DMultiPkg, DMultiPkg | DNotInFile, DNotInFile
  | DNewNotExists, DNewNotExists | DNewNotStruct, DNewNotStruct | DNewExportedGetSet, DNewExportedGetSet
  | DEnumAlias, DEnumAlias | DEnumNonInt, DEnumNonInt | DEnumNotIntValue, DEnumNotIntValue
  | DRestNotExists, DRestNotExists | DRestParamType, DRestParamType | DRestAmbiguousBody, DRestAmbiguousBody
  | DRestBadPath, DRestBadPath | DRestFewResults, DRestFewResults | DRestManyResults, DRestManyResults
  | DRestSecondToLast, DRestSecondToLast | DRestLast, DRestLast | DRestNamedResults, DRestNamedResults
  | DRestReturnType, DRestReturnType | DRestExtract, DRestExtract | DRestArrayReturn, DRestArrayReturn
  | DEnumNotExists, DEnumNotExists | DDupOutput, DDupOutput
  | DRestAmbiguousQuery, DRestAmbiguousQuery | DRestNeedsBody, DRestNeedsBody
  | DRestUnnamedParam, DRestUnnamedParam | DRestPtrPathParam, DRestPtrPathParam
  | DMapSrcNotExists, DMapSrcNotExists | DMapDestNotExists, DMapDestNotExists | DMapPtrRecv, DMapPtrRecv
  | DMapWriteParam, DMapWriteParam | DMapDupWrite, DMapDupWrite | DMapReadParam, DMapReadParam
  | DMapDupRead, DMapDupRead
  | DExecTemplate, DExecTemplate | DFormatSource, DFormatSource | DMergeSources, DMergeSources
  | DCreateTemp, DCreateTemp | DWriteTemp, DWriteTemp | DRename, DRename | DCleanError, DCleanError
  | DOther, DOther => true
  | _, _ => false
  end.

(* diagnostics the harness cannot tell apart from the output: both print the
   same usage text *)
Definition diag_norm (d : diag) : diag :=
  match d with
  | DUsageUnknownSub => DUsageNoArgs
  | DUsageNoTypeNoFile => DUsageNoSubArgs
  | _ => d
  end.

(* what the model predicts for an input (map order = insertion order, no I/O fault) *)
Definition fail_at (k : nat) (n : nat) : bool := negb (Nat.eqb n k).

Definition model_obs_io (io : nat -> bool) (i : input) : obs :=
  let '(s, w) := run id_order io i in
  let names := changed_names (i_extra i) (w_dir w) in
  let changed := match names with [] => false | _ => true end in
  match s with
  | Exit d => {| o_exit := exit_code d; o_diag := d; o_hasdiag := true; o_panic := false; o_timeout := false;
                 o_changed := changed; o_files := names |}
  | Panic _ => {| o_exit := 2; o_diag := DOther; o_hasdiag := true; o_panic := true; o_timeout := false;
                  o_changed := changed; o_files := names |}
  | Diverge _ => {| o_exit := 124; o_diag := DOther; o_hasdiag := false; o_panic := false; o_timeout := true;
                    o_changed := changed; o_files := names |}
  end.

Definition model_obs (i : input) : obs := model_obs_io no_fault i.

Fixpoint list_eqb (a b : list string) : bool :=
  match a, b with
  | [], [] => true
  | x :: a', y :: b' => (x =? y) && list_eqb a' b'
  | _, _ => false
  end.

(* Which components are compared: after a timeout only the timeout itself;
   after a panic the panic and the change flag; otherwise exit status,
   diagnostic class and change flag, and on exit 0 also the set of changed
   entries.  (On a non-zero exit after a partial write the set of written
   files depends on Go's map iteration order and is not compared.) *)
Definition obs_agree (m o : obs) : bool :=
  if o_timeout m then o_timeout o || o_panic o      (* unbounded recursion: killed by the timeout or by Go's stack limit *)
  else if o_timeout o then false
  else if o_panic m || o_panic o then o_panic m && o_panic o && Bool.eqb (o_changed m) (o_changed o)
  else Nat.eqb (o_exit m) (o_exit o) && diag_eqb (diag_norm (o_diag m)) (diag_norm (o_diag o)) &&
       Bool.eqb (o_changed m) (o_changed o) &&
       (negb (Nat.eqb (o_exit m) 0) || list_eqb (o_files m) (o_files o)).

(* all assignments of a render class to the uncertain type names *)
Fixpoint assignments (names : list string) : list (list (string * rclass)) :=
  match names with
  | [] => [[]]
  | n :: r =>
      flat_map (fun a => [(n, ROk) :: a; (n, RFormatErr) :: a; (n, RExecErr) :: a]) (assignments r)
  end.

Definition with_oracle (i : input) (a : list (string * rclass)) (m : bool) : input :=
  {| i_args := i_args i; i_pkgdirs := i_pkgdirs i; i_inmodule := i_inmodule i; i_files := i_files i;
     i_extra := i_extra i; i_dests := i_dests i; i_render := (a ++ i_render i)%list; i_merge_ok := m;
     i_foreign := i_foreign i |}.

Definition agrees (i : input) (uncertain : list string) (o : obs) : bool :=
  match uncertain with
  | [] => obs_agree (model_obs i) o
  | _ => existsb (fun a => obs_agree (model_obs (with_oracle i a true)) o ||
                           obs_agree (model_obs (with_oracle i a false)) o) (assignments uncertain)
  end.

(* 0 = agrees, 1 = model and implementation differ although the property holds on
   the observation, 2 = the property fails on the observation *)
Definition verdict (c : case) : N :=
  if negb (Pb (c_obs c)) then 2%N
  else match c_kind c with
       | KOpaque => 0%N
       | KModel i u => if agrees i u (c_obs c) then 0%N else 1%N
       | KFault i k => if obs_agree (model_obs_io (fail_at k) i) (c_obs c) then 0%N else 1%N
       end.

Fixpoint mismatches_from (k : N) (cs : list case) : list (N * N) :=
  match cs with
  | [] => []
  | c :: cs' =>
      let v := verdict c in
      if N.eqb v 0 then mismatches_from (N.succ k) cs'
      else (k, v) :: mismatches_from (N.succ k) cs'
  end.
Definition mismatches := mismatches_from 0%N.

(* for the replay of known findings: does the implementation do exactly what the
   (defect-reproducing) model predicts on this witness?  0 = yes, 1 = no *)
Definition matches_model (c : case) : N :=
  match c_kind c with
  | KModel i u => if agrees i u (c_obs c) then 0%N else 1%N
  | KFault i k => if obs_agree (model_obs_io (fail_at k) i) (c_obs c) then 0%N else 1%N
  | KOpaque => 1%N
  end.

(* the model's own prediction, printed into replay files *)
Definition predicted (i : input) : obs := model_obs i.

(* how much of a batch lies inside the guards of the theorems:
   (cases with a model input, of these input_ok, of these state_ok) *)
Definition guard_counts (cs : list case) : N * N * N :=
  fold_left (fun '(a, b, c) x =>
               match c_kind x with
               | KModel i _ => (N.succ a, if input_ok i then N.succ b else b,
                                if state_ok i then N.succ c else c)
               | _ => (a, b, c)
               end) cs (0%N, 0%N, 0%N).
