(* Correspondence for C17.

   Per case the harness records
     - the directory state before the run (name, inode id, content),
     - the projected strace trace of the run as a list of model operations
       (temp names, descriptor numbers, chunking and output order as observed),
     - the directory state after the run, the content of every pre-existing
       inode after the run (through hard links kept outside the package), the
       exit code and whether anything outside the package directory changed,
     - what the harness asked for: subcommand, whether Clean is active, whether
       Dir is ".", the expected selection (source file, type name) of outputs.
   File contents are canonicalised by the harness to  first line + digest  (an
   injective-up-to-SHA1 map that keeps the header Clean looks at).

   [verdict]: 2 = the property, evaluated on the observation alone ([Pb]),
   fails; 1 = the property holds on the observation but the model predicts
   something else; 0 = agreement. *)
From Coq Require Import String Ascii List Bool Arith NArith.
From Shoot Require Import Model.Fs.
Import ListNotations.
Local Open Scope string_scope.

Record finfo := { fi_name : name; fi_ino : nat; fi_bytes : bytes }.
(* af_ino: Some k = the pre-existing inode k, None = an inode created by this run *)
Record afile := { af_name : name; af_ino : option nat; af_bytes : bytes }.

Record case := {
  k_cmd : string;
  k_clean : bool;
  k_dirdot : bool;
  k_fixed : bool;                (* K_clean_own_output did not reproduce on this tree *)
  k_supfix : bool;               (* K_clean_not_superseded did not reproduce on this tree *)
  k_tags : list (bytes * list string);   (* per file content: the receivers of its marker methods ShootNew/... *)
  k_faultkind : nat;             (* 0: no failing call provoked; 1: a write fails (ENOSPC); 2: the rename fails
                                    (the output name is a directory) *)
  k_sel : list (string * string);
  k_expect_ok : bool;            (* the harness built a valid invocation: exit 0 expected *)
  k_before : list finfo;
  k_ops : list op;
  k_after : list afile;
  k_kept : list (nat * bytes);
  k_rc : nat;
  k_outside : bool
}.

Definition init_of (c : case) : fs :=
  mk_init (map (fun f => (fi_name f, fi_ino f, fi_bytes f)) (k_before c)).

(* ------------------------------------------------------------- small tools *)
Definition opt_bytes_eqb (a b : option bytes) : bool :=
  match a, b with Some x, Some y => String.eqb x y | None, None => true | _, _ => false end.
Definition opt_nat_eqb (a b : option nat) : bool :=
  match a, b with Some x, Some y => Nat.eqb x y | None, None => true | _, _ => false end.
Definition mem (n : name) (l : list name) : bool := existsb (String.eqb n) l.
Fixpoint dedup (l : list name) : list name :=
  match l with [] => [] | x :: r => if mem x r then dedup r else x :: dedup r end.
Fixpoint list_eqb {A} (e : A -> A -> bool) (a b : list A) : bool :=
  match a, b with
  | [], [] => true
  | x :: a', y :: b' => e x y && list_eqb e a' b'
  | _, _ => false
  end.
Definition op_eqb (a b : op) : bool :=
  match a, b with
  | CreateTemp h t, CreateTemp h' t' => Nat.eqb h h' && String.eqb t t'
  | Write h x, Write h' x' => Nat.eqb h h' && String.eqb x x'
  | Close h, Close h' => Nat.eqb h h'
  | Rename x y, Rename x' y' => String.eqb x x' && String.eqb y y'
  | Unlink x, Unlink x' => String.eqb x x'
  | ReadFirstLine x, ReadFirstLine x' => String.eqb x x'
  | OpenTrunc h x, OpenTrunc h' x' => Nat.eqb h h' && String.eqb x x'
  | Other x, Other x' => String.eqb x x'
  | _, _ => false
  end.

Definition after_lookup (c : case) (n : name) : option afile :=
  find (fun a => String.eqb (af_name a) n) (k_after c).
Definition after_visible (c : case) (n : name) : option bytes := option_map af_bytes (after_lookup c n).
Definition before_lookup (c : case) (n : name) : option finfo :=
  find (fun f => String.eqb (fi_name f) n) (k_before c).

Definition tags_in (tbl : list (bytes * list string)) (b : bytes) : list string :=
  match find (fun x => String.eqb (fst x) b) tbl with Some x => snd x | None => [] end.

(* all states reached: after 0, 1, ..., all operations *)
Fixpoint states (s : fs) (ops : list op) : list fs :=
  s :: match ops with [] => [] | o :: r => states (step s o) r end.

Definition names_of (c : case) : list name :=
  dedup (map fi_name (k_before c) ++ map af_name (k_after c))%list.

(* names an operation binds or unbinds *)
Definition op_names (o : op) : list name :=
  match o with
  | CreateTemp _ t => [t] | Rename a b => [a; b] | Unlink n => [n] | OpenTrunc _ n => [n]
  | _ => []
  end.

(* ---------------------------------------------------- the property, on obs *)
(* a leftover temporary of a run that did not terminate normally: .<expected output>_<digits> *)
Definition leftover_temp (c : case) (n : name) : bool :=
  negb (Nat.eqb (k_rc c) 0) &&
  existsb (fun gt => let e := file_name (k_cmd c) (fst gt) (snd gt) in
                     let p := "." ++ e ++ "_" in
                     sprefix p n && all_digits (sdrop (String.length p) n)
                     && negb (String.eqb (sdrop (String.length p) n) "")) (k_sel c).

(* the names the property speaks about: all names seen before or after the run, except a
   temporary that a run which did not terminate normally left behind *)
Definition obs_names (c : case) : list name := filter (fun n => negb (leftover_temp c n)) (names_of c).

(* every operation is one the model knows, and succeeds in the model too *)
Definition P_modelled (c : case) : bool := all_ok (init_of c) (k_ops c).

(* at every instant every name of the directory shows its complete content of
   before the run or its complete content of after the run (absent counts) *)
Definition P_atomic (c : case) : bool :=
  let i := init_of c in
  forallb (fun s =>
    forallb (fun n =>
      let v := visible s n in
      opt_bytes_eqb v (visible i n) || opt_bytes_eqb v (after_visible c n)) (obs_names c))
    (states i (k_ops c)).

(* an inode, once reachable under a name of the directory, is never written
   afterwards: a reader that opened the name keeps reading the same bytes *)
Definition P_stable (c : case) : bool :=
  let i := init_of c in
  let fin := exec i (k_ops c) in
  forallb (fun s =>
    forallb (fun n =>
      match lookup n (dir s) with
      | Some k => String.eqb (data s k) (data fin k)
      | None => true
      end) (obs_names c))
    (states i (k_ops c)).

(* names that exist only during the run (temporary files) are never Go files *)
Definition P_transient (c : case) : bool :=
  forallb (fun o =>
    forallb (fun n => mem n (names_of c) || negb (sprefix "og." (srev n))) (op_names o))
    (k_ops c).

Definition changed (c : case) (n : name) : bool :=
  match before_lookup c n, after_lookup c n with
  | Some b, Some a => negb (opt_nat_eqb (af_ino a) (Some (fi_ino b)) && String.eqb (af_bytes a) (fi_bytes b))
  | None, None => false
  | _, _ => true
  end.

(* the types of the files this run created or replaced *)
Definition covered_of (c : case) : list string :=
  flat_map (fun a => if changed c (af_name a) then tags_in (k_tags c) (af_bytes a) else []) (k_after c).

(* created or replaced names match the pattern; removed names match it, were
   generated by the same subcommand, are not all-in-one files, the run is an
   all-in-one run and it created or replaced at least one file (a run that
   generates nothing supersedes nothing) *)
Definition P_confined (c : case) : bool :=
  forallb (fun n =>
    negb (changed c n) || leftover_temp c n ||
    (glob (k_cmd c) n &&
     match before_lookup c n, after_lookup c n with
     | Some b, None => k_clean c && existsb (fun a => changed c (af_name a)) (k_after c)   (* something was generated *)
                       && is_gen (k_cmd c) (first_line (fi_bytes b))
                       && negb (is_aio (first_line (fi_bytes b)))
     | _, _ => true
     end)) (names_of c).

(* every pre-existing inode still holds its bytes (hard links keep the old content) *)
Definition P_kept (c : case) : bool :=
  forallb (fun f => match find (fun kb => Nat.eqb (fst kb) (fi_ino f)) (k_kept c) with
                    | Some kb => String.eqb (snd kb) (fi_bytes f)
                    | None => false
                    end) (k_before c).

(* a file disappears only once it is superseded: at every instant at which some name of
   the directory is gone, every name the run creates or replaces already shows its final
   content *)
Definition P_superseded (c : case) : bool :=
  let i := init_of c in
  let outs := filter (fun n => match after_lookup c n with Some _ => changed c n | None => false end) (obs_names c) in
  forallb (fun s =>
    negb (existsb (fun f => match lookup (fi_name f) (dir s) with None => true | Some _ => false end) (k_before c))
    || forallb (fun n => opt_bytes_eqb (visible s n) (after_visible c n)) outs)
    (states i (k_ops c)).

Definition Pb (c : case) : bool :=
  P_modelled c && P_atomic c && P_stable c && P_transient c && P_confined c && P_kept c
  && P_superseded c && negb (k_outside c).

(* "only superseded files": every file that disappeared was generated for types that the
   created/replaced files now provide.  FALSE on the current code for some inputs (open finding
   K_clean_not_superseded): while the finding reproduces, a failure of this conjunct counts
   as the known finding when the run is otherwise exactly what the model's current-code branch
   predicts; once the finding is repaired it is part of the property like the others. *)
Definition P_covered (c : case) : bool :=
  forallb (fun b => match after_lookup c (fi_name b) with
                    | Some _ => true
                    | None => forallb (fun T => mem T (covered_of c)) (tags_in (k_tags c) (fi_bytes b))
                    end) (k_before c).

(* ------------------------------------------------------ model vs observation *)
(* the oracle choices of the run, read off the trace: output order, temp names,
   descriptor, chunking *)
Fixpoint chunks_of (h : nat) (ops : list op) : list bytes :=
  match ops with
  | Write h' b :: r => if Nat.eqb h h' then b :: chunks_of h r else []
  | _ => []
  end.
Fixpoint renamed_to (t : name) (ops : list op) : option name :=
  match ops with
  | [] => None
  | Rename a b :: r => if String.eqb a t then Some b else renamed_to t r
  | _ :: r => renamed_to t r
  end.
Fixpoint extract_outs (ops : list op) : list output :=
  match ops with
  | [] => []
  | CreateTemp h t :: r =>
      match renamed_to t r with
      | Some f => {| o_name := f; o_tmp := t; o_chunks := chunks_of h r |} :: extract_outs r
      | None => extract_outs r
      end
  | _ :: r => extract_outs r
  end.
Definition first_fd (ops : list op) : nat :=
  match ops with CreateTemp h _ :: _ => h | _ => 0 end.

Definition expected_names (c : case) : list name :=
  map (fun gt => file_name (k_cmd c) (fst gt) (snd gt)) (k_sel c).
Definition genfile_of (c : case) : name :=
  match k_sel c with (g, EmptyString) :: _ => file_name (k_cmd c) g "" | _ => EmptyString end.

Definition cfg_of (c : case) : cfg :=
  {| c_cmd := k_cmd c; c_clean := k_clean c; c_dirdot := k_dirdot c; c_fixed := k_fixed c;
     c_supfix := k_supfix c; c_tags := tags_in (k_tags c); c_covered := covered_of c;
     c_genfile := genfile_of c; c_fd := first_fd (k_ops c) |}.

Definition tmp_shape (o : output) : bool :=
  let p := "." ++ o_name o ++ "_" in
  sprefix p (o_tmp o) &&
  let r := sdrop (String.length p) (o_tmp o) in
  all_digits r && negb (String.eqb r "").

Definition same_final (c : case) : bool :=
  let fin := exec (init_of c) (k_ops c) in
  forallb (fun n =>
    match lookup n (dir fin), after_lookup c n with
    | None, None => true
    | Some i, Some a =>
        String.eqb (data fin i) (af_bytes a) &&
        match af_ino a with
        | Some k => Nat.eqb i k
        | None => Nat.leb (next (init_of c)) i
        end
    | _, _ => false
    end) (dedup (names_of c ++ flat_map op_names (k_ops c))%list) &&
  forallb (fun kb => String.eqb (data fin (fst kb)) (snd kb)) (k_kept c).

(* a run in which the harness made one system call fail (single output): the traced operations
   are [faulted plan k] *)
Definition fault_agrees (c : case) : bool :=
  match k_ops c with
  | CreateTemp h t :: r =>
      let chunks := chunks_of h r in
      let o := {| o_name := hd EmptyString (expected_names c); o_tmp := t;
                  o_chunks := if Nat.eqb (k_faultkind c) 1 then (chunks ++ ["?"])%list else chunks |} in
      let k := if Nat.eqb (k_faultkind c) 1 then 1 + length chunks else 2 + length chunks in
      negb (Nat.eqb (k_rc c) 0) && tmp_shape o &&
      list_eqb op_eqb (faulted (plan (cfg_of c) (init_of c) [o]) k) (k_ops c) && same_final c
  | _ => false
  end.

Definition model_agrees (c : case) : bool :=
  if negb (Nat.eqb (k_faultkind c) 0) then fault_agrees c else
  if negb (k_expect_ok c) then
    (* an invocation that selects nothing or is rejected: whatever the exit code
       (that is C16/C18's subject), no operation at all reaches the directory *)
    match k_ops c with [] => true | _ => false end && same_final c
  else
    let outs := extract_outs (k_ops c) in
    Nat.eqb (k_rc c) 0 &&
    list_eqb String.eqb (sort_names (map o_name outs)) (sort_names (expected_names c)) &&
    forallb tmp_shape outs &&
    list_eqb op_eqb (plan (cfg_of c) (init_of c) outs) (k_ops c) &&
    same_final c.

Definition verdict (c : case) : N :=
  if negb (Pb c) then 2%N
  else if negb (P_covered c) && k_supfix c then 2%N
  else if model_agrees c then 0%N else 1%N.

Fixpoint mismatches_from (i : N) (cs : list case) : list (N * N) :=
  match cs with
  | [] => []
  | c :: r => let v := verdict c in
              if N.eqb v 0 then mismatches_from (N.succ i) r else (i, v) :: mismatches_from (N.succ i) r
  end.
Definition mismatches := mismatches_from 0%N.

(* which conjunct failed, for the replay file: bit mask *)
Definition diag (c : case) : list bool :=
  [P_modelled c; P_atomic c; P_stable c; P_transient c; P_confined c; P_kept c; P_superseded c;
   negb (k_outside c); model_agrees c; P_covered c].

(* ----------------------------------------------------------- SIGKILL cases *)
(* A run killed at an arbitrary instant.  [q_new]: the outputs (name, complete
   new content) of an identical run that was left alone, on a copy of the same
   directory state; [q_victims_ok] is derived here, not supplied. *)
Record kcase := {
  q_cmd : string;
  q_clean : bool;
  q_dirdot : bool;
  q_fixed : bool;
  q_supfix : bool;
  q_tags : list (bytes * list string);
  q_before : list finfo;
  q_new : list (name * bytes);       (* reference run: outputs *)
  q_ref_removed : list name;         (* reference run: names removed by Clean *)
  q_after : list afile;
  q_kept : list (nat * bytes);
  q_outside : bool
}.

Definition q_before_lookup (c : kcase) (n : name) := find (fun f => String.eqb (fi_name f) n) (q_before c).
Definition q_after_lookup (c : kcase) (n : name) := find (fun a => String.eqb (af_name a) n) (q_after c).
Definition q_new_lookup (c : kcase) (n : name) := find (fun x => String.eqb (fst x) n) (q_new c).

Definition unchanged (b : finfo) (a : afile) : bool :=
  opt_nat_eqb (af_ino a) (Some (fi_ino b)) && String.eqb (af_bytes a) (fi_bytes b).

(* a leftover temporary file of the killed run: .<output>_<digits> *)
Definition is_temp_of (c : kcase) (n : name) : bool :=
  existsb (fun x => tmp_shape {| o_name := fst x; o_tmp := n; o_chunks := [] |}) (q_new c).

(* the property after a kill: every output name holds the complete old or the
   complete new file; every other pre-existing name is untouched, or - only for
   a legitimate victim - gone; new names are outputs or leftover temporaries;
   every pre-existing inode keeps its bytes *)
Definition Pb_kill (c : kcase) : bool :=
  forallb (fun b =>
    match q_after_lookup c (fi_name b), q_new_lookup c (fi_name b) with
    | Some a, Some nw => unchanged b a || (opt_nat_eqb (af_ino a) None && String.eqb (af_bytes a) (snd nw))
    | Some a, None => unchanged b a
    | None, Some _ => false
    | None, None => q_clean c && glob (q_cmd c) (fi_name b)
                    && is_gen (q_cmd c) (first_line (fi_bytes b)) && negb (is_aio (first_line (fi_bytes b)))
    end) (q_before c) &&
  forallb (fun a =>
    match q_before_lookup c (af_name a) with
    | Some _ => true
    | None =>
        match q_new_lookup c (af_name a) with
        | Some nw => glob (q_cmd c) (af_name a) && opt_nat_eqb (af_ino a) None && String.eqb (af_bytes a) (snd nw)
        | None => is_temp_of c (af_name a) && opt_nat_eqb (af_ino a) None
        end
    end) (q_after c) &&
  forallb (fun f => match find (fun kb => Nat.eqb (fst kb) (fi_ino f)) (q_kept c) with
                    | Some kb => String.eqb (snd kb) (fi_bytes f)
                    | None => false
                    end) (q_before c) &&
  (* a file is gone only if every output is already complete *)
  (negb (existsb (fun b => match q_after_lookup c (fi_name b) with None => true | Some _ => false end) (q_before c))
   || forallb (fun nw => match q_after_lookup c (fst nw) with
                         | Some a => opt_nat_eqb (af_ino a) None && String.eqb (af_bytes a) (snd nw)
                         | None => false
                         end) (q_new c)) &&
  negb (q_outside c).

(* the model's crash states: the directory after every prefix of the plan, for
   the given output order.  The observed state must be one of them, up to the
   content of the (at most one) leftover temporary file. *)
Definition crash_match (c : kcase) (outs : list output) : bool :=
  let init := mk_init (map (fun f => (fi_name f, fi_ino f, fi_bytes f)) (q_before c)) in
  let cf := {| c_cmd := q_cmd c; c_clean := q_clean c; c_dirdot := q_dirdot c; c_fixed := q_fixed c;
               c_supfix := q_supfix c; c_tags := tags_in (q_tags c);
               c_covered := flat_map (fun x => tags_in (q_tags c) (snd x)) (q_new c);
               c_genfile := match outs with o :: _ => o_name o | [] => EmptyString end; c_fd := 0 |} in
  let names := dedup (map fi_name (q_before c) ++ map af_name (q_after c) ++ map o_tmp outs ++ map o_name outs)%list in
  existsb (fun s =>
    forallb (fun n =>
      match lookup n (dir s), q_after_lookup c n with
      | None, None => true
      | Some i, Some a =>
          (mem n (map o_tmp outs) || String.eqb (data s i) (af_bytes a)) &&
          match af_ino a with Some k => Nat.eqb i k | None => Nat.leb (next init) i end
      | _, _ => false
      end) names)
    (states init (plan cf init outs)).

Fixpoint perms {A} (l : list A) : list (list A) :=
  match l with
  | [] => [[]]
  | x :: r => flat_map (fun p => map (fun k => (firstn k p ++ x :: skipn k p)%list) (seq 0 (S (length p)))) (perms r)
  end.

(* the leftover temp name (if any) tells which output was being written *)
Definition kill_outs (c : kcase) : list output :=
  map (fun x =>
    (* a file of that shape that was there before the run is not this run's temporary *)
    let left := find (fun a => negb (mem (af_name a) (map fi_name (q_before c)))
                               && tmp_shape {| o_name := fst x; o_tmp := af_name a; o_chunks := [] |}) (q_after c) in
    {| o_name := fst x;
       o_tmp := match left with Some a => af_name a | None => "." ++ fst x ++ "_0" end;
       o_chunks := [snd x] |}) (q_new c).

Definition kill_model_agrees (c : kcase) : bool :=
  existsb (crash_match c) (perms (kill_outs c)).

Definition kverdict (c : kcase) : N :=
  if negb (Pb_kill c) then 2%N else if kill_model_agrees c then 0%N else 1%N.
Fixpoint kmismatches_from (i : N) (cs : list kcase) : list (N * N) :=
  match cs with
  | [] => []
  | c :: r => let v := kverdict c in
              if N.eqb v 0 then kmismatches_from (N.succ i) r else (i, v) :: kmismatches_from (N.succ i) r
  end.
Definition kmismatches := kmismatches_from 0%N.

(* ------------------------------------------- L1: the header tests and the glob *)
(* h_aio / h_gen: what shoot's isAllInOneFile / isGeneratedBy answered on a file with
   content h_bytes; g_match: what path/filepath.Match answered *)
Record hcase := { h_cmd : string; h_bytes : bytes; h_aio : bool; h_gen : bool }.
Definition hverdict (c : hcase) : N :=
  if Bool.eqb (is_aio (first_line (h_bytes c))) (h_aio c)
     && Bool.eqb (is_gen (h_cmd c) (first_line (h_bytes c))) (h_gen c) then 0%N else 1%N.
Fixpoint hmismatches_from (i : N) (cs : list hcase) : list (N * N) :=
  match cs with
  | [] => []
  | c :: r => let v := hverdict c in
              if N.eqb v 0 then hmismatches_from (N.succ i) r else (i, v) :: hmismatches_from (N.succ i) r
  end.
Definition hmismatches := hmismatches_from 0%N.

Record gcase := { g_cmd : string; g_name : name; g_match : bool }.
Definition gverdict (c : gcase) : N :=
  if Bool.eqb (glob (g_cmd c) (g_name c)) (g_match c) then 0%N else 1%N.
Fixpoint gmismatches_from (i : N) (cs : list gcase) : list (N * N) :=
  match cs with
  | [] => []
  | c :: r => let v := gverdict c in
              if N.eqb v 0 then gmismatches_from (N.succ i) r else (i, v) :: gmismatches_from (N.succ i) r
  end.
Definition gmismatches := gmismatches_from 0%N.
