(* Correspondence for C03 (shoot new -getset).  One case = one generated package run through
   `shoot new -getset -type=<order>` once or twice (the second run sees the first run's output on
   disk): per struct what go/types reports (methods declared on T, the method set of *T with the
   embedded struct each method is promoted through, the interfaces <T>Getter / <T>Setter with their
   embedded interfaces, explicit and complete method sets, whether *T implements them) and what
   the in-package oracle observed (for every setter of *T's method set: call it on NewT(sentinels)
   and on the zero value, read every leaf by its full path and call every getter).

   [model_*] run Model/CtorGetSet.v (the literal makeGetSet threaded through the types of the run);
   [Pb_*] is the property itself on the observation, stated with the declarative accessor table
   (spec_accessors), Go's method selection (find_method over the declarative view) and the
   struct graph only -- never with make_getset. *)
From Coq Require Import String Ascii List Bool Arith NArith ZArith.
From Shoot Require Import Base.Str Base.GoVal Model.Transfer Model.CtorDirective Model.Ctor Model.CtorSpec Model.CtorGetSet.
From Shoot Require Import Corr.CtorCorr.
Import ListNotations.
Local Open Scope string_scope.

Definition mrow := (string * string * string)%type.          (* method name, kind, printed type *)

Record iobs := {
  io_embeds : list string;             (* embedded interface types as printed, source order *)
  io_explicit : list mrow;
  io_methods : list mrow;              (* complete method set *)
  io_impl : bool                       (* *T implements the interface *)
}.

Record robs := {
  ro_entry : N;                        (* 0 NewT(sentinels): every embedded pointer allocated   1 &T{}: every embedded pointer nil *)
  ro_setter : string;                  (* the method called *)
  ro_tok : string;                     (* token of the value passed *)
  ro_panic : bool;
  ro_before : list (path * string);    (* leaf tokens before the call *)
  ro_after : list (path * string);     (* leaf tokens after the call *)
  ro_gets : list (string * string)     (* result token of every getter of the method set after the call *)
}.

Record sobs := {
  so_name : ident;
  so_status : N;                       (* 0 observed; 3 the generated code of the type does not type-check; 5 sibling errors / not observed; 6 T or NewT missing *)
  so_own : list mrow;                  (* methods declared on T, except ShootNew *)
  so_mset : list (mrow * path);        (* method set of *T, except ShootNew, with the path of the declaring embedded struct *)
  so_getter : option iobs;
  so_setter : option iobs;
  so_runs : list robs
}.

Record gcase := {
  gc_pkg : pkg_spec; gc_flags : ctor_flags; gc_fuel : nat;
  gc_order : list ident;               (* -type=<order> *)
  gc_rounds : N;                       (* 1 or 2 runs of the same command *)
  gc_status : N;                       (* 0 exit 0; 1 exit 1; 2 timeout *)
  gc_structs : list sobs
}.

Definition kind_str (k : mkind) : string := match k with MGet => "get" | MSet => "set" | MOther => "other" end.
Definition row_of (x : string * mkind * string) : mrow := let '(n, k, t) := x in (n, kind_str k, t).
Definition row_of_method (m : gs_method) : mrow := (gm_name m, kind_str (gm_kind m), type_string (gm_ty m)).

Definition mrow_eqb (a b : mrow) : bool :=
  String.eqb (fst (fst a)) (fst (fst b)) && String.eqb (snd (fst a)) (snd (fst b)) && String.eqb (snd a) (snd b).

Definition subset_b {A} (e : A -> A -> bool) (x y : list A) : bool := forallb (fun a => existsb (e a) y) x.
Definition set_eqb {A} (e : A -> A -> bool) (x y : list A) : bool :=
  Nat.eqb (length x) (length y) && subset_b e x y && subset_b e y x.

Definition mpath_eqb (a b : mrow * path) : bool := mrow_eqb (fst a) (fst b) && path_eqb (snd a) (snd b).

Fixpoint dedup {A} (e : A -> A -> bool) (l : list A) : list A :=
  match l with
  | [] => []
  | x :: r => let r' := dedup e r in if existsb (e x) r' then r' else x :: r'
  end.

(* ---------------------------------------------------------------- the model *)
Definition run_rounds (c : gcase) : cres (list (ident * gs_data * new_data) * view) :=
  match run_getset (gc_pkg c) (gc_flags c) (gc_fuel c) (gc_order c) [] with
  | COk (out, v) =>
      if N.eqb (gc_rounds c) 2 then run_getset (gc_pkg c) (gc_flags c) (gc_fuel c) (gc_order c) v
      else COk (out, v)
  | e => e
  end.

Fixpoint find_out (t : ident) (out : list (ident * gs_data * new_data)) : option (gs_data * new_data) :=
  match out with
  | [] => None
  | (n, d, nd) :: r => if String.eqb n t then Some (d, nd) else find_out t r
  end.

Definition all_method_names (pkg : pkg_spec) (v : view) (fuel : nat) (sd : sdecl) : list string :=
  dedup String.eqb (flat_map (fun ps => map gm_name (own_methods v (snd ps))) (struct_occs pkg fuel sd)).

(* the method set of *T: every accessor name of the closure that Go's rule resolves *)
Definition model_mset (pkg : pkg_spec) (v : view) (fuel : nat) (sd : sdecl) : list (mrow * path) :=
  flat_map (fun m => match find_method pkg v fuel (self_inst sd) m with
                     | Some pm => [(row_of_method (snd pm), fst pm)]
                     | None => [] end) (all_method_names pkg v fuel sd).

Definition model_iface (pkg : pkg_spec) (v : view) (fl : ctor_flags) (fuel : nat) (sd : sdecl) (d : gs_data) (nd : new_data)
           (getter : bool) : option iobs :=
  match emitted_iface fl nd d getter with
  | None => None
  | Some (_, embeds, explicit) =>
      let ms := iface_methods v fuel getter (sd_name sd) (map TParam (map fst (tparams_flat (nd_tparams nd)))) in
      Some {| io_embeds := embeds; io_explicit := map row_of explicit;
              io_methods := dedup mrow_eqb (map row_of_method ms);
              io_impl := implements pkg v fuel (self_inst sd) ms |}
  end.

Definition iobs_eqb (a b : option iobs) : bool :=
  match a, b with
  | None, None => true
  | Some x, Some y =>
      list_eqb String.eqb (io_embeds x) (io_embeds y) &&
      set_eqb mrow_eqb (io_explicit x) (io_explicit y) &&
      set_eqb mrow_eqb (io_methods x) (io_methods y) &&
      Bool.eqb (io_impl x) (io_impl y)
  | _, _ => false
  end.

(* the start value of a run, rebuilt from what the oracle read before the call: leaves hold their
   token, embedded struct values are expanded, embedded pointers are allocated (entry 0) or nil (entry 1) *)
Fixpoint obs_value (pkg : pkg_spec) (fuel : nat) (alloc : bool) (reads : list (path * string)) (si : sinst) (pre : path) : val :=
  VStruct (map (fun tf : tfield => let '(n, ft, emb) := tf in
    (n, match (if emb then struct_of pkg ft else None) with
        | Some si' =>
            if is_ptr_ty ft && negb alloc then VNil
            else match fuel with
                 | O => VZero
                 | S fuel' => let x := obs_value pkg fuel' alloc reads si' (pre ++ [n])%list in
                              if is_ptr_ty ft then VPtr x else x
                 end
        | None => match passoc (pre ++ [n])%list reads with Some t => VS t | None => VZero end
        end)) (struct_fields si)).

Definition tok_val (r : res val) : string :=
  match r with
  | Ok (VS t) => t
  | Ok _ => "<not-a-leaf>"
  | Panic => "nilhop"
  | Stuck => "<stuck>"
  end.

Definition leaves_of (c : gcase) (sd : sdecl) : list path := leaf_paths (gc_pkg c) (gc_fuel c) (self_inst sd) [].

Definition start_of (c : gcase) (sd : sdecl) (r : robs) : val :=
  VPtr (obs_value (gc_pkg c) (gc_fuel c) (N.eqb (ro_entry r) 0) (ro_before r) (self_inst sd) []).

Definition getter_names (ms : list (mrow * path)) : list string :=
  map (fun x => fst (fst (fst x))) (filter (fun x => String.eqb (snd (fst (fst x))) "get") ms).

Definition run_agrees (c : gcase) (v : view) (sd : sdecl) (r : robs) : bool :=
  let pkg := gc_pkg c in let fuel := gc_fuel c in
  match call_set pkg v fuel sd (start_of c sd r) (ro_setter r) (VS (ro_tok r)) with
  | Ok x => negb (ro_panic r) &&
            reads_eqb (map (fun p => (p, tok_val (lookup x p))) (leaves_of c sd)) (ro_after r) (fun t => t) &&
            forallb (fun gt => String.eqb (tok_val (call_get pkg v fuel sd x (fst gt))) (snd gt)) (ro_gets r)
  | Panic => ro_panic r
  | Stuck => false
  end.

Definition struct_agrees (c : gcase) (out : list (ident * gs_data * new_data)) (v : view) (o : sobs) : bool :=
  match find_struct (gc_pkg c) "" (so_name o), find_out (so_name o) out with
  | Some sd, Some (d, nd) =>
      N.eqb (so_status o) 0 &&
      set_eqb mrow_eqb (map row_of (emitted_accessors (gc_flags c) nd d)) (so_own o) &&
      set_eqb mpath_eqb (model_mset (gc_pkg c) v (gc_fuel c) sd) (so_mset o) &&
      iobs_eqb (model_iface (gc_pkg c) v (gc_flags c) (gc_fuel c) sd d nd true) (so_getter o) &&
      iobs_eqb (model_iface (gc_pkg c) v (gc_flags c) (gc_fuel c) sd d nd false) (so_setter o) &&
      forallb (run_agrees c v sd) (so_runs o)
  | _, _ => false
  end.

Definition agree_gs (c : gcase) : bool :=
  match run_rounds c with
  | COk (out, v) => N.eqb (gc_status c) 0 && Nat.eqb (length (gc_structs c)) (length (gc_order c)) &&
                    forallb (struct_agrees c out v) (gc_structs c)
  | CFatal _ => N.eqb (gc_status c) 1
  | COutOfFuel => N.eqb (gc_status c) 2
  end.

(* ------------------------------------------- the property on the observation *)
Definition structs_of_order (c : gcase) : list sdecl :=
  flat_map (fun t => match find_struct (gc_pkg c) "" t with Some sd => [sd] | None => [] end) (gc_order c).

(* the declarative view after the run: the accessor table of every selected struct *)
Definition spec_view (c : gcase) : view := map (spec_entry (gc_flags c)) (structs_of_order c).

Definition spec_rows (fl : ctor_flags) (sd : sdecl) (getter : bool) : list mrow :=
  map (fun a => (if getter then getter_name (af_name a) else setter_name (af_name a),
                 if getter then "get" else "set", type_string (af_ty a))) (spec_accessors fl sd getter).

Definition find_sobs (c : gcase) (n : ident) : option sobs := find (fun o => String.eqb (so_name o) n) (gc_structs c).

Fixpoint index_str (x : string) (l : list string) (i : nat) : option nat :=
  match l with
  | [] => None
  | y :: r => if String.eqb x y then Some i else index_str x r (S i)
  end.

(* the embedded structs of T's closure in depth-first declaration order, first occurrence of a name only *)
Definition embedded_structs (pkg : pkg_spec) (fuel : nat) (sd : sdecl) : list (ident * ty) :=
  let fix walk (fuel : nat) (si : sinst) : list (ident * ty) :=
    match fuel with
    | O => []
    | S fuel' =>
        flat_map (fun tf : tfield => let '(n, ft, emb) := tf in
          if emb then match struct_of pkg ft with
                      | Some si' => (n, ft) :: walk fuel' si'
                      | None => [] end
          else []) (struct_fields si)
    end in
  dedup (fun a b => String.eqb (fst a) (fst b)) (rev (walk fuel (self_inst sd))).

Definition first_embedded (pkg : pkg_spec) (fuel : nat) (sd : sdecl) : list (ident * ty) :=
  rev (embedded_structs pkg fuel sd).

Definition iface_of (o : sobs) (getter : bool) : option iobs := if getter then so_getter o else so_setter o.

(* the interface of the embedded struct E is certainly in the package view when T is analysed:
   E was generated earlier in the same (last) run *)
Definition surely_in_view (c : gcase) (t e : ident) : bool :=
  match index_str e (gc_order c) 0, index_str t (gc_order c) 0 with
  | Some i, Some j => Nat.ltb i j
  | _, _ => false
  end.
(* ... or possibly: it was generated by the first of two runs *)
Definition possibly_in_view (c : gcase) (t e : ident) : bool :=
  surely_in_view c t e || (N.eqb (gc_rounds c) 2 && existsb (String.eqb e) (gc_order c)).

Definition Pb_iface (c : gcase) (sd : sdecl) (o : sobs) (getter : bool) : bool :=
  let pkg := gc_pkg c in let fuel := gc_fuel c in let fl := gc_flags c in
  let switch_on := if getter then fst (type_switch fl sd) else snd (type_switch fl sd) in
  let explicit := spec_rows fl sd getter in
  let cands := first_embedded pkg fuel sd in
  let printed (e : ident * ty) := iface_ref_string getter (fst e, type_args (snd e)) in
  let declared (e : ident * ty) := match find_sobs c (fst e) with
                                   | Some oe => match iface_of oe getter with Some i => io_impl i | None => false end
                                   | None => false end in
  let must := filter (fun e => switch_on && declared e && surely_in_view c (sd_name sd) (fst e)) cands in
  let may := filter (fun e => switch_on && possibly_in_view c (sd_name sd) (fst e)) cands in
  match iface_of o getter with
  | None => is_nil explicit && is_nil must
  | Some i =>
      (* explicit methods = the accessor table *)
      set_eqb mrow_eqb (io_explicit i) explicit &&
      (* embedded interfaces = those of the embedded shoot types present in the view *)
      subset_b String.eqb (map printed must) (io_embeds i) &&
      subset_b String.eqb (io_embeds i) (map printed may) &&
      negb (is_nil (io_embeds i) && is_nil explicit) &&
      (* the complete method set = explicit methods + the complete method sets of the embedded interfaces
         (for an instantiated generic interface the names) *)
      forallb (fun e =>
         if existsb (String.eqb (printed e)) (io_embeds i) then
           match find_sobs c (fst e) with
           | Some oe => match iface_of oe getter with
                        | Some ie => if is_nil (type_args (snd e))
                                     then subset_b mrow_eqb (io_methods ie) (io_methods i)
                                     else subset_b String.eqb (map (fun r => fst (fst r)) (io_methods ie))
                                                               (map (fun r => fst (fst r)) (io_methods i))
                        | None => false end
           | None => false end
         else true) cands &&
      subset_b mrow_eqb explicit (io_methods i) &&
      forallb (fun r => existsb (mrow_eqb r) explicit ||
                        existsb (fun e => existsb (String.eqb (printed e)) (io_embeds i) &&
                                          match find_sobs c (fst e) with
                                          | Some oe => match iface_of oe getter with
                                                       | Some ie => existsb (fun r' => String.eqb (fst (fst r')) (fst (fst r))) (io_methods ie)
                                                       | None => false end
                                          | None => false end) cands) (io_methods i) &&
      (* *T satisfies it *)
      io_impl i
  end.

Definition Pb_run (c : gcase) (sv : view) (sd : sdecl) (o : sobs) (r : robs) : bool :=
  let pkg := gc_pkg c in let fuel := gc_fuel c in
  match find_method pkg sv fuel (self_inst sd) (ro_setter r) with
  | None => false
  | Some pm =>
      let q := accessor_path pm in
      mkind_eqb (gm_kind (snd pm)) MSet &&
      match passoc q (ro_before r) with
      | Some "nilhop" => ro_panic r            (* the receiver's embedded pointer is nil: Go panics *)
      | Some _ =>
          negb (ro_panic r) &&
          Nat.eqb (length (ro_after r)) (length (leaves_of c sd)) &&
          (* the setter changes that field and nothing else *)
          forallb (fun p => match passoc p (ro_after r), passoc p (ro_before r) with
                            | Some a, Some b => if path_eqb p q then String.eqb a (ro_tok r) else String.eqb a b
                            | _, _ => false end) (leaves_of c sd) &&
          (* every getter returns the current value of its field *)
          forallb (fun gt => match find_method pkg sv fuel (self_inst sd) (fst gt) with
                             | Some pg => mkind_eqb (gm_kind (snd pg)) MGet &&
                                          match passoc (accessor_path pg) (ro_after r) with
                                          | Some a => String.eqb a (snd gt)
                                          | None => false end
                             | None => false end) (ro_gets r)
      | None => false
      end
  end.

Definition Pb_struct (c : gcase) (sv : view) (o : sobs) : bool :=
  match find_struct (gc_pkg c) "" (so_name o) with
  | None => false
  | Some sd =>
      let fl := gc_flags c in
      N.eqb (so_status o) 0 &&
      (* exactly the accessors the directives call for, named by Pascal-casing, typed like the field *)
      set_eqb mrow_eqb (so_own o) (spec_rows fl sd true ++ spec_rows fl sd false) &&
      (* every method of *T's method set is the accessor Go selects among the tables of the closure *)
      forallb (fun mp => match find_method (gc_pkg c) sv (gc_fuel c) (self_inst sd) (fst (fst (fst mp))) with
                         | Some pm => mrow_eqb (row_of_method (snd pm)) (fst mp) && path_eqb (fst pm) (snd mp)
                         | None => false end) (so_mset o) &&
      Pb_iface c sd o true && Pb_iface c sd o false &&
      forallb (Pb_run c sv sd o) (so_runs o)
  end.

Definition any_directive_on_exported (c : gcase) : bool := existsb directive_on_exported (structs_of_order c).

Definition Pb_gs (c : gcase) : bool :=
  if any_directive_on_exported c then N.eqb (gc_status c) 1
  else N.eqb (gc_status c) 0 && Nat.eqb (length (gc_structs c)) (length (gc_order c)) &&
       (let sv := spec_view c in forallb (Pb_struct c sv) (gc_structs c)).

(* every selected embedded struct of the closure precedes the struct in the -type order: the package view is
   complete when the struct is analysed.  (With a single run, a struct that precedes one of its embedded structs is
   analysed before that struct's interfaces exist: the input class of the open finding K_embed_order, verdict 3.) *)
Definition complete_order (c : gcase) (sd : sdecl) : bool :=
  N.eqb (gc_rounds c) 2 ||
  forallb (fun e : ident * ty =>
             negb (existsb (String.eqb (fst e)) (gc_order c)) || surely_in_view c (sd_name sd) (fst e))
          (first_embedded (gc_pkg c) (gc_fuel c) sd).

(* the guard of the theorems, for every selected struct; the accessors of the closure are visible on *T w.r.t. the
   declarative view of the whole run (C03_unique_names_visible: implied by unique accessor names) *)
Definition guard_gs (c : gcase) : bool :=
  nodup_str (gc_order c) &&
  Nat.eqb (length (structs_of_order c)) (length (gc_order c)) &&
  (let sv := spec_view c in
   forallb (fun sd => c03_guard (gc_pkg c) (gc_flags c) (gc_fuel c) sd &&
                      accessors_visible (gc_pkg c) sv (gc_fuel c) sd &&
                      not_self_embedded (gc_pkg c) (gc_fuel c) sd &&
                      complete_order c sd) (structs_of_order c)).

(* verdicts: 0 agree and the property holds; 1 model and implementation differ; 2 inside the guard and the
   property fails on the observation (a struct that was not observed, or whose generated code does not type-check,
   counts: Pb demands status 0); 3 outside the guard (input class of an open finding) and the literal model agrees
   or the package was not observable; 4 harness error *)
Definition gverdict (c : gcase) : N :=
  if guard_gs c then
    if Pb_gs c then (if agree_gs c then 0%N else 1%N) else 2%N
  else if existsb (fun o => negb (N.eqb (so_status o) 0)) (gc_structs c) || agree_gs c then 3%N else 1%N.

Fixpoint gmismatches_from (i : N) (cs : list gcase) : list (N * N) :=
  match cs with
  | [] => []
  | c :: cs' =>
      let v := gverdict c in
      if N.eqb v 0 then gmismatches_from (N.succ i) cs'
      else (i, v) :: gmismatches_from (N.succ i) cs'
  end.
Definition gmismatches := gmismatches_from 0%N.
