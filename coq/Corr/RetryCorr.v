(* Correspondence for C20: the harness writes, per case, the script the real
   RetryMiddleware was driven with and what it did; [check] recomputes the model
   and compares, and also evaluates the property itself on the observation. *)
From Coq Require Import List ZArith Bool NArith.
From Shoot Require Import Model.Retry.
Import ListNotations.

(* observation of the implementation *)
Record obs := {
  o_calls : nat;
  o_resp : option nat;      (* identity of the returned response *)
  o_err : option nat;       (* identity of the returned error *)
  o_sleeps : nat            (* number of d-sleeps observed (gaps >= d between calls) *)
}.

Record case := { c_n : Z; c_script : list rt_out; c_obs : obs }.

Definition model_obs (n : Z) (l : list rt_out) : obs :=
  let '(ev, (r, e)) := retry n (script_of l (RErr 0 None)) in
  {| o_calls := calls ev; o_resp := option_map r_id r; o_err := e; o_sleeps := sleeps ev |}.

Definition opt_nat_eqb (a b : option nat) : bool :=
  match a, b with Some x, Some y => Nat.eqb x y | None, None => true | _, _ => false end.

Definition obs_eqb (a b : obs) : bool :=
  Nat.eqb (o_calls a) (o_calls b) && opt_nat_eqb (o_resp a) (o_resp b)
  && opt_nat_eqb (o_err a) (o_err b) && Nat.eqb (o_sleeps a) (o_sleeps b).

(* The property, evaluated directly on the implementation's observation and
   without reference to [retry]: Pb script n obs. *)
Fixpoint first_acc (l : list rt_out) (i fuel : nat) : option nat :=
  match fuel with
  | O => None
  | S f => if acceptable (nth i l (RErr 0 None)) then Some i else first_acc l (S i) f
  end.

Definition Pb (n : Z) (l : list rt_out) (o : obs) : bool :=
  let fuel := Z.to_nat (n + 1) in
  if Nat.eqb fuel 0 then   (* n < 0: no call, (nil, nil) *)
    Nat.eqb (o_calls o) 0 && opt_nat_eqb (o_resp o) None && opt_nat_eqb (o_err o) None
    && Nat.eqb (o_sleeps o) 0
  else
  match first_acc l 0 fuel with
  | Some j =>
      Nat.eqb (o_calls o) (S j) &&
      opt_nat_eqb (o_resp o) (option_map r_id (fst (as_result (nth j l (RErr 0 None))))) &&
      opt_nat_eqb (o_err o) None && Nat.eqb (o_sleeps o) j
  | None =>
      let last := as_result (nth (fuel - 1) l (RErr 0 None)) in
      Nat.eqb (o_calls o) fuel &&
      opt_nat_eqb (o_resp o) (option_map r_id (fst last)) &&
      opt_nat_eqb (o_err o) (snd last) && Nat.eqb (o_sleeps o) (fuel - 1)
  end.

(* verdict per case: 0 = agrees, 1 = model/impl differ but property holds on
   the observation, 2 = property fails on the observation *)
Definition verdict (c : case) : N :=
  if negb (Pb (c_n c) (c_script c) (c_obs c)) then 2%N
  else if obs_eqb (model_obs (c_n c) (c_script c)) (c_obs c) then 0%N else 1%N.

Fixpoint mismatches_from (i : N) (cs : list case) : list (N * N) :=
  match cs with
  | [] => []
  | c :: cs' =>
      let v := verdict c in
      if N.eqb v 0 then mismatches_from (N.succ i) cs'
      else (i, v) :: mismatches_from (N.succ i) cs'
  end.
Definition mismatches := mismatches_from 0%N.
