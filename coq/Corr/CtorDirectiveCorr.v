(* L1 correspondence of Model/CtorDirective.v with the directive / tag parsers of
   /repo/internal/constructor/fields.go, through /repo/cmd/verifprobe.  The
   harness (harness/ctordirective_l1.py) writes what the Go function returned;
   [dmismatches] recomputes the hand-written parser. *)
From Coq Require Import String Ascii List Bool NArith.
From Shoot Require Import Base.Str Model.CtorDirective.
Import ListNotations.

(* strings are rendered as byte codes so that any control byte can be carried *)
Definition sc (l : list N) : string := string_of_list (map ascii_of_N l).

Inductive dcase :=
| DNew (doc : string) (r : bool)
| DGetSet (doc : string) (g s : bool)
| DGetterSetter (doc : string) (g s : bool)
| DDef (doc : string) (v : option string)
| DJson (tag : string) (r : string)
| DNewTag (tag : string) (r : string).

Definition opt_str_eqb (a b : option string) : bool :=
  match a, b with Some x, Some y => String.eqb x y | None, None => true | _, _ => false end.

Definition dcheck (c : dcase) : bool :=
  match c with
  | DNew d r => Bool.eqb (parse_new_comment d) r
  | DGetSet d g s => let '(g', s') := parse_getset_comment d in Bool.eqb g g' && Bool.eqb s s'
  | DGetterSetter d g s => let '(g', s') := parse_getter_setter_doc d in Bool.eqb g g' && Bool.eqb s s'
  | DDef d v => opt_str_eqb (parse_def_comment d) v
  | DJson t r => String.eqb (parse_json_tag t) r
  | DNewTag t r => String.eqb (parse_new_tag t) r
  end.

Fixpoint dmismatches_from (i : N) (cs : list dcase) : list (N * N) :=
  match cs with
  | [] => []
  | c :: cs' => if dcheck c then dmismatches_from (N.succ i) cs' else (i, 1%N) :: dmismatches_from (N.succ i) cs'
  end.
Definition dmismatches := dmismatches_from 0%N.
