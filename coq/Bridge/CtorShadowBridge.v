(* Translation tie for the shadow marking of `shoot new` (C02, C03, C11, C13).
   [ShootGen.CtorShadowGen] is written on every run by harness/go/cmd/go2gallina
   from the CURRENT text of /repo/internal/constructor/fields.go
   (checkShadowAndAppend); this file proves it equal to [mark_pass] /
   [check_shadow_and_append] of Model/Ctor.v (owned by the constructor checks:
   imported, not edited) on every slice and every new entry, and restates what
   C02's theorems use of it over the translated definition.  The store
   discipline is described in Bridge/CtorPrims.v and docs/translator.md. *)
From Coq Require Import List ZArith Bool String Arith Lia.
From Shoot Require Import Base.Str Model.Ctor Proofs.CtorFlattenProofs Bridge.GoPrims Bridge.CtorPrims.
From ShootGen Require Import CtorShadowGen.
Import ListNotations.
Local Open Scope list_scope.

Lemma cupd_middle {A} (pre : list A) x r g : cupd (pre ++ x :: r) (List.length pre) g = pre ++ g x :: r.
Proof. induction pre as [|y pre IH]; simpl; [reflexivity|]. rewrite IH. reflexivity. Qed.

Lemma ltb_of_nat a b : (Z.of_nat a <? Z.of_nat b)%Z = Nat.ltb a b.
Proof.
  destruct (Z.ltb_spec (Z.of_nat a) (Z.of_nat b)); destruct (Nat.ltb_spec a b); try reflexivity; lia.
Qed.

(* destruct the leftmost atom of a boolean condition *)
Ltac atom b :=
  lazymatch b with
  | negb ?x => atom x
  | andb ?x ?y => first [atom x | atom y]
  | orb ?x ?y => first [atom x | atom y]
  | (if ?c then _ else _) => atom c
  | true => fail
  | false => fail
  | _ => destruct b eqn:?
  end.

(* the loop: after the cells [pre] have been visited, the rest of the slice is marked as [mark_pass] does *)
Lemma loop_is_model : forall suf pre fld,
  checkShadowAndAppend_loop1 CNew (map COld (seq (List.length pre) (List.length suf))) (mkCW (pre ++ suf) fld)
  = checkShadowAndAppend_after1 CNew (mkCW (pre ++ fst (mark_pass suf fld)) (snd (mark_pass suf fld))).
Proof.
  induction suf as [|f r IH]; intros pre fld.
  - reflexivity.
  - cbn [List.length seq map checkShadowAndAppend_loop1 mark_pass].
    cbv beta iota zeta delta [get_name get_depth get_isShadowed set_isShadowed cload cstore cw_fields cw_new].
    repeat first [rewrite nth_middle | rewrite cupd_middle]. cbn [f_depth f_name fset_shadowed].
    rewrite ?Z.gtb_ltb, ?ltb_of_nat.
    repeat (match goal with |- context [if ?b then _ else _] => atom b end;
            cbv beta iota delta [negb andb orb]);
      first [
      repeat match goal with |- context [fset_shadowed true ?y] => change (fset_shadowed true y) with (set_shadowed y) end;
      match goal with |- checkShadowAndAppend_loop1 _ _ {| cw_fields := pre ++ ?f' :: r; cw_new := ?x |} = _ =>
        specialize (IH (pre ++ [f']) x); destruct (mark_pass r x) as [r' x'] end;
      rewrite app_length, <- !app_assoc, Nat.add_1_r in IH; cbn [List.length app fst snd] in IH |- *;
      exact IH
      | (* a combination of depth tests that cannot happen *)
        exfalso;
        repeat match goal with
               | H : Nat.ltb _ _ = true |- _ => apply Nat.ltb_lt in H
               | H : Nat.ltb _ _ = false |- _ => apply Nat.ltb_ge in H
               end; lia ].
Qed.

(* checkShadowAndAppend(fields, field) on a slice [fields] and a fresh object [fld]: the slice becomes
   [check_shadow_and_append fields fld]; the object the caller still holds is the (possibly marked) last element *)
Theorem checkShadowAndAppend_is_model : forall fields fld,
  checkShadowAndAppend CNew (mkCW fields fld)
  = (Returned tt, mkCW (check_shadow_and_append fields fld) (snd (mark_pass fields fld))).
Proof.
  intros fields fld. unfold checkShadowAndAppend, old_locs. cbn [cw_fields].
  pose proof (loop_is_model fields [] fld) as L. cbn [app List.length] in L. rewrite L. clear L. unfold checkShadowAndAppend_after1, append_cell, check_shadow_and_append.
  cbn [app cload cw_fields cw_new]. destruct (mark_pass fields fld) as [fs' fld']. reflexivity.
Qed.

(* ---- over the translated source *)

(* no panic, no fuel exhaustion *)
Theorem checkShadowAndAppend_src_always_returns : forall fields fld,
  exists w', checkShadowAndAppend CNew (mkCW fields fld) = (Returned tt, w').
Proof. intros. rewrite checkShadowAndAppend_is_model. eauto. Qed.

(* the slice grows by exactly one entry and nothing but isShadowed changes: names and depths stay *)
Lemma mark_pass_keeps : forall fields fld,
  map f_name (fst (mark_pass fields fld)) = map f_name fields
  /\ map f_depth (fst (mark_pass fields fld)) = map f_depth fields
  /\ f_name (snd (mark_pass fields fld)) = f_name fld /\ f_depth (snd (mark_pass fields fld)) = f_depth fld.
Proof.
  induction fields as [|f r IH]; intros fld; [cbn; auto|].
  cbn [mark_pass].
  destruct (negb (String.eqb (f_name f) (f_name fld)));
    [|destruct (Nat.ltb (f_depth fld) (f_depth f)); [|destruct (Nat.ltb (f_depth f) (f_depth fld))]];
    match goal with |- context [mark_pass r ?x] =>
      specialize (IH x); destruct (mark_pass r x) as [r' x'] end;
    cbn [fst snd map] in *; destruct IH as (A & B & C & D); rewrite A, B, C, D; auto.
Qed.

Theorem C02_shadow_marking_keeps_names_src : forall fields fld w',
  checkShadowAndAppend CNew (mkCW fields fld) = (Returned tt, w') ->
  map f_name (cw_fields w') = map f_name fields ++ [f_name fld]
  /\ map f_depth (cw_fields w') = map f_depth fields ++ [f_depth fld].
Proof.
  intros fields fld w' H. rewrite checkShadowAndAppend_is_model in H. inversion H; subst w'; clear H.
  cbn [cw_fields]. unfold check_shadow_and_append.
  destruct (mark_pass_keeps fields fld) as (A & B & C & D).
  destruct (mark_pass fields fld) as [fs' fld']. cbn [fst snd] in *.
  rewrite !map_app. cbn [map]. rewrite A, B, C, D. auto.
Qed.

(* an entry of the same name that lies deeper than the new one ends up shadowed (Go's selector rule: the
   shallower field wins), and the new entry is shadowed by any shallower one *)
Lemma mark_pass_deeper : forall fields fld f,
  In f fields -> f_name f = f_name fld -> f_depth fld < f_depth f ->
  exists f', In f' (fst (mark_pass fields fld)) /\ f_shadowed f' = true /\ f_name f' = f_name f /\ f_depth f' = f_depth f.
Proof.
  induction fields as [|g r IH]; intros fld f I N D; [destruct I|].
  cbn [mark_pass].
  destruct I as [->|I].
  - rewrite N, String.eqb_refl. cbn [negb].
    destruct (Nat.ltb_spec (f_depth fld) (f_depth f)); [|lia].
    destruct (mark_pass r fld) as [r' x']. cbn [fst]. exists (set_shadowed f). cbn. auto.
  - destruct (negb (String.eqb (f_name g) (f_name fld)));
      [|destruct (Nat.ltb (f_depth fld) (f_depth g)); [|destruct (Nat.ltb (f_depth g) (f_depth fld))]];
      match goal with |- context [mark_pass r ?x] =>
        destruct (IH x f I) as (f' & A & B & C & E); [cbn; auto | cbn; auto |]; destruct (mark_pass r x) as [r' x'] end;
      cbn [fst] in *; exists f'; cbn [In]; auto.
Qed.

Theorem C02_deeper_entry_is_shadowed_src : forall fields fld f w',
  checkShadowAndAppend CNew (mkCW fields fld) = (Returned tt, w') ->
  In f fields -> f_name f = f_name fld -> f_depth fld < f_depth f ->
  exists f', In f' (cw_fields w') /\ f_shadowed f' = true /\ f_name f' = f_name f /\ f_depth f' = f_depth f.
Proof.
  intros fields fld f w' H I N D. rewrite checkShadowAndAppend_is_model in H. inversion H; subst w'; clear H.
  cbn [cw_fields]. unfold check_shadow_and_append.
  destruct (mark_pass_deeper fields fld f I N D) as (f' & A & B & C & E).
  destruct (mark_pass fields fld) as [fs' fld']. cbn [fst] in A.
  exists f'. split; [apply in_or_app; left; exact A|auto].
Qed.

(* the two facts C02_flatten_is_marked_dfs rests on (Proofs/CtorFlattenProofs.v), for the SOURCE:
   what one call marks, and that one append keeps "every flag = some entry of the same name is strictly shallower" *)
Theorem C02_marking_spec_src : forall l x w',
  checkShadowAndAppend CNew (mkCW l x) = (Returned tt, w') ->
  cw_fields w'
  = map (fun f => if same_name f x && Nat.ltb (f_depth x) (f_depth f) then set_shadowed f else f) l
    ++ [if shadowed_in l x then set_shadowed x else x].
Proof.
  intros l x w' H. rewrite checkShadowAndAppend_is_model in H. inversion H; subst w'; clear H.
  cbn [cw_fields]. unfold check_shadow_and_append. rewrite mark_pass_spec'. reflexivity.
Qed.

Theorem C02_append_keeps_marking_src : forall r x, f_shadowed x = false ->
  exists w', checkShadowAndAppend CNew (mkCW (markmap r r) x) = (Returned tt, w')
             /\ cw_fields w' = markmap (r ++ [x]) (r ++ [x]).
Proof.
  intros r x Hx. rewrite checkShadowAndAppend_is_model. eexists. split; [reflexivity|].
  cbn [cw_fields]. exact (csa_markmap r x Hx).
Qed.

Print Assumptions checkShadowAndAppend_is_model.
Print Assumptions C02_marking_spec_src.
Print Assumptions C02_append_keeps_marking_src.
Print Assumptions checkShadowAndAppend_src_always_returns.
Print Assumptions C02_shadow_marking_keeps_names_src.
Print Assumptions C02_deeper_entry_is_shadowed_src.
