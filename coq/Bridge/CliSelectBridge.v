(* Translation tie for the type selection of the CLI (C16).
   [ShootGen.CliSelectGen] is written on every run by harness/go/cmd/go2gallina
   from the CURRENT text of /repo/internal/shoot/generatorbase.go
   ((GeneratorBase).confirmTypes, TestFile) and common.go (Contains, at strings);
   this file proves them equal to [confirm_specified] / the type-list choice of
   [run_loaded], to [test_file] and to [mem] of Model/Cli.v (owned by the C16 check: imported,
   not edited).  Primitive table and store discipline: Bridge/CliSelPrims.v. *)
From Coq Require Import List ZArith Bool String.
From Shoot Require Import Base.Str Model.Cli Model.CliSpec Proofs.CliProofs Bridge.GoPrims Bridge.CliSelPrims.
From ShootGen Require Import CliSelectGen.
Import ListNotations.
Local Open Scope string_scope.

(* destruct the leftmost atom of a boolean condition *)
Ltac atom b :=
  lazymatch b with
  | negb ?x => atom x
  | andb ?x ?y => first [atom x | atom y]
  | orb ?x ?y => first [atom x | atom y]
  | (if ?c then _ else _) => atom c
  | true => fail
  | false => fail
  | _ => destruct b eqn:?
  end.

(* ---- Contains(slice, val) on strings = mem *)
Lemma Contains_loop_is_model : forall l slice v (w : sworld),
  Contains_loop1 slice v l w = (Returned (mem v l), w).
Proof.
  induction l as [|x l IH]; intros slice v w; [reflexivity|].
  cbn [Contains_loop1 mem existsb]. rewrite (String.eqb_sym x v).
  destruct (String.eqb v x); [reflexivity|]. cbn [orb]. apply IH.
Qed.

Theorem Contains_is_model : forall l v (w : sworld), Contains l v w = (Returned (mem v l), w).
Proof. intros. unfold Contains. apply Contains_loop_is_model. Qed.

(* ---- confirmTypes *)
Definition not_in_file : panic_val := PErrorf "type %s is not in the specified file" 0.

Section Bridge.
Variable o : oracle.
Variable c : subcmd.
Variable p : pkg.

(* the generator as confirmTypes finds it: the flags, and the file-name map so far *)
Definition world_of (fl : cflags) (fmap : list (string * string)) : sworld :=
  mkSW (fl_specified fl) (fl_types fl) (fl_file fl) fmap.

Lemma confirm_loop_is_model : forall fl l sp ty fmap,
  match confirm_specified o p fl l fmap with
  | Some fm => confirmTypes_loop1 (get_go_file o p) l (mkSW sp ty (fl_file fl) fmap)
               = (Returned tt, mkSW sp ty (fl_file fl) fm)
  | None => exists w', confirmTypes_loop1 (get_go_file o p) l (mkSW sp ty (fl_file fl) fmap)
                       = (Panicked not_in_file, w')
  end.
Proof.
  intros fl l sp ty. induction l as [|T l IH]; intros fmap; [reflexivity|].
  cbn [confirm_specified confirmTypes_loop1].
  cbv beta iota zeta delta [sw_file sw_fmap sw_types sw_specified fmap_set].
  (* comparisons with -file: the flag on the left, as the model writes them *)
  repeat match goal with |- context [String.eqb ?a (fl_file fl)] =>
           lazymatch a with fl_file fl => fail | _ => rewrite (String.eqb_sym a (fl_file fl)) end end.
  repeat (match goal with |- context [if ?b then _ else _] => atom b end;
          cbv beta iota delta [negb andb orb]);
    first [apply IH | eexists; reflexivity].
Qed.

(* an explicit -type list: the file-name map of [confirm_specified], or the fatal diagnostic *)
Theorem confirmTypes_specified_is_model : forall fl fmap listed, fl_specified fl = true ->
  match confirm_specified o p fl (fl_types fl) fmap with
  | Some fm => confirmTypes (get_go_file o p) listed (world_of fl fmap) = (Returned tt, world_of fl fm)
  | None => exists w', confirmTypes (get_go_file o p) listed (world_of fl fmap) = (Panicked not_in_file, w')
  end.
Proof.
  intros fl fmap listed S. unfold confirmTypes, world_of.
  cbv beta iota zeta delta [sw_specified sw_types]. rewrite S.
  pose proof (confirm_loop_is_model fl (fl_types fl) true (fl_types fl) fmap) as L.
  destruct (confirm_specified o p fl (fl_types fl) fmap) as [fm|].
  - rewrite L. reflexivity.
  - destruct L as (w' & L). rewrite L. eauto.
Qed.

(* -type=* / -file only: the names come from the sub-command's lister, the map is left alone *)
Theorem confirmTypes_listed_is_model : forall fl fmap listed, fl_specified fl = false ->
  confirmTypes (get_go_file o p) listed (world_of fl fmap)
  = (Returned tt, mkSW false listed (fl_file fl) fmap).
Proof.
  intros fl fmap listed S. unfold confirmTypes, world_of.
  cbv beta iota zeta delta [sw_specified sw_types set_types sw_file sw_fmap]. rewrite S. reflexivity.
Qed.

(* together: the (type list, file-name map) pair [run_loaded] goes on with, or its DgNotInFile failure *)
Theorem confirmTypes_is_run_loaded_choice : forall fl,
  match (if fl_specified fl
         then match confirm_specified o p fl (fl_types fl) [] with
              | Some fmap => Some (fl_types fl, fmap)
              | None => None
              end
         else Some (list_types c fl p, [])) with
  | Some (types, fmap) =>
      exists w', confirmTypes (get_go_file o p) (list_types c fl p) (world_of fl []) = (Returned tt, w')
                 /\ sw_types w' = types /\ sw_fmap w' = fmap /\ sw_file w' = fl_file fl
  | None => exists w', confirmTypes (get_go_file o p) (list_types c fl p) (world_of fl []) = (Panicked not_in_file, w')
  end.
Proof.
  intros fl. destruct (fl_specified fl) eqn:S.
  - pose proof (confirmTypes_specified_is_model fl [] (list_types c fl p) S) as H.
    destruct (confirm_specified o p fl (fl_types fl) []) as [fm|]; [|exact H].
    eexists. split; [exact H|]. cbn. auto.
  - eexists. split; [apply confirmTypes_listed_is_model; exact S|]. cbn. auto.
Qed.

(* ---- C16 lemmas about the confirmation step, over the translated source *)

(* without -file every named type gets the file that declares it: never fatal (Proofs/CliProofs.v confirm_nofile) *)
Theorem C16_confirm_nofile_src : forall fl, perm_oracle o -> wf p -> fl_specified fl = true -> fl_file fl = "" ->
  exists w', confirmTypes (get_go_file o p) (list_types c fl p) (world_of fl []) = (Returned tt, w')
             /\ fm_ok p (sw_fmap w') /\ (forall T, In T (fl_types fl) -> In T (map fst (sw_fmap w'))).
Proof.
  intros fl Ho W S F.
  destruct (confirm_nofile o p fl (fl_types fl) [] Ho W F) as (fm & E & Ok & Cov); [intros k v []|].
  pose proof (confirmTypes_specified_is_model fl [] (list_types c fl p) S) as H. rewrite E in H.
  eexists. split; [exact H|]. cbn [world_of sw_fmap]. split; [exact Ok|]. intros T I. apply Cov. left. exact I.
Qed.

(* with -file=F an explicit list passes iff every named type is declared in F (confirm_file): otherwise the
   run stops with the diagnostic before anything is generated *)
Theorem C16_confirm_file_src : forall fl, perm_oracle o -> wf p -> fl_specified fl = true -> fl_file fl <> "" ->
  if forallb (fun T => decl_file p T =? fl_file fl) (fl_types fl)
  then confirmTypes (get_go_file o p) (list_types c fl p) (world_of fl []) = (Returned tt, world_of fl [])
  else exists w', confirmTypes (get_go_file o p) (list_types c fl p) (world_of fl []) = (Panicked not_in_file, w').
Proof.
  intros fl Ho W S F.
  pose proof (confirmTypes_specified_is_model fl [] (list_types c fl p) S) as H.
  rewrite (confirm_file o p fl (fl_types fl) [] Ho W F) in H.
  destruct (forallb (fun T => decl_file p T =? fl_file fl) (fl_types fl)); exact H.
Qed.

(* ---- TestFile: with -file empty every file passes; otherwise the file whose BASE name is the flag *)
Theorem TestFile_is_model : forall fl fmap f full, path_base full = f_name f ->
  TestFile (Some full) (world_of fl fmap) = (Returned (test_file fl f), world_of fl fmap).
Proof.
  intros fl fmap f full B. unfold TestFile, test_file, world_of, fset_file, file_pos, tok_name.
  cbv beta iota zeta delta [sw_file is_nil]. rewrite B.
  rewrite (String.eqb_sym (f_name f) (fl_file fl)).
  repeat (match goal with |- context [if ?b then _ else _] => atom b end;
          cbv beta iota delta [negb andb orb]); reflexivity.
Qed.

(* a file without a position (no package clause) is the requested file only when no file is requested *)
Theorem TestFile_no_position : forall fl fmap,
  TestFile None (world_of fl fmap) = (Returned (fl_file fl =? ""), world_of fl fmap).
Proof.
  intros fl fmap. unfold TestFile, world_of, fset_file, file_pos.
  cbv beta iota zeta delta [sw_file is_nil]. destruct (fl_file fl =? ""); reflexivity.
Qed.

End Bridge.

Print Assumptions Contains_is_model.
Print Assumptions confirmTypes_specified_is_model.
Print Assumptions confirmTypes_listed_is_model.
Print Assumptions confirmTypes_is_run_loaded_choice.
Print Assumptions TestFile_is_model.
Print Assumptions TestFile_no_position.
Print Assumptions C16_confirm_nofile_src.
Print Assumptions C16_confirm_file_src.
