(* Primitive table of the Go->Gallina translator, area "rest" (C19): the
   meaning given to the Go types and calls that restclient.go,
   restclient.shootnew.restconf.go and constructor.go use and that the
   translator does not look into.  Trusted base of the translation tie for C19.

     *RestConf                a record [conf M], never nil (NewWith allocates it; options and
                              methods receive that pointer); r.f / r.f = e read and replace a field
     middleware.Middleware    an abstract value m : M; calling it, m(t), is [interp m t]
     http.RoundTripper        the event trace it produces when executed once (Model/RestRuntime.v)
     http.DefaultTransport    the parameter [base]
     middleware.LoggingMiddleware(t)   [log_mw t]
     map[string]string        [headers] (only stored and returned)
     ctorRegistry             the world: an association list type id -> constructor; reflect.TypeOf(( *T)(nil))
                              is the abstract id T; lookups, insertion and the type assertion of NewRest: below
     new(RestConf)            [conf0]
     panic(fmt.Errorf(f, typ.Elem(), ...))   [Panicked (PErrorf f typ)] (format and first argument only)
   No proofs in this file. *)
From Coq Require Import List ZArith Bool String.
From Shoot Require Import Model.RestRuntime.
From Shoot Require Export Bridge.GoPrims.
Import ListNotations.

Section Prims.
Variable M : Type.
Variable Client : Type.

(* ctorRegistry *)
Definition world := registry M Client.

Definition set_base (s : string) (r : conf M) : conf M :=
  mkConf s (c_timeout r) (c_logging r) (c_headers r) (c_mws r).
Definition set_timeout (d : Z) (r : conf M) : conf M :=
  mkConf (c_base r) d (c_logging r) (c_headers r) (c_mws r).
Definition set_logging (b : bool) (r : conf M) : conf M :=
  mkConf (c_base r) (c_timeout r) b (c_headers r) (c_mws r).
Definition set_headers (h : headers) (r : conf M) : conf M :=
  mkConf (c_base r) (c_timeout r) (c_logging r) h (c_mws r).
Definition set_mws (l : list M) (r : conf M) : conf M :=
  mkConf (c_base r) (c_timeout r) (c_logging r) (c_headers r) l.

Definition apply_mw (interp : M -> mw) (m : M) (t : rt) : rt := interp m t.

(* an Option[RestConf, *RestConf] is a func( *RestConf): calling it on the record pointer replaces the record *)
Definition apply_opt (f : conf M -> conf M) (r : conf M) : conf M := f r.

(* v, ok := ctorRegistry[t]   (the values are stored as `any`: None = the nil interface of a miss) *)
Definition reg_lookup (w : world) (t : nat) : option (ctor M Client) * bool :=
  match lookup Client w t with
  | Some c => (Some c, true)
  | None => (None, false)
  end.

(* ctorRegistry[t] = c : replaces the entry of t, or adds one (at the end: Go's map order is not observable here) *)
Fixpoint reg_insert (w : world) (t : nat) (c : ctor M Client) : world :=
  match w with
  | [] => [(t, c)]
  | (t', c') :: w' => if Nat.eqb t' t then (t, c) :: w' else (t', c') :: reg_insert w' t c
  end.

(* x.(func(RestConf) T) on a value taken from the registry: it holds exactly when x is not the nil
   interface -- Register[T] is the only writer and stores a func(RestConf) T under T's own type
   (TRUSTED: the one dynamic type test of NewRest is not modelled further) *)
Definition assert_ctor (x : option (ctor M Client)) : option (ctor M Client) * bool :=
  (x, match x with Some _ => true | None => false end).

Definition apply_ctor (c : ctor M Client) (r : conf M) : Client := c r.

(* reflect.Type.Elem of the pointer type the id stands for: the same id (ids name the interface T) *)
Definition type_elem (t : nat) : nat := t.

End Prims.
