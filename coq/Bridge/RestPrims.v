(* Primitive table of the Go->Gallina translator, area "rest" (C19): the
   meaning given to the Go types and calls that restclient.go,
   restclient.shootnew.restconf.go and constructor.go use and that the
   translator does not look into.  Trusted base of the translation tie for C19.

     *RestConf                a record [conf M], never nil (NewWith allocates it; options and
                              methods receive that pointer); r.f / r.f = e read and replace a field
     middleware.Middleware    an abstract value m : M; calling it, m(t), is [interp m t]
     http.RoundTripper        the event trace it produces when executed once (Model/RestRuntime.v)
     http.DefaultTransport    the parameter [base]
     middleware.LoggingMiddleware(t)   [log_mw t]
     map[string]string        [headers] (only stored and returned)
     ctorRegistry             the world: an association list type id -> constructor
   No proofs in this file. *)
From Coq Require Import List ZArith Bool String.
From Shoot Require Import Model.RestRuntime.
From Shoot Require Export Bridge.GoPrims.
Import ListNotations.

Section Prims.
Variable M : Type.
Variable Client : Type.

(* ctorRegistry *)
Definition world := registry M Client.

Definition set_base (s : string) (r : conf M) : conf M :=
  mkConf s (c_timeout r) (c_logging r) (c_headers r) (c_mws r).
Definition set_timeout (d : Z) (r : conf M) : conf M :=
  mkConf (c_base r) d (c_logging r) (c_headers r) (c_mws r).
Definition set_logging (b : bool) (r : conf M) : conf M :=
  mkConf (c_base r) (c_timeout r) b (c_headers r) (c_mws r).
Definition set_headers (h : headers) (r : conf M) : conf M :=
  mkConf (c_base r) (c_timeout r) (c_logging r) h (c_mws r).
Definition set_mws (l : list M) (r : conf M) : conf M :=
  mkConf (c_base r) (c_timeout r) (c_logging r) (c_headers r) l.

Definition apply_mw (interp : M -> mw) (m : M) (t : rt) : rt := interp m t.

End Prims.
