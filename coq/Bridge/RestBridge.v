(* Translation tie for C19 (the option constructors, BuildMiddleware, NewWith,
   Register, NewRest).  [ShootGen.RestGen] is written on every run by
   harness/go/cmd/go2gallina from the CURRENT text of /repo/restclient.go and
   /repo/restclient.shootnew.restconf.go; this file proves that the translated
   functions are the model functions of Model/RestRuntime.v ([denote],
   [build_conf]) and restates C19 theorems over the translated definitions.
   NewWith is translated at the instance T = RestConf (generic otherwise). *)
From Coq Require Import List ZArith Bool String Lia.
From Shoot Require Import Model.RestRuntime Proofs.RestRuntimeProofs Bridge.RestPrims.
From ShootGen Require Import RestGen.
Import ListNotations.
Local Open Scope Z_scope.

Ltac zbool :=
  repeat match goal with
  | |- context [(?a <=? ?b)%Z] => destruct (Z.leb_spec a b); try lia
  | |- context [(?a <? ?b)%Z] => destruct (Z.ltb_spec a b); try lia
  | |- context [(?a >=? ?b)%Z] => rewrite (Z.geb_leb a b)
  | |- context [(?a >? ?b)%Z] => rewrite (Z.gtb_ltb a b)
  | |- context [(?a =? ?b)%Z] => destruct (Z.eqb_spec a b); try lia
  end.

Section Bridge.
Variable M Client : Type.
Variable interp : M -> mw.
Variable base : rt.
Notation world := (RestPrims.world M Client).

(* ---- the five option constructors: the closure each returns is [denote] of the option *)
Theorem BaseURL_is_model : forall s r (w : world),
  BaseURL M Client s r w = (Returned (denote (OBaseURL s) r), w).
Proof. reflexivity. Qed.
Theorem Timeout_is_model : forall d r (w : world),
  Timeout M Client d r w = (Returned (denote (OTimeout d) r), w).
Proof. reflexivity. Qed.
Theorem EnableLogging_is_model : forall b r (w : world),
  EnableLogging M Client b r w = (Returned (denote (OLogging b) r), w).
Proof. reflexivity. Qed.
Theorem DefaultHeaders_is_model : forall h r (w : world),
  DefaultHeaders M Client h r w = (Returned (denote (OHeaders h) r), w).
Proof. reflexivity. Qed.
Theorem Use_is_model : forall m r (w : world),
  Use M Client m r w = (Returned (denote (OUse m) r), w).
Proof. reflexivity. Qed.

(* an option as the translated source executes it *)
Definition src_denote (o : opt M) (r : conf M) (w : world) : outcome (conf M) * world :=
  match o with
  | OBaseURL s => BaseURL M Client s r w
  | OTimeout d => Timeout M Client d r w
  | OLogging b => EnableLogging M Client b r w
  | OHeaders h => DefaultHeaders M Client h r w
  | OUse m => Use M Client m r w
  end.

Theorem src_denote_is_model : forall o r w, src_denote o r w = (Returned (denote o r), w).
Proof. intros [] r w; reflexivity. Qed.

(* ---- BuildMiddleware *)
Lemma nth_map_interp : forall (mws : list M) k m t,
  nth_error mws k = Some m -> nth k (map interp mws) (fun x => x) t = interp m t.
Proof.
  induction mws as [|a mws IH]; intros [|k] m t H; simpl in *; try discriminate.
  - inversion H; reflexivity.
  - apply IH; assumption.
Qed.

Lemma build_loop_bridge : forall r k t (w : world),
  (k <= List.length (c_mws r))%nat ->
  BuildMiddleware_loop1 M Client interp r k (Z.of_nat k - 1) t w
  = BuildMiddleware_after1 M Client r (build_loop (map interp (c_mws r)) k t) w.
Proof.
  intros r k. induction k as [|k IH]; intros t w Hk.
  - cbn [BuildMiddleware_loop1 build_loop]. zbool. reflexivity.
  - cbn [BuildMiddleware_loop1 build_loop]. zbool.
    unfold go_index. zbool.
    replace (Z.to_nat (Z.of_nat (S k) - 1)) with k by lia.
    destruct (nth_error (c_mws r) k) as [m|] eqn:Hn.
    + replace (Z.of_nat (S k) - 1 - 1) with (Z.of_nat k - 1) by lia.
      unfold apply_mw. rewrite IH by lia. rewrite (nth_map_interp _ _ _ _ Hn). reflexivity.
    + apply nth_error_None in Hn. lia.
Qed.

Theorem BuildMiddleware_is_model : forall r (w : world),
  BuildMiddleware M Client interp base r w = (Returned (build_conf interp r base), w).
Proof.
  intros r w. unfold BuildMiddleware.
  match goal with |- BuildMiddleware_loop1 _ _ _ _ ?f _ _ _ = _ =>
    replace f with (List.length (c_mws r)) by lia end.
  rewrite build_loop_bridge by lia.
  unfold BuildMiddleware_after1, build_conf, build. rewrite map_length.
  destruct (c_logging r); reflexivity.
Qed.

(* ------------------------------------------------------------------ *)
(* C19 theorems over the translated definitions                         *)

(* applying options one after the other, as the translated closures do it *)
Fixpoint src_apply (os : list (opt M)) (r : conf M) (w : world) : outcome (conf M) * world :=
  match os with
  | [] => (Returned r, w)
  | o :: os' =>
      match src_denote o r w with
      | (Returned r', w') => src_apply os' r' w'
      | other => other
      end
  end.

Lemma src_apply_model : forall os r w,
  src_apply os r w = (Returned (fold_left (fun r f => f r) (map denote os) r), w).
Proof.
  induction os as [|o os IH]; intros r w; simpl; [reflexivity|].
  rewrite src_denote_is_model. apply IH.
Qed.

Theorem C19_conf_holds_exactly_the_options_src : forall os (w : world),
  exists r, src_apply os conf0 w = (Returned r, w) /\
  last_arg sel_base EmptyString os (c_base r) /\
  last_arg sel_timeout 0%Z os (c_timeout r) /\
  last_arg sel_logging false os (c_logging r) /\
  last_arg sel_headers None os (c_headers r) /\
  c_mws r = uses os.
Proof.
  intros os w. exists (apply_opts os). split.
  - rewrite src_apply_model. reflexivity.
  - apply conf_of_options.
Qed.

(* ---- NewWith (at T = RestConf): new(T), no SetDefault (RestConf does not implement defaulter:
   decided by the translator from the declarations), then every option in order *)
Lemma NewWith_loop_bridge : forall all fs r (w : world),
  NewWith_loop1 M Client all fs r w = (Returned (fold_left (fun r f => f r) fs r), w).
Proof.
  intros all fs. induction fs as [|f fs IH]; intros r w; cbn [NewWith_loop1 fold_left].
  - reflexivity.
  - unfold apply_opt. apply IH.
Qed.

Theorem NewWith_is_model : forall fs (w : world),
  NewWith M Client fs w = (Returned (new_with fs), w).
Proof. intros fs w. unfold NewWith, new_with. apply NewWith_loop_bridge. Qed.

(* ---- Register / NewRest against [step] of the model *)
Definition dup_format : string := "ctor of interface %s should not be registered multiple times".
Definition notreg_format : string := "ctor of interface %s is not regstered".

Lemma reg_insert_absent : forall (w : world) t c,
  lookup Client w t = None -> reg_insert M Client w t c = (w ++ [(t, c)])%list.
Proof.
  induction w as [|[t' c'] w IH]; intros t c H; simpl in *; [reflexivity|].
  destruct (Nat.eqb t' t); [discriminate|]. rewrite IH by assumption. reflexivity.
Qed.

Theorem Register_is_model : forall t c (w : world),
  Register M Client t c w =
  match step Client w (RestRuntime.Register t c) with
  | (w', Registered) => (Returned tt, w')
  | (w', PanicDup t') => (Panicked (PErrorf dup_format t'), w')
  | (w', _) => (OutOfFuel, w')          (* not an outcome of Register *)
  end.
Proof.
  intros t c w. unfold Register, reg_lookup, step, type_elem.
  destruct (lookup Client w t) as [c0|] eqn:Hl; cbn.
  - reflexivity.
  - rewrite reg_insert_absent by assumption. reflexivity.
Qed.

Theorem NewRest_is_model : forall t os (w : world),
  NewRest M Client t (map denote os) w =
  match step Client w (RestRuntime.NewRest t os) with
  | (w', Built cl) => (Returned cl, w')
  | (w', PanicNotReg t') => (Panicked (PErrorf notreg_format t'), w')
  | (w', _) => (OutOfFuel, w')          (* not an outcome of NewRest *)
  end.
Proof.
  intros t os w. unfold NewRest. rewrite NewWith_is_model.
  unfold reg_lookup, assert_ctor, apply_ctor, step, type_elem.
  destruct (lookup Client w t) as [c0|] eqn:Hl; cbn; reflexivity.
Qed.

(* a history of Register / NewRest operations executed through the translated functions *)
Definition src_step (w : world) (o : op M Client) : world * RestRuntime.outcome Client :=
  match o with
  | RestRuntime.Register t c =>
      match Register M Client t c w with
      | (Returned _, w') => (w', Registered)
      | (_, w') => (w', PanicDup t)
      end
  | RestRuntime.NewRest t os =>
      match NewRest M Client t (map denote os) w with
      | (Returned cl, w') => (w', Built cl)
      | (_, w') => (w', PanicNotReg t)
      end
  end.

Theorem src_step_is_model : forall w o, src_step w o = step Client w o.
Proof.
  intros w [t c|t os]; unfold src_step.
  - rewrite Register_is_model. unfold step. destruct (lookup Client w t); reflexivity.
  - rewrite NewRest_is_model. unfold step. destruct (lookup Client w t); reflexivity.
Qed.

Fixpoint src_run (w : world) (ops : list (op M Client)) : world * list (RestRuntime.outcome Client) :=
  match ops with
  | [] => (w, [])
  | o :: ops' =>
      let '(w1, out) := src_step w o in
      let '(w2, outs) := src_run w1 ops' in
      (w2, out :: outs)
  end.

Lemma src_run_is_model : forall ops w, src_run w ops = run Client w ops.
Proof.
  induction ops as [|o ops IH]; intros w; simpl; [reflexivity|].
  rewrite src_step_is_model. destruct (step Client w o) as [w1 out]. rewrite IH. reflexivity.
Qed.

(* C19_history_outcome over the translated Register / NewRest: after any prefix, the outcome of
   an operation is what the declarative reading of the history says *)
Theorem C19_history_outcome_src : forall (pre : list (op M Client)) o post,
  nth_error (snd (src_run [] (pre ++ o :: post))) (List.length pre)
  = Some (outcome_spec Client pre o).
Proof. intros. rewrite src_run_is_model. apply history_outcome. Qed.

Theorem C19_register_twice_panics_src : forall t c c' (w : world),
  fst (Register M Client t c w) = Returned tt ->
  fst (Register M Client t c' (snd (Register M Client t c w))) = Panicked (PErrorf dup_format t).
Proof.
  intros t c c' w. rewrite (Register_is_model t c w). unfold step.
  destruct (lookup Client w t) as [c0|] eqn:Hl; cbn [fst snd]; [discriminate|]. intros _.
  rewrite Register_is_model. unfold step.
  assert (Hl' : lookup Client (w ++ [(t, c)]) t <> None).
  { clear. induction w as [|[t' c'] w IH]; simpl.
    - rewrite Nat.eqb_refl. discriminate.
    - destruct (Nat.eqb t' t); [discriminate | assumption]. }
  destruct (lookup Client (w ++ [(t, c)]) t); [reflexivity | contradiction].
Qed.

Theorem C19_newrest_unregistered_panics_src : forall t os (w : world),
  lookup Client w t = None ->
  NewRest M Client t (map denote os) w = (Panicked (PErrorf notreg_format t), w).
Proof. intros t os w H. rewrite NewRest_is_model. unfold step. rewrite H. reflexivity. Qed.

Theorem C19_newrest_applies_registered_ctor_src : forall t c os (w : world),
  lookup Client w t = Some c ->
  NewRest M Client t (map denote os) w = (Returned (c (apply_opts os)), w).
Proof. intros t c os w H. rewrite NewRest_is_model. unfold step. rewrite H. reflexivity. Qed.

End Bridge.

(* the chain built by the translated BuildMiddleware from tagging middlewares:
   first added outermost, logging outside all *)
Theorem C19_chain_trace_src : forall (Client : Type) (r : conf nat) (w : RestPrims.world nat Client),
  BuildMiddleware nat Client tag_mw [EBase] r w
  = (Returned (nested_trace (c_logging r) (c_mws r)), w).
Proof.
  intros Client r w. rewrite BuildMiddleware_is_model. unfold build_conf.
  rewrite build_tags_trace. reflexivity.
Qed.

Theorem C19_chain_first_added_outermost_src :
  forall (M Client : Type) (interp : M -> mw) (base : rt) (r : conf M) (w : RestPrims.world M Client),
  BuildMiddleware M Client interp base r w
  = (Returned (if c_logging r then log_mw (compose_chain (map interp (c_mws r)) base)
               else compose_chain (map interp (c_mws r)) base), w).
Proof.
  intros. rewrite BuildMiddleware_is_model. unfold build_conf. rewrite build_compose. reflexivity.
Qed.

Print Assumptions BuildMiddleware_is_model.
Print Assumptions NewRest_is_model.
Print Assumptions C19_history_outcome_src.
Print Assumptions C19_conf_holds_exactly_the_options_src.
Print Assumptions C19_chain_trace_src.
