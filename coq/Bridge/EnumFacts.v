(* A fact about integer conversions used by the bridge of IsEnum (no dependency on
   generated code; compiled once per content and cached, it takes ~40 s):
   for a value v of an integer type TV, converting to the enum type T and back
   gives v again, with the same sign, exactly when v is representable in T. *)
From Coq Require Import ZArith Bool Lia.
From Shoot Require Import Model.Enum.
Local Open Scope Z_scope.

Lemma representable_test : forall k ktv v, in_range ktv v = true ->
  ((wrap ktv (wrap k v) =? v) && Bool.eqb (wrap k v <? 0) (v <? 0)) = (wrap k v =? v).
Proof.
  intros k ktv v Hr. unfold in_range, kmin, kmax in Hr.
  apply andb_true_iff in Hr as [Hlo Hhi]. apply Z.leb_le in Hlo, Hhi.
  destruct k, ktv; cbn [signed width] in *; unfold wrap; cbn [signed width];
    repeat match goal with |- context [2 ^ ?n] => let x := eval compute in (2 ^ n) in change (2 ^ n) with x end;
    repeat match goal with H : context [2 ^ ?n] |- _ => let x := eval compute in (2 ^ n) in change (2 ^ n) with x in H end;
    repeat match goal with |- context [?a / 2] => let x := eval compute in (a / 2) in change (a / 2) with x end;
    repeat match goal with
    | |- context [(?a =? ?b)] => destruct (Z.eqb_spec a b)
    | |- context [(?a <? ?b)] => destruct (Z.ltb_spec a b)
    end; cbn; try reflexivity; exfalso; Z.div_mod_to_equations; lia.
Qed.
