(* Translation tie for the matcher of `shoot map` (C05, also C09/C15).
   [ShootGen.MapMatchGen] is written on every run by harness/go/cmd/go2gallina
   from the CURRENT text of /repo/internal/mapper/match.go (makeTypeMatch,
   canNameMatch, matchType, mayMisConv), mismatch.go (makeTypeMismatch, makeFuncMap,
   makeSubMap, makeSubListMap) and types.go (Field.MatchingName); this
   file proves the translated definitions equal to the model functions of
   Model/Mapper.v and Model/MapVal.v (owned by the mapper checks: imported, not
   edited) and restates C05 theorems over the translated pass.

   The store discipline (a *Field is a location, a field write is the update of
   one array cell, the generator is the world) is described in
   Bridge/MapPrims.v and docs/translator.md. *)
From Coq Require Import List ZArith Bool String Arith Lia.
From Shoot Require Import Base.Str Model.Transfer Model.MapVal Model.Mapper Proofs.MapperProofs
     Proofs.MapperAttribProofs Bridge.GoPrims Bridge.MapPrims.
From ShootGen Require Import MapMatchGen.
Import ListNotations.
Local Open Scope string_scope.
Local Open Scope list_scope.

(* ---- reading a cell after writes to it (no side condition on the index: out
   of range both sides are the default) *)
Lemma proj_nth_upd {A} (P : field -> A) l j g :
  (forall f, P (g f) = P f) -> P (nth j (upd l j g) fdummy) = P (nth j l fdummy).
Proof.
  intros H. revert j. induction l as [|x l IH]; intros [|j]; simpl; auto.
Qed.

Lemma upd_upd {A} (l : list A) i f g : upd (upd l i f) i g = upd l i (fun x => g (f x)).
Proof. revert i. induction l as [|x l IH]; intros [|i]; simpl; auto. rewrite IH. reflexivity. Qed.

(* everything of the world but the [warned] flags *)
Definition frame (w w' : world) : Prop :=
  w_st w' = w_st w /\ w_tags w' = w_tags w /\ w_flags w' = w_flags w /\ w_funcs w' = w_funcs w.

Section Bridge.
Variable e : env.
Notation TE := type_equals.
Notation CV := (convertible e).
Notation IS := (is_string_ty e).
Notation IF := (is_fixed_width_int_ty e).

(* ---- Field.MatchingName, mayMisConv, matchType *)
Theorem MatchingName_is_model : forall f, MatchingName f = matching_name f.
Proof. intros f. unfold MatchingName, matching_name. destruct (String.eqb (f_backing f) ""); reflexivity. Qed.

Theorem mayMisConv_is_model : forall a b, mayMisConv IS IF a b = may_mis_conv e a b.
Proof.
  intros a b. unfold mayMisConv, may_mis_conv.
  destruct (is_string_ty e a), (is_fixed_width_int_ty e b), (is_string_ty e b), (is_fixed_width_int_ty e a); reflexivity.
Qed.

Theorem matchType_is_model : forall t1 t2 (w : world),
  matchType TE CV IS IF t1 t2 w = (Returned (match_type e t1 t2), w).
Proof.
  intros t1 t2 w. unfold matchType, match_type. rewrite mayMisConv_is_model.
  destruct (type_equals t1 t2), (convertible e t1 t2), (may_mis_conv e t1 t2); reflexivity.
Qed.

(* ---- makeTypeMatch.  Symbolic execution of one loop iteration: the world
   operations are unfolded down to the record of arrays and sets ([world_ops]);
   reads of a cell that was written before are moved back to the original array
   ([norm_reads]: the setters keep Name / typ / IsGet); the conditions are
   decided atom by atom ([split_ifs]); what remains on each path is the final
   state on both sides, equal up to fusing consecutive writes to one cell
   ([upd_upd]).  Nothing here looks at the shape of the generated term. *)
Ltac world_ops :=
  cbv beta iota zeta delta
    [set_Target set_CanAssign set_IsConv set_Type set_CanMap set_CanEachMap set_Func set_IsPtr
     wdst_add wsrc_add rmap_set wmap_set wdst_has wsrc_has get_Name get_typ get_IsGet
     get_IsSet get_Target qualified_type_name store load with_st on_src on_dst src_at dst_at prim_warn
     dst_free src_free to_claim from_claim claim_dst claim_src
     w_st w_tags w_flags w_funcs w_warned s_src s_dst s_wsrc s_wdst s_rmap s_wmap option_map loc_index].

Ltac keeps := intros; repeat match goal with |- context [if ?b then _ else _] => destruct b end; reflexivity.
Ltac norm_reads :=
  repeat first
    [ rewrite (proj_nth_upd f_name) by keeps
    | rewrite (proj_nth_upd f_ty) by keeps
    | rewrite (proj_nth_upd f_isget) by keeps ].

(* destruct the leftmost atom of a boolean condition *)
Ltac atom b :=
  lazymatch b with
  | negb ?x => atom x
  | andb ?x ?y => first [atom x | atom y]
  | orb ?x ?y => first [atom x | atom y]
  | (if ?c then _ else _) => atom c
  | true => fail
  | false => fail
  | _ => destruct b eqn:?
  end.
Ltac dead := match goal with H : _ = _ |- _ => discriminate H end.
Ltac split_ifs :=
  repeat (match goal with |- context [if ?b then _ else _] => atom b end;
          try dead; cbv beta iota delta [negb andb orb]; norm_reads).


(* ---- canNameMatch: the model's answer on the two objects; only [warned] flags change.
   A nil tag map reads like an empty one; the warning is [prim_warn]: nothing. *)
Theorem canNameMatch_is_model : forall l1 l2 tm ic (w : world),
  exists w', canNameMatch l1 l2 tm ic w = (Returned (can_name_match (load l1 w) (load l2 w) tm ic), w')
             /\ frame w w'.
Proof.
  intros l1 l2 tm ic w.
  unfold canNameMatch, can_name_match, get_IsGet, get_IsSet, tag_lookup, prim_warn, map_make.
  rewrite !MatchingName_is_model.
  destruct tm as [|kv tm']; cbv beta iota zeta delta [map_is_nil];
    [cbn [tm_get] | destruct (tm_get (kv :: tm') (matching_name (load l1 w)))];
    repeat (match goal with |- context [if ?b then _ else _] => atom b end;
            try dead; cbv beta iota delta [negb andb orb]);
    (eexists; split; [reflexivity | unfold frame, set_warned; cbn [w_st w_tags w_flags w_funcs]; auto 6]).
Qed.

Lemma loop2_is_model : forall js i (w : world),
  exists w', makeTypeMatch_loop2 TE CV IS IF (LSrc i) (map LDst js) w = (Returned tt, w')
             /\ w_st w' = fold_left (fun s j => step_match e (w_tags w) (fl_ic (w_flags w)) i j s) js (w_st w)
             /\ w_tags w' = w_tags w /\ w_flags w' = w_flags w /\ w_funcs w' = w_funcs w.
Proof.
  induction js as [|j js IH]; intros i w.
  - exists w. cbn. auto.
  - destruct (canNameMatch_is_model (LSrc i) (LDst j) (w_tags w) (fl_ic (w_flags w)) w) as (w1 & E & F1 & F2 & F3 & F4).
    cbn [map makeTypeMatch_loop2 fold_left]. rewrite E. cbn [load].
    unfold step_match at 2.
    destruct (can_name_match (src_at (w_st w) i) (dst_at (w_st w) j) (w_tags w) (fl_ic (w_flags w))) eqn:N; cbn [negb].
    + (* the names match: the two claims *)
      rewrite !matchType_is_model. clear E N.
      destruct w1 as [s1 tg1 fl1 fn1 wn1]. cbn [w_st w_tags w_flags w_funcs] in F1, F2, F3, F4. subst s1 tg1 fl1 fn1.
      destruct w as [[src dst wsrc wdst rmap wmap] tg fl fn wn].
      world_ops.
      destruct (match_type e (f_ty (nth i src fdummy)) (f_ty (nth j dst fdummy))) as [same conv].
      destruct (match_type e (f_ty (nth j dst fdummy)) (f_ty (nth i src fdummy))) as [same' convback].
      norm_reads. split_ifs.
      all: match goal with |- exists w', makeTypeMatch_loop2 _ _ _ _ (LSrc ?i) _ ?W = _ /\ _ =>
        destruct (IH i W) as (w' & E1 & E2 & E3 & E4 & E5); exists w';
        cbv beta iota delta [w_st w_tags w_flags w_funcs] in E2, E3, E4, E5;
        (split; [exact E1|]);
        (split; [etransitivity; [exact E2|]; rewrite ?upd_upd; reflexivity|]);
        (split; [exact E3|split; [exact E4|exact E5]]) end.
    + (* no match: the state is unchanged *)
      destruct (IH i w1) as (w' & E1 & E2 & E3 & E4 & E5). exists w'.
      rewrite F1, F2, F3 in E2. rewrite E3, E4, E5. auto.
Qed.

(* the outer loop over source fields; g.destExportedFields is read when an inner loop starts *)
Lemma loop1_is_model : forall is (w : world),
  exists w', makeTypeMatch_loop1 TE CV IS IF (map LSrc is) w = (Returned tt, w')
             /\ w_st w' = fold_left (fun s i => fold_left (fun s j => step_match e (w_tags w) (fl_ic (w_flags w)) i j s)
                                                          (seq 0 (List.length (s_dst s))) s) is (w_st w)
             /\ w_tags w' = w_tags w /\ w_flags w' = w_flags w /\ w_funcs w' = w_funcs w.
Proof.
  induction is as [|i is IH]; intros w.
  - exists w. cbn. auto.
  - cbn [map makeTypeMatch_loop1 fold_left]. unfold dst_locs.
    destruct (loop2_is_model (seq 0 (List.length (s_dst (w_st w)))) i w) as (w1 & E1 & E2 & E3 & E4 & E5).
    rewrite E1. destruct (IH w1) as (w' & G1 & G2 & G3 & G4 & G5). exists w'.
    rewrite E3, E4 in G2. rewrite E2 in G2. rewrite G3, G4, G5. auto.
Qed.

(* makeTypeMatch IS the model's pass: on every state, whatever the two field lists *)
Theorem makeTypeMatch_is_model : forall w : world,
  exists w', makeTypeMatch TE CV IS IF w = (Returned tt, w')
             /\ w_st w' = double_loop (step_match e (w_tags w) (fl_ic (w_flags w))) (w_st w)
             /\ w_tags w' = w_tags w /\ w_flags w' = w_flags w /\ w_funcs w' = w_funcs w.
Proof. intros w. unfold makeTypeMatch, src_locs, double_loop. apply loop1_is_model. Qed.

(* ================= the mismatch pass (mismatch.go) ================= *)

(* reading Target of a cell that was written: in range it is what the write left, out of range the default *)
Lemma f_target_nth_upd l i g :
  f_target (nth i (upd l i g) fdummy) = if Nat.ltb i (List.length l) then f_target (g (nth i l fdummy)) else None.
Proof.
  revert i. induction l as [|x l IH]; intros [|i]; simpl; auto. rewrite IH. reflexivity.
Qed.

Lemma tgt_set_target t f : f_target (set_target t f) = t. Proof. reflexivity. Qed.
Lemma tgt_set_func n f : f_target (set_func n f) = f_target f. Proof. reflexivity. Qed.
Lemma tgt_set_isptr b f : f_target (set_isptr b f) = f_target f. Proof. reflexivity. Qed.
Lemma tgt_fset_canmap b f : f_target (fset_canmap b f) = f_target f. Proof. reflexivity. Qed.
Lemma tgt_fset_caneach b f : f_target (fset_caneach b f) = f_target f. Proof. reflexivity. Qed.
Lemma tgt_fset_type t f : f_target (fset_type t f) = f_target f. Proof. reflexivity. Qed.
Lemma tgt_set_submap b t f : f_target (set_submap b t f) = f_target f. Proof. reflexivity. Qed.
Lemma is_nil_option_map {A B} (g : A -> B) x : is_nil (option_map g x) = is_nil x.
Proof. destruct x; reflexivity. Qed.

Ltac tgt_ops :=
  cbv beta;
  repeat first [ rewrite tgt_set_target | rewrite tgt_set_func | rewrite tgt_set_isptr | rewrite tgt_fset_canmap
               | rewrite tgt_fset_caneach | rewrite tgt_fset_type | rewrite tgt_set_submap ].
Ltac norm_targets :=
  rewrite ?upd_upd;
  repeat first [ rewrite (proj_nth_upd f_target) by keeps | rewrite f_target_nth_upd; tgt_ops ].

(* decide conditions: booleans atom by atom, matches on options by their innermost scrutinee *)
Ltac scrut x :=
  lazymatch x with
  | (match ?y with Some _ => _ | None => _ end) => scrut y
  | (if ?c then _ else _) => atom c
  | _ => destruct x eqn:?
  end.
Ltac split_all :=
  repeat (first [ match goal with |- context [if ?b then _ else _] => atom b end
                | match goal with |- context [match ?x with Some _ => _ | None => _ end] => scrut x end ];
          try dead; cbv beta iota delta [negb andb orb is_nil]; norm_reads; norm_targets).

Ltac frame_ok := cbv beta iota delta [w_st w_tags w_flags w_funcs]; auto 6.

(* ---- makeFuncMap: the loop over the mapper methods, with its break *)
Lemma funcloop_is_model : forall fns i j (w : world),
  exists w', makeFuncMap_loop1 TE (LSrc i) (LDst j) fns w = (Returned tt, w')
             /\ w_st w' = func_loop fns i j (w_st w)
             /\ w_tags w' = w_tags w /\ w_flags w' = w_flags w /\ w_funcs w' = w_funcs w.
Proof.
  induction fns as [|fn fns IH]; intros i j w.
  - exists w. cbn. auto.
  - cbn [makeFuncMap_loop1 func_loop].
    destruct w as [[src dst wsrc wdst rmap wmap] tg fl fn0 wn].
    cbv beta iota zeta delta [makeFuncMap_after1 get_Target]. rewrite ?is_nil_option_map.
    world_ops. norm_reads. norm_targets. split_all.
    all: lazymatch goal with
      | |- exists w', (Returned tt, ?W) = (Returned tt, w') /\ _ =>
          exists W; (split; [reflexivity|]); (split; [rewrite ?upd_upd; reflexivity|frame_ok])
      | |- exists w', makeFuncMap_loop1 _ _ _ _ ?W = _ /\ _ =>
          destruct (IH i j W) as (w' & E1 & E2 & E3 & E4 & E5); exists w';
          cbv beta iota delta [w_st w_tags w_flags w_funcs] in E2, E3, E4, E5;
          (split; [exact E1|]);
          (split; [etransitivity; [exact E2|]; rewrite ?upd_upd; reflexivity|]);
          (split; [exact E3|split; [exact E4|exact E5]])
      end.
Qed.

Theorem makeFuncMap_is_model : forall i j (w : world),
  exists w', makeFuncMap TE (LSrc i) (LDst j) w = (Returned tt, w')
             /\ w_st w' = func_loop (w_funcs w) i j (w_st w)
             /\ w_tags w' = w_tags w /\ w_flags w' = w_flags w /\ w_funcs w' = w_funcs w.
Proof. intros. unfold makeFuncMap. apply funcloop_is_model. Qed.

(* ---- makeSubMap: the type assertions of go/types against the model's pattern match on [ty] *)
(* a type, two levels deep: what the assertions to Pointer / Named can see *)
Ltac ty_shapes t := destruct t as [?|[| |?] ?|[?|[| |?] ?|?|?|? ?]|?|? ?].
Ltac type_ops :=
  cbv beta iota zeta delta [as_pointer as_slice as_named type_elem named_obj obj_pkg obj_name pkg_path pkg_path_of
                            strip_ptr pkg_eqb fst snd is_nil negb andb orb].

Ltac unchanged :=
  lazymatch goal with
  | |- exists w', (Returned tt, ?W) = (Returned tt, w') /\ _ =>
      exists W; (split; [reflexivity|]); (split; [reflexivity|frame_ok])
  end.

Theorem makeSubMap_is_model : forall i j typ1 typ2 sl (w : world),
  exists w', makeSubMap (LSrc i) (LDst j) typ1 typ2 sl w = (Returned tt, w')
             /\ w_st w' = sub_map i j typ1 typ2 sl (w_st w)
             /\ w_tags w' = w_tags w /\ w_flags w' = w_flags w /\ w_funcs w' = w_funcs w.
Proof.
  intros i j typ1 typ2 sl w. destruct w as [[src dst wsrc wdst rmap wmap] tg fl fn0 wn].
  unfold makeSubMap, sub_map.
  (* typ1 is not a named type of the source package (nor a pointer to one): nothing happens, whatever typ2 is *)
  ty_shapes typ1; type_ops; try unchanged;
    try (destruct (as_pointer typ2) as [? [|]]; type_ops;
         repeat match goal with |- context [as_named ?t] => destruct (as_named t) as [? [|]] end;
         type_ops; unchanged);
    (* typ1 is: now by the shape of typ2 *)
    ty_shapes typ2; type_ops; try unchanged;
    world_ops; norm_reads; split_all;
    (eexists; (split; [reflexivity|]); (split; [rewrite ?upd_upd; reflexivity|frame_ok])).
Qed.

Theorem makeSubListMap_is_model : forall i j (w : world),
  exists w', makeSubListMap (LSrc i) (LDst j) w = (Returned tt, w')
             /\ w_st w' = sub_list_map i j (w_st w)
             /\ w_tags w' = w_tags w /\ w_flags w' = w_flags w /\ w_funcs w' = w_funcs w.
Proof.
  intros i j w. unfold makeSubListMap, sub_list_map, get_typ, load.
  destruct (f_ty (src_at (w_st w) i)) as [b|p n|x|e1|k v]; type_ops;
    try (exists w; (split; [reflexivity|]); (split; [reflexivity|auto 6]));
    destruct (f_ty (dst_at (w_st w) j)) as [b'|p' n'|x'|e2|k' v']; type_ops;
    try (exists w; (split; [reflexivity|]); (split; [reflexivity|auto 6])).
  destruct (makeSubMap_is_model i j e1 e2 true w) as (w' & E1 & E2 & E3).
  rewrite E1. exists w'. auto.
Qed.

(* ---- makeTypeMismatch: the loops, one (f1, f2) iteration = [step_mismatch] *)
Lemma mm_loop2_is_model : forall js i (w : world),
  exists w', makeTypeMismatch_loop2 TE (LSrc i) (map LDst js) w = (Returned tt, w')
             /\ w_st w' = fold_left (fun s j => step_mismatch (w_tags w) (fl_ic (w_flags w)) (w_funcs w) i j s) js (w_st w)
             /\ w_tags w' = w_tags w /\ w_flags w' = w_flags w /\ w_funcs w' = w_funcs w.
Proof.
  induction js as [|j js IH]; intros i w.
  - exists w. cbn. auto.
  - destruct (canNameMatch_is_model (LSrc i) (LDst j) (w_tags w) (fl_ic (w_flags w)) w) as (w1 & E & F1 & F2 & F3 & F4).
    cbn [map makeTypeMismatch_loop2 fold_left]. rewrite E. cbn [load].
    unfold step_mismatch at 2.
    destruct (can_name_match (src_at (w_st w) i) (dst_at (w_st w) j) (w_tags w) (fl_ic (w_flags w))) eqn:N; cbn [negb].
    + destruct (makeFuncMap_is_model i j w1) as (w2 & A1 & A2 & A3 & A4 & A5). rewrite A1.
      destruct (makeSubMap_is_model i j (get_typ (LSrc i) w2) (get_typ (LDst j) w2) false w2) as (w3 & B1 & B2 & B3 & B4 & B5).
      rewrite B1.
      destruct (makeSubListMap_is_model i j w3) as (w4 & C1 & C2 & C3 & C4 & C5). rewrite C1.
      destruct (IH i w4) as (w' & D1 & D2 & D3 & D4 & D5). exists w'.
      split; [exact D1|].
      rewrite D2, D3, D4, D5, C2, C3, C4, C5, B2, B3, B4, B5, A2, A3, A4, A5, F1, F2, F3, F4.
      unfold get_typ, load. rewrite A2, F1, F4. auto.
    + destruct (IH i w1) as (w' & E1 & E2 & E3 & E4 & E5). exists w'.
      rewrite F1, F2, F3, F4 in E2. rewrite E3, E4, E5. auto.
Qed.

Lemma mm_loop1_is_model : forall is (w : world),
  exists w', makeTypeMismatch_loop1 TE (map LSrc is) w = (Returned tt, w')
             /\ w_st w' = fold_left (fun s i => fold_left (fun s j => step_mismatch (w_tags w) (fl_ic (w_flags w)) (w_funcs w) i j s)
                                                          (seq 0 (List.length (s_dst s))) s) is (w_st w)
             /\ w_tags w' = w_tags w /\ w_flags w' = w_flags w /\ w_funcs w' = w_funcs w.
Proof.
  induction is as [|i is IH]; intros w.
  - exists w. cbn. auto.
  - cbn [map makeTypeMismatch_loop1 fold_left]. unfold dst_locs.
    destruct (mm_loop2_is_model (seq 0 (List.length (s_dst (w_st w)))) i w) as (w1 & E1 & E2 & E3 & E4 & E5).
    rewrite E1. destruct (IH w1) as (w' & G1 & G2 & G3 & G4 & G5). exists w'.
    rewrite E3, E4, E5 in G2. rewrite E2 in G2. rewrite G3, G4, G5. auto.
Qed.

(* the two maps are made afresh, then the pass runs *)
Definition fresh_maps (s : st) : st := mkSt (s_src s) (s_dst s) (s_wsrc s) (s_wdst s) [] [].

Theorem makeTypeMismatch_is_model : forall w : world,
  exists w', makeTypeMismatch TE w = (Returned tt, w')
             /\ w_st w' = double_loop (step_mismatch (w_tags w) (fl_ic (w_flags w)) (w_funcs w)) (fresh_maps (w_st w))
             /\ w_tags w' = w_tags w /\ w_flags w' = w_flags w /\ w_funcs w' = w_funcs w.
Proof.
  intros w. unfold makeTypeMismatch, double_loop.
  destruct (mm_loop1_is_model (seq 0 (List.length (s_src (w_st w)))) (rmap_assign map_make (wmap_assign map_make w)))
    as (w' & E1 & E2 & E3 & E4 & E5).
  exists w'. split; [exact E1|]. split; [exact E2|]. auto.
Qed.

(* both passes, in the order MakeData calls them, are [run_passes] *)
Theorem passes_are_model : forall w : world,
  exists w1 w2, makeTypeMismatch TE w = (Returned tt, w1) /\ makeTypeMatch TE CV IS IF w1 = (Returned tt, w2)
                /\ w_st w2 = run_passes e (w_tags w) (fl_ic (w_flags w)) (w_funcs w) (fresh_maps (w_st w)).
Proof.
  intros w. destruct (makeTypeMismatch_is_model w) as (w1 & A1 & A2 & A3 & A4 & A5).
  destruct (makeTypeMatch_is_model w1) as (w2 & B1 & B2 & _).
  exists w1, w2. split; [exact A1|]. split; [exact B1|].
  rewrite B2, A2, A3, A4. reflexivity.
Qed.

(* the world a model state is run in *)
Definition world_of (s : st) (tm : tagmap) (ic : bool) (fns : list mfunc) : world :=
  mkW s tm {| fl_ic := ic; fl_alias := "" |} fns [].

Theorem makeTypeMatch_on_model_state : forall s tm ic fns,
  exists w', makeTypeMatch TE CV IS IF (world_of s tm ic fns) = (Returned tt, w')
             /\ w_st w' = double_loop (step_match e tm ic) s.
Proof.
  intros s tm ic fns. destruct (makeTypeMatch_is_model (world_of s tm ic fns)) as (w' & E1 & E2 & _).
  exists w'. auto.
Qed.

(* ---- C05 over the translated source *)

(* no panic, no fuel exhaustion, whatever the state *)
Theorem makeTypeMatch_src_always_returns : forall w : world,
  exists w', makeTypeMatch TE CV IS IF w = (Returned tt, w').
Proof. intros w. destruct (makeTypeMatch_is_model w) as (w' & E & _). eauto. Qed.

(* C05_pass_invariant, for the pass as the source executes it: the write-once /
   soundness invariant of Proofs/MapperProofs.v is kept by the translated makeTypeMatch,
   and the fields keep their names, types and accessor kinds *)
Theorem C05_pass_invariant_src : forall fns W0s W0d (w : world),
  Inv e (w_tags w) (fl_ic (w_flags w)) fns W0s W0d (w_st w) ->
  exists w', makeTypeMatch TE CV IS IF w = (Returned tt, w')
             /\ Inv e (w_tags w) (fl_ic (w_flags w)) fns W0s W0d (w_st w')
             /\ Core (w_st w) (w_st w').
Proof.
  intros fns W0s W0d w I. destruct (makeTypeMatch_is_model w) as (w' & E1 & E2 & _).
  exists w'. split; [exact E1|]. rewrite E2.
  apply double_loop_ok; [|exact I]. intros s i j. apply step_match_ok.
Qed.

(* ... and by the two passes in the order MakeData runs them: the invariant behind C05_write_once /
   C05_sound_to / C05_sound_from (exposed as C05_pass_invariant) holds of what the SOURCE computes *)
Theorem C05_passes_invariant_src : forall W0s W0d (w : world),
  Inv e (w_tags w) (fl_ic (w_flags w)) (w_funcs w) W0s W0d (fresh_maps (w_st w)) ->
  exists w1 w2, makeTypeMismatch TE w = (Returned tt, w1) /\ makeTypeMatch TE CV IS IF w1 = (Returned tt, w2)
                /\ Inv e (w_tags w) (fl_ic (w_flags w)) (w_funcs w) W0s W0d (w_st w2)
                /\ Core (fresh_maps (w_st w)) (w_st w2).
Proof.
  intros W0s W0d w I. destruct (passes_are_model w) as (w1 & w2 & E1 & E2 & E3).
  exists w1, w2. split; [exact E1|]. split; [exact E2|]. rewrite E3. unfold run_passes.
  apply (passes_ok e (w_tags w) (fl_ic (w_flags w)) (w_funcs w) W0s W0d _ I).
Qed.

(* C05_identical_names_match / C05_tagged_name_matches over the translated canNameMatch *)
Theorem C05_identical_names_match_src : forall l1 l2 tm ic (w : world),
  f_isget (load l1 w) = false -> f_isset (load l1 w) = false ->
  f_backing (load l1 w) = "" -> f_backing (load l2 w) = "" ->
  tm_get tm (f_name (load l1 w)) = None -> f_name (load l1 w) = f_name (load l2 w) ->
  exists w', canNameMatch l1 l2 tm ic w = (Returned true, w').
Proof.
  intros l1 l2 tm ic w H1 H2 H3 H4 H5 H6.
  destruct (canNameMatch_is_model l1 l2 tm ic w) as (w' & E & _). exists w'.
  rewrite E. rewrite (can_name_match_same _ _ _ _ H1 H2 H3 H4 H5 H6). reflexivity.
Qed.

Theorem C05_tagged_name_matches_src : forall l1 l2 tm t (w : world),
  f_isget (load l1 w) = false -> f_isset (load l1 w) = false ->
  f_backing (load l1 w) = "" -> f_backing (load l2 w) = "" ->
  tm_get tm (f_name (load l1 w)) = Some t -> t = f_name (load l2 w) ->
  exists w', canNameMatch l1 l2 tm false w = (Returned true, w').
Proof.
  intros l1 l2 tm t w H1 H2 H3 H4 H5 H6.
  destruct (canNameMatch_is_model l1 l2 tm false w) as (w' & E & _). exists w'.
  rewrite E. rewrite (can_name_match_tag _ _ _ _ H1 H2 H3 H4 H5 H6). reflexivity.
Qed.

End Bridge.

Print Assumptions MatchingName_is_model.
Print Assumptions matchType_is_model.
Print Assumptions canNameMatch_is_model.
Print Assumptions makeTypeMatch_is_model.
Print Assumptions makeTypeMatch_on_model_state.
Print Assumptions makeTypeMatch_src_always_returns.
Print Assumptions makeFuncMap_is_model.
Print Assumptions makeSubMap_is_model.
Print Assumptions makeSubListMap_is_model.
Print Assumptions makeTypeMismatch_is_model.
Print Assumptions passes_are_model.
Print Assumptions C05_pass_invariant_src.
Print Assumptions C05_passes_invariant_src.
Print Assumptions C05_identical_names_match_src.
Print Assumptions C05_tagged_name_matches_src.
