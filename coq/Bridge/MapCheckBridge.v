(* Translation tie for the read/write checks of `shoot map` (C09, also C05).
   [ShootGen.MapCheckGen] is written on every run by harness/go/cmd/go2gallina from
   the CURRENT text of /repo/internal/mapper/check.go (prepareReadPaths,
   nilCheckRead, nilCheckWrite); this file proves them equal to what
   Model/Mapper.v [analyse] computes from the state after the passes: [paths_map]
   (the read guards: the embedded-pointer chain of a field), the two need-check
   predicates, and [ptr_path_list] (the allocation lists).  Primitive table and
   data refinement (dotted strings = component lists): Bridge/MapCheckPrims.v. *)
From Coq Require Import List ZArith Bool String Arith Lia.
From Shoot Require Import Base.Str Model.MapVal Model.Mapper Bridge.GoPrims Bridge.MapPrims Bridge.MapCheckPrims.
From ShootGen Require Import MapCheckGen.
Import ListNotations.
Local Open Scope string_scope.
Local Open Scope list_scope.

(* ---- lists *)
Lemma list_slice_prefix {A} (done : list A) x r :
  list_slice (done ++ x :: r) 0 (Z.of_nat (List.length done) + 1) = Some (done ++ [x]).
Proof.
  unfold list_slice. rewrite app_length. cbn [List.length].
  replace ((0 <=? 0)%Z && (0 <=? Z.of_nat (List.length done) + 1)%Z
           && (Z.of_nat (List.length done) + 1 <=? Z.of_nat (List.length done + S (List.length r)))%Z) with true.
  - cbn [Z.to_nat skipn]. replace (Z.to_nat (Z.of_nat (List.length done) + 1 - 0)) with (List.length done + 1)%nat by lia.
    rewrite firstn_app, firstn_all2 by lia. replace (List.length done + 1 - List.length done)%nat with 1%nat by lia. reflexivity.
  - symmetry. rewrite !andb_true_iff. repeat split; apply Z.leb_le; lia.
Qed.

Lemma pm_lookup_has m p : snd (pm_lookup m p) = pm_has m p.
Proof.
  unfold pm_lookup. induction m as [|[q t] m IH]; [reflexivity|]. cbn [pm_get pm_has].
  destruct (path_eqb p q); [reflexivity|]. cbn [orb]. exact IH.
Qed.

(* ---- prepareReadPaths: the inner loop collects the pointer hops among the proper prefixes *)
Lemma loop2_is_model fields pm ref : forall rest done acc (w : kworld),
  prepareReadPaths_loop2 fields pm ref (done ++ rest) (Nat.pred (List.length rest)) (Z.of_nat (List.length done) + 1) acc w
  = (Returned (acc ++ filter (pm_has pm) (prefixes_from done rest)), w).
Proof.
  induction rest as [|x r IH]; intros done acc w.
  - cbn [List.length Nat.pred prepareReadPaths_loop2 prefixes_from filter]. rewrite !app_nil_r.
    replace (Z.of_nat (List.length done) + 1 <? Z.of_nat (List.length done))%Z with false by (symmetry; apply Z.ltb_ge; lia).
    reflexivity.
  - destruct r as [|y r].
    + cbn [List.length Nat.pred prepareReadPaths_loop2 prefixes_from filter]. rewrite app_length. cbn [List.length].
      replace (Z.of_nat (List.length done) + 1 <? Z.of_nat (List.length done + 1))%Z with false by (symmetry; apply Z.ltb_ge; lia).
      now rewrite app_nil_r.
    + change (Nat.pred (List.length (x :: y :: r))) with (S (Nat.pred (List.length (y :: r)))).
      cbn [prepareReadPaths_loop2].
      replace (Z.of_nat (List.length done) + 1 <? Z.of_nat (List.length (done ++ x :: y :: r)))%Z with true
        by (symmetry; apply Z.ltb_lt; rewrite app_length; cbn [List.length]; lia).
      rewrite list_slice_prefix. unfold comps_path.
      pose proof (pm_lookup_has pm (done ++ [x])) as H. destruct (pm_lookup pm (done ++ [x])) as [t ok]. cbn [snd] in H. subst ok.
      specialize (IH (done ++ [x])). rewrite <- app_assoc, app_length in IH. cbn [app List.length] in IH.
      replace (Z.of_nat (List.length done + 1) + 1)%Z with (Z.of_nat (List.length done) + 1 + 1)%Z in IH by lia.
      cbn [prefixes_from filter]. destruct (pm_has pm (done ++ [x])); cbn [negb].
      * rewrite IH, <- app_assoc. reflexivity.
      * apply IH.
Qed.

(* one field: what the paths map gains *)
Definition paths_step (pm : ptrmap) (m : pathsmap) (f : field) : pathsmap :=
  match read_paths pm f with [] => m | ps => (f_name f, ps) :: m end.

Definition paths_of (r : pathsref) (w : kworld) : pathsmap :=
  match r with PSrcPaths => k_srcpaths w | PDstPaths => k_dstpaths w end.
Definition with_paths (r : pathsref) (m : pathsmap) (w : kworld) : kworld :=
  match r with PSrcPaths => set_srcpaths m w | PDstPaths => set_dstpaths m w end.

Lemma with_paths_same r (w : kworld) : with_paths r (paths_of r w) w = w.
Proof. destruct w, r; reflexivity. Qed.
Lemma with_paths_twice r m m' (w : kworld) : with_paths r m (with_paths r m' w) = with_paths r m w.
Proof. destruct w, r; reflexivity. Qed.

Lemma loop1_is_model fields0 pm ref : forall ls (w : kworld),
  prepareReadPaths_loop1 fields0 pm ref ls w
  = (Returned tt, with_paths ref (fold_left (paths_step pm) (map (fun l => kload l w) ls) (paths_of ref w)) w).
Proof.
  induction ls as [|l ls IH]; intros w.
  - cbn. now rewrite with_paths_same.
  - cbn [prepareReadPaths_loop1 map fold_left]. unfold is_embedded_at, paths_step at 2, read_paths, path_comps, get_Path, get_Name.
    destruct (is_embedded (kload l w)) eqn:Em; cbn [negb]; [|apply IH].
    pose proof (loop2_is_model fields0 pm ref (f_path (kload l w)) [] [] w) as L2. cbn [app List.length Z.of_nat] in L2.
    replace (Z.to_nat (Z.of_nat (List.length (f_path (kload l w))) - 1)) with (Nat.pred (List.length (f_path (kload l w)))) by lia.
    change (0 + 1)%Z with 1%Z in L2. rewrite L2. cbn [app].
    destruct (filter (pm_has pm) (prefixes_from [] (f_path (kload l w)))) as [|p ps] eqn:F.
    + cbn [List.length Z.of_nat]. change (0 >? 0)%Z with false. cbv iota. apply IH.
    + replace (Z.of_nat (List.length (p :: ps)) >? 0)%Z with true by (symmetry; apply Z.gtb_lt; cbn [List.length]; lia).
      cbv iota. rewrite IH. f_equal.
      assert (E : forall l', kload l' (paths_set ref (f_name (kload l w)) (p :: ps) w) = kload l' w) by (intros l'; destruct w, ref; reflexivity).
      rewrite (map_ext _ _ E). destruct w, ref; reflexivity.
Qed.

(* prepareReadPaths over one side's fields = Model/Mapper.v [paths_map], added in front of what the map held *)
Theorem prepareReadPaths_is_model : forall ls pm ref (w : kworld),
  prepareReadPaths ls pm ref w
  = (Returned tt, with_paths ref (fold_left (paths_step pm) (map (fun l => kload l w) ls) (paths_of ref w)) w).
Proof. intros. unfold prepareReadPaths. apply loop1_is_model. Qed.

Lemma map_src_locs (w : kworld) : map (fun l => kload l w) (src_locs w) = s_src (k_st w).
Proof.
  unfold src_locs. rewrite map_map. cbn [kload]. unfold src_at.
  induction (s_src (k_st w)) as [|f l IH]; [reflexivity|]. cbn [List.length seq map nth]. f_equal.
  rewrite <- seq_shift, map_map. exact IH.
Qed.
Lemma map_dst_locs (w : kworld) : map (fun l => kload l w) (dst_locs w) = s_dst (k_st w).
Proof.
  unfold dst_locs. rewrite map_map. cbn [kload]. unfold dst_at.
  induction (s_dst (k_st w)) as [|f l IH]; [reflexivity|]. cbn [List.length seq map nth]. f_equal.
  rewrite <- seq_shift, map_map. exact IH.
Qed.

(* makeReadCond's two calls, from fresh maps: exactly the model's spaths / dpaths *)
Theorem prepareReadPaths_src_is_paths_map : forall (w : kworld), k_srcpaths w = [] ->
  prepareReadPaths (src_locs w) (k_srcptr w) PSrcPaths w
  = (Returned tt, set_srcpaths (paths_map (k_srcptr w) (s_src (k_st w))) w).
Proof.
  intros w E. rewrite prepareReadPaths_is_model, map_src_locs. cbn [with_paths paths_of]. rewrite E. reflexivity.
Qed.
Theorem prepareReadPaths_dst_is_paths_map : forall (w : kworld), k_dstpaths w = [] ->
  prepareReadPaths (dst_locs w) (k_dstptr w) PDstPaths w
  = (Returned tt, set_dstpaths (paths_map (k_dstptr w) (s_dst (k_st w))) w).
Proof.
  intros w E. rewrite prepareReadPaths_is_model, map_dst_locs. cbn [with_paths paths_of]. rewrite E. reflexivity.
Qed.

(* ================= nilCheckRead ================= *)
Definition has {V} (m : list (string * V)) (k : string) : bool := existsb (fun kv => String.eqb (fst kv) k) m.

Lemma m_get_has m k : (match m_get m k with Some _ => true | None => false end) = has m k.
Proof. induction m as [|[a b] m IH]; [reflexivity|]. cbn. destruct (String.eqb a k); [reflexivity|exact IH]. Qed.
Lemma pmap_get_has m k : (match pmap_get m k with Some _ => true | None => false end) = has m k.
Proof. induction m as [|[a b] m IH]; [reflexivity|]. cbn. destruct (String.eqb a k); [reflexivity|exact IH]. Qed.

(* what one source field adds to data.SrcNeedReadCheckMap / data.DestNeedReadCheckMap *)
Definition need_step_src (st : Mapper.st) (sp : pathsmap) (m : smap) (f : field) : smap :=
  match m_get (s_rmap st) (f_name f) with
  | Some d => match pmap_get sp (f_name f) with Some _ => (f_name f, d) :: m | None => m end
  | None => m
  end.
Definition need_step_dst (st : Mapper.st) (dp : pathsmap) (m : smap) (f : field) : smap :=
  match m_get (s_wmap st) (f_name f) with
  | Some d => match pmap_get dp d with Some _ => (f_name f, d) :: m | None => m end
  | None => m
  end.

Definition with_needs (sn dn : smap) (w : kworld) : kworld := set_srcneed sn (set_dstneed dn w).

Lemma need_loop_is_model : forall ls (w : kworld),
  nilCheckRead_loop1 ls w
  = (Returned tt, with_needs (fold_left (need_step_src (k_st w) (k_srcpaths w)) (map (fun l => kload l w) ls) (k_srcneed w))
                             (fold_left (need_step_dst (k_st w) (k_dstpaths w)) (map (fun l => kload l w) ls) (k_dstneed w)) w).
Proof.
  induction ls as [|l ls IH]; intros w.
  - destruct w; reflexivity.
  - destruct w as [st sp dp sg spa dpa sn dn so do' sl dl].
    cbn [nilCheckRead_loop1 map fold_left].
    cbv beta iota zeta delta [rmap_lookup wmap_lookup srcpaths_lookup dstpaths_lookup smap_lookup paths_lookup get_Name
                              srcneed_set dstneed_set set_srcneed set_dstneed upd_k need_step_src need_step_dst
                              k_st k_srcptr k_dstptr k_sigma k_srcpaths k_dstpaths k_srcneed k_dstneed k_srcout k_dstout k_srclist k_dstlist].
    set (f := kload l _).
    assert (F : forall w', MapCheckPrims.k_st w' = st -> kload l w' = f) by (intros w' <-; destruct l; reflexivity).
    repeat (repeat rewrite F by reflexivity;
            match goal with
            | |- context [m_get ?m ?k] => destruct (m_get m k)
            | |- context [pmap_get ?m ?k] => destruct (pmap_get m k)
            end; cbv beta iota delta [andb orb negb]).
    all: repeat rewrite F by reflexivity; rewrite IH; unfold with_needs, set_srcneed, set_dstneed, upd_k; cbn;
      repeat rewrite F by reflexivity; reflexivity.
Qed.

Theorem nilCheckRead_is_model : forall (w : kworld),
  nilCheckRead w
  = (Returned tt, with_needs (fold_left (need_step_src (k_st w) (k_srcpaths w)) (s_src (k_st w)) [])
                             (fold_left (need_step_dst (k_st w) (k_dstpaths w)) (s_src (k_st w)) []) w).
Proof.
  intros w. destruct w as [st sp dp sg spa dpa sn dn so do' sl dl]. unfold nilCheckRead.
  cbv beta iota zeta delta [set_srcneed set_dstneed upd_k k_st k_srcptr k_dstptr k_sigma k_srcpaths k_dstpaths k_srcneed k_dstneed
                            k_srcout k_dstout k_srclist k_dstlist].
  rewrite need_loop_is_model, map_src_locs. reflexivity.
Qed.

(* ... which is the model's need predicate on every field name (Model/Mapper.v [analyse]: src_need / dst_need) *)
Lemma need_src_domain st sp : forall fs m name,
  has (fold_left (need_step_src st sp) fs m) name
  = has m name || existsb (fun f => String.eqb (f_name f) name && (has (s_rmap st) (f_name f) && has sp (f_name f))) fs.
Proof.
  induction fs as [|f fs IH]; intros m name; cbn [fold_left existsb]; [now rewrite orb_false_r|].
  rewrite IH. unfold need_step_src. rewrite <- (m_get_has (s_rmap st)), <- (pmap_get_has sp).
  destruct (m_get (s_rmap st) (f_name f)); [destruct (pmap_get sp (f_name f))|]; cbn [has existsb fst andb];
    rewrite ?andb_false_r, ?andb_true_r, ?orb_false_l; try reflexivity.
  rewrite orb_assoc, (orb_comm (has m name)). reflexivity.
Qed.
Lemma need_dst_domain st dp : forall fs m name,
  has (fold_left (need_step_dst st dp) fs m) name
  = has m name || existsb (fun f => String.eqb (f_name f) name
                                    && match m_get (s_wmap st) (f_name f) with Some d => has dp d | None => false end) fs.
Proof.
  induction fs as [|f fs IH]; intros m name; cbn [fold_left existsb]; [now rewrite orb_false_r|].
  rewrite IH. unfold need_step_dst.
  destruct (m_get (s_wmap st) (f_name f)) as [d|]; [rewrite <- (pmap_get_has dp d); destruct (pmap_get dp d)|];
    cbn [has existsb fst andb]; rewrite ?andb_false_r, ?andb_true_r, ?orb_false_l; try reflexivity.
  rewrite orb_assoc, (orb_comm (has m name)). reflexivity.
Qed.

Lemma need_src_on_fields st sp fs f : In f fs ->
  has (fold_left (need_step_src st sp) fs []) (f_name f)
  = match m_get (s_rmap st) (f_name f) with
    | Some _ => match pmap_get sp (f_name f) with Some _ => true | None => false end
    | None => false
    end.
Proof.
  intros I. rewrite need_src_domain. unfold has at 1. cbn [existsb orb].
  pose proof (m_get_has (s_rmap st) (f_name f)) as HR. pose proof (pmap_get_has sp (f_name f)) as HP.
  destruct (m_get (s_rmap st) (f_name f)); [destruct (pmap_get sp (f_name f))|].
  - apply existsb_exists. exists f. split; [exact I|]. now rewrite String.eqb_refl, <- HR, <- HP.
  - apply not_true_is_false. intros H. apply existsb_exists in H as (g & _ & H). apply andb_true_iff in H as (H1 & H2).
    apply String.eqb_eq in H1. rewrite H1, <- HP, andb_false_r in H2. discriminate.
  - apply not_true_is_false. intros H. apply existsb_exists in H as (g & _ & H). apply andb_true_iff in H as (H1 & H2).
    apply String.eqb_eq in H1. rewrite H1, <- HR in H2. discriminate.
Qed.

Theorem nilCheckRead_src_need : forall (w w' : kworld) f, nilCheckRead w = (Returned tt, w') -> In f (s_src (k_st w)) ->
  has (k_srcneed w') (f_name f)
  = match m_get (s_rmap (k_st w)) (f_name f) with
    | Some _ => match pmap_get (k_srcpaths w) (f_name f) with Some _ => true | None => false end
    | None => false
    end.
Proof.
  intros w w' f E I. rewrite nilCheckRead_is_model in E. inversion E; subst w'; clear E.
  replace (k_srcneed (with_needs _ _ w)) with (fold_left (need_step_src (k_st w) (k_srcpaths w)) (s_src (k_st w)) [])
    by (destruct w; reflexivity).
  rewrite need_src_domain. unfold has at 1. cbn [existsb orb].
  pose proof (m_get_has (s_rmap (k_st w)) (f_name f)) as HR. pose proof (pmap_get_has (k_srcpaths w) (f_name f)) as HP.
  destruct (m_get (s_rmap (k_st w)) (f_name f)); [destruct (pmap_get (k_srcpaths w) (f_name f))|].
  - apply existsb_exists. exists f. split; [exact I|]. now rewrite String.eqb_refl, <- HR, <- HP.
  - apply not_true_is_false. intros H. apply existsb_exists in H as (g & _ & H). apply andb_true_iff in H as (H1 & H2).
    apply String.eqb_eq in H1. rewrite H1, <- HP, andb_false_r in H2. discriminate.
  - apply not_true_is_false. intros H. apply existsb_exists in H as (g & _ & H). apply andb_true_iff in H as (H1 & H2).
    apply String.eqb_eq in H1. rewrite H1, <- HR in H2. discriminate.
Qed.

Theorem nilCheckRead_dst_need : forall (w w' : kworld) f, nilCheckRead w = (Returned tt, w') -> In f (s_src (k_st w)) ->
  has (k_dstneed w') (f_name f)
  = match m_get (s_wmap (k_st w)) (f_name f) with
    | Some d => match pmap_get (k_dstpaths w) d with Some _ => true | None => false end
    | None => false
    end.
Proof.
  intros w w' f E I. rewrite nilCheckRead_is_model in E. inversion E; subst w'; clear E.
  replace (k_dstneed (with_needs _ _ w)) with (fold_left (need_step_dst (k_st w) (k_dstpaths w)) (s_src (k_st w)) [])
    by (destruct w; reflexivity).
  rewrite need_dst_domain. unfold has at 1. cbn [existsb orb].
  destruct (m_get (s_wmap (k_st w)) (f_name f)) as [d|] eqn:R.
  - rewrite (pmap_get_has (k_dstpaths w) d). destruct (has (k_dstpaths w) d) eqn:P.
    + apply existsb_exists. exists f. split; [exact I|]. now rewrite String.eqb_refl, R, P.
    + apply not_true_is_false. intros H. apply existsb_exists in H as (g & _ & H). apply andb_true_iff in H as (H1 & H2).
      apply String.eqb_eq in H1. rewrite H1, R, P in H2. discriminate.
  - apply not_true_is_false. intros H. apply existsb_exists in H as (g & _ & H). apply andb_true_iff in H as (H1 & H2).
    apply String.eqb_eq in H1. rewrite H1, R in H2. discriminate.
Qed.

(* ================= nilCheckWrite ================= *)
(* one written embedded field: the pointer paths that cover it and are not listed yet (Model/Mapper.v, inside ptr_path_list) *)
Definition alloc_one (f : field) (acc : list path) (pt : path * ty) : list path :=
  if existsb (path_eqb (fst pt)) acc then acc else if covered_by f (fst pt) then acc ++ [fst pt] else acc.
Definition alloc_step (f : field) (sig : list (path * ty)) (acc : list path) : list path := fold_left (alloc_one f) sig acc.

Lemma path_eqb_refl p : path_eqb p p = true.
Proof. induction p as [|x p IH]; [reflexivity|]. cbn. now rewrite String.eqb_refl, IH. Qed.

Lemma alloc_grows f sig : forall acc p, existsb (path_eqb p) acc = true -> existsb (path_eqb p) (alloc_step f sig acc) = true.
Proof.
  induction sig as [|pt sig IH]; intros acc p H; [exact H|]. cbn [alloc_step fold_left]. apply IH. unfold alloc_one.
  destruct (existsb (path_eqb (fst pt)) acc); [exact H|]. destruct (covered_by f (fst pt)); [|exact H].
  rewrite existsb_app, H. reflexivity.
Qed.
Lemma alloc_has_covered f sig : forall acc pt, In pt sig -> covered_by f (fst pt) = true ->
  existsb (path_eqb (fst pt)) (alloc_step f sig acc) = true.
Proof.
  induction sig as [|qt sig IH]; intros acc pt I C; [destruct I|]. cbn [alloc_step fold_left]. destruct I as [->|I]; [|now apply IH].
  apply alloc_grows. unfold alloc_one. destruct (existsb (path_eqb (fst pt)) acc) eqn:E; [exact E|]. rewrite C, existsb_app.
  cbn. now rewrite path_eqb_refl, orb_true_r.
Qed.
Lemma alloc_fixpoint f sig : forall acc, (forall pt, In pt sig -> covered_by f (fst pt) = true -> existsb (path_eqb (fst pt)) acc = true) ->
  alloc_step f sig acc = acc.
Proof.
  induction sig as [|pt sig IH]; intros acc H; [reflexivity|]. cbn [alloc_step fold_left].
  assert (E : alloc_one f acc pt = acc).
  { unfold alloc_one. destruct (existsb (path_eqb (fst pt)) acc) eqn:X; [reflexivity|].
    destruct (covered_by f (fst pt)) eqn:C; [|reflexivity]. rewrite (H pt (or_introl eq_refl) C) in X. discriminate. }
  rewrite E. apply IH. intros qt I. apply H. now right.
Qed.
Lemma alloc_idempotent f sig acc : alloc_step f sig (alloc_step f sig acc) = alloc_step f sig acc.
Proof. apply alloc_fixpoint. intros pt I C. now apply alloc_has_covered. Qed.

(* data.*PtrTypeMap holds exactly the paths listed so far *)
Definition Keys (out : ptrmap) (acc : list path) : Prop := forall p, pm_has out p = existsb (path_eqb p) acc.

Lemma Keys_add out acc q t : Keys out acc -> Keys ((q, t) :: out) (acc ++ [q]).
Proof. intros K p. cbn [pm_has]. rewrite existsb_app, K. cbn. rewrite orb_false_r. apply orb_comm. Qed.

Definition outref := bool.   (* true: the source side *)
Definition out_of (src : bool) (w : kworld) : ptrmap := if src then k_srcout w else k_dstout w.
Definition with_out (src : bool) (o : ptrmap) (w : kworld) : kworld := if src then set_srcout o w else set_dstout o w.

Lemma loop5_is_model f : forall sig acc (w : kworld), Keys (k_srcout w) acc ->
  exists out', nilCheckWrite_loop5 f sig acc w = (Returned (alloc_step (kload f w) sig acc), set_srcout out' w)
               /\ Keys out' (alloc_step (kload f w) sig acc).
Proof.
  induction sig as [|[p t] sig IH]; intros acc w K.
  - exists (k_srcout w). split; [destruct w; reflexivity|exact K].
  - cbn [nilCheckWrite_loop5 alloc_step fold_left]. unfold srcout_lookup, covered_by_at, alloc_one. cbn [fst].
    pose proof (pm_lookup_has (k_srcout w) p) as H. destruct (pm_lookup (k_srcout w) p) as [t0 ok]. cbn [snd] in H. subst ok.
    rewrite K. destruct (existsb (path_eqb p) acc) eqn:E.
    + apply (IH acc w K).
    + destruct (covered_by (kload f w) p) eqn:C.
      * destruct (IH (acc ++ [p]) (srcout_set p t w)) as (out' & E1 & K1).
        { replace (k_srcout (srcout_set p t w)) with ((p, t) :: k_srcout w) by (destruct w; reflexivity). now apply Keys_add. }
        replace (kload f (srcout_set p t w)) with (kload f w) in E1, K1 by (destruct w, f; reflexivity).
        exists out'. split; [|exact K1]. rewrite E1. destruct w; reflexivity.
      * apply (IH acc w K).
Qed.

Lemma loop4_is_model f : forall sig acc (w : kworld), Keys (k_dstout w) acc ->
  exists out', nilCheckWrite_loop4 f sig acc w = (Returned (alloc_step (kload f w) sig acc), set_dstout out' w)
               /\ Keys out' (alloc_step (kload f w) sig acc).
Proof.
  induction sig as [|[p t] sig IH]; intros acc w K.
  - exists (k_dstout w). split; [destruct w; reflexivity|exact K].
  - cbn [nilCheckWrite_loop4 alloc_step fold_left]. unfold dstout_lookup, covered_by_at, alloc_one. cbn [fst].
    pose proof (pm_lookup_has (k_dstout w) p) as H. destruct (pm_lookup (k_dstout w) p) as [t0 ok]. cbn [snd] in H. subst ok.
    rewrite K. destruct (existsb (path_eqb p) acc) eqn:E.
    + apply (IH acc w K).
    + destruct (covered_by (kload f w) p) eqn:C.
      * destruct (IH (acc ++ [p]) (dstout_set p t w)) as (out' & E1 & K1).
        { replace (k_dstout (dstout_set p t w)) with ((p, t) :: k_dstout w) by (destruct w; reflexivity). now apply Keys_add. }
        replace (kload f (dstout_set p t w)) with (kload f w) in E1, K1 by (destruct w, f; reflexivity).
        exists out'. split; [|exact K1]. rewrite E1. destruct w; reflexivity.
      * apply (IH acc w K).
Qed.

(* one field of a field loop *)
Definition alloc_fold (written : field -> bool) (sig : list (path * ty)) (acc : list path) (f : field) : list path :=
  if written f && is_embedded f then alloc_step f sig acc else acc.

(* the destination side asks, for every value of writeDestMap(), whether it names the field: the answer is used at most once *)
Lemma loop3_is_model f : forall ds acc (w : kworld), Keys (k_dstout w) acc ->
  let r := alloc_fold (fun g => existsb (String.eqb (f_name g)) ds) (range_dstptr w) acc (kload f w) in
  exists out', nilCheckWrite_loop3 f ds acc w = (Returned r, set_dstout out' w) /\ Keys out' r.
Proof.
  induction ds as [|d ds IH]; intros acc w K; cbn zeta; unfold alloc_fold in *.
  - exists (k_dstout w). split; [destruct w; reflexivity|exact K].
  - cbn [nilCheckWrite_loop3 existsb]. unfold get_Name, is_embedded_at.
    destruct (String.eqb (f_name (kload f w)) d); cbn [negb orb].
    + destruct (is_embedded (kload f w)) eqn:Em; cbn [negb andb].
      * destruct (loop4_is_model f (range_dstptr w) acc w K) as (o1 & E1 & K1). rewrite E1.
        destruct (IH (alloc_step (kload f w) (range_dstptr w) acc) (set_dstout o1 w)) as (o2 & E2 & K2).
        { replace (k_dstout (set_dstout o1 w)) with o1 by (destruct w; reflexivity). exact K1. }
        replace (kload f (set_dstout o1 w)) with (kload f w) in E2, K2 by (destruct w, f; reflexivity).
        replace (range_dstptr (set_dstout o1 w)) with (range_dstptr w) in E2, K2 by (destruct w; reflexivity).
        rewrite Em, andb_true_r in E2, K2. rewrite alloc_idempotent in E2, K2.
        assert (R : (if existsb (String.eqb (f_name (kload f w))) ds
                     then alloc_step (kload f w) (range_dstptr w) acc else alloc_step (kload f w) (range_dstptr w) acc)
                    = alloc_step (kload f w) (range_dstptr w) acc) by (destruct (existsb _ ds); reflexivity).
        rewrite R in E2, K2. exists o2. split; [|exact K2]. rewrite E2. destruct w; reflexivity.
      * destruct (IH acc w K) as (o2 & E2 & K2). rewrite Em, andb_false_r in E2, K2. exists o2. auto.
    + apply (IH acc w K).
Qed.

Lemma loop2_dst_is_model srcl : forall ls acc (w : kworld), Keys (k_dstout w) acc ->
  exists out', nilCheckWrite_loop2 srcl ls acc w
               = nilCheckWrite_after2 srcl
                   (fold_left (alloc_fold (fun f => existsb (String.eqb (f_name f)) (live_values w)) (range_dstptr w))
                              (map (fun l => kload l w) ls) acc)
                   (set_dstout out' w).
Proof.
  induction ls as [|l ls IH]; intros acc w K.
  - exists (k_dstout w). cbn. destruct w; reflexivity.
  - cbn [nilCheckWrite_loop2 map fold_left].
    destruct (loop3_is_model l (live_values w) acc w K) as (o1 & E1 & K1). rewrite E1.
    set (r := alloc_fold _ _ acc (kload l w)) in *.
    destruct (IH r (set_dstout o1 w)) as (o2 & E2). { replace (k_dstout (set_dstout o1 w)) with o1 by (destruct w; reflexivity). exact K1. }
    replace (live_values (set_dstout o1 w)) with (live_values w) in E2 by (destruct w; reflexivity).
    replace (range_dstptr (set_dstout o1 w)) with (range_dstptr w) in E2 by (destruct w; reflexivity).
    assert (M : map (fun l0 => kload l0 (set_dstout o1 w)) ls = map (fun l0 => kload l0 w) ls)
      by (apply map_ext; intros l0; destruct w, l0; reflexivity).
    rewrite M in E2. exists o2. rewrite E2. destruct w; reflexivity.
Qed.

Lemma loop1_src_is_model dstl : forall ls acc (w : kworld), Keys (k_srcout w) acc ->
  exists out', nilCheckWrite_loop1 dstl ls acc w
               = nilCheckWrite_after1 dstl
                   (fold_left (alloc_fold (fun f => has (s_wmap (k_st w)) (f_name f)) (range_srcptr w))
                              (map (fun l => kload l w) ls) acc)
                   (set_srcout out' w).
Proof.
  induction ls as [|l ls IH]; intros acc w K.
  - exists (k_srcout w). cbn. destruct w; reflexivity.
  - cbn [nilCheckWrite_loop1 map fold_left]. unfold wmap_lookup, smap_lookup, get_Name, is_embedded_at. unfold alloc_fold at 2.
    rewrite <- (m_get_has (s_wmap (k_st w))).
    destruct (m_get (s_wmap (k_st w)) (f_name (kload l w))) as [d|]; cbn [andb]; [destruct (is_embedded (kload l w))|].
    + destruct (loop5_is_model l (range_srcptr w) acc w K) as (o1 & E1 & K1). rewrite E1.
      destruct (IH (alloc_step (kload l w) (range_srcptr w) acc) (set_srcout o1 w)) as (o2 & E2).
      { replace (k_srcout (set_srcout o1 w)) with o1 by (destruct w; reflexivity). exact K1. }
      replace (range_srcptr (set_srcout o1 w)) with (range_srcptr w) in E2 by (destruct w; reflexivity).
      replace (MapCheckPrims.k_st (set_srcout o1 w)) with (MapCheckPrims.k_st w) in E2 by (destruct w; reflexivity).
      assert (M : map (fun l0 => kload l0 (set_srcout o1 w)) ls = map (fun l0 => kload l0 w) ls)
        by (apply map_ext; intros l0; destruct w, l0; reflexivity).
      rewrite M in E2. exists o2. rewrite E2. destruct w; reflexivity.
    + apply (IH acc w K).
    + apply (IH acc w K).
Qed.

Lemma fold_left_ext {A B} (f g : A -> B -> A) : (forall a b, f a b = g a b) -> forall l a, fold_left f l a = fold_left g l a.
Proof. intros H l. induction l as [|b l IH]; intros a; [reflexivity|]. cbn. rewrite H. apply IH. Qed.
Lemma existsb_map_snd {K} (g : string -> bool) (l : list (K * string)) : existsb g (map snd l) = existsb (fun kv => g (snd kv)) l.
Proof. induction l as [|x l IH]; [reflexivity|]. cbn. now rewrite IH. Qed.
Lemma forallb_filter_id {A} (p : A -> bool) l : forallb p l = true -> filter p l = l.
Proof. induction l as [|x l IH]; [reflexivity|]. cbn. intros H. apply andb_true_iff in H as (H1 & H2). now rewrite H1, (IH H2). Qed.

(* nilCheckWrite: the two allocation lists of [analyse], the destination side over the LIVE entries of readSrcMap *)
Theorem nilCheckWrite_is_model : forall (w : kworld),
  exists w', nilCheckWrite w = (Returned tt, w')
    /\ k_srclist w' = ptr_path_list (k_sigma w) (k_srcptr w) (s_src (k_st w)) (fun f => has (s_wmap (k_st w)) (f_name f))
    /\ k_dstlist w' = ptr_path_list (k_sigma w) (k_dstptr w) (s_dst (k_st w))
                                    (fun f => existsb (fun kv => String.eqb (f_name f) (snd kv)) (live (s_rmap (k_st w))))
    /\ MapCheckPrims.k_st w' = MapCheckPrims.k_st w /\ k_srcpaths w' = k_srcpaths w /\ k_dstpaths w' = k_dstpaths w
    /\ k_srcneed w' = k_srcneed w /\ k_dstneed w' = k_dstneed w.
Proof.
  intros w. unfold nilCheckWrite.
  set (w1 := set_dstout [] (set_srcout [] w)).
  assert (K1 : Keys (k_srcout w1) []) by (intros p; destruct w; reflexivity).
  destruct (loop1_src_is_model [] (src_locs w1) [] w1 K1) as (o1 & E1). rewrite E1. unfold nilCheckWrite_after1.
  set (sl := fold_left _ _ []) in *.
  set (w2 := set_srcout o1 w1).
  assert (K2 : Keys (k_dstout w2) []) by (intros p; destruct w; reflexivity).
  destruct (loop2_dst_is_model sl (dst_locs w2) [] w2 K2) as (o2 & E2). rewrite E2. unfold nilCheckWrite_after2.
  eexists. split; [reflexivity|].
  assert (S1 : map (fun l => kload l w1) (src_locs w1) = s_src (k_st w)) by (rewrite map_src_locs; destruct w; reflexivity).
  assert (S2 : map (fun l => kload l w2) (dst_locs w2) = s_dst (k_st w)) by (rewrite map_dst_locs; destruct w; reflexivity).
  split; [|split; [|destruct w; cbn; auto 8]].
  - replace (k_srclist _) with (sort_paths sl) by (destruct w; reflexivity). unfold sl. rewrite S1.
    replace (range_srcptr w1) with (k_sigma w (k_srcptr w)) by (destruct w; reflexivity).
    replace (MapCheckPrims.k_st w1) with (MapCheckPrims.k_st w) by (destruct w; reflexivity).
    reflexivity.
  - match goal with |- k_dstlist ?W = _ =>
      replace (k_dstlist W) with (sort_paths (fold_left (alloc_fold (fun f => existsb (String.eqb (f_name f)) (live_values w2)) (range_dstptr w2))
                                                        (map (fun l => kload l w2) (dst_locs w2)) []))
        by (destruct w; reflexivity) end.
    rewrite S2.
    replace (range_dstptr w2) with (k_sigma w (k_dstptr w)) by (destruct w; reflexivity).
    replace (live_values w2) with (map snd (live (s_rmap (k_st w)))) by (destruct w; reflexivity).
    unfold ptr_path_list. f_equal. apply fold_left_ext. intros acc f. unfold alloc_fold.
    rewrite existsb_map_snd. reflexivity.
Qed.

(* the live entries of the translation's readSrcMap are those of the model (Mapper.m_live: `analyse` ranges over the
   live entries since the repair of the disagreement found by this tie) *)
Lemma live_is_m_live m : live m = m_live m.
Proof. induction m as [|[k v] m IH]; [reflexivity|]. cbn [live m_live]. rewrite IH. reflexivity. Qed.

(* (kept: without dead entries the live list is the list itself) *)
Lemma live_nodup m : NoDup (map fst m) -> live m = m.
Proof.
  induction m as [|[k v] m IH]; intros N; [reflexivity|]. cbn [live]. inversion N as [|? ? Nin N']; subst. rewrite (IH N'). f_equal.
  apply forallb_filter_id. apply forallb_forall. intros [k' v'] I. cbn [fst]. apply negb_true_iff. apply String.eqb_neq.
  intros ->. apply Nin. now apply (in_map fst) in I.
Qed.

Theorem nilCheckWrite_is_analyse : forall (w : kworld),
  exists w', nilCheckWrite w = (Returned tt, w')
    /\ k_srclist w' = ptr_path_list (k_sigma w) (k_srcptr w) (s_src (k_st w))
                                    (fun f => match m_get (s_wmap (k_st w)) (f_name f) with Some _ => true | None => false end)
    /\ k_dstlist w' = ptr_path_list (k_sigma w) (k_dstptr w) (s_dst (k_st w))
                                    (fun f => existsb (fun kv => String.eqb (f_name f) (snd kv)) (m_live (s_rmap (k_st w)))).
Proof.
  intros w. destruct (nilCheckWrite_is_model w) as (w' & E & A & B & _). exists w'. split; [exact E|]. split.
  - rewrite A. unfold ptr_path_list. f_equal. apply fold_left_ext. intros acc f. now rewrite m_get_has.
  - rewrite B, live_is_m_live. reflexivity.
Qed.

(* ================= C09 / C05: the plan of [analyse] is assembled from what the SOURCE computes ================= *)
(* makeReadWriteCheck, as far as it is translated: makeReadCond's two prepareReadPaths calls (its template closures are
   not translated), nilCheckRead, nilCheckWrite; neverWriteCheck only prints warnings *)
Definition check_run (w0 : kworld) : outcome unit * kworld :=
  match prepareReadPaths (src_locs w0) (k_srcptr w0) PSrcPaths w0 with
  | (Returned _, w1) =>
      match prepareReadPaths (dst_locs w1) (k_dstptr w1) PDstPaths w1 with
      | (Returned _, w2) =>
          match nilCheckRead w2 with
          | (Returned _, w3) => nilCheckWrite w3
          | r => r
          end
      | r => r
      end
  | r => r
  end.

Definition world_of (s2 : Mapper.st) (sp dp : ptrmap) (sigma : oracle) : kworld := mkK s2 sp dp sigma [] [] [] [] [] [] [] [].

Lemma flat_map_ext_in' {A B} (f g : A -> list B) l : (forall x, In x l -> f x = g x) -> flat_map f l = flat_map g l.
Proof. induction l as [|x l IH]; intros H; [reflexivity|]. cbn. rewrite (H x (or_introl eq_refl)), IH; [reflexivity|]. intros y I. apply H. now right. Qed.

Lemma map_fst_with_ty (pm : ptrmap) (l : list path) :
  map fst (map (fun p => (p, match pm_get pm p with Some t => t | None => TBasic BBool end)) l) = l.
Proof. rewrite map_map. cbn [fst]. apply map_id. Qed.

Theorem C09_plan_inputs_src : forall sigma jb a, analyse sigma jb = Some a ->
  exists w4, check_run (world_of (a_state a) (p_ptr (a_src_parsed a)) (p_ptr (a_dst_parsed a)) sigma) = (Returned tt, w4)
    (* the read guards of ToX: the pointer hops on the way to the field read, for the fields nilCheckRead marks *)
    /\ pl_stmts (a_to a) = to_stmts (k_srcpaths w4) (has (k_srcneed w4)) (a_state a)
    (* the allocation lists of both directions *)
    /\ (a_use_dst_ctor a = false -> map fst (pl_alloc (a_to a)) = k_dstlist w4)
    /\ (a_use_src_ctor a = false -> map fst (pl_alloc (a_from a)) = k_srclist w4).
Proof.
  intros sigma jb a A. unfold analyse in A. destruct (prepare jb) as [pr|]; [|discriminate]. inversion A; subst a; clear A.
  cbn [a_state a_src_parsed a_dst_parsed a_to a_from a_use_dst_ctor a_use_src_ctor pl_stmts pl_alloc] in *.
  set (s2 := run_passes _ _ _ _ _) in *. set (sp := p_ptr (pr_src pr)). set (dp := p_ptr (pr_dst pr)).
  unfold check_run. set (w0 := world_of s2 sp dp sigma).
  rewrite (prepareReadPaths_src_is_paths_map w0 eq_refl).
  set (w1 := set_srcpaths _ w0).
  rewrite (prepareReadPaths_dst_is_paths_map w1 eq_refl).
  set (w2 := set_dstpaths _ w1).
  rewrite nilCheckRead_is_model. set (w3 := with_needs _ _ w2).
  destruct (nilCheckWrite_is_analyse w3) as (w4 & E4 & SL & DL).
  destruct (nilCheckWrite_is_model w3) as (w4' & E4' & _ & _ & St & Sp & Dp & Sn & Dn). rewrite E4 in E4'. inversion E4'; subst w4'; clear E4'.
  exists w4. split; [exact E4|]. split; [|split].
  - rewrite Sp, Sn. cbn [w3 with_needs w2 w1 w0 world_of set_srcneed set_dstneed set_dstpaths set_srcpaths upd_k k_srcpaths k_srcneed k_st].
    unfold to_stmts. apply flat_map_ext_in'. intros sf I. destruct (f_target sf); [|reflexivity].
    change (k_srcptr w0) with sp. rewrite (need_src_on_fields s2 (paths_map sp (s_src s2)) (s_src s2) sf I). reflexivity.
  - intros ->. rewrite map_fst_with_ty, DL. reflexivity.
  - intros ->. rewrite map_fst_with_ty, SL. reflexivity.
Qed.

Print Assumptions prepareReadPaths_is_model.
Print Assumptions prepareReadPaths_src_is_paths_map.
Print Assumptions prepareReadPaths_dst_is_paths_map.
Print Assumptions nilCheckRead_is_model.
Print Assumptions nilCheckRead_src_need.
Print Assumptions nilCheckRead_dst_need.
Print Assumptions nilCheckWrite_is_model.
Print Assumptions nilCheckWrite_is_analyse.
Print Assumptions C09_plan_inputs_src.
