(* Translation tie for the string helpers of /repo/internal/transfer/transfer.go
   (and mapper/match.go smartMatch): [ShootGen.TransferGen] is written on every
   run by harness/go/cmd/go2gallina from the CURRENT source; this file proves
   that the translated functions are the functions of Model/Transfer.v that the
   theorems of many properties rest on (byte-level: for EVERY string, the model
   and the translated code treat a string as its bytes; the one place where Go
   is not byte-level -- strings.ToUpper / strings.ToLower / string(byte) on
   non-ASCII input -- is the primitive table, see docs/translator.md). *)
From Coq Require Import List ZArith Bool String Ascii Lia.
From Shoot Require Import Base.Str Model.Transfer Bridge.GoPrims Bridge.StrFacts.
From ShootGen Require Import TransferGen.
Import ListNotations.
Local Open Scope Z_scope.

Ltac zbool :=
  repeat match goal with
  | |- context [(?a <=? ?b)%Z] => destruct (Z.leb_spec a b); try lia
  | |- context [(?a <? ?b)%Z] => destruct (Z.ltb_spec a b); try lia
  | |- context [(?a >=? ?b)%Z] => rewrite (Z.geb_leb a b)
  | |- context [(?a >? ?b)%Z] => rewrite (Z.gtb_ltb a b)
  | |- context [(?a =? ?b)%Z] => destruct (Z.eqb_spec a b); try lia
  end.

(* ---- the byte tests and conversions: all 256 bytes *)
Ltac all_bytes b := destruct b as [[] [] [] [] [] [] [] []]; vm_compute; reflexivity.

Theorem IsUpper_is_model : forall b, IsUpper b = is_upper b.
Proof. intros b. all_bytes b. Qed.
Theorem IsLower_is_model : forall b, IsLower b = is_lower b.
Proof. intros b. all_bytes b. Qed.
Theorem ToUpper_is_model : forall b, ToUpper b = to_upper_c b.
Proof. intros b. all_bytes b. Qed.
Theorem ToLower_is_model : forall b, ToLower b = to_lower_c b.
Proof. intros b. all_bytes b. Qed.

(* ---- FirstLowerLetter *)
Theorem FirstLowerLetter_is_model : forall s,
  FirstLowerLetter s tt = (Returned (first_lower_letter s), tt).
Proof.
  intros [|c r]; unfold FirstLowerLetter; cbn [String.eqb]; [reflexivity|].
  replace (String.eqb (String c r) "") with false by (destruct r; reflexivity).
  rewrite str_slice_first. reflexivity.
Qed.

(* ---- ToPascalCase: the loop turns every piece into first_upper of it *)
Lemma first_upper_by_set : forall c r, String (ToUpper c) r = first_upper (String c r).
Proof. intros. rewrite ToUpper_is_model. reflexivity. Qed.

Lemma ToPascalCase_loop_bridge : forall str todo done,
  ToPascalCase_loop1 str (Z.of_nat (List.length (done ++ todo))) (List.length todo)
                     (Z.of_nat (List.length done)) (done ++ todo) tt
  = (Returned (join "" (done ++ map first_upper todo)), tt).
Proof.
  intros str todo. induction todo as [|p todo IH]; intros done.
  - cbn [ToPascalCase_loop1 List.length map]. rewrite app_nil_r. zbool. reflexivity.
  - cbn [ToPascalCase_loop1]. rewrite app_length. cbn [List.length]. zbool.
    rewrite go_index_app_mid.
    assert (Hnext : forall q, ToPascalCase_loop1 str (Z.of_nat (List.length done + S (List.length todo))) (List.length todo)
                       (Z.of_nat (List.length done) + 1) (done ++ q :: todo) tt
                     = (Returned (join "" (done ++ q :: map first_upper todo)), tt)).
    { intros q. specialize (IH (done ++ [q])). rewrite <- !app_assoc in IH. cbn [app] in IH.
      rewrite !app_length in IH. cbn [List.length] in IH.
      replace (Z.of_nat (List.length done + 1)) with (Z.of_nat (List.length done) + 1) in IH by lia.
      replace (List.length done + 1 + List.length todo)%nat with (List.length done + S (List.length todo))%nat in IH by lia.
      exact IH. }
    destruct p as [|c r].
    + (* an empty piece: continue *)
      cbn [str_len String.length Z.of_nat]. zbool. cbn [map first_upper]. apply Hnext.
    + rewrite str_len_cons. pose proof (str_len_nonneg r). zbool.
      rewrite str_get_first, str_set_first, list_set_app_mid.
      cbn [map]. rewrite <- first_upper_by_set. apply Hnext.
Qed.

Theorem ToPascalCase_is_model : forall s,
  ToPascalCase s tt = (Returned (to_pascal_case s), tt).
Proof.
  intros s. unfold ToPascalCase, to_pascal_case. destruct s as [|c r]; [reflexivity|].
  rewrite str_len_cons. pose proof (str_len_nonneg r). zbool.
  unfold go_split.
  match goal with |- ToPascalCase_loop1 _ _ ?f _ _ _ = _ =>
    replace f with (List.length (split_c "_" (String c r))) by lia end.
  change 0 with (Z.of_nat (@List.length string [])).
  exact (ToPascalCase_loop_bridge (String c r) (split_c "_" (String c r)) []).
Qed.
