(* Translation tie for the string helpers of /repo/internal/transfer/transfer.go
   (and mapper/match.go smartMatch): [ShootGen.TransferGen] is written on every
   run by harness/go/cmd/go2gallina from the CURRENT source; this file proves
   that the translated functions are the functions of Model/Transfer.v that the
   theorems of many properties rest on (byte-level: for EVERY string, the model
   and the translated code treat a string as its bytes; the one place where Go
   is not byte-level -- strings.ToUpper / strings.ToLower / string(byte) on
   non-ASCII input -- is the primitive table, see docs/translator.md). *)
From Coq Require Import List ZArith Bool String Ascii Lia.
From Shoot Require Import Base.Str Model.Transfer Bridge.GoPrims Bridge.StrFacts.
From ShootGen Require Import TransferGen.
Import ListNotations.
Local Open Scope Z_scope.

Ltac zbool :=
  repeat match goal with
  | |- context [(?a <=? ?b)%Z] => destruct (Z.leb_spec a b); try (cbn [List.length] in *; lia)
  | |- context [(?a <? ?b)%Z] => destruct (Z.ltb_spec a b); try (cbn [List.length] in *; lia)
  | |- context [(?a >=? ?b)%Z] => rewrite (Z.geb_leb a b)
  | |- context [(?a >? ?b)%Z] => rewrite (Z.gtb_ltb a b)
  | |- context [(?a =? ?b)%Z] => destruct (Z.eqb_spec a b); try lia
  end.

(* arithmetic on lengths of concatenations *)
Ltac len_lia := repeat (rewrite ?app_length; cbn [List.length]); lia.

(* ---- the byte tests and conversions: all 256 bytes *)
Ltac all_bytes b := destruct b as [[] [] [] [] [] [] [] []]; vm_compute; reflexivity.

Theorem IsUpper_is_model : forall b, IsUpper b = is_upper b.
Proof. intros b. all_bytes b. Qed.
Theorem IsLower_is_model : forall b, IsLower b = is_lower b.
Proof. intros b. all_bytes b. Qed.
Theorem ToUpper_is_model : forall b, ToUpper b = to_upper_c b.
Proof. intros b. all_bytes b. Qed.
Theorem ToLower_is_model : forall b, ToLower b = to_lower_c b.
Proof. intros b. all_bytes b. Qed.

(* ---- FirstLowerLetter *)
Theorem FirstLowerLetter_is_model : forall s,
  FirstLowerLetter s tt = (Returned (first_lower_letter s), tt).
Proof.
  intros [|c r]; unfold FirstLowerLetter; cbn [String.eqb]; [reflexivity|].
  replace (String.eqb (String c r) "") with false by (destruct r; reflexivity).
  rewrite str_slice_first. reflexivity.
Qed.

(* ---- ToPascalCase: the loop turns every piece into first_upper of it *)
Lemma first_upper_by_set : forall c r, String (ToUpper c) r = first_upper (String c r).
Proof. intros. rewrite ToUpper_is_model. reflexivity. Qed.

Lemma ToPascalCase_loop_bridge : forall str todo done,
  ToPascalCase_loop1 str (Z.of_nat (List.length (done ++ todo))) (List.length todo)
                     (Z.of_nat (List.length done)) (done ++ todo) tt
  = (Returned (join "" (done ++ map first_upper todo)), tt).
Proof.
  intros str todo. induction todo as [|p todo IH]; intros done.
  - cbn [ToPascalCase_loop1 List.length map]. rewrite app_nil_r. zbool. reflexivity.
  - rewrite app_length. cbn [List.length]. cbn [ToPascalCase_loop1]. zbool.
    rewrite go_index_app_mid.
    assert (Hnext : forall q, ToPascalCase_loop1 str (Z.of_nat (List.length done + S (List.length todo))) (List.length todo)
                       (Z.of_nat (List.length done) + 1) (done ++ q :: todo) tt
                     = (Returned (join "" (done ++ q :: map first_upper todo)), tt)).
    { intros q. specialize (IH (done ++ [q])). rewrite <- !app_assoc in IH. cbn [app] in IH.
      rewrite !app_length in IH. cbn [List.length] in IH.
      replace (Z.of_nat (List.length done + 1)) with (Z.of_nat (List.length done) + 1) in IH by lia.
      replace (List.length done + 1 + List.length todo)%nat with (List.length done + S (List.length todo))%nat in IH by lia.
      exact IH. }
    destruct p as [|c r].
    + (* an empty piece: continue *)
      cbn [str_len String.length Z.of_nat]. zbool. cbn [map first_upper]. apply Hnext.
    + rewrite str_len_cons. pose proof (str_len_nonneg r). zbool.
      rewrite str_get_first, str_set_first, list_set_app_mid.
      cbn [map]. rewrite <- first_upper_by_set. apply Hnext.
Qed.

Theorem ToPascalCase_is_model : forall s,
  ToPascalCase s tt = (Returned (to_pascal_case s), tt).
Proof.
  intros s. unfold ToPascalCase, to_pascal_case. destruct s as [|c r]; [reflexivity|].
  rewrite ?str_len_cons. pose proof (str_len_nonneg r). cbn [String.eqb]. zbool.
  unfold go_split.
  match goal with |- ToPascalCase_loop1 _ _ ?f _ _ _ = _ =>
    replace f with (List.length (split_c "_" (String c r))) by lia end.
  change 0 with (Z.of_nat (@List.length string [])).
  exact (ToPascalCase_loop_bridge (String c r) (split_c "_" (String c r)) []).
Qed.

(* ---- splitCamelTokensASCII.  State of the loop at index i: the string is
   p1 ++ (q ++ [prev]) ++ rest with |p1| = start and |p1| + |q| + 1 = i; the model's
   accumulator is rev (q ++ [prev]) *)
Lemma nth_error_split3 : forall {A} (a b c : list A) x,
  nth_error (a ++ b ++ x :: c) (List.length a + List.length b) = Some x.
Proof. intros. rewrite app_assoc, <- app_length. apply nth_error_app_mid. Qed.

Lemma split_loop_bridge : forall rest p1 q prev tokens,
  splitCamelTokensASCII_loop1 (string_of_list (p1 ++ (q ++ [prev]) ++ rest)) (List.length rest)
      (Z.of_nat (List.length p1 + List.length q + 1)) tokens (Z.of_nat (List.length p1)) tt
  = (Returned (tokens ++ map string_of_list (split_camel_aux prev rest (prev :: rev q))), tt).
Proof.
  induction rest as [|c rest IH]; intros p1 q prev tokens.
  - (* the end of the string: the last token *)
    cbn [splitCamelTokensASCII_loop1 List.length split_camel_aux map].
    rewrite str_len_sol, !app_length, app_nil_r. cbn [List.length]. zbool.
    unfold splitCamelTokensASCII_after1. rewrite str_len_sol.
    replace (Z.of_nat (List.length (p1 ++ q ++ [prev]))) with (Z.of_nat (List.length p1 + (List.length q + 1)))
      by len_lia.
    rewrite str_slice_sol by len_lia.
    rewrite skipn_app, skipn_all, Nat.sub_diag. cbn [skipn app].
    rewrite firstn_all2 by len_lia.
    cbn [rev]. rewrite rev_involutive. reflexivity.
  - (* facts that do not depend on what follows c *)
    assert (Hi : str_get (string_of_list (p1 ++ (q ++ [prev]) ++ c :: rest)) (Z.of_nat (List.length p1 + List.length q + 1)) = Some c).
    { rewrite str_get_sol. replace (List.length p1 + List.length q + 1)%nat with (List.length p1 + List.length (q ++ [prev]))%nat
        by len_lia. apply nth_error_split3. }
    assert (Hp : str_get (string_of_list (p1 ++ (q ++ [prev]) ++ c :: rest)) (Z.of_nat (List.length p1 + List.length q + 1) - 1) = Some prev).
    { replace (Z.of_nat (List.length p1 + List.length q + 1) - 1) with (Z.of_nat (List.length p1 + List.length q)) by lia.
      rewrite str_get_sol. rewrite <- (app_assoc q [prev]). cbn [app]. apply nth_error_split3. }
    (* what the next iteration starts from: after a cut, and without one *)
    assert (Hcut : forall tk,
      splitCamelTokensASCII_loop1 (string_of_list (p1 ++ (q ++ [prev]) ++ c :: rest)) (List.length rest)
        (Z.of_nat (List.length p1 + List.length q + 1) + 1) tk (Z.of_nat (List.length p1 + List.length q + 1)) tt
      = (Returned (tk ++ map string_of_list (split_camel_aux c rest [c])), tt)).
    { intros tk. specialize (IH (p1 ++ q ++ [prev]) [] c tk). cbn [app List.length rev] in IH.
      rewrite <- !app_assoc in IH. cbn [app] in IH. rewrite <- !app_assoc. cbn [app].
      rewrite !app_length in IH. cbn [List.length] in IH.
      replace (Z.of_nat (List.length p1 + (List.length q + 1) + 0 + 1)) with (Z.of_nat (List.length p1 + List.length q + 1) + 1) in IH by lia.
      replace (Z.of_nat (List.length p1 + (List.length q + 1))) with (Z.of_nat (List.length p1 + List.length q + 1)) in IH by lia.
      exact IH. }
    assert (Hkeep : forall tk,
      splitCamelTokensASCII_loop1 (string_of_list (p1 ++ (q ++ [prev]) ++ c :: rest)) (List.length rest)
        (Z.of_nat (List.length p1 + List.length q + 1) + 1) tk (Z.of_nat (List.length p1)) tt
      = (Returned (tk ++ map string_of_list (split_camel_aux c rest (c :: prev :: rev q))), tt)).
    { intros tk. specialize (IH p1 (q ++ [prev]) c tk). rewrite rev_app_distr in IH. cbn [rev app] in IH.
      rewrite <- !app_assoc in IH. cbn [app] in IH. rewrite <- !app_assoc. cbn [app].
      rewrite !app_length in IH. cbn [List.length] in IH.
      replace (Z.of_nat (List.length p1 + (List.length q + 1) + 1)) with (Z.of_nat (List.length p1 + List.length q + 1) + 1) in IH by lia.
      exact IH. }
    assert (Hslice : str_slice (string_of_list (p1 ++ (q ++ [prev]) ++ c :: rest)) (Z.of_nat (List.length p1))
                       (Z.of_nat (List.length p1 + List.length q + 1)) = Some (string_of_list (q ++ [prev]))).
    { rewrite str_slice_sol by len_lia.
      rewrite skipn_app, skipn_all, Nat.sub_diag. cbn [skipn app].
      replace (List.length p1 + List.length q + 1 - List.length p1)%nat with (List.length (q ++ [prev])) by len_lia.
      rewrite firstn_app, firstn_all, Nat.sub_diag. cbn [firstn]. rewrite app_nil_r. reflexivity. }
    assert (Hmodel_cut : rev (prev :: rev q) = q ++ [prev]) by (cbn [rev]; rewrite rev_involutive; reflexivity).
    (* the byte after c, if any *)
    assert (Hn : forall d rest', rest = d :: rest' ->
       str_get (string_of_list (p1 ++ (q ++ [prev]) ++ c :: rest)) (Z.of_nat (List.length p1 + List.length q + 1) + 1) = Some d).
    { intros d rest' ->.
      replace (Z.of_nat (List.length p1 + List.length q + 1) + 1) with (Z.of_nat (List.length p1 + List.length ((q ++ [prev]) ++ [c]))) by len_lia.
      rewrite str_get_sol. replace (p1 ++ (q ++ [prev]) ++ c :: d :: rest') with (p1 ++ ((q ++ [prev]) ++ [c]) ++ d :: rest') by (rewrite <- !app_assoc; reflexivity).
      apply nth_error_split3. }
    cbn [splitCamelTokensASCII_loop1 List.length split_camel_aux].
    rewrite str_len_sol, Hi, Hp, IsUpper_is_model, IsLower_is_model.
    destruct rest as [|d rest'];
      [| rewrite (Hn d rest' eq_refl), IsLower_is_model ];
      repeat (rewrite ?app_length; cbn [List.length]); zbool;
      destruct (is_upper c); cbn [andb]; destruct (is_lower prev); cbn [orb];
      try destruct (is_lower d);
      rewrite ?Hslice, ?Hcut, ?Hkeep; cbn [map]; rewrite ?Hmodel_cut, <- ?app_assoc; reflexivity.
Qed.

Theorem splitCamelTokensASCII_is_model : forall s,
  splitCamelTokensASCII s tt = (Returned (split_camel_tokens s), tt).
Proof.
  intros s. unfold splitCamelTokensASCII, split_camel_tokens.
  rewrite <- (sol_los s) at 1 2 3. rewrite str_len_sol.
  destruct (list_of_string s) as [|c rest] eqn:Hl.
  - reflexivity.
  - cbn [List.length].
    replace (Z.to_nat (Z.of_nat (S (List.length rest)) - 1)) with (List.length rest) by lia.
    rewrite los_sol. exact (split_loop_bridge rest [] [] c []).
Qed.

(* ---- ToCamelCase: token i becomes camel_token i of it *)
Lemma camel_token_by_slices : forall n c d r,
  (upper (String c "") ++ lower (String d r))%string = camel_token (S n) (String c (String d r)).
Proof. reflexivity. Qed.

Lemma camel_token_pos : forall n t, n <> 0%nat -> camel_token n t = camel_token 1 t.
Proof. intros [|n] t H; [contradiction | reflexivity]. Qed.

Lemma ToCamelCase_loop_bridge : forall str todo done,
  ToCamelCase_loop1 str (Z.of_nat (List.length (done ++ todo))) (List.length todo)
                    (Z.of_nat (List.length done)) (done ++ todo) tt
  = (Returned (join "" (done ++ mapi_aux camel_token (List.length done) todo)), tt).
Proof.
  intros str todo. induction todo as [|p todo IH]; intros done.
  - cbn [ToCamelCase_loop1 List.length mapi_aux]. rewrite app_nil_r. zbool. reflexivity.
  - rewrite app_length. cbn [List.length]. cbn [ToCamelCase_loop1 mapi_aux]. zbool.
    all: rewrite ?go_index_app_mid.
    all: assert (Hnext : forall q, ToCamelCase_loop1 str (Z.of_nat (List.length done + S (List.length todo))) (List.length todo)
                       (Z.of_nat (List.length done) + 1) (done ++ q :: todo) tt
                     = (Returned (join "" (done ++ q :: mapi_aux camel_token (S (List.length done)) todo)), tt))
      by (intros q; specialize (IH (done ++ [q])); rewrite <- !app_assoc in IH; cbn [app] in IH;
          rewrite !app_length in IH; cbn [List.length] in IH;
          replace (Z.of_nat (List.length done + 1)) with (Z.of_nat (List.length done) + 1) in IH by lia;
          replace (List.length done + 1 + List.length todo)%nat with (List.length done + S (List.length todo))%nat in IH by lia;
          replace (List.length done + 1)%nat with (S (List.length done)) in IH by lia; exact IH).
    + (* the first token *)
      assert (done = []) by (destruct done; [reflexivity | cbn [List.length] in *; lia]). subst done.
      rewrite (list_set_app_mid (@nil string)). apply Hnext.
    + (* a later token *)
      assert (Hpos : List.length done <> 0%nat) by lia.
      rewrite (camel_token_pos _ p Hpos).
      destruct p as [|c [|d r]].
      * cbn [str_len String.length Z.of_nat]. zbool. rewrite list_set_app_mid. apply Hnext.
      * rewrite !str_len_cons, str_len_empty. zbool. rewrite list_set_app_mid. apply Hnext.
      * assert (Hlen : 1 < str_len (String c (String d r)))
          by (rewrite !str_len_cons; pose proof (str_len_nonneg r); lia).
        zbool. rewrite str_slice_first, str_slice_tail, list_set_app_mid.
        rewrite (camel_token_by_slices 0). apply Hnext.
Qed.

Theorem ToCamelCase_is_model : forall s,
  ToCamelCase s tt = (Returned (to_camel_case s), tt).
Proof.
  intros s. unfold ToCamelCase, to_camel_case. destruct s as [|c r]; [reflexivity|].
  rewrite ?str_len_cons. pose proof (str_len_nonneg r). cbn [String.eqb]. zbool.
  rewrite ToPascalCase_is_model, splitCamelTokensASCII_is_model.
  match goal with |- ToCamelCase_loop1 _ _ ?f _ _ _ = _ =>
    replace f with (List.length (split_camel_tokens (to_pascal_case (String c r)))) by lia end.
  change 0 with (Z.of_nat (@List.length string [])).
  exact (ToCamelCase_loop_bridge _ (split_camel_tokens (to_pascal_case (String c r))) []).
Qed.

(* ---- ToCamelCaseGO *)
(* the scan over the leading upper-case bytes *)
Lemma ToCamelCaseGO_loop_bridge : forall str rest pre,
  ToCamelCaseGO_loop1 str (string_of_list (pre ++ rest)) (List.length rest) (Z.of_nat (List.length pre)) tt
  = ToCamelCaseGO_after1 str (string_of_list (pre ++ rest)) (Z.of_nat (List.length pre + leading_upper rest)) tt.
Proof.
  intros str rest. induction rest as [|c rest IH]; intros pre.
  - cbn [ToCamelCaseGO_loop1 List.length leading_upper]. rewrite str_len_sol, app_nil_r, Nat.add_0_r. zbool. reflexivity.
  - cbn [ToCamelCaseGO_loop1 List.length leading_upper]. rewrite str_len_sol, app_length. cbn [List.length]. zbool.
    rewrite str_get_sol, nth_error_app_mid, IsUpper_is_model.
    destruct (is_upper c).
    + specialize (IH (pre ++ [c])). rewrite <- app_assoc in IH. cbn [app] in IH.
      rewrite app_length in IH. cbn [List.length] in IH.
      replace (Z.of_nat (List.length pre + 1)) with (Z.of_nat (List.length pre) + 1) in IH by lia.
      rewrite IH. f_equal. lia.
    + rewrite Nat.add_0_r. reflexivity.
Qed.

Lemma leading_upper_le : forall l, (leading_upper l <= List.length l)%nat.
Proof. induction l as [|c l IH]; simpl; [lia|]. destruct (is_upper c); lia. Qed.

Lemma skipn_nth : forall {A} n (l : list A) b, nth_error l n = Some b -> skipn n l = b :: skipn (S n) l.
Proof.
  intros A n. induction n as [|n IHn]; intros [|x l] b H; simpl in *; try discriminate.
  - inversion H; reflexivity.
  - apply IHn; assumption.
Qed.

(* what happens after the scan, for a non-empty string *)
Lemma ToCamelCaseGO_after_bridge : forall str c r,
  let l := c :: r in
  ToCamelCaseGO_after1 str (string_of_list l) (Z.of_nat (leading_upper l)) tt
  = (Returned (if Nat.leb (leading_upper l) 1 then first_lower (string_of_list l)
               else string_of_list (map to_lower_c (firstn (leading_upper l - 1) l) ++ skipn (leading_upper l - 1) l)), tt).
Proof.
  intros str c r l. unfold ToCamelCaseGO_after1.
  pose proof (leading_upper_le l) as Hle. set (k := leading_upper l) in *.
  destruct (Nat.leb_spec k 1) as [Hk|Hk].
  - zbool. subst l. cbn [string_of_list]. rewrite str_get_first, str_set_first, ToLower_is_model. reflexivity.
  - zbool.
    (* bytes[:k-1], bytes[k-1], bytes[k:] *)
    replace 0 with (Z.of_nat 0) by reflexivity.
    replace (Z.of_nat k - 1) with (Z.of_nat (k - 1)) by lia.
    rewrite str_slice_sol by lia. rewrite str_get_sol, str_len_sol, str_slice_sol by lia.
    cbn [skipn]. rewrite Nat.sub_0_r.
    destruct (nth_error l (k - 1)) as [b|] eqn:Hb; [|apply nth_error_None in Hb; lia].
    assert (Hfa : firstn (List.length l - k) (skipn k l) = skipn k l)
      by (apply firstn_all2; rewrite skipn_length; lia).
    rewrite Hfa, lower_sol. f_equal. f_equal.
    change (String b "") with (string_of_list [b]).
    rewrite <- !sol_app. f_equal. rewrite <- app_assoc. f_equal. cbn [app].
    (* skipn (k-1) l = b :: skipn k l *)
    rewrite (skipn_nth (k - 1) l b Hb). replace (S (k - 1)) with k by lia. reflexivity.
Qed.

(* a string whose Pascal form is empty consists of underscores only, hence equals its upper-case form *)
Fixpoint all_underscore (s : string) : bool :=
  match s with
  | EmptyString => true
  | String c r => Ascii.eqb c "_" && all_underscore r
  end.

Lemma join_map_first_upper_nil : forall s cur pre,
  (forall x, cur x = (pre ++ x)%string) ->
  join "" (map first_upper (split_c_aux "_" s cur)) = ""%string -> pre = ""%string /\ all_underscore s = true.
Proof.
  induction s as [|c s IH]; intros cur pre Hcur H; cbn [split_c_aux] in H.
  - rewrite Hcur, sapp_nil_r in H. cbn [map] in H. rewrite join_empty_cons in H.
    destruct pre; [auto | discriminate].
  - cbn [all_underscore]. destruct (Ascii.eqb_spec c "_") as [->|Hne].
    + cbn [map] in H. rewrite join_empty_cons, Hcur, sapp_nil_r in H.
      destruct pre as [|p0 pre]; [|discriminate]. cbn [first_upper append] in H.
      destruct (IH (fun x => x) ""%string (fun x => eq_refl) H) as [_ Hs]. auto.
    + exfalso.
      destruct (IH (fun x => cur (String c x)) (pre ++ String c "")%string) as [Hp _].
      * intros x. rewrite Hcur, sapp_assoc. reflexivity.
      * exact H.
      * destruct pre; discriminate.
Qed.

Lemma all_underscore_upper : forall s, all_underscore s = true -> upper s = s.
Proof.
  induction s as [|c s IH]; simpl; intros H; [reflexivity|].
  apply andb_true_iff in H as [Hc Hs]. apply Ascii.eqb_eq in Hc. subst c.
  unfold upper in *. simpl. rewrite IH by assumption. reflexivity.
Qed.

Lemma pascal_empty_is_upper : forall s, to_pascal_case s = ""%string -> String.eqb s (upper s) = true.
Proof.
  intros [|c r] H; [reflexivity|]. unfold to_pascal_case, split_c in H.
  destruct (join_map_first_upper_nil (String c r) (fun x => x) ""%string (fun x => eq_refl) H) as [_ Hu].
  rewrite (all_underscore_upper _ Hu). apply String.eqb_refl.
Qed.

Theorem ToCamelCaseGO_is_model : forall s,
  ToCamelCaseGO s tt = (Returned (to_camel_case_go s), tt).
Proof.
  intros s. unfold ToCamelCaseGO, to_camel_case_go. destruct s as [|c r]; [reflexivity|].
  rewrite ?str_len_cons. pose proof (str_len_nonneg r). zbool.
  destruct (String.eqb (String c r) (upper (String c r))) eqn:Hup; [reflexivity|].
  rewrite ToPascalCase_is_model.
  set (p := to_pascal_case (String c r)).
  assert (Hp : p <> ""%string).
  { intros Hp. apply pascal_empty_is_upper in Hp. congruence. }
  rewrite <- (sol_los p) at 1 2 3. rewrite str_len_sol.
  destruct (list_of_string p) as [|b l] eqn:Hl.
  { exfalso. apply Hp. rewrite <- (sol_los p), Hl. reflexivity. }
  replace (Z.to_nat (Z.of_nat (List.length (b :: l)) - 0)) with (List.length (b :: l)) by lia.
  change 0 with (Z.of_nat (@List.length ascii [])).
  rewrite (ToCamelCaseGO_loop_bridge _ (b :: l) []). cbn [app List.length Nat.add].
  rewrite (ToCamelCaseGO_after_bridge _ b l).
  rewrite <- Hl, sol_los. reflexivity.
Qed.

(* ---- mapper/match.go smartMatch *)
Theorem smartMatch_is_model : forall a b,
  smartMatch a b tt = (Returned (smart_match a b), tt).
Proof.
  intros a b. unfold smartMatch, smart_match, str_len.
  rewrite ?ToCamelCase_is_model.
  destruct (Nat.eqb_spec (String.length a) (String.length b)) as [He|Hne];
    destruct (String.eqb_spec a b) as [Hab|Hab];
    rewrite ?He; zbool; cbn [negb]; try reflexivity; try lia; subst; contradiction.
Qed.

(* ------------------------------------------------------------------ *)
(* facts of Proofs/TransferProofs.v over the translated source, and totality *)
From Shoot Require Import Proofs.TransferProofs.

Theorem transfer_src_always_returns : forall s a b,
  fst (FirstLowerLetter s tt) = Returned (first_lower_letter s) /\
  fst (ToPascalCase s tt) = Returned (to_pascal_case s) /\
  fst (splitCamelTokensASCII s tt) = Returned (split_camel_tokens s) /\
  fst (ToCamelCase s tt) = Returned (to_camel_case s) /\
  fst (ToCamelCaseGO s tt) = Returned (to_camel_case_go s) /\
  fst (smartMatch a b tt) = Returned (smart_match a b).
Proof.
  intros. rewrite FirstLowerLetter_is_model, ToPascalCase_is_model, splitCamelTokensASCII_is_model,
    ToCamelCase_is_model, ToCamelCaseGO_is_model, smartMatch_is_model. repeat split; reflexivity.
Qed.

Theorem smartMatch_src_reflexive : forall a, smartMatch a a tt = (Returned true, tt).
Proof. intros. rewrite smartMatch_is_model, smart_match_refl. reflexivity. Qed.

Theorem smartMatch_src_symmetric : forall a b, smartMatch a b tt = smartMatch b a tt.
Proof. intros. rewrite !smartMatch_is_model, smart_match_sym. reflexivity. Qed.

Print Assumptions ToPascalCase_is_model.
Print Assumptions splitCamelTokensASCII_is_model.
Print Assumptions ToCamelCase_is_model.
Print Assumptions ToCamelCaseGO_is_model.
Print Assumptions smartMatch_is_model.
