(* Translation tie for the analysis behind `shoot new -json` (C11).
   [ShootGen.CtorJsonGen] is written on every run by harness/go/cmd/go2gallina from the
   CURRENT text of /repo/internal/constructor/json.go (Generator.makeJson) and types.go
   (Field.HasJSONTag, Field.JSONTag); this file proves the translated definitions equal to
   Model/CtorJson.v [make_json] (make_json_loop, tag_trans, json_tag_of, field_has_getter /
   field_has_setter, all_get_has / all_set_has), owned by the constructor checks:
   imported, not edited. *)
From Coq Require Import List ZArith Bool String Arith Lia.
From Shoot Require Import Base.Str Base.GoVal Model.Transfer Model.CtorDirective Model.Ctor Model.CtorSpec Model.CtorOpt
     Model.CtorGetSet Model.CtorJson Bridge.GoPrims Bridge.JsonPrims.
From ShootGen Require Import CtorJsonGen.
Import ListNotations.
Local Open Scope string_scope.
Local Open Scope list_scope.

(* the spelling of a tag case on the command line (types.go: the four TagCase constants) *)
Definition tagcase_text (tc : tagcase) : string :=
  match tc with TagPascal => "pascal" | TagCamel => "camel" | TagLower => "lower" | TagUpper => "upper" end.

Theorem HasJSONTag_is_model : forall f, HasJSONTag f = has_json_tag f.
Proof. reflexivity. Qed.
Theorem JSONTag_is_model : forall f, JSONTag f = if has_json_tag f then f_jsontag f else f_name f.
Proof. intros f. unfold JSONTag, HasJSONTag, has_json_tag. destruct (String.eqb (f_jsontag f) ""); reflexivity. Qed.

(* ---- the two name sets collected from g.getsetMethods *)
Definition get_set (ms : list gs_method) (s : sset) : sset :=
  fold_left (fun s m => if func_is_getter m then set_adds s (gm_name m) else s) ms s.
Definition set_set (ms : list gs_method) (s : sset) : sset :=
  fold_left (fun s m => if func_is_setter m then set_adds s (gm_name m) else s) ms s.

Lemma loop1_is_model : forall nj trans ms gs ss (w : jworld),
  makeJson_loop1 nj trans ms gs ss w = makeJson_after1 nj trans (get_set ms gs) (set_set ms ss) w.
Proof.
  intros nj trans. induction ms as [|m ms IH]; intros gs ss w; [reflexivity|].
  cbn [makeJson_loop1 get_set set_set fold_left].
  destruct (func_is_getter m), (func_is_setter m); apply IH.
Qed.

Lemma get_set_has ms : forall s n, set_has (get_set ms s) n = (all_get_has ms n || set_has s n)%bool.
Proof.
  induction ms as [|m ms IH]; intros s n; [reflexivity|].
  cbn [get_set fold_left all_get_has existsb]. fold (get_set ms (if func_is_getter m then set_adds s (gm_name m) else s)).
  rewrite IH. fold (all_get_has ms n). unfold func_is_getter.
  destruct (mkind_eqb (gm_kind m) MGet); cbn [andb orb set_has set_adds existsb].
  - rewrite (String.eqb_sym n). destruct (String.eqb (gm_name m) n), (all_get_has ms n); reflexivity.
  - reflexivity.
Qed.

Lemma set_set_has ms : forall s n, set_has (set_set ms s) n = (all_set_has ms n || set_has s n)%bool.
Proof.
  induction ms as [|m ms IH]; intros s n; [reflexivity|].
  cbn [set_set fold_left all_set_has existsb]. fold (set_set ms (if func_is_setter m then set_adds s (gm_name m) else s)).
  rewrite IH. fold (all_set_has ms n). unfold func_is_setter.
  destruct (mkind_eqb (gm_kind m) MSet), (String.prefix "Set" (gm_name m)); cbn [andb orb set_has set_adds existsb]; try reflexivity.
  rewrite (String.eqb_sym n). destruct (String.eqb (gm_name m) n), (all_set_has ms n); reflexivity.
Qed.

(* ---- the loop over g.fields = make_json_loop *)
Lemma loop2_is_model : forall tc ms gs ss,
  (forall n, set_has gs n = all_get_has ms n) -> (forall n, set_has ss n = all_set_has ms n) ->
  forall fields nj tm jl gl sl el (w : jworld),
  makeJson_loop2 (tag_trans tc) gs ss fields nj tm jl gl sl el w
  = (let a := make_json_loop tc (j_getter w) (j_setter w) ms fields
                {| jd_json := nj; jd_list := jl; jd_tags := tm; jd_getters := gl; jd_setters := sl; jd_exported := el |} in
     makeJson_after2 (tag_trans tc) gs ss (jd_json a) (jd_tags a) (jd_list a) (jd_getters a) (jd_setters a) (jd_exported a) w).
Proof.
  intros tc ms gs ss Hg Hs. induction fields as [|f fields IH]; intros nj tm jl gl sl el w; [reflexivity|].
  cbn [makeJson_loop2 make_json_loop]. rewrite !Hg, !Hs.
  rewrite ?JSONTag_is_model, ?HasJSONTag_is_model. unfold call_trans, json_tag_of, has_json_tag.
  fold (field_has_getter (j_getter w) ms f) (field_has_setter (j_setter w) ms f).
  destruct (f_shadowed f), (f_embedded f); cbn [orb]; try (rewrite IH; reflexivity).
  destruct (String.eqb (f_jsontag f) "-"); [rewrite IH; reflexivity|].
  destruct (String.eqb (f_jsontag f) ""), (is_exported (f_name f)), (field_has_getter (j_getter w) ms f),
           (field_has_setter (j_setter w) ms f);
    cbn [negb andb orb];
    try (destruct (String.eqb (tag_trans tc (f_name f)) (f_name f)); cbn [negb andb orb]);
    rewrite IH, ?orb_true_r, ?orb_false_r; reflexivity.
Qed.

Lemma jd_eta a : {| jd_json := jd_json a; jd_list := jd_list a; jd_tags := jd_tags a; jd_getters := jd_getters a;
                     jd_setters := jd_setters a; jd_exported := jd_exported a |} = a.
Proof. destruct a; reflexivity. Qed.

(* ---- makeJson IS make_json: nothing without -json, the loop otherwise *)
Theorem makeJson_is_model : forall tc (w : jworld),
  jf_tagcase (j_flags w) = tagcase_text tc ->
  exists w', makeJson w = (Returned tt, w')
    /\ j_data w' = (if jf_json (j_flags w)
                    then make_json_loop tc (j_getter w) (j_setter w) (j_methods w) (j_fields w) empty_json
                    else j_data w)
    /\ j_fields w' = j_fields w /\ j_flags w' = j_flags w /\ j_getter w' = j_getter w /\ j_setter w' = j_setter w
    /\ j_methods w' = j_methods w.
Proof.
  intros tc w T. unfold makeJson. rewrite T.
  destruct (jf_json (j_flags w)) eqn:J; cbv beta iota zeta delta [negb].
  2:{ exists w. auto 8. }
  assert (Hg : forall n, set_has (get_set (j_methods w) []) n = all_get_has (j_methods w) n)
    by (intros n; rewrite get_set_has; cbn; apply orb_false_r).
  assert (Hs : forall n, set_has (set_set (j_methods w) []) n = all_set_has (j_methods w) n)
    by (intros n; rewrite set_set_has; cbn; apply orb_false_r).
  (* the switch on the tag case: decided on each of the four spellings *)
  destruct tc; cbn [tagcase_text];
    repeat match goal with |- context [String.eqb ?a ?b] =>
             let v := eval vm_compute in (String.eqb a b) in change (String.eqb a b) with v end;
    cbv beta iota zeta; unfold set_make; rewrite loop1_is_model; unfold makeJson_after1, smap_make; cbv zeta.
  all: [> pose proof (loop2_is_model TagPascal (j_methods w) _ _ Hg Hs) as L; change (tag_trans TagPascal) with to_pascal_case in L
        | pose proof (loop2_is_model TagCamel (j_methods w) _ _ Hg Hs) as L; change (tag_trans TagCamel) with to_camel_case in L
        | pose proof (loop2_is_model TagLower (j_methods w) _ _ Hg Hs) as L; change (tag_trans TagLower) with lower in L
        | pose proof (loop2_is_model TagUpper (j_methods w) _ _ Hg Hs) as L; change (tag_trans TagUpper) with upper in L ].
  all: rewrite L; cbv zeta; unfold makeJson_after2; cbv zeta;
       destruct w as [fs fl g s ms d]; (eexists; split; [reflexivity|]);
       cbn; (split; [apply jd_eta|auto 8]).
Qed.

(* for the struct under generation: what makeJson leaves in g.data is [make_json fl sd d fields] *)
Theorem C11_make_json_src : forall fl sd d fields (w : jworld),
  j_fields w = fields -> jf_json (j_flags w) = fl_json fl -> jf_tagcase (j_flags w) = tagcase_text (fl_tagcase fl) ->
  j_getter w = fst (type_switch fl sd) -> j_setter w = snd (type_switch fl sd) -> j_methods w = gs_methods d ->
  j_data w = empty_json ->
  exists w', makeJson w = (Returned tt, w') /\ j_data w' = make_json fl sd d fields.
Proof.
  intros fl sd d fields w F J T G S M D.
  destruct (makeJson_is_model (fl_tagcase fl) w T) as (w' & E & A & _).
  exists w'. split; [exact E|]. rewrite A. unfold make_json. rewrite J, G, S, M, F, D.
  destruct (fl_json fl); reflexivity.
Qed.

(* C11_no_json_flag over the source: without -json nothing is written *)
Theorem C11_no_json_flag_src : forall tc (w : jworld),
  jf_tagcase (j_flags w) = tagcase_text tc -> jf_json (j_flags w) = false -> makeJson w = (Returned tt, w).
Proof. intros tc w T J. unfold makeJson. rewrite J. reflexivity. Qed.

Print Assumptions loop1_is_model.
Print Assumptions loop2_is_model.
Print Assumptions makeJson_is_model.
Print Assumptions C11_make_json_src.
Print Assumptions C11_no_json_flag_src.
