(* Primitive table of the Go->Gallina translator, area "ctornew" (C02, C13):
   internal/constructor/new.go (Generator.makeNew) and fields.go newParamsList.
   Trusted base.

   The generator is the world: what parseFields left (g.fields, g.hasNew, g.typeParams,
   g.typeParamsMap, g.flags) and what makeNew writes into g.data.  A *Field is read only
   here: a value of Model/Ctor.v [field].  Go maps keyed by field name are association
   lists in first-insertion order, a later write replaces the value in place
   (Model/Ctor.v [map_put], as in the model); the LOCAL maps of makeNew are pure values.
   g.typeParamsMap (map[int]string filled by parseFields for every group index 0..n-1) is
   the list of its values: a missing key and an index out of range both read "".
   bytes.Buffer is the text written so far.  newBody / newBodyRec is a self-recursive
   function with a loop whose counter is set by the recursive call: outside the
   translated subset, the Section variable [newBody_o] of the generated file.
   No proofs in this file. *)
From Coq Require Import List String Bool Arith ZArith.
From Shoot Require Import Base.Str Base.GoVal Model.Transfer Model.Ctor.
Import ListNotations.
Local Open Scope string_scope.

Definition smap := list (ident * string).
Record nflags := { nf_opt : bool; nf_short : bool }.

Record nworld := mkN {
  n_fields : list Ctor.field;  n_has_new : bool;
  n_tparams : list string;  n_tpmap : list string;  n_flags : nflags;
  (* g.data *)
  d_tplist : string;  d_tpnames : string;  d_params : string;  d_body : string;
  d_typemap : smap;  d_all : list string;  d_newmap : smap;  d_deflist : list string;  d_defmap : smap;
  d_option : bool;  d_short : bool
}.

Definition set_tplist (x : string) (w : nworld) : nworld :=
  mkN (n_fields w) (n_has_new w) (n_tparams w) (n_tpmap w) (n_flags w) x (d_tpnames w) (d_params w) (d_body w)
      (d_typemap w) (d_all w) (d_newmap w) (d_deflist w) (d_defmap w) (d_option w) (d_short w).
Definition set_tpnames (x : string) (w : nworld) : nworld :=
  mkN (n_fields w) (n_has_new w) (n_tparams w) (n_tpmap w) (n_flags w) (d_tplist w) x (d_params w) (d_body w)
      (d_typemap w) (d_all w) (d_newmap w) (d_deflist w) (d_defmap w) (d_option w) (d_short w).
Definition set_params (x : string) (w : nworld) : nworld :=
  mkN (n_fields w) (n_has_new w) (n_tparams w) (n_tpmap w) (n_flags w) (d_tplist w) (d_tpnames w) x (d_body w)
      (d_typemap w) (d_all w) (d_newmap w) (d_deflist w) (d_defmap w) (d_option w) (d_short w).
Definition set_body (x : string) (w : nworld) : nworld :=
  mkN (n_fields w) (n_has_new w) (n_tparams w) (n_tpmap w) (n_flags w) (d_tplist w) (d_tpnames w) (d_params w) x
      (d_typemap w) (d_all w) (d_newmap w) (d_deflist w) (d_defmap w) (d_option w) (d_short w).
Definition set_typemap (x : smap) (w : nworld) : nworld :=
  mkN (n_fields w) (n_has_new w) (n_tparams w) (n_tpmap w) (n_flags w) (d_tplist w) (d_tpnames w) (d_params w) (d_body w)
      x (d_all w) (d_newmap w) (d_deflist w) (d_defmap w) (d_option w) (d_short w).
Definition set_all (x : list string) (w : nworld) : nworld :=
  mkN (n_fields w) (n_has_new w) (n_tparams w) (n_tpmap w) (n_flags w) (d_tplist w) (d_tpnames w) (d_params w) (d_body w)
      (d_typemap w) x (d_newmap w) (d_deflist w) (d_defmap w) (d_option w) (d_short w).
Definition set_newmap (x : smap) (w : nworld) : nworld :=
  mkN (n_fields w) (n_has_new w) (n_tparams w) (n_tpmap w) (n_flags w) (d_tplist w) (d_tpnames w) (d_params w) (d_body w)
      (d_typemap w) (d_all w) x (d_deflist w) (d_defmap w) (d_option w) (d_short w).
Definition set_deflist (x : list string) (w : nworld) : nworld :=
  mkN (n_fields w) (n_has_new w) (n_tparams w) (n_tpmap w) (n_flags w) (d_tplist w) (d_tpnames w) (d_params w) (d_body w)
      (d_typemap w) (d_all w) (d_newmap w) x (d_defmap w) (d_option w) (d_short w).
Definition set_defmap (x : smap) (w : nworld) : nworld :=
  mkN (n_fields w) (n_has_new w) (n_tparams w) (n_tpmap w) (n_flags w) (d_tplist w) (d_tpnames w) (d_params w) (d_body w)
      (d_typemap w) (d_all w) (d_newmap w) (d_deflist w) x (d_option w) (d_short w).
Definition set_option (x : bool) (w : nworld) : nworld :=
  mkN (n_fields w) (n_has_new w) (n_tparams w) (n_tpmap w) (n_flags w) (d_tplist w) (d_tpnames w) (d_params w) (d_body w)
      (d_typemap w) (d_all w) (d_newmap w) (d_deflist w) (d_defmap w) x (d_short w).
Definition set_short (x : bool) (w : nworld) : nworld :=
  mkN (n_fields w) (n_has_new w) (n_tparams w) (n_tpmap w) (n_flags w) (d_tplist w) (d_tpnames w) (d_params w) (d_body w)
      (d_typemap w) (d_all w) (d_newmap w) (d_deflist w) (d_defmap w) (d_option w) x.

(* g.typeParamsMap[i] *)
Definition tpmap_at (m : list string) (i : Z) : string :=
  if (i <? 0)%Z then "" else nth (Z.to_nat i) m "".
(* v, ok := m[k] *)
Definition smap_lookup (m : smap) (k : string) : string * bool :=
  match assoc k m with Some v => (v, true) | None => ("", false) end.
Definition smap_make : smap := [].
(* strings.Join(xs, sep) *)
Definition str_join (xs : list string) (sep : string) : string := String.concat sep xs.
(* bytes.Buffer *)
Definition buf_write (b : string) (s : string) : string := b ++ s.
Definition buf_string (b : string) : string := b.
