(* Translation tie for C12 (the run-time helpers of /repo/enumer.go).
   [ShootGen.EnumGen] is written on every run by harness/go/cmd/go2gallina from
   the CURRENT text of /repo/enumer.go; this file proves that the translated
   ParseEnum / TryParseEnum / IsEnum, run on the tables of a generated enum
   ([t_value_map], [t_values] of Model/Enum.v), are the model functions
   [parse_enum], [try_parse_enum], [is_enum] the C12 theorems are about.
   Model/Enum.v and its theorems belong to the enum check; this file only
   imports them. *)
From Coq Require Import List ZArith Bool String Lia.
From Shoot Require Import Model.Enum Bridge.EnumPrims Bridge.EnumFacts.
From ShootGen Require Import EnumGen.
Import ListNotations.
Local Open Scope Z_scope.

Definition notfound_format : string := "requested value '%s' was not found".

Section Bridge.
Variable ce : cenv_t.
Variable g : gen.

(* an error of the model as the translated code reports it *)
Definition src_err (e : option errk) : option string :=
  match e with None => None | Some _ => Some notfound_format end.

Theorem ParseEnum_is_model : forall s,
  ParseEnum (t_value_map ce g) s tt
  = (Returned (fst (parse_enum ce g s), src_err (snd (parse_enum ce g s))), tt).
Proof.
  intros s. unfold ParseEnum, parse_enum, map_lookup.
  destruct (assoc_s s (t_value_map ce g)); reflexivity.
Qed.

Theorem TryParseEnum_is_model : forall s tgt,
  TryParseEnum (t_value_map ce g) s tgt tt = (Returned (try_parse_enum ce g s tgt), tt).
Proof.
  intros s tgt. unfold TryParseEnum. rewrite ParseEnum_is_model.
  unfold try_parse_enum. destruct (parse_enum ce g s) as [v [e|]]; reflexivity.
Qed.

Lemma IsEnum_loop_bridge : forall value l,
  IsEnum_loop1 (g_kind g) value l tt
  = (Returned (existsb (fun d => d =? wrap (g_kind g) value) l), tt).
Proof.
  intros value l. induction l as [|d l IH]; cbn [IsEnum_loop1 existsb].
  - reflexivity.
  - unfold conv. destruct (d =? wrap (g_kind g) value); [reflexivity | exact IH].
Qed.

(* value has the integer type TV of kind ktv: it lies in TV's range *)
Theorem IsEnum_is_model : forall ktv value, in_range ktv value = true ->
  IsEnum (g_kind g) ktv (t_values ce g) value tt = (Returned (is_enum ce g value), tt).
Proof.
  intros ktv value Hr. unfold IsEnum, is_enum, conv.
  pose proof (representable_test (g_kind g) ktv value Hr) as Hrep.
  rewrite IsEnum_loop_bridge.
  destruct (wrap ktv (wrap (g_kind g) value) =? value);
    destruct (Bool.eqb (wrap (g_kind g) value <? 0) (value <? 0));
    cbn [negb orb andb] in *; rewrite <- Hrep; reflexivity.
Qed.

(* the translated helpers never panic and never outrun a loop bound *)
Theorem enum_helpers_always_return : forall s tgt ktv value, in_range ktv value = true ->
  (exists r, fst (ParseEnum (t_value_map ce g) s tt) = Returned r) /\
  (exists r, fst (TryParseEnum (t_value_map ce g) s tgt tt) = Returned r) /\
  (exists r, fst (IsEnum (g_kind g) ktv (t_values ce g) value tt) = Returned r).
Proof.
  intros s tgt ktv value Hr. rewrite ParseEnum_is_model, TryParseEnum_is_model, (IsEnum_is_model ktv value Hr).
  repeat split; eexists; reflexivity.
Qed.

(* C12 over the translated source: a hit returns the mapped value and no error, a miss the zero
   value and the not-found error; TryParseEnum stores exactly on a hit; IsEnum is membership of
   the converted value in Values() *)
Theorem C12_parse_enum_src : forall s,
  (forall v, assoc_s s (t_value_map ce g) = Some v ->
     ParseEnum (t_value_map ce g) s tt = (Returned (v, None), tt)) /\
  (assoc_s s (t_value_map ce g) = None ->
     ParseEnum (t_value_map ce g) s tt = (Returned (0, Some notfound_format), tt)).
Proof.
  intros s. rewrite ParseEnum_is_model. unfold parse_enum. split.
  - intros v H. rewrite H. reflexivity.
  - intros H. rewrite H. reflexivity.
Qed.

Theorem C12_try_parse_enum_src : forall s tgt,
  (forall v, assoc_s s (t_value_map ce g) = Some v ->
     TryParseEnum (t_value_map ce g) s tgt tt = (Returned (true, v), tt)) /\
  (assoc_s s (t_value_map ce g) = None ->
     TryParseEnum (t_value_map ce g) s tgt tt = (Returned (false, tgt), tt)).
Proof.
  intros s tgt. rewrite TryParseEnum_is_model. unfold try_parse_enum, parse_enum. split.
  - intros v H. rewrite H. reflexivity.
  - intros H. rewrite H. reflexivity.
Qed.

(* IsEnum: the value is representable in T and is one of Values() *)
Theorem C12_is_enum_src : forall ktv value, in_range ktv value = true ->
  (IsEnum (g_kind g) ktv (t_values ce g) value tt = (Returned true, tt)
   <-> wrap (g_kind g) value = value /\ In value (t_values ce g)).
Proof.
  intros ktv value Hr. rewrite (IsEnum_is_model ktv value Hr). unfold is_enum. split.
  - intros H. inversion H as [H1]. apply andb_true_iff in H1 as [Hw He].
    apply Z.eqb_eq in Hw. apply existsb_exists in He as (d & Hin & Hd).
    apply Z.eqb_eq in Hd. rewrite Hw in Hd. subst. auto.
  - intros [Hw Hin]. f_equal. f_equal. apply andb_true_iff. split; [apply Z.eqb_eq; assumption|].
    apply existsb_exists. exists value. split; [assumption | rewrite Hw; apply Z.eqb_refl].
Qed.

End Bridge.

Print Assumptions ParseEnum_is_model.
Print Assumptions TryParseEnum_is_model.
Print Assumptions IsEnum_is_model.
Print Assumptions C12_is_enum_src.
