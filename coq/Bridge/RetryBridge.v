(* Translation tie for C20.  [ShootGen.RetryGen] is NOT a committed file: it is
   written on every run by harness/go/cmd/go2gallina from the CURRENT text of
   /repo/middleware/retry.go (harness/translate_tie.py compiles it with
   -Q <scratch>/gen ShootGen and then this file).  The lemmas below say that the
   translated RetryMiddleware IS the hand-written model Model/Retry.v the C20
   theorems are about, for every n, delay, script and starting world; the
   corollaries restate the C20 theorems over the translated definition, so the
   kernel re-checks them against what the source says now.

   Proof style: induction on the fuel of the translated loop, [cbn], case
   analysis on the script outcome and on the boolean tests with [lia]; no
   matching on the shape of the generated term, so that renamed locals,
   inverted conditionals, hoisted conditions or an equivalent loop bound keep
   the proofs alive. *)
From Coq Require Import List ZArith Bool Lia.
From Shoot Require Import Model.Retry Proofs.RetryProofs Bridge.RetryPrims.
From ShootGen Require Import RetryGen.
Import ListNotations.
Local Open Scope Z_scope.

(* decide every boolean test on integers that occurs in the goal, with lia *)
Ltac zbool :=
  repeat match goal with
  | |- context [(?a <=? ?b)%Z] => destruct (Z.leb_spec a b); try lia
  | |- context [(?a <? ?b)%Z] => destruct (Z.ltb_spec a b); try lia
  | |- context [(?a >=? ?b)%Z] => rewrite (Z.geb_leb a b)
  | |- context [(?a >? ?b)%Z] => rewrite (Z.gtb_ltb a b)
  | |- context [(?a =? ?b)%Z] => destruct (Z.eqb_spec a b); try lia
  end.

Definition world_after (w : world) (ev : list event) : world :=
  {| w_script := w_script w; w_calls := (w_calls w + calls ev)%nat; w_events := w_events w ++ ev |}.

Lemma world_after_nil : forall w, world_after w [] = w.
Proof. intros [s c e]. unfold world_after; cbn. rewrite Nat.add_0_r, app_nil_r. reflexivity. Qed.

(* the translated loop, started at attempt a with exactly the fuel the bound
   leaves, does what Retry.loop does *)
(* two worlds are equal when their three components are *)
Lemma world_eq : forall s c e c' e', c = c' -> e = e' ->
  {| w_script := s; w_calls := c; w_events := e |} = {| w_script := s; w_calls := c'; w_events := e' |}.
Proof. intros; subst; reflexivity. Qed.

(* closes a goal "(outcome, world) = (outcome, world)" after everything was computed *)
Ltac same_world :=
  unfold world_after; cbn [w_script w_calls w_events calls filter app List.length];
  repeat rewrite <- app_assoc; cbn [app];
  first [ reflexivity
        | f_equal; apply world_eq; [ unfold calls; cbn; lia | reflexivity ] ].

(* the translated loop, started at attempt a with exactly the fuel the bound
   leaves, does what Retry.loop does *)
Lemma loop_bridge : forall n d fuel a rsp er w,
  w_calls w = a ->
  Z.of_nat a + Z.of_nat fuel = Z.max 0 (n + 1) \/ (fuel = 0%nat /\ n < Z.of_nat a) ->
  RetryMiddleware_loop1 n d fuel (Z.of_nat a) rsp er w
  = let '(ev, r) := loop (w_script w) fuel a (rsp, er) in (Returned r, world_after w ev).
Proof.
  intros n d fuel. induction fuel as [|fuel IH]; intros a rsp er w Hc Hf.
  - cbn. zbool; rewrite world_after_nil; reflexivity.
  - assert (Hle : Z.of_nat a <= n) by lia.
    assert (Hnext : forall w', w_calls w' = S a -> w_script w' = w_script w ->
              forall r e, RetryMiddleware_loop1 n d fuel (Z.of_nat a + 1) r e w'
              = let '(ev, res) := loop (w_script w) fuel (S a) (r, e) in (Returned res, world_after w' ev)).
    { intros w' Hc' Hs' r e. replace (Z.of_nat a + 1) with (Z.of_nat (S a)) by lia.
      rewrite IH; [rewrite Hs'; reflexivity | assumption |].
      destruct fuel; [right; split; [reflexivity | lia] | left; lia]. }
    cbn [RetryMiddleware_loop1 loop].
    unfold prim_round_trip, prim_sleep, prim_log; cbn [w_script w_calls w_events].
    rewrite Hc.
    destruct (w_script w a) as [r|e ro] eqn:Hs; cbn [acceptable as_result fst snd is_nil negb andb orb r_status];
      destruct a as [|a']; zbool; cbn [is_nil negb andb orb];
      try rewrite Hnext by reflexivity;
      repeat match goal with |- context [loop ?s ?f ?k ?l] => destruct (loop s f k l) end;
      destruct w as [ws wc we]; cbn in Hc; subst wc; same_world.
Qed.

(* THE BRIDGE: the function translated from the source equals the model *)
Theorem RetryMiddleware_is_model : forall n d script,
  RetryMiddleware n d (init_world script)
  = (Returned (snd (retry n script)),
     {| w_script := script; w_calls := calls (fst (retry n script)); w_events := fst (retry n script) |}).
Proof.
  intros n d script. unfold RetryMiddleware, retry.
  replace 0 with (Z.of_nat 0) at 2 by reflexivity.
  match goal with |- RetryMiddleware_loop1 _ _ ?f _ _ _ _ = _ => replace f with (Z.to_nat (n + 1)) by (f_equal; lia) end.
  rewrite loop_bridge; [| reflexivity | cbn; lia].
  cbn [init_world w_script]. destruct (loop script (Z.to_nat (n + 1)) 0 (None, None)) as [ev r]. reflexivity.
Qed.

(* ------------------------------------------------------------------ *)
(* the C20 theorems, over the definition translated from the source     *)

Definition src_events (n d : Z) (script : nat -> rt_out) : list event :=
  w_events (snd (RetryMiddleware n d (init_world script))).
Definition src_result (n d : Z) (script : nat -> rt_out) : outcome RetryMiddleware_ret :=
  fst (RetryMiddleware n d (init_world script)).

Lemma src_events_model : forall n d script, src_events n d script = fst (retry n script).
Proof. intros. unfold src_events. rewrite RetryMiddleware_is_model. reflexivity. Qed.
Lemma src_result_model : forall n d script, src_result n d script = Returned (snd (retry n script)).
Proof. intros. unfold src_result. rewrite RetryMiddleware_is_model. reflexivity. Qed.

Theorem C20_at_most_n_plus_1_calls_src : forall n d script,
  0 <= n -> (calls (src_events n d script) <= Z.to_nat (n + 1))%nat.
Proof. intros. rewrite src_events_model. apply retry_calls_bound; assumption. Qed.

Theorem C20_stops_at_first_acceptable_src : forall n d script j,
  0 <= n -> first_acceptable script 0 (Z.to_nat (n + 1)) j ->
  src_events n d script = trace_to j /\
  src_result n d script = Returned (fst (as_result (script j)), None).
Proof.
  intros n d script j Hn Hf. rewrite src_events_model, src_result_model, (retry_hit n script j Hn Hf). auto.
Qed.

Theorem C20_exhausted_returns_last_src : forall n d script,
  0 <= n -> none_acceptable script 0 (Z.to_nat (n + 1)) ->
  src_events n d script = trace_to (Z.to_nat n) /\
  src_result n d script = Returned (as_result (script (Z.to_nat n))).
Proof.
  intros n d script Hn Hf. rewrite src_events_model, src_result_model, (retry_miss n script Hn Hf). auto.
Qed.

Theorem C20_negative_n_src : forall n d script,
  n < 0 -> src_events n d script = [] /\ src_result n d script = Returned (None, None).
Proof.
  intros n d script Hn. rewrite src_events_model, src_result_model, (retry_negative n script Hn). auto.
Qed.

(* the translated function never panics and never outruns its fuel *)
Theorem RetryMiddleware_src_always_returns : forall n d script,
  exists r, src_result n d script = Returned r.
Proof. intros. rewrite src_result_model. eexists; reflexivity. Qed.

Print Assumptions RetryMiddleware_is_model.
Print Assumptions C20_stops_at_first_acceptable_src.
