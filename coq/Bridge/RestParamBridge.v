(* Translation tie for the parameter handlers of `shoot rest` (C06).
   [ShootGen.RestParamGen] is written on every run by harness/go/cmd/go2gallina from the
   CURRENT text of /repo/internal/restclient/paramhandler.go (setBodyParamName, handleMapType,
   handleIdent, and the field loop of handleStruct); this file proves the translated
   definitions equal to Model/Rest.v set_body, handle_map, handle_ident (handle_scalar),
   handle_field / handle_struct, owned by the rest checks: imported, not edited.

   The code keeps maps keyed by the method name and stores Go expressions as TEXT; the model
   keeps one record [mdata] per method and expressions as [gexpr].  The bridge is a
   SIMULATION: [R m w d] says that the entries of method m in the world's maps are the
   components of d (query parameters through [expr_key]); every handler run on related
   states ends in related states, or stops in logx.Fatalf exactly where the model is CFatal.
   Not translated: handleExpr (type switch over go/ast with recursion), handleSelectorExpr
   (interleaved with go/types queries: Named / Obj / Pkg / Underlying), the prelude of
   handleStruct (go/types, package directory, extractStructFields). *)
From Coq Require Import List ZArith Bool String Arith Lia.
From Shoot Require Import Base.Str Model.Transfer Model.Directive Model.Rest Proofs.RestBase Bridge.GoPrims Bridge.RestParamPrims.
From ShootGen Require Import RestParamGen.
Import ListNotations.
Local Open Scope string_scope.
Local Open Scope list_scope.

Lemma sapp_assoc (a b c : string) : ((a ++ b) ++ c = a ++ (b ++ c))%string.
Proof. induction a as [|x a IH]; simpl; [reflexivity|]. rewrite IH. reflexivity. Qed.

Lemma ms_get_set_same {A} (d : A) m k v : ms_get d (ms_set m k v) k = v.
Proof.
  induction m as [|[k' v'] m IH]; simpl.
  - rewrite String.eqb_refl. reflexivity.
  - destruct (String.eqb k' k) eqn:E; simpl; [rewrite String.eqb_refl; reflexivity|]. rewrite E. exact IH.
Qed.

(* the entries of method [m] in the world = the model's record of that method *)
Definition R (m : string) (w : pworld) (d : mdata) : Prop :=
  ms_get [] (p_alias w) m = d_alias d
  /\ sl_get (p_pathparams w) m = d_path_params d
  /\ sl_get (p_query w) m = map expr_key (d_query_params d)
  /\ ms_get [] (p_isptr w) m = d_is_ptr d
  /\ map_get (p_body w) m = d_body d
  /\ map_get (p_dict w) m = d_dict d
  /\ map_get (p_ctx w) m = d_ctx d.

(* a run that simulates a model step: related result, or Fatalf where the model is CFatal *)
Definition sim {A} (m : string) (run : outcome A * pworld) (r : cres mdata) : Prop :=
  match r with
  | COk d' => exists a w', run = (Returned a, w') /\ R m w' d'
  | CFatal _ => exists f w', run = (Panicked (PErrorf f 0), w')
  | CSkip => False
  end.

(* ---- setBodyParamName *)
Theorem setBodyParamName_is_model : forall m name (w : pworld) d,
  R m w d -> sim m (setBodyParamName m name w) (set_body name d).
Proof.
  intros m name w d (A & P & Q & I & B & D & C).
  unfold setBodyParamName, set_body, body_lookup, lookup. rewrite B.
  destruct (d_body d) as [b|]; cbn.
  - eauto.
  - eexists tt, _. split; [reflexivity|]. unfold R, body_set. cbn.
    rewrite map_get_set_same. auto 8.
Qed.

(* ---- handleMapType *)
Theorem handleMapType_is_model : forall m name (w : pworld) d,
  R m w d -> sim m (handleMapType name m (d_verb d) w) (handle_map name d).
Proof.
  intros m name w d HR. pose proof HR as (A & P & Q & I & B & D & C).
  unfold handleMapType, handle_map, get_or_delete, dict_lookup, lookup, ident_name. rewrite D.
  destruct (String.eqb (d_verb d) "GET"), (String.eqb (d_verb d) "DELETE"); cbn [negb andb orb];
    destruct (d_dict d) as [x|]; cbn [sim];
    first [ solve [eauto]
          | solve [eexists tt, w; split; [reflexivity|exact HR]]
          | solve [eexists tt, _; split; [reflexivity|]; unfold R, dict_set; cbn; rewrite ?map_get_set_same; auto 8] ].
Qed.

(* ---- the field loop of handleStruct = fold of handle_field *)
Lemma handleStructLoop_step : forall m name f (w : pworld) d,
  R m w d ->
  let value := expr_key (if fi_exported f then EField name (fi_name f) else ECall name (fi_name f)) in
  forall w',
  w' = (let w1 := if fi_ptr f then isptr_set2 m value true w else w in
        let w2 := query_set m (sl_get (p_query w1) m ++ [value]) w1 in
        alias_set2 m value (if negb (String.eqb (fi_alias f) "") then fi_alias f
                            else if fi_exported f then to_camel_case (fi_name f) else fi_name f) w2) ->
  R m w' (handle_field name d f).
Proof.
  intros m name f w d (A & P & Q & I & B & D & C) value w' ->.
  unfold handle_field. fold value.
  destruct (fi_ptr f), (String.eqb (fi_alias f) ""); cbn [negb];
    unfold R, alias_set2, query_set, isptr_set2, sl_get in *; cbn;
    rewrite ?ms_get_set_same, ?A, ?P, ?Q, ?I, ?map_app; cbn [map];
    repeat split; auto.
Qed.

Lemma loop_is_model : forall tn m name fields0 fields (w : pworld) d,
  R m w d ->
  exists w', handleStructLoop_loop1 tn name m fields0 fields w = (Returned tt, w')
             /\ R m w' (fold_left (handle_field name) fields d).
Proof.
  intros tn m name fields0. induction fields as [|f fields IH]; intros w d HR.
  - exists w. split; [reflexivity|exact HR].
  - cbn [handleStructLoop_loop1 fold_left].
    pose proof (handleStructLoop_step m name f w d HR) as S. cbv zeta in S.
    unfold ident_name.
    destruct (fi_exported f) eqn:Ex, (fi_ptr f) eqn:Pt, (String.eqb (fi_alias f) "") eqn:Al;
      cbv beta iota zeta delta [negb];
      match goal with |- exists w', handleStructLoop_loop1 _ _ _ _ _ ?W = _ /\ _ =>
        apply (IH W); apply S; cbn [expr_key negb]; rewrite ?sapp_assoc; reflexivity end.
Qed.

Theorem handleStructLoop_is_model : forall tn m name fields (w : pworld) d,
  R m w d ->
  exists w', handleStructLoop tn name m fields w = (Returned tt, w')
             /\ R m w' (fold_left (handle_field name) fields d).
Proof. intros. unfold handleStructLoop. apply loop_is_model. assumption. Qed.

(* g.handleStruct for a type of the package under generation: the fields that extractStructFields
   yields (Model/Rest.v struct_fields), then the translated loop *)
Definition handleStruct_here (tn name m : string) (w : pworld) : pworld :=
  snd (handleStructLoop tn name m (pkg_struct_fields tn w) w).

Lemma loop_keeps_env : forall tn name m l0 l (w w' : pworld) o,
  handleStructLoop_loop1 tn name m l0 l w = (o, w') -> p_env w' = p_env w.
Proof.
  intros tn name m l0. induction l as [|f l IH]; intros w w' o E.
  - cbn in E. inversion E. reflexivity.
  - cbn [handleStructLoop_loop1] in E.
    destruct (fi_exported f), (fi_ptr f), (negb (String.eqb (fi_alias f) "")); cbv beta iota zeta in E;
      apply IH in E; rewrite E; reflexivity.
Qed.

Lemma handleStruct_here_is_model : forall tn m name (w : pworld) d,
  R m w d -> R m (handleStruct_here tn name m w) (handle_struct (p_env w) "" tn name d).
Proof.
  intros tn m name w d HR. unfold handleStruct_here, handle_struct, pkg_struct_fields.
  destruct (handleStructLoop_is_model tn m name (struct_fields (p_env w) "" tn) w d HR) as (w' & E & HR').
  rewrite E. exact HR'.
Qed.

(* ---- handleIdent *)
Theorem handleIdent_is_model : forall m tn name (w : pworld) d,
  R m w d -> sim m (handleIdent handleStruct_here tn name m w) (handle_ident (p_env w) tn name d).
Proof.
  intros m tn name w d HR. unfold handleIdent, handle_ident, is_pkg_struct, ident_name.
  destruct (is_struct_type (p_env w) tn).
  - pose proof (setBodyParamName_is_model m name w d HR) as SB.
    destruct (set_body name d) as [d1| |why]; cbn [cbind sim] in *.
    + destruct SB as ([] & w1 & E1 & R1). rewrite E1.
      assert (Env : p_env w1 = p_env w).
      { unfold setBodyParamName in E1. destruct (body_lookup m w) as [x ok]. destruct ok; inversion E1. reflexivity. }
      pose proof (handleStruct_here_is_model tn m name w1 d1 R1) as R2. rewrite Env in R2.
      eexists tt, _. split; [reflexivity|exact R2].
    + destruct SB.
    + destruct SB as (f & w1 & E1). rewrite E1. eauto.
  - destruct HR as (A & P & Q & I & B & D & C). cbn [sim]. unfold handle_scalar, contains. rewrite P.
    destruct (mem_str name (d_path_params d)).
    + eexists tt, w. split; [reflexivity|]. unfold R. auto 8.
    + eexists tt, _. split; [reflexivity|]. unfold R, query_set, sl_get in *. cbn.
      rewrite ms_get_set_same, Q, map_app. cbn. auto 8.
Qed.

(* the two cases of Model/Rest.v handle_expr whose handlers are translated, through any number of stars
   (handleExpr itself - a type switch over go/ast with a recursive call - is not translated) *)
Fixpoint stars (n : nat) (t : texpr) : texpr := match n with O => t | S k => TStar (stars k t) end.
Lemma handle_expr_stars E n t name d : handle_expr E (stars n t) name d = handle_expr E t name d.
Proof. induction n as [|n IH]; [reflexivity|exact IH]. Qed.

Theorem C06_ident_param_src : forall m n tn name (w : pworld) d,
  R m w d -> sim m (handleIdent handleStruct_here tn name m w) (handle_expr (p_env w) (stars n (TIdent tn)) name d).
Proof. intros. rewrite handle_expr_stars. apply handleIdent_is_model. assumption. Qed.

Theorem C06_map_param_src : forall m n E name (w : pworld) d,
  R m w d -> sim m (handleMapType name m (d_verb d) w) (handle_expr E (stars n TMapT) name d).
Proof. intros. rewrite handle_expr_stars. apply handleMapType_is_model. assumption. Qed.

Print Assumptions setBodyParamName_is_model.
Print Assumptions handleMapType_is_model.
Print Assumptions handleStructLoop_is_model.
Print Assumptions handleIdent_is_model.
Print Assumptions C06_ident_param_src.
Print Assumptions C06_map_param_src.
