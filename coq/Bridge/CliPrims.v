(* Primitive table of the Go->Gallina translator, area "filename" (C16 and every
   property that names output files): internal/shoot/common.go FixPath and
   internal/shoot/generatorbase.go GeneratorBase.fileName.  Trusted base.

     *GeneratorBase, *CommonFlags   records (never nil) with just the fields fileName reads
     g.fileNameMap[k]               [map_get]: the first entry for k, "" on a miss (Cli.assoc)
     strings.TrimSuffix             GoPrims.go_trim_suffix
     strings.HasPrefix(s, p)        Cli.has_prefix p s
     filepath.IsAbs(s)              s starts with "/" (the checks run on Unix)
     ast.IsExported(s)              Cli.is_exported s (first BYTE upper-case: ASCII identifiers)
     strings.ToLower                Cli.lower (ASCII)
     fmt.Sprintf("%s.%s.go", a, b)  a ++ "." ++ b ++ ".go" (expanded by the translator; %s of strings only)
   No proofs in this file. *)
From Coq Require Import List String Bool.
From Shoot Require Import Base.Str Model.Cli.
Import ListNotations.
Local Open Scope string_scope.

Record gflags := { f_file : string }.                       (* CommonFlags.FileName *)
Record gbase := {
  g_sub : string;                                           (* subCmd *)
  g_flags : gflags;                                         (* commonFlags *)
  g_aio : string;                                           (* allInOneFile *)
  g_fmap : list (string * string)                           (* fileNameMap *)
}.

Definition map_get (m : list (string * string)) (k : string) : string := Cli.assoc k m.

Definition is_abs (s : string) : bool := Cli.has_prefix "/" s.
