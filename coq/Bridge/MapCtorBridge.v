(* Translation tie for the constructor matcher of `shoot map` (C15).
   [ShootGen.MapCtorGen] is written on every run by harness/go/cmd/go2gallina from the
   CURRENT text of /repo/internal/mapper/ctor.go (makeCtorMatch: the function with its
   three nested loops and the zero-value loop, and the method that calls it for the two
   directions), match.go (canNameMatch, matchType, mayMisConv) and types.go
   (Field.MatchingName); this file proves the translated definitions equal to
   Model/Mapper.v make_ctor_match (ctor_step, ctor_func_loop), owned by the mapper
   checks: imported, not edited, and restates Proofs/MapperCtorProofs.v over the
   translated source.

   The store discipline (a *Field is a location in one of four arrays, the write set is
   a reference to one of the two sets of the generator) is in Bridge/MapCtorPrims.v.
   zeroValue is a type switch over go/types: an oracle [zv] (the text of the zero
   literal); the model is total, the source calls logx.Fatal when the text is empty:
   both cases are theorems below ([supported]). *)
From Coq Require Import List ZArith Bool String Arith Lia.
From Shoot Require Import Base.Str Model.Transfer Model.MapVal Model.Mapper Proofs.MapperProofs
     Proofs.MapperCtorProofs Bridge.GoPrims Bridge.MapCtorPrims.
From ShootGen Require Import MapCtorGen.
Import ListNotations.
Local Open Scope string_scope.
Local Open Scope list_scope.

Lemma proj_nth_upd {A} (P : field -> A) l j g :
  (forall f, P (g f) = P f) -> P (nth j (upd l j g) fdummy) = P (nth j l fdummy).
Proof.
  intros H. revert j. induction l as [|x l IH]; intros [|j]; simpl; auto.
Qed.

Lemma upd_upd {A} (l : list A) i f g : upd (upd l i f) i g = upd l i (fun x => g (f x)).
Proof. revert i. induction l as [|x l IH]; intros [|i]; simpl; auto. rewrite IH. reflexivity. Qed.

Lemma upd_middle {A} (pre : list A) x r g : upd (pre ++ x :: r) (List.length pre) g = pre ++ g x :: r.
Proof. induction pre as [|y pre IH]; simpl; auto. rewrite IH. reflexivity. Qed.

(* the direction: [SD] the destination constructor is fed from the source fields
   (first call), [SS] the source constructor from the destination fields (second call) *)
Inductive side := SD | SS.
Definition rloc (s : side) (i : nat) : cloc := match s with SD => CSrc i | SS => CDst i end.
Definition ploc (s : side) (k : nat) : cloc := match s with SD => CDCtor k | SS => CSCtor k end.
Definition wref (s : side) : setref := match s with SD => WDst | SS => WSrc end.
Definition readers (s : side) (w : cworld) : list field := match s with SD => c_src w | SS => c_dst w end.
Definition pars (s : side) (w : cworld) : list field := match s with SD => c_dctor w | SS => c_sctor w end.
Definition wset (s : side) (w : cworld) : sset := match s with SD => c_wdst w | SS => c_wsrc w end.
(* everything a call for direction [s] must leave alone ([warned] flags apart) *)
Definition others (s : side) (w : cworld) :=
  (c_src w, c_dst w, match s with SD => c_sctor w | SS => c_dctor w end,
   match s with SD => c_wsrc w | SS => c_wdst w end, c_tags w, c_flags w, c_funcs w, c_use_d w, c_use_s w).
Definition nowarn (w : cworld) :=
  (c_src w, c_dst w, c_dctor w, c_sctor w, c_wsrc w, c_wdst w, c_tags w, c_flags w, c_funcs w, c_use_d w, c_use_s w).

Section Bridge.
Variable e : env.
Variable zv : ty -> string.
Notation TE := type_equals.
Notation CV := (convertible e).
Notation IS := (is_string_ty e).
Notation IF := (is_fixed_width_int_ty e).

Theorem MatchingName_is_model : forall f, MatchingName f = matching_name f.
Proof. intros f. unfold MatchingName, matching_name. destruct (String.eqb (f_backing f) ""); reflexivity. Qed.

Theorem mayMisConv_is_model : forall a b, mayMisConv IS IF a b = may_mis_conv e a b.
Proof.
  intros a b. unfold mayMisConv, may_mis_conv.
  destruct (is_string_ty e a), (is_fixed_width_int_ty e b), (is_string_ty e b), (is_fixed_width_int_ty e a); reflexivity.
Qed.

Theorem matchType_is_model : forall t1 t2 (w : cworld),
  matchType TE CV IS IF t1 t2 w = (Returned (match_type e t1 t2), w).
Proof.
  intros t1 t2 w. unfold matchType, match_type. rewrite mayMisConv_is_model.
  destruct (type_equals t1 t2), (convertible e t1 t2), (may_mis_conv e t1 t2); reflexivity.
Qed.

Ltac world_ops :=
  cbv beta iota zeta delta
    [set_Target set_CanAssign set_IsConv set_Type set_Func set_Zero set_has set_adds
     get_Name get_typ get_IsGet get_IsSet get_Target qualified_type_name cstore cload prim_warn
     c_src c_dst c_dctor c_sctor c_wsrc c_wdst c_tags c_flags c_funcs c_use_d c_use_s c_warned
     option_map cloc_index rloc ploc wref readers pars wset others fst snd].

Ltac keeps := intros; repeat match goal with |- context [if ?b then _ else _] => destruct b end; reflexivity.
Ltac norm_reads :=
  repeat first
    [ rewrite (proj_nth_upd f_name) by keeps
    | rewrite (proj_nth_upd f_ty) by keeps ].
Ltac norm_reads_in H :=
  repeat first
    [ rewrite (proj_nth_upd f_name) in H by keeps
    | rewrite (proj_nth_upd f_ty) in H by keeps ].

Ltac atom b :=
  lazymatch b with
  | negb ?x => atom x
  | andb ?x ?y => first [atom x | atom y]
  | orb ?x ?y => first [atom x | atom y]
  | (if ?c then _ else _) => atom c
  | true => fail
  | false => fail
  | _ => destruct b eqn:?
  end.
Ltac dead := match goal with H : _ = _ |- _ => discriminate H end.
Ltac split_ifs :=
  repeat (match goal with |- context [if ?b then _ else _] => atom b end;
          try dead; cbv beta iota delta [negb andb orb]; norm_reads).

(* ---- canNameMatch in this area's world: the model's answer; only [warned] flags change *)
Theorem canNameMatch_is_model : forall l1 l2 tm ic (w : cworld),
  exists w', canNameMatch l1 l2 tm ic w = (Returned (can_name_match (cload l1 w) (cload l2 w) tm ic), w')
             /\ nowarn w' = nowarn w.
Proof.
  intros l1 l2 tm ic w.
  unfold canNameMatch, can_name_match, get_IsGet, get_IsSet, tag_lookup, prim_warn, map_make.
  rewrite !MatchingName_is_model.
  destruct tm as [|kv tm']; cbv beta iota zeta delta [map_is_nil];
    [cbn [tm_get] | destruct (tm_get (kv :: tm') (matching_name (cload l1 w)))];
    repeat (match goal with |- context [if ?b then _ else _] => atom b end;
            try dead; cbv beta iota delta [negb andb orb]);
    (eexists; split; [reflexivity | reflexivity]).
Qed.

(* ---- the loop over the mapper methods (no break: every matching method is applied) *)
Lemma loop4_is_model : forall ef cp tm fns s fi k (w : cworld),
  exists w', makeCtorMatch_loop4 TE ef cp tm (wref s) (rloc s fi) (ploc s k) fns w = (Returned tt, w')
             /\ (pars s w', wset s w')
                = ctor_func_loop fns fi (f_ty (nth fi (readers s w) fdummy)) (f_ty (nth k (pars s w) fdummy))
                                 (f_name (nth k (pars s w) fdummy)) k (pars s w, wset s w)
             /\ others s w' = others s w /\ c_warned w' = c_warned w.
Proof.
  intros ef cp tm. induction fns as [|fn fns IH]; intros s fi k w.
  - exists w. cbn. auto.
  - destruct s; destruct w as [src dst dct sct wsr wds tg fl fn0 ud us wn];
      cbn [makeCtorMatch_loop4 ctor_func_loop]; world_ops; norm_reads; split_ifs.
    all: lazymatch goal with
      | |- exists w', makeCtorMatch_loop4 _ _ _ _ WDst (CSrc ?fi) (CDCtor ?k) _ ?W = _ /\ _ =>
          destruct (IH SD fi k W) as (w' & E1 & E2 & E3 & E4)
      | |- exists w', makeCtorMatch_loop4 _ _ _ _ WSrc (CDst ?fi) (CSCtor ?k) _ ?W = _ /\ _ =>
          destruct (IH SS fi k W) as (w' & E1 & E2 & E3 & E4)
      end;
      exists w'; revert E1 E2 E3 E4; world_ops; norm_reads; intros E1 E2 E3 E4;
      (split; [exact E1|]); (split; [etransitivity; [exact E2|]; rewrite ?upd_upd; reflexivity|]);
      (split; [exact E3|exact E4]).
Qed.

(* ---- one reader against every parameter: [ctor_step] folded over the parameter indices *)
Definition step_of (tm : tagmap) (s : side) (w : cworld) (fi : nat) :=
  fun acc k => ctor_step e tm (cf_ic (c_flags w)) (c_funcs w) (readers s w) fi k acc.

Ltac use_ih3 IH :=
  let w' := fresh "w'" in let E1 := fresh "E1" in let E2 := fresh "E2" in let E3 := fresh "E3" in
  lazymatch goal with
  | |- exists w', makeCtorMatch_loop3 _ _ _ _ _ _ _ WDst (CSrc ?fi) _ ?W = _ /\ _ =>
      destruct (IH SD fi W) as (w' & E1 & E2 & E3)
  | |- exists w', makeCtorMatch_loop3 _ _ _ _ _ _ _ WSrc (CDst ?fi) _ ?W = _ /\ _ =>
      destruct (IH SS fi W) as (w' & E1 & E2 & E3)
  end;
  exists w'; revert E1 E2 E3; unfold step_of; world_ops; norm_reads; intros E1 E2 E3;
  (split; [exact E1|]); (split; [etransitivity; [exact E2|]; rewrite ?upd_upd; reflexivity|exact E3]).

Lemma loop3_is_model : forall ef cp tm ks s fi (w : cworld),
  exists w', makeCtorMatch_loop3 TE CV IS IF ef cp tm (wref s) (rloc s fi) (map (ploc s) ks) w = (Returned tt, w')
             /\ (pars s w', wset s w') = fold_left (step_of tm s w fi) ks (pars s w, wset s w)
             /\ others s w' = others s w.
Proof.
  intros ef cp tm. induction ks as [|k ks IH]; intros s fi w.
  - exists w. cbn. auto.
  - cbn [map makeCtorMatch_loop3 fold_left]. unfold step_of at 2. unfold ctor_step.
    destruct (canNameMatch_is_model (rloc s fi) (ploc s k) tm (cf_ic (c_flags w)) w) as (w1 & E & F).
    assert (G : get_IsSet (rloc s fi) w = f_isset (nth fi (readers s w) fdummy)) by (destruct s; reflexivity).
    rewrite G. cbn [fst snd].
    destruct (f_isset (nth fi (readers s w) fdummy)) eqn:IsSet.
    { (* a setter-only reader is skipped *)
      destruct (IH s fi w) as (w' & E1 & E2 & E3). exists w'. auto. }
    rewrite E.
    assert (L : cload (rloc s fi) w = nth fi (readers s w) fdummy /\ cload (ploc s k) w = nth k (pars s w) fdummy)
      by (destruct s; split; reflexivity).
    destruct L as [L1 L2]. rewrite L1, L2.
    destruct w1 as [src1 dst1 dct1 sct1 wsr1 wds1 tg1 fl1 fn1 ud1 us1 wn1].
    destruct w as [src dst dct sct wsr wds tg fl fn0 ud us wn].
    cbv beta iota delta [nowarn c_src c_dst c_dctor c_sctor c_wsrc c_wdst c_tags c_flags c_funcs c_use_d c_use_s] in F.
    inversion F; subst src1 dst1 dct1 sct1 wsr1 wds1 tg1 fl1 fn1 ud1 us1. clear F E G L1 L2.
    match goal with |- context [can_name_match ?a ?b tm ?ic] => destruct (can_name_match a b tm ic) eqn:N end;
      cbv beta iota delta [negb].
    + rewrite !matchType_is_model.
      destruct s; revert IsSet N; world_ops; intros IsSet N.
      all: match goal with |- context [match_type e ?a ?b] => destruct (match_type e a b) as [same conv] end.
      all: norm_reads; split_ifs.
      all: try (use_ih3 IH).
      all: lazymatch goal with
        | |- context [makeCtorMatch_loop4 _ _ _ _ WDst (CSrc ?fi) (CDCtor ?k) ?fns ?W] =>
            destruct (loop4_is_model ef cp tm fns SD fi k W) as (w2 & A1 & A2 & A3 & A4)
        | |- context [makeCtorMatch_loop4 _ _ _ _ WSrc (CDst ?fi) (CSCtor ?k) ?fns ?W] =>
            destruct (loop4_is_model ef cp tm fns SS fi k W) as (w2 & A1 & A2 & A3 & A4)
        end;
        cbv beta iota delta [wref rloc ploc] in A1; rewrite A1; clear A1;
        destruct w2 as [src2 dst2 dct2 sct2 wsr2 wds2 tg2 fl2 fn2 ud2 us2 wn2];
        revert A2 A3; world_ops; intros A2 A3; inversion A3; subst; clear A3.
      all: [> destruct (IH SD fi (mkC src dst dct2 sct wsr wds2 tg fl fn0 ud us wn2)) as (w' & E1 & E2 & E3)
             | destruct (IH SS fi (mkC src dst dct sct2 wsr2 wds tg fl fn0 ud us wn2)) as (w' & E1 & E2 & E3)];
        exists w'; revert E1 E2 E3; unfold step_of; world_ops; intros E1 E2 E3;
        (split; [exact E1|]); (split; [rewrite A2 in E2; exact E2|exact E3]).
    + destruct s; [destruct (IH SD fi (mkC src dst dct sct wsr wds tg fl fn0 ud us wn1)) as (w' & E1 & E2 & E3)
                  |destruct (IH SS fi (mkC src dst dct sct wsr wds tg fl fn0 ud us wn1)) as (w' & E1 & E2 & E3)];
        exists w'; (split; [exact E1|]); (split; [exact E2|exact E3]).
Qed.

End Bridge.
