(* Translation tie for the constructor matcher of `shoot map` (C15).
   [ShootGen.MapCtorGen] is written on every run by harness/go/cmd/go2gallina from the
   CURRENT text of /repo/internal/mapper/ctor.go (makeCtorMatch: the function with its
   three nested loops and the zero-value loop, and the method that calls it for the two
   directions), match.go (canNameMatch, matchType, mayMisConv) and types.go
   (Field.MatchingName); this file proves the translated definitions equal to
   Model/Mapper.v make_ctor_match (ctor_step, ctor_func_loop), owned by the mapper
   checks: imported, not edited, and restates Proofs/MapperCtorProofs.v over the
   translated source.

   The store discipline (a *Field is a location in one of four arrays, the write set is
   a reference to one of the two sets of the generator) is in Bridge/MapCtorPrims.v.
   zeroValue is a type switch over go/types: an oracle [zv] (the text of the zero
   literal); the model is total, the source calls logx.Fatal when the text is empty:
   both cases are theorems below ([supported]). *)
From Coq Require Import List ZArith Bool String Arith Lia.
From Shoot Require Import Base.Str Model.Transfer Model.MapVal Model.Mapper Proofs.MapperProofs
     Proofs.MapperFlattenProofs Proofs.MapperCtorProofs Bridge.GoPrims Bridge.MapCtorPrims.
From ShootGen Require Import MapCtorGen.
Import ListNotations.
Local Open Scope string_scope.
Local Open Scope list_scope.

Lemma proj_nth_upd {A} (P : field -> A) l j g :
  (forall f, P (g f) = P f) -> P (nth j (upd l j g) fdummy) = P (nth j l fdummy).
Proof.
  intros H. revert j. induction l as [|x l IH]; intros [|j]; simpl; auto.
Qed.

Lemma upd_upd {A} (l : list A) i f g : upd (upd l i f) i g = upd l i (fun x => g (f x)).
Proof. revert i. induction l as [|x l IH]; intros [|i]; simpl; auto. rewrite IH. reflexivity. Qed.

Lemma upd_middle {A} (pre : list A) x r g : upd (pre ++ x :: r) (List.length pre) g = pre ++ g x :: r.
Proof. induction pre as [|y pre IH]; simpl; auto. rewrite IH. reflexivity. Qed.

Lemma fold_left_ext_pair {A B} (f g : A -> B -> A) l a : (forall x y, f x y = g x y) -> fold_left f l a = fold_left g l a.
Proof. intros H. revert a. induction l as [|x l IH]; intros a; simpl; auto. rewrite H. apply IH. Qed.

(* the direction: [SD] the destination constructor is fed from the source fields
   (first call), [SS] the source constructor from the destination fields (second call) *)
Inductive side := SD | SS.
Definition rloc (s : side) (i : nat) : cloc := match s with SD => CSrc i | SS => CDst i end.
Definition ploc (s : side) (k : nat) : cloc := match s with SD => CDCtor k | SS => CSCtor k end.
Definition wref (s : side) : setref := match s with SD => WDst | SS => WSrc end.
Definition readers (s : side) (w : cworld) : list field := match s with SD => c_src w | SS => c_dst w end.
Definition pars (s : side) (w : cworld) : list field := match s with SD => c_dctor w | SS => c_sctor w end.
Definition wset (s : side) (w : cworld) : sset := match s with SD => c_wdst w | SS => c_wsrc w end.
(* everything a call for direction [s] must leave alone ([warned] flags apart) *)
Definition others (s : side) (w : cworld) :=
  (c_src w, c_dst w, match s with SD => c_sctor w | SS => c_dctor w end,
   match s with SD => c_wsrc w | SS => c_wdst w end, c_tags w, c_flags w, c_funcs w, c_use_d w, c_use_s w).
Definition nowarn (w : cworld) :=
  (c_src w, c_dst w, c_dctor w, c_sctor w, c_wsrc w, c_wdst w, c_tags w, c_flags w, c_funcs w, c_use_d w, c_use_s w).

Section Bridge.
Variable e : env.
Variable zv : ty -> string.
Notation TE := type_equals.
Notation CV := (convertible e).
Notation IS := (is_string_ty e).
Notation IF := (is_fixed_width_int_ty e).

Theorem MatchingName_is_model : forall f, MatchingName f = matching_name f.
Proof. intros f. unfold MatchingName, matching_name. destruct (String.eqb (f_backing f) ""); reflexivity. Qed.

Theorem mayMisConv_is_model : forall a b, mayMisConv IS IF a b = may_mis_conv e a b.
Proof.
  intros a b. unfold mayMisConv, may_mis_conv.
  destruct (is_string_ty e a), (is_fixed_width_int_ty e b), (is_string_ty e b), (is_fixed_width_int_ty e a); reflexivity.
Qed.

Theorem matchType_is_model : forall t1 t2 (w : cworld),
  matchType TE CV IS IF t1 t2 w = (Returned (match_type e t1 t2), w).
Proof.
  intros t1 t2 w. unfold matchType, match_type. rewrite mayMisConv_is_model.
  destruct (type_equals t1 t2), (convertible e t1 t2), (may_mis_conv e t1 t2); reflexivity.
Qed.

Ltac world_ops :=
  cbv beta iota zeta delta
    [set_Target set_CanAssign set_IsConv set_Type set_Func set_Zero set_has set_adds
     get_Name get_typ get_IsGet get_IsSet get_Target qualified_type_name cstore cload prim_warn
     c_src c_dst c_dctor c_sctor c_wsrc c_wdst c_tags c_flags c_funcs c_use_d c_use_s c_warned
     option_map cloc_index rloc ploc wref readers pars wset others fst snd].

Ltac keeps := intros; repeat match goal with |- context [if ?b then _ else _] => destruct b end; reflexivity.
Ltac norm_reads :=
  repeat first
    [ rewrite (proj_nth_upd f_name) by keeps
    | rewrite (proj_nth_upd f_ty) by keeps ].
Ltac norm_reads_in H :=
  repeat first
    [ rewrite (proj_nth_upd f_name) in H by keeps
    | rewrite (proj_nth_upd f_ty) in H by keeps ].

Ltac atom b :=
  lazymatch b with
  | negb ?x => atom x
  | andb ?x ?y => first [atom x | atom y]
  | orb ?x ?y => first [atom x | atom y]
  | (if ?c then _ else _) => atom c
  | true => fail
  | false => fail
  | _ => destruct b eqn:?
  end.
Ltac dead := match goal with H : _ = _ |- _ => discriminate H end.
Ltac split_ifs :=
  repeat (match goal with |- context [if ?b then _ else _] => atom b end;
          try dead; cbv beta iota delta [negb andb orb]; norm_reads).

(* ---- canNameMatch in this area's world: the model's answer; only [warned] flags change *)
Theorem canNameMatch_is_model : forall l1 l2 tm ic (w : cworld),
  exists w', canNameMatch l1 l2 tm ic w = (Returned (can_name_match (cload l1 w) (cload l2 w) tm ic), w')
             /\ nowarn w' = nowarn w.
Proof.
  intros l1 l2 tm ic w.
  unfold canNameMatch, can_name_match, get_IsGet, get_IsSet, tag_lookup, prim_warn, map_make.
  rewrite !MatchingName_is_model.
  destruct tm as [|kv tm']; cbv beta iota zeta delta [map_is_nil];
    [cbn [tm_get] | destruct (tm_get (kv :: tm') (matching_name (cload l1 w)))];
    repeat (match goal with |- context [if ?b then _ else _] => atom b end;
            try dead; cbv beta iota delta [negb andb orb]);
    (eexists; split; [reflexivity | reflexivity]).
Qed.

(* ---- the loop over the mapper methods (no break: every matching method is applied) *)
Lemma loop4_is_model : forall ef cp tm fns s fi k (w : cworld),
  exists w', makeCtorMatch_loop4 TE ef cp tm (wref s) (rloc s fi) (ploc s k) fns w = (Returned tt, w')
             /\ (pars s w', wset s w')
                = ctor_func_loop fns fi (f_ty (nth fi (readers s w) fdummy)) (f_ty (nth k (pars s w) fdummy))
                                 (f_name (nth k (pars s w) fdummy)) k (pars s w, wset s w)
             /\ others s w' = others s w /\ c_warned w' = c_warned w.
Proof.
  intros ef cp tm. induction fns as [|fn fns IH]; intros s fi k w.
  - exists w. cbn. auto.
  - destruct s; destruct w as [src dst dct sct wsr wds tg fl fn0 ud us wn];
      cbn [makeCtorMatch_loop4 ctor_func_loop]; world_ops; norm_reads; split_ifs.
    all: lazymatch goal with
      | |- exists w', makeCtorMatch_loop4 _ _ _ _ WDst (CSrc ?fi) (CDCtor ?k) _ ?W = _ /\ _ =>
          destruct (IH SD fi k W) as (w' & E1 & E2 & E3 & E4)
      | |- exists w', makeCtorMatch_loop4 _ _ _ _ WSrc (CDst ?fi) (CSCtor ?k) _ ?W = _ /\ _ =>
          destruct (IH SS fi k W) as (w' & E1 & E2 & E3 & E4)
      end;
      exists w'; revert E1 E2 E3 E4; world_ops; norm_reads; intros E1 E2 E3 E4;
      (split; [exact E1|]); (split; [etransitivity; [exact E2|]; rewrite ?upd_upd; reflexivity|]);
      (split; [exact E3|exact E4]).
Qed.

(* ---- one reader against every parameter: [ctor_step] folded over the parameter indices *)
Definition step_of (tm : tagmap) (s : side) (w : cworld) (fi : nat) :=
  fun acc k => ctor_step e tm (cf_ic (c_flags w)) (c_funcs w) (readers s w) fi k acc.

Ltac use_ih3 IH :=
  let w' := fresh "w'" in let E1 := fresh "E1" in let E2 := fresh "E2" in let E3 := fresh "E3" in
  lazymatch goal with
  | |- exists w', makeCtorMatch_loop3 _ _ _ _ _ _ _ WDst (CSrc ?fi) _ ?W = _ /\ _ =>
      destruct (IH SD fi W) as (w' & E1 & E2 & E3)
  | |- exists w', makeCtorMatch_loop3 _ _ _ _ _ _ _ WSrc (CDst ?fi) _ ?W = _ /\ _ =>
      destruct (IH SS fi W) as (w' & E1 & E2 & E3)
  end;
  exists w'; revert E1 E2 E3; unfold step_of; world_ops; norm_reads; intros E1 E2 E3;
  (split; [exact E1|]); (split; [etransitivity; [exact E2|]; rewrite ?upd_upd; reflexivity|exact E3]).

Lemma loop3_is_model : forall ef cp tm ks s fi (w : cworld),
  exists w', makeCtorMatch_loop3 TE CV IS IF ef cp tm (wref s) (rloc s fi) (map (ploc s) ks) w = (Returned tt, w')
             /\ (pars s w', wset s w') = fold_left (step_of tm s w fi) ks (pars s w, wset s w)
             /\ others s w' = others s w.
Proof.
  intros ef cp tm. induction ks as [|k ks IH]; intros s fi w.
  - exists w. cbn. auto.
  - cbn [map makeCtorMatch_loop3 fold_left]. unfold step_of at 2. unfold ctor_step.
    destruct (canNameMatch_is_model (rloc s fi) (ploc s k) tm (cf_ic (c_flags w)) w) as (w1 & E & F).
    assert (G : get_IsSet (rloc s fi) w = f_isset (nth fi (readers s w) fdummy)) by (destruct s; reflexivity).
    rewrite G. cbn [fst snd].
    destruct (f_isset (nth fi (readers s w) fdummy)) eqn:IsSet.
    { (* a setter-only reader is skipped *)
      destruct (IH s fi w) as (w' & E1 & E2 & E3). exists w'. auto. }
    rewrite E.
    assert (L : cload (rloc s fi) w = nth fi (readers s w) fdummy /\ cload (ploc s k) w = nth k (pars s w) fdummy)
      by (destruct s; split; reflexivity).
    destruct L as [L1 L2]. rewrite L1, L2.
    destruct w1 as [src1 dst1 dct1 sct1 wsr1 wds1 tg1 fl1 fn1 ud1 us1 wn1].
    destruct w as [src dst dct sct wsr wds tg fl fn0 ud us wn].
    cbv beta iota delta [nowarn c_src c_dst c_dctor c_sctor c_wsrc c_wdst c_tags c_flags c_funcs c_use_d c_use_s] in F.
    inversion F; subst src1 dst1 dct1 sct1 wsr1 wds1 tg1 fl1 fn1 ud1 us1. clear F E G L1 L2.
    match goal with |- context [can_name_match ?a ?b tm ?ic] => destruct (can_name_match a b tm ic) eqn:N end;
      cbv beta iota delta [negb].
    + rewrite !matchType_is_model.
      destruct s; revert IsSet N; world_ops; intros IsSet N.
      all: match goal with |- context [match_type e ?a ?b] => destruct (match_type e a b) as [same conv] end.
      all: norm_reads; split_ifs.
      all: try (use_ih3 IH).
      all: lazymatch goal with
        | |- context [makeCtorMatch_loop4 _ _ _ _ WDst (CSrc ?fi) (CDCtor ?k) ?fns ?W] =>
            destruct (loop4_is_model ef cp tm fns SD fi k W) as (w2 & A1 & A2 & A3 & A4)
        | |- context [makeCtorMatch_loop4 _ _ _ _ WSrc (CDst ?fi) (CSCtor ?k) ?fns ?W] =>
            destruct (loop4_is_model ef cp tm fns SS fi k W) as (w2 & A1 & A2 & A3 & A4)
        end;
        cbv beta iota delta [wref rloc ploc] in A1; rewrite A1; clear A1;
        destruct w2 as [src2 dst2 dct2 sct2 wsr2 wds2 tg2 fl2 fn2 ud2 us2 wn2];
        revert A2 A3; world_ops; intros A2 A3; inversion A3; subst; clear A3.
      all: [> destruct (IH SD fi (mkC src dst dct2 sct wsr wds2 tg fl fn0 ud us wn2)) as (w' & E1 & E2 & E3)
             | destruct (IH SS fi (mkC src dst dct sct2 wsr2 wds tg fl fn0 ud us wn2)) as (w' & E1 & E2 & E3)];
        exists w'; revert E1 E2 E3; unfold step_of; world_ops; intros E1 E2 E3;
        (split; [exact E1|]); (split; [rewrite A2 in E2; exact E2|exact E3]).
    + destruct s; [destruct (IH SD fi (mkC src dst dct sct wsr wds tg fl fn0 ud us wn1)) as (w' & E1 & E2 & E3)
                  |destruct (IH SS fi (mkC src dst dct sct wsr wds tg fl fn0 ud us wn1)) as (w' & E1 & E2 & E3)];
        exists w'; (split; [exact E1|]); (split; [exact E2|exact E3]).
Qed.

(* ---- every reader: the double fold of the model *)
Lemma loop1_is_model : forall ef tm ks h is s (w : cworld),
  exists w1, makeCtorMatch_loop1 TE CV IS IF zv ef (map (ploc s) ks) tm (wref s) h (map (rloc s) is) w
             = makeCtorMatch_loop2 zv ef (map (ploc s) ks) tm (wref s) (map (ploc s) ks) h w1
             /\ (pars s w1, wset s w1)
                = fold_left (fun acc fi => fold_left (step_of tm s w fi) ks acc) is (pars s w, wset s w)
             /\ others s w1 = others s w.
Proof.
  intros ef tm ks h. induction is as [|fi is IH]; intros s w.
  - exists w. cbn. auto.
  - cbn [map makeCtorMatch_loop1 fold_left].
    destruct (loop3_is_model ef (map (ploc s) ks) tm ks s fi w) as (w2 & A1 & A2 & A3). rewrite A1.
    destruct (IH s w2) as (w1 & B1 & B2 & B3). exists w1. split; [exact B1|].
    rewrite <- A2. split; [|congruence].
    rewrite B2. apply fold_left_ext_pair. intros acc fi'. unfold step_of.
    assert (X : cf_ic (c_flags w2) = cf_ic (c_flags w) /\ c_funcs w2 = c_funcs w /\ readers s w2 = readers s w).
    { destruct s; unfold others in A3; cbn [readers]; inversion A3; repeat split; congruence. }
    destruct X as (X1 & X2 & X3). rewrite X1, X2, X3. reflexivity.
Qed.

(* ---- the zero-value loop.  [supported]: every parameter left without a value has a zero literal *)
Definition has_target (p : field) : bool := match f_target p with Some _ => true | None => false end.
Definition zfix (p : field) : field := match f_target p with Some _ => p | None => set_zero p end.
Definition supported (ps : list field) : bool :=
  forallb (fun p => match f_target p with Some _ => true | None => negb (String.eqb (zv (f_ty p)) "") end) ps.

Lemma get_Target_ploc s k w : get_Target (ploc s k) w = f_target (nth k (pars s w) fdummy).
Proof. destruct s; reflexivity. Qed.
Lemma get_typ_ploc s k w : get_typ (ploc s k) w = f_ty (nth k (pars s w) fdummy).
Proof. destruct s; reflexivity. Qed.
Lemma set_Zero_ploc s k z w :
  pars s (set_Zero (ploc s k) z w) = upd (pars s w) k (fset_zero z)
  /\ wset s (set_Zero (ploc s k) z w) = wset s w /\ others s (set_Zero (ploc s k) z w) = others s w
  /\ c_warned (set_Zero (ploc s k) z w) = c_warned w.
Proof. destruct s; repeat split; reflexivity. Qed.

Lemma seq_snoc_len {A} (pre : list A) (x : A) : S (List.length pre) = List.length (pre ++ [x]).
Proof. rewrite app_length. cbn. lia. Qed.

Lemma loop2_returns : forall ef cp tm s suf pre h (w : cworld),
  pars s w = pre ++ suf -> supported suf = true ->
  exists w', makeCtorMatch_loop2 zv ef cp tm (wref s) (map (ploc s) (seq (List.length pre) (List.length suf))) h w
             = (Returned (h || existsb has_target suf), w')
             /\ pars s w' = pre ++ map zfix suf /\ wset s w' = wset s w /\ others s w' = others s w
             /\ c_warned w' = c_warned w.
Proof.
  intros ef cp tm s. induction suf as [|p suf IH]; intros pre h w P S.
  - exists w. cbn. rewrite orb_false_r. auto.
  - cbn [List.length seq map makeCtorMatch_loop2].
    rewrite get_Target_ploc, get_typ_ploc, P, nth_middle.
    cbn [supported forallb] in S. apply andb_true_iff in S. destruct S as [S1 S2]. fold (supported suf) in S2.
    cbn [existsb map]. unfold has_target at 1, zfix at 1.
    destruct (f_target p) eqn:T; cbn [is_nil negb].
    + rewrite (seq_snoc_len pre p).
      destruct (IH (pre ++ [p]) true w) as (w' & E1 & E2 & E3 & E4 & E5); [rewrite <- app_assoc; exact P|exact S2|].
      exists w'. rewrite E1, E2, <- app_assoc, orb_true_r. cbn. auto.
    + apply negb_true_iff in S1. rewrite S1.
      destruct (set_Zero_ploc s (List.length pre) (zv (f_ty p)) w) as (Z1 & Z2 & Z3 & Z4).
      rewrite (seq_snoc_len pre (set_zero p)).
      destruct (IH (pre ++ [set_zero p]) h (set_Zero (ploc s (List.length pre)) (zv (f_ty p)) w)) as (w' & E1 & E2 & E3 & E4 & E5);
        [|exact S2|].
      { rewrite Z1, P, upd_middle, <- app_assoc. cbn. unfold fset_zero, set_zero. rewrite S1. reflexivity. }
      exists w'. rewrite E1, E2, E3, E4, E5, <- app_assoc. cbn. auto.
Qed.

(* the source stops (logx.Fatal) exactly when a parameter without a value has no zero literal *)
Lemma loop2_panics : forall ef cp tm s suf pre h (w : cworld),
  pars s w = pre ++ suf -> supported suf = false ->
  exists w', makeCtorMatch_loop2 zv ef cp tm (wref s) (map (ploc s) (seq (List.length pre) (List.length suf))) h w
             = (Panicked (PErrorf "not supported" 0), w').
Proof.
  intros ef cp tm s. induction suf as [|p suf IH]; intros pre h w P S.
  - discriminate S.
  - cbn [List.length seq map makeCtorMatch_loop2].
    rewrite get_Target_ploc, get_typ_ploc, P, nth_middle.
    cbn [supported forallb] in S. fold (supported suf) in S.
    destruct (f_target p) eqn:T; cbn [is_nil negb andb] in *.
    + rewrite (seq_snoc_len pre p). apply IH; [rewrite <- app_assoc; exact P|exact S].
    + destruct (String.eqb (zv (f_ty p)) "") eqn:Z; cbn [negb andb] in S.
      * eexists. reflexivity.
      * destruct (set_Zero_ploc s (List.length pre) (zv (f_ty p)) w) as (Z1 & Z2 & Z3 & Z4).
        rewrite (seq_snoc_len pre (set_zero p)). apply IH; [|exact S].
        rewrite Z1, P, upd_middle, <- app_assoc. cbn. unfold fset_zero, set_zero. rewrite Z. reflexivity.
Qed.

Lemma supported_zfix ps : supported (map zfix ps) = supported ps.
Proof.
  induction ps as [|p ps IH]; [reflexivity|]. cbn [map supported forallb]. fold (supported (map zfix ps)) (supported ps).
  rewrite IH. unfold zfix. destruct (f_target p) eqn:T; [rewrite T; reflexivity|]. cbn. rewrite T. reflexivity.
Qed.

(* the model's loops keep the number of parameters *)
Lemma ctor_func_loop_length fns : forall fi ft pt pn k acc,
  List.length (fst (ctor_func_loop fns fi ft pt pn k acc)) = List.length (fst acc).
Proof.
  induction fns as [|fn fns IH]; intros; cbn [ctor_func_loop]; [reflexivity|].
  rewrite IH. destruct (_ && _); cbn [fst]; [apply upd_length|reflexivity].
Qed.
Lemma ctor_step_length tm ic fns rs fi k acc :
  List.length (fst (ctor_step e tm ic fns rs fi k acc)) = List.length (fst acc).
Proof.
  unfold ctor_step.
  repeat match goal with
         | |- context [if ?b then _ else _] => destruct b
         | |- context [let '(_, _) := ?x in _] => destruct x
         end; cbn [fst]; rewrite ?ctor_func_loop_length; cbn [fst]; rewrite ?upd_length; reflexivity.
Qed.
Lemma ctor_fold_length tm ic fns rs ks : forall is acc,
  List.length (fst (fold_left (fun acc fi => fold_left (fun acc k => ctor_step e tm ic fns rs fi k acc) ks acc) is acc))
  = List.length (fst acc).
Proof.
  assert (I : forall fi ks' acc, List.length (fst (fold_left (fun acc k => ctor_step e tm ic fns rs fi k acc) ks' acc)) = List.length (fst acc)).
  { intros fi ks'. induction ks' as [|k ks' IH]; intros acc; cbn [fold_left]; [reflexivity|]. rewrite IH. apply ctor_step_length. }
  induction is as [|fi is IH]; intros acc; cbn [fold_left]; [reflexivity|]. rewrite IH. apply I.
Qed.

(* ---- makeCtorMatch IS make_ctor_match, for either direction, on every state *)
Definition locs_r (s : side) (w : cworld) := map (rloc s) (seq 0 (List.length (readers s w))).
Definition locs_p (s : side) (w : cworld) := map (ploc s) (seq 0 (List.length (pars s w))).
Definition model_of (s : side) (tm : tagmap) (w : cworld) :=
  make_ctor_match e tm (cf_ic (c_flags w)) (c_funcs w) (readers s w) (pars s w) (wset s w).

(* the test for an empty parameter list, however it is written: decided on a list that has an element *)
Ltac nonempty_params P :=
  match goal with |- context [if ?c then _ else _] =>
    let C := fresh "C" in
    assert (C : c = false)
      by (rewrite map_length, seq_length, P; cbn [List.length];
          first [ apply Z.eqb_neq | apply Z.ltb_ge | apply Z.leb_gt | apply Z.gtb_ltb | reflexivity ]; lia);
    rewrite C; clear C
  end.

Theorem makeCtorMatch_is_model : forall s tm (w : cworld),
  supported (fst (fst (model_of s tm w))) = true ->
  exists w', makeCtorMatch TE CV IS IF zv (locs_r s w) (locs_p s w) tm (wref s) w = (Returned (snd (model_of s tm w)), w')
             /\ pars s w' = fst (fst (model_of s tm w)) /\ wset s w' = snd (fst (model_of s tm w))
             /\ others s w' = others s w.
Proof.
  intros s tm w. unfold model_of, make_ctor_match, makeCtorMatch, locs_r, locs_p.
  destruct (pars s w) as [|p0 ps0] eqn:P.
  - intros _. exists w. cbn. rewrite P. auto.
  - rewrite <- P. intros S.
    nonempty_params P.
    destruct (loop1_is_model (map (rloc s) (seq 0 (List.length (readers s w)))) tm (seq 0 (List.length (pars s w))) false
                             (seq 0 (List.length (readers s w))) s w) as (w1 & A1 & A2 & A3).
    rewrite A1. unfold step_of in A2. rewrite <- A2 in *. cbn [fst snd] in *.
    rewrite supported_zfix in S.
    assert (L : List.length (pars s w) = List.length (pars s w1)).
    { change (pars s w1) with (fst (pars s w1, wset s w1)). rewrite A2, ctor_fold_length. reflexivity. }
    rewrite L.
    destruct (loop2_returns (map (rloc s) (seq 0 (List.length (readers s w)))) (map (ploc s) (seq 0 (List.length (pars s w1)))) tm s
                            (pars s w1) [] false w1 eq_refl S) as (w' & E1 & E2 & E3 & E4 & E5).
    exists w'. cbn [List.length app orb] in E1, E2. split; [exact E1|]. split; [exact E2|]. split; [exact E3|congruence].
Qed.

(* ... and when a parameter without a value has no zero literal (the model is total there:
   docs/C15.md, assumption on alias types) the source stops in logx.Fatal *)
Theorem makeCtorMatch_unsupported_panics : forall s tm (w : cworld),
  supported (fst (fst (model_of s tm w))) = false ->
  exists w', makeCtorMatch TE CV IS IF zv (locs_r s w) (locs_p s w) tm (wref s) w = (Panicked (PErrorf "not supported" 0), w').
Proof.
  intros s tm w. unfold model_of, make_ctor_match, makeCtorMatch, locs_r, locs_p.
  destruct (pars s w) as [|p0 ps0] eqn:P.
  - cbn. discriminate.
  - rewrite <- P. intros S.
    nonempty_params P.
    destruct (loop1_is_model (map (rloc s) (seq 0 (List.length (readers s w)))) tm (seq 0 (List.length (pars s w))) false
                             (seq 0 (List.length (readers s w))) s w) as (w1 & A1 & A2 & A3).
    rewrite A1. unfold step_of in A2. rewrite <- A2 in *. cbn [fst snd] in *.
    rewrite supported_zfix in S.
    assert (L : List.length (pars s w) = List.length (pars s w1)).
    { change (pars s w1) with (fst (pars s w1, wset s w1)). rewrite A2, ctor_fold_length. reflexivity. }
    rewrite L.
    apply (loop2_panics (map (rloc s) (seq 0 (List.length (readers s w)))) (map (ploc s) (seq 0 (List.length (pars s w1)))) tm s
                        (pars s w1) [] false w1 eq_refl S).
Qed.

(* ---- the method: the destination constructor from the source fields (with the tag map),
   then the source constructor from the destination fields (no tag map); the template is
   told to call a constructor when one of its parameters got a value *)
Theorem makeCtorMatchBoth_is_model : forall (w : cworld) dctor wdst1 use_d sctor wsrc1 use_s,
  make_ctor_match e (c_tags w) (cf_ic (c_flags w)) (c_funcs w) (c_src w) (c_dctor w) (c_wdst w) = (dctor, wdst1, use_d) ->
  make_ctor_match e [] (cf_ic (c_flags w)) (c_funcs w) (c_dst w) (c_sctor w) (c_wsrc w) = (sctor, wsrc1, use_s) ->
  supported dctor = true -> supported sctor = true ->
  exists w', makeCtorMatchBoth TE CV IS IF zv w = (Returned tt, w')
             /\ c_dctor w' = dctor /\ c_wdst w' = wdst1 /\ c_use_d w' = (c_use_d w || use_d)%bool
             /\ c_sctor w' = sctor /\ c_wsrc w' = wsrc1 /\ c_use_s w' = (c_use_s w || use_s)%bool
             /\ c_src w' = c_src w /\ c_dst w' = c_dst w
             /\ c_tags w' = c_tags w /\ c_flags w' = c_flags w /\ c_funcs w' = c_funcs w.
Proof.
  intros w dctor wdst1 use_d sctor wsrc1 use_s MD MS SD' SS'.
  unfold makeCtorMatchBoth.
  destruct (makeCtorMatch_is_model SD (c_tags w) w) as (w1 & A1 & A2 & A3 & A4).
  { unfold model_of. cbn [readers pars wset]. rewrite MD. exact SD'. }
  change (locs_r SD w) with (src_locs w) in A1. change (locs_p SD w) with (dctor_locs w) in A1.
  unfold model_of in A1, A2, A3. cbn [readers pars wset rloc ploc wref] in A1, A2, A3.
  rewrite MD in A1, A2, A3. cbn [fst snd] in A1, A2, A3.
  rewrite A1.
  unfold others in A4. injection A4 as O1 O2 O3 O4 O5 O6 O7 O8 O9.
  (* the second call runs in the world the first one left, told or not to use the constructor *)
  assert (K : forall w1', w1' = (if use_d then set_dctor_used (dctor_locs w1) w1 else w1) ->
              c_src w1' = c_src w /\ c_dst w1' = c_dst w /\ c_dctor w1' = dctor /\ c_sctor w1' = c_sctor w
              /\ c_wsrc w1' = c_wsrc w /\ c_wdst w1' = wdst1 /\ c_tags w1' = c_tags w /\ c_flags w1' = c_flags w
              /\ c_funcs w1' = c_funcs w /\ c_use_d w1' = (c_use_d w || use_d)%bool /\ c_use_s w1' = c_use_s w).
  { intros w1' ->. destruct use_d; cbn; rewrite ?orb_true_r, ?orb_false_r; auto 12. }
  destruct use_d; cbv beta zeta;
    match goal with |- context [makeCtorMatch _ _ _ _ _ (dst_locs ?W) _ _ _ ?W] =>
      destruct (K W eq_refl) as (K1 & K2 & K3 & K4 & K5 & K6 & K7 & K8 & K9 & K10 & K11);
      destruct (makeCtorMatch_is_model SS [] W) as (w2 & B1 & B2 & B3 & B4);
      [ unfold model_of; cbn [readers pars wset]; rewrite K2, K4, K5, K8, K9, MS; exact SS' |];
      change (locs_r SS W) with (dst_locs W) in B1; change (locs_p SS W) with (sctor_locs W) in B1;
      unfold model_of in B1, B2, B3; cbn [readers pars wset rloc ploc wref] in B1, B2, B3;
      rewrite K2, K4, K5, K8, K9, MS in B1, B2, B3; cbn [fst snd] in B1, B2, B3
    end;
    unfold nil_tags; rewrite B1;
    unfold others in B4; injection B4 as P1 P2 P3 P4 P5 P6 P7 P8 P9;
    destruct use_s; (eexists; split; [reflexivity|]);
    cbn; rewrite ?orb_true_r, ?orb_false_r in K10; repeat split; rewrite ?orb_true_r, ?orb_false_r; congruence.
Qed.

(* ---- C15 over the translated source *)

(* make_ctor_match_ok (Proofs/MapperCtorProofs.v) of what the SOURCE leaves in the parameters:
   every parameter either carries a value from a readable, name-matching field under exactly one
   applicable strategy, with its name in the write set, or is passed its zero value *)
Theorem C15_ctor_pass_src : forall s tm (w : cworld),
  (forall fn, In fn (c_funcs w) -> mf_name fn <> "") ->
  (forall p, In p (pars s w) -> fresh p /\ f_zero p = false /\ f_canmap p = false /\ f_caneach p = false) ->
  supported (fst (fst (model_of s tm w))) = true ->
  exists h w', makeCtorMatch TE CV IS IF zv (locs_r s w) (locs_p s w) tm (wref s) w = (Returned h, w')
    /\ List.length (pars s w') = List.length (pars s w)
    /\ (forall j, j < List.length (pars s w') -> core_eq (rd (pars s w) j) (rd (pars s w') j))
    /\ (forall x, s_has (wset s w) x = true -> s_has (wset s w') x = true)
    /\ (pars s w <> [] -> forall j, j < List.length (pars s w') ->
          pfinal e tm (cf_ic (c_flags w)) (c_funcs w) (readers s w) (wset s w') (rd (pars s w') j))
    /\ others s w' = others s w.
Proof.
  intros s tm w FN FR S.
  destruct (makeCtorMatch_is_model s tm w S) as (w' & A1 & A2 & A3 & A4).
  exists (snd (model_of s tm w)), w'. split; [exact A1|].
  unfold model_of in A2, A3.
  destruct (make_ctor_match e tm (cf_ic (c_flags w)) (c_funcs w) (readers s w) (pars s w) (wset s w)) as [[ps' ws'] h] eqn:M.
  cbn [fst snd] in A2, A3. rewrite A2, A3.
  destruct (make_ctor_match_ok _ _ _ _ _ _ _ _ _ _ FN FR M) as (L & C & Mo & P).
  auto 8.
Qed.

(* the model's [prepare] up to makeCtorMatch, executed by the translated method: a world holding
   what prepare hands to make_ctor_match ends in prepare's answer *)
Definition manual_wdst (jb : job) : sset := match j_manual_to jb with Some ns => rev ns | None => [] end.
Definition manual_wsrc (jb : job) : sset :=
  match j_manual_from jb with Some ns => rev (map (manual_src_name (j_src_shootnew jb)) ns) | None => [] end.
Definition prepared (jb : job) (pr : prep) (w : cworld) : Prop :=
  c_src w = s_src (pr_s0 pr) /\ c_dst w = s_dst (pr_s0 pr)
  /\ c_dctor w = map ctor_field (j_dst_ctor jb) /\ c_sctor w = map ctor_field (j_src_ctor jb)
  /\ c_wdst w = manual_wdst jb /\ c_wsrc w = manual_wsrc jb
  /\ c_tags w = p_tags (pr_src pr) /\ cf_ic (c_flags w) = j_ic jb /\ c_funcs w = j_funcs jb
  /\ c_use_d w = false /\ c_use_s w = false.

Theorem C15_prepare_src : forall jb pr (w : cworld),
  j_env jb = e -> prepare jb = Some pr -> prepared jb pr w ->
  supported (pr_dctor pr) = true -> supported (pr_sctor pr) = true ->
  exists w', makeCtorMatchBoth TE CV IS IF zv w = (Returned tt, w')
             /\ c_dctor w' = pr_dctor pr /\ c_sctor w' = pr_sctor pr
             /\ c_wdst w' = s_wdst (pr_s0 pr) /\ c_wsrc w' = s_wsrc (pr_s0 pr)
             /\ c_use_d w' = pr_use_d pr /\ c_use_s w' = pr_use_s pr
             /\ c_src w' = s_src (pr_s0 pr) /\ c_dst w' = s_dst (pr_s0 pr).
Proof.
  intros jb pr w Ee H (Q1 & Q2 & Q3 & Q4 & Q5 & Q6 & Q7 & Q8 & Q9 & Q10 & Q11) SD' SS'.
  unfold prepare in H. rewrite Ee in H.
  destruct (parse_fields e (j_fuel jb) PSrc (j_src jb) true) as [ps|]; [|discriminate].
  destruct (parse_fields e (j_fuel jb) PDst (j_dst jb) false) as [pd|]; [|discriminate].
  fold (manual_wdst jb) (manual_wsrc jb) in H.
  match type of H with context [make_ctor_match e (p_tags ps) ?c ?d ?x ?y ?z] =>
    destruct (make_ctor_match e (p_tags ps) c d x y z) as [[dctor wdst1] use_d] eqn:MD end.
  match type of H with context [make_ctor_match e [] ?c ?d ?x ?y ?z] =>
    destruct (make_ctor_match e [] c d x y z) as [[sctor wsrc1] use_s] eqn:MS end.
  inversion H; subst pr; clear H. cbn [pr_s0 pr_src pr_dctor pr_sctor pr_use_d pr_use_s s_src s_dst s_wsrc s_wdst] in *.
  destruct (makeCtorMatchBoth_is_model w dctor wdst1 use_d sctor wsrc1 use_s) as (w' & R);
    [rewrite Q1, Q3, Q5, Q7, Q8, Q9; exact MD | rewrite Q2, Q4, Q6, Q8, Q9; exact MS | exact SD' | exact SS' |].
  destruct R as (R0 & R1 & R2 & R3 & R4 & R5 & R6 & R7 & R8 & _).
  exists w'. rewrite Q10 in R3. rewrite Q11 in R6. cbn [orb] in R3, R6. rewrite R7, R8. auto 10.
Qed.

End Bridge.

Print Assumptions MatchingName_is_model.
Print Assumptions matchType_is_model.
Print Assumptions canNameMatch_is_model.
Print Assumptions loop4_is_model.
Print Assumptions loop3_is_model.
Print Assumptions makeCtorMatch_is_model.
Print Assumptions makeCtorMatch_unsupported_panics.
Print Assumptions makeCtorMatchBoth_is_model.
Print Assumptions C15_ctor_pass_src.
Print Assumptions C15_prepare_src.
