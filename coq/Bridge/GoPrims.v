(* Common part of the primitive tables of the Go->Gallina translator
   (harness/go/cmd/go2gallina, docs/translator.md): how a translated function
   ends, what a panic carries, nil tests, slice indexing.  Trusted base of the
   translation tie.  No proofs in this file. *)
From Coq Require Import List ZArith Bool String.
Import ListNotations.

(* what a panic carries *)
Inductive panic_val :=
| PNilDeref                              (* x.f / *x with x == nil *)
| PIndex                                 (* xs[i] with i out of range *)
| PErrorf (format : string) (arg : nat). (* panic(fmt.Errorf(format, <one abstract value>)) *)

(* how a translated function ends *)
Inductive outcome (R : Type) :=
| Returned (r : R)           (* a return statement was executed (or the end of a function without results) *)
| Panicked (p : panic_val)
| OutOfFuel.                 (* a translated loop ran longer than the bound the translator derived *)
Arguments Returned {R} r.
Arguments Panicked {R} p.
Arguments OutOfFuel {R}.

Definition is_nil {A : Type} (x : option A) : bool :=
  match x with None => true | Some _ => false end.

(* xs[i]: None = index out of range *)
Definition go_index {A : Type} (xs : list A) (i : Z) : option A :=
  if (i <? 0)%Z then None else nth_error xs (Z.to_nat i).
