(* Common part of the primitive tables of the Go->Gallina translator
   (harness/go/cmd/go2gallina, docs/translator.md): how a translated function
   ends, what a panic carries, nil tests, slice indexing.  Trusted base of the
   translation tie.  No proofs in this file. *)
From Coq Require Import List ZArith Bool String.
Import ListNotations.

(* what a panic carries *)
Inductive panic_val :=
| PNilDeref                              (* x.f / *x with x == nil *)
| PIndex                                 (* xs[i] with i out of range *)
| PErrorf (format : string) (arg : nat). (* panic(fmt.Errorf(format, <one abstract value>)) *)

(* how a translated function ends *)
Inductive outcome (R : Type) :=
| Returned (r : R)           (* a return statement was executed (or the end of a function without results) *)
| Panicked (p : panic_val)
| OutOfFuel.                 (* a translated loop ran longer than the bound the translator derived *)
Arguments Returned {R} r.
Arguments Panicked {R} p.
Arguments OutOfFuel {R}.

Definition is_nil {A : Type} (x : option A) : bool :=
  match x with None => true | Some _ => false end.

(* xs[i]: None = index out of range *)
Definition go_index {A : Type} (xs : list A) (i : Z) : option A :=
  if (i <? 0)%Z then None else nth_error xs (Z.to_nat i).

(* ---- strings and byte slices: both are sequences of bytes ([string] of Coq: a list of [ascii]) ---- *)
From Coq Require Import Ascii.
From Shoot Require Import Base.Str.

Definition str_len (s : string) : Z := Z.of_nat (String.length s).

(* s[i]: None = index out of range *)
Definition str_get (s : string) (i : Z) : option ascii :=
  if (i <? 0)%Z then None else String.get (Z.to_nat i) s.

(* s[lo:hi]: None unless 0 <= lo <= hi <= len(s) *)
Definition str_slice (s : string) (lo hi : Z) : option string :=
  if ((0 <=? lo) && (lo <=? hi) && (hi <=? str_len s))%Z
  then Some (substring (Z.to_nat lo) (Z.to_nat (hi - lo)) s) else None.

(* bytes[i] = c *)
Fixpoint str_set_nat (s : string) (i : nat) (c : ascii) : option string :=
  match s, i with
  | EmptyString, _ => None
  | String _ r, O => Some (String c r)
  | String d r, S i' => option_map (String d) (str_set_nat r i' c)
  end.
Definition str_set (s : string) (i : Z) (c : ascii) : option string :=
  if (i <? 0)%Z then None else str_set_nat s (Z.to_nat i) c.

(* xs[i] = x on a slice *)
Fixpoint list_set_nat {A : Type} (l : list A) (i : nat) (x : A) : option (list A) :=
  match l, i with
  | [], _ => None
  | _ :: r, O => Some (x :: r)
  | y :: r, S i' => option_map (cons y) (list_set_nat r i' x)
  end.
Definition list_set {A : Type} (l : list A) (i : Z) (x : A) : option (list A) :=
  if (i <? 0)%Z then None else list_set_nat l (Z.to_nat i) x.

(* a byte as a number, and back (Go's byte arithmetic wraps modulo 256) *)
Definition byte_z (c : ascii) : Z := Z.of_nat (nat_of_ascii c).
Definition byte_of_z (z : Z) : ascii := ascii_of_nat (Z.to_nat (z mod 256)).

(* strings.Split(s, sep) for a separator of exactly one byte (the only use in the translated code);
   any other separator is not modelled: the whole string is returned as one piece *)
Definition go_split (s sep : string) : list string :=
  match sep with
  | String c EmptyString => split_c c s
  | _ => [s]
  end.

(* strings.TrimSuffix(s, suf): cut s where what remains IS suf (only the last |suf| bytes can be) *)
Fixpoint go_trim_suffix (suf s : string) : string :=
  if String.eqb s suf then EmptyString
  else match s with
       | EmptyString => EmptyString
       | String c s' => String c (go_trim_suffix suf s')
       end.

(* xs[lo:hi] on a slice: None unless 0 <= lo <= hi <= len(xs) (capacity is not modelled: hi <= len) *)
Definition list_slice {A : Type} (xs : list A) (lo hi : Z) : option (list A) :=
  if ((0 <=? lo) && (lo <=? hi) && (hi <=? Z.of_nat (List.length xs)))%Z
  then Some (firstn (Z.to_nat (hi - lo)) (skipn (Z.to_nat lo) xs)) else None.
