(* Primitive table of the Go->Gallina translator, area "enum" (C12): what the
   translator does not look into when it translates /repo/enumer.go
   (ParseEnum, TryParseEnum, IsEnum).  Trusted base of the translation tie.

     T (the enum type), TV    Z    (T's values are kept inside the range of its kind by the caller;
                                    the conversion T(value) is [wrap kind value], Model/Enum.v)
     t.ValueMap(), t.Values() the parameters vmap, vals (the bridge instantiates them with the tables
                              of the generated code, t_value_map / t_values)
     m[str] with comma-ok     [map_lookup]: the first entry with that key, (0, false) on a miss
     *T parameter             the value it points to (never nil); `*v = t` replaces it
     error                    option string: fmt.Errorf(format, ...) is [Some format] (arguments dropped)
   No proofs in this file. *)
From Coq Require Import List ZArith Bool String.
From Shoot Require Import Model.Enum.
From Shoot Require Export Bridge.GoPrims.
Import ListNotations.

Definition map_lookup (m : list (string * Z)) (k : string) : Z * bool :=
  match assoc_s k m with
  | Some v => (v, true)
  | None => (0%Z, false)
  end.

Definition conv (k : kind) (v : Z) : Z := wrap k v.

Definition errorf (format : string) : option string := Some format.
