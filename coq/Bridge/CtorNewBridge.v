(* Translation tie for the analysis behind NewT of `shoot new` (C02, C13).
   [ShootGen.CtorNewGen] is written on every run by harness/go/cmd/go2gallina from the
   CURRENT text of /repo/internal/constructor/new.go (Generator.makeNew) and fields.go
   (newParamsList); this file proves the translated definitions equal to Model/Ctor.v
   [make_new] (make_new_loop, new_params_list, new_tparams), owned by the constructor
   checks: imported, not edited.

   The model keeps STRUCTURE where the code prints TEXT: nd_params is a list of
   (parameter, printed type) pairs, NewParamsList the text `p1 T1, p2 T2`; nd_tparams a
   list of (names, constraint) pairs, TypeParamList / TypeParamNameList their texts.  The
   bridge states the text as the rendering of the model's structure ([render_params],
   [render_tparams]).  newBody / newBodyRec is not translated (self-recursive): the oracle
   [nb] of the generated file; nd_body is NOT tied here. *)
From Coq Require Import List ZArith Bool String Arith Lia.
From Shoot Require Import Base.Str Base.GoVal Model.Transfer Model.CtorDirective Model.Ctor Model.CtorSpec Model.CtorOpt
     Bridge.GoPrims Bridge.NewPrims.
From ShootGen Require Import CtorNewGen.
Import ListNotations.
Local Open Scope string_scope.
Local Open Scope list_scope.

(* ---- strings *)
Lemma sapp_assoc (a b c : string) : ((a ++ b) ++ c = a ++ (b ++ c))%string.
Proof. induction a as [|x a IH]; simpl; [reflexivity|]. rewrite IH. reflexivity. Qed.
Lemma sapp_nil_r (a : string) : (a ++ "" = a)%string.
Proof. induction a as [|x a IH]; simpl; [reflexivity|]. rewrite IH. reflexivity. Qed.
Lemma slen_app (a b : string) : String.length (a ++ b)%string = String.length a + String.length b.
Proof. induction a as [|x a IH]; simpl; [reflexivity|]. rewrite IH. reflexivity. Qed.
Lemma substring_prefix (a b : string) : substring 0 (String.length a) (a ++ b)%string = a.
Proof.
  induction a as [|x a IH]; simpl.
  - destruct b; reflexivity.
  - rewrite IH. reflexivity.
Qed.

(* the text of a list of entries, each followed by ", " (what the loop leaves in the buffer) *)
Fixpoint flat (es : list string) : string :=
  match es with [] => "" | e :: r => (e ++ ", " ++ flat r)%string end.

Lemma flat_concat es : es <> [] -> flat es = (String.concat ", " es ++ ", ")%string.
Proof.
  induction es as [|e [|e' r] IH]; intros NE; [congruence| |].
  - simpl. reflexivity.
  - change (flat (e :: e' :: r)) with (e ++ ", " ++ flat (e' :: r))%string.
    rewrite IH by discriminate.
    change (String.concat ", " (e :: e' :: r)) with (e ++ ", " ++ String.concat ", " (e' :: r))%string.
    rewrite !sapp_assoc. reflexivity.
Qed.

Lemma concat_nonempty es : es <> [] -> (forall e, In e es -> String.length e >= 1) -> String.length (String.concat ", " es) >= 1.
Proof.
  destruct es as [|e [|e' r]]; intros NE H; [congruence| |].
  - simpl. apply H. left; reflexivity.
  - change (String.concat ", " (e :: e' :: r)) with (e ++ ", " ++ String.concat ", " (e' :: r))%string.
    rewrite slen_app. specialize (H e (or_introl eq_refl)). lia.
Qed.

(* ---- the renderings *)
Definition entry (p : ident * string) : string := (fst p ++ " " ++ snd p)%string.
Definition render_params (ps : list (ident * string)) : string := String.concat ", " (map entry ps).
Definition render_tparams (tps : list (string * string)) : string := String.concat ", " (map entry tps).

Lemma entry_len p : String.length (entry p) >= 1.
Proof. unfold entry. rewrite slen_app. simpl. lia. Qed.

Section Bridge.
Variable nb : list Ctor.field -> smap -> string.

(* ---- newParamsList: the text of new_params_list *)
Lemma pl_loop_is_model : forall fields nm xs buf (w : nworld),
  newParamsList_loop1 fields nm xs buf w
  = newParamsList_after1 fields nm (buf ++ flat (map entry (new_params_list xs nm)))%string w.
Proof.
  intros fields nm. induction xs as [|f xs IH]; intros buf w.
  - cbn. rewrite sapp_nil_r. reflexivity.
  - cbn [newParamsList_loop1 new_params_list]. unfold smap_lookup, buf_write, star_type.
    destruct (f_embedded f), (f_shadowed f), (assoc (f_name f) nm) as [p|], (f_ptr f);
      cbv beta iota zeta delta [negb andb orb]; rewrite IH; try reflexivity;
      cbn [map flat]; unfold entry; cbn [fst snd]; rewrite !sapp_assoc; reflexivity.
Qed.

Theorem newParamsList_is_model : forall fields nm (w : nworld),
  newParamsList fields nm w = (Returned (render_params (new_params_list fields nm)), w).
Proof.
  intros fields nm w. unfold newParamsList. rewrite pl_loop_is_model.
  unfold newParamsList_after1, buf_string, render_params. cbn [append].
  destruct (map entry (new_params_list fields nm)) as [|e es] eqn:E.
  - reflexivity.
  - rewrite flat_concat by discriminate.
    assert (L : String.length (String.concat ", " (e :: es)) >= 1).
    { apply concat_nonempty; [discriminate|]. intros x Hx. rewrite <- E in Hx. apply in_map_iff in Hx.
      destruct Hx as (p & <- & _). apply entry_len. }
    set (X := String.concat ", " (e :: es)) in *.
    unfold str_slice, str_len. rewrite slen_app. cbn [String.length].
    match goal with |- context [if (?c >? 2)%Z then _ else _] =>
      replace (c >? 2)%Z with true by (symmetry; apply Z.gtb_lt; lia) end.
    match goal with |- context [if ?c then Some _ else None] =>
      replace c with true by (symmetry; rewrite !andb_true_iff, !Z.leb_le; lia) end.
    replace (Z.to_nat (Z.of_nat (String.length X + 2) - 2 - 0)) with (String.length X) by lia.
    cbn [Z.to_nat]. rewrite substring_prefix. reflexivity.
Qed.

(* ---- the loop of makeNew over g.fields = make_new_loop *)
Lemma loop2_is_model : forall fields al nm tm dl dm (w : nworld),
  makeNew_loop2 nb fields al nm tm dl dm w
  = (let a := make_new_loop (n_has_new w) fields
                {| a_all := al; a_names := nm; a_types := tm; a_defs := dl; a_defmap := dm |} in
     makeNew_after2 nb (a_all a) (a_names a) (a_types a) (a_defs a) (a_defmap a) w).
Proof.
  induction fields as [|f fields IH]; intros al nm tm dl dm w.
  - reflexivity.
  - cbn [makeNew_loop2 make_new_loop]. unfold star_type.
    destruct (f_shadowed f), (f_embedded f), (String.eqb (f_def f) ""), (f_ptr f), (n_has_new w) eqn:HN, (f_new f);
      cbv beta iota zeta delta [negb andb orb]; rewrite IH, ?HN; reflexivity.
Qed.

(* ---- the loop over the type-parameter groups = new_tparams *)
Definition tparams_of (w : nworld) : list (string * string) :=
  mapi_aux (fun i t => (nth i (n_tpmap w) "", t)) 0 (n_tparams w).

Lemma loop1_is_model : forall rest done pg ng (w : nworld),
  n_tparams w = done ++ rest ->
  makeNew_loop1 nb (n_tparams w) (Z.of_nat (List.length (n_tparams w))) (List.length rest) (Z.of_nat (List.length done)) pg ng w
  = makeNew_after1 nb (n_tparams w) (Z.of_nat (List.length (n_tparams w)))
      (pg ++ map entry (mapi_aux (fun i t => (nth i (n_tpmap w) "", t)) (List.length done) rest))
      (ng ++ map fst (mapi_aux (fun i t => (nth i (n_tpmap w) "", t)) (List.length done) rest)) w.
Proof.
  induction rest as [|t rest IH]; intros done pg ng w E.
  - cbn [List.length makeNew_loop1 mapi_aux map]. rewrite !app_nil_r.
    rewrite E, app_nil_r, Z.ltb_irrefl. reflexivity.
  - cbn [List.length makeNew_loop1 mapi_aux map].
    assert (LT : (Z.of_nat (List.length done) <? Z.of_nat (List.length (n_tparams w)))%Z = true).
    { apply Z.ltb_lt. rewrite E, app_length. cbn [List.length]. lia. }
    rewrite LT.
    assert (G : go_index (n_tparams w) (Z.of_nat (List.length done)) = Some t).
    { unfold go_index. replace (Z.of_nat (List.length done) <? 0)%Z with false by (symmetry; apply Z.ltb_ge; lia).
      rewrite Nat2Z.id, E, nth_error_app2, Nat.sub_diag by lia. reflexivity. }
    rewrite G.
    assert (T : tpmap_at (n_tpmap w) (Z.of_nat (List.length done)) = nth (List.length done) (n_tpmap w) "").
    { unfold tpmap_at. replace (Z.of_nat (List.length done) <? 0)%Z with false by (symmetry; apply Z.ltb_ge; lia).
      rewrite Nat2Z.id. reflexivity. }
    rewrite T.
    replace (Z.of_nat (List.length done) + 1)%Z with (Z.of_nat (List.length (done ++ [t]))) by (rewrite app_length; cbn; lia).
    rewrite (IH (done ++ [t])) by (rewrite <- app_assoc; exact E).
    rewrite app_length. cbn [List.length]. rewrite Nat.add_1_r, <- !app_assoc.
    cbn [app]. unfold entry. cbn [fst snd]. rewrite ?sapp_assoc. reflexivity.
Qed.

(* ---- makeNew: every component of g.data it writes, from make_new's *)
Definition acc_of (w : nworld) : new_acc :=
  make_new_loop (n_has_new w) (n_fields w) {| a_all := []; a_names := []; a_types := []; a_defs := []; a_defmap := [] |}.

Theorem makeNew_is_model : forall w : nworld,
  exists w', makeNew nb w = (Returned tt, w')
    /\ d_all w' = a_all (acc_of w) /\ d_newmap w' = a_names (acc_of w) /\ d_typemap w' = a_types (acc_of w)
    /\ d_deflist w' = a_defs (acc_of w) /\ d_defmap w' = a_defmap (acc_of w)
    /\ d_params w' = render_params (new_params_list (n_fields w) (a_names (acc_of w)))
    /\ d_body w' = nb (n_fields w) (a_names (acc_of w))
    /\ d_tplist w' = render_tparams (tparams_of w)
    /\ d_tpnames w' = String.concat ", " (map fst (tparams_of w))
    /\ d_option w' = nf_opt (n_flags w) /\ d_short w' = nf_short (n_flags w)
    /\ n_fields w' = n_fields w /\ n_has_new w' = n_has_new w.
Proof.
  intros w. unfold makeNew. cbv zeta.
  replace (Z.to_nat (Z.of_nat (List.length (n_tparams w)) - 0)) with (List.length (n_tparams w)) by lia.
  pose proof (loop1_is_model (n_tparams w) [] [] [] w eq_refl) as L1.
  cbn [List.length app Z.of_nat] in L1. rewrite L1. clear L1.
  unfold makeNew_after1. cbv zeta. unfold smap_make.
  rewrite loop2_is_model. cbv zeta. unfold makeNew_after2.
  rewrite newParamsList_is_model.
  destruct w as [fs hn tp tpm fl a1 a2 a3 a4 a5 a6 a7 a8 a9 a10 a11].
  eexists. split; [reflexivity|].
  cbn. unfold acc_of, tparams_of, render_tparams, str_join. cbn. repeat split; reflexivity.
Qed.

(* for the structure under generation: a world built from what parseFields leaves computes
   the components of [make_new sd has_new fields] *)
Theorem C02_make_new_src : forall sd hn fields fl (w : nworld),
  n_fields w = fields -> n_has_new w = hn -> n_tparams w = type_params sd -> n_tpmap w = type_params_map sd ->
  n_flags w = fl ->
  let nd := make_new sd hn fields in
  exists w', makeNew nb w = (Returned tt, w')
    /\ d_all w' = nd_all nd /\ d_newmap w' = nd_name_map nd /\ d_typemap w' = nd_type_map nd
    /\ d_deflist w' = nd_def_list nd /\ d_defmap w' = nd_def_map nd
    /\ d_params w' = render_params (nd_params nd)
    /\ d_tplist w' = render_tparams (nd_tparams nd)
    /\ d_tpnames w' = new_tname_list sd
    /\ d_option w' = nf_opt fl /\ d_short w' = nf_short fl.
Proof.
  intros sd hn fields fl w F H T M FL nd.
  destruct (makeNew_is_model w) as (w' & E & A1 & A2 & A3 & A4 & A5 & A6 & A7 & A8 & A9 & A10 & A11 & _).
  exists w'. split; [exact E|].
  unfold acc_of, tparams_of in *. rewrite F, H, T, M, FL in *.
  subst nd. unfold make_new, new_tname_list, new_tparams. cbn.
  repeat split; assumption.
Qed.

(* C13: the option table, the SetDefault list and "has defaults" of Model/CtorOpt.v [make_opt] are
   functions of what the translated makeNew leaves in g.data (AllList, TypeMap, DefaultList,
   DefaultValueMap, Short) *)
Theorem C13_opt_inputs_src : forall sd hn fields fl (w : nworld),
  n_fields w = fields -> n_has_new w = hn -> n_tparams w = type_params sd -> n_tpmap w = type_params_map sd ->
  nf_short (n_flags w) = fl_short fl ->
  let nd := make_new sd hn fields in
  exists w', makeNew nb w = (Returned tt, w')
    /\ od_options (make_opt fl sd nd)
       = map (fun f => (opt_fn_name (d_short w') (tmpl_type_name sd nd) f, f, assoc_str f (d_typemap w'))) (d_all w')
    /\ od_defaults (make_opt fl sd nd) = map (fun f => (f, assoc_str f (d_defmap w'))) (d_deflist w')
    /\ od_has_default (make_opt fl sd nd) = match d_deflist w' with [] => false | _ => true end.
Proof.
  intros sd hn fields fl w F H T M S nd.
  destruct (C02_make_new_src sd hn fields (n_flags w) w F H T M eq_refl)
    as (w' & E & A1 & A2 & A3 & A4 & A5 & A6 & A7 & A8 & A9 & A10).
  exists w'. split; [exact E|]. unfold make_opt. cbn [od_options od_defaults od_has_default].
  fold nd. rewrite A1, A3, A4, A5, A10, S. auto.
Qed.

End Bridge.

Print Assumptions newParamsList_is_model.
Print Assumptions loop2_is_model.
Print Assumptions loop1_is_model.
Print Assumptions makeNew_is_model.
Print Assumptions C02_make_new_src.
Print Assumptions C13_opt_inputs_src.
