(* Primitive table of the Go->Gallina translator (harness/go/cmd/go2gallina),
   area "retry": the meaning given to the Go types and calls that
   middleware/retry.go uses and that the translator does not look into.
   This file is the TRUSTED BASE of the translation tie for C20 (together with
   the translator itself): everything else of RetryMiddleware is translated from
   the source text on every run.

     *http.Response      option resp        (nil = None; field StatusCode = r_status)
     error               option nat         (nil = None; an error value is an identity)
     *http.Request       unit               (only passed on)
     http.RoundTripper   unit               (its behaviour is the script in the world)
     int, time.Duration  Z                  (no overflow: the translated code only counts attempts)

     next.RoundTrip(req) the next outcome of the script: the i-th call (0-based,
                         counted in the world) returns [script i] and is recorded as [ECall i]
     time.Sleep(d)       recorded as [ESleep]
     log.Printf(...)     no effect (its arguments are not evaluated)
   No proofs in this file. *)
From Coq Require Import List ZArith Bool.
From Shoot Require Import Model.Retry.
From Shoot Require Export Bridge.GoPrims.
Import ListNotations.

Record world := {
  w_script : nat -> rt_out;     (* what the wrapped transport answers to the i-th call *)
  w_calls : nat;                (* calls of next.RoundTrip so far *)
  w_events : list event         (* calls and sleeps so far, oldest first *)
}.

Definition init_world (script : nat -> rt_out) : world :=
  {| w_script := script; w_calls := 0; w_events := [] |}.

Definition prim_round_trip (w : world) : (option resp * option nat) * world :=
  (as_result (w_script w (w_calls w)),
   {| w_script := w_script w; w_calls := S (w_calls w);
      w_events := w_events w ++ [ECall (w_calls w)] |}).

Definition prim_sleep (d : Z) (w : world) : world :=
  {| w_script := w_script w; w_calls := w_calls w; w_events := w_events w ++ [ESleep] |}.

Definition prim_log (w : world) : world := w.
