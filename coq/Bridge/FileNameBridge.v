(* Translation tie for output file names: [ShootGen.FileNameGen] is written on
   every run by harness/go/cmd/go2gallina from the CURRENT text of
   /repo/internal/shoot/common.go (FixPath) and generatorbase.go (fileName); this
   file proves them equal to [fix_path] and [file_name] of Model/Cli.v (the C16
   model, owned by the C16 check: imported, not edited). *)
From Coq Require Import List ZArith Bool String Ascii Lia.
From Shoot Require Import Base.Str Model.Cli Bridge.GoPrims Bridge.CliPrims Bridge.StrFacts.
From ShootGen Require Import FileNameGen.
Import ListNotations.
Local Open Scope string_scope.

Ltac zbool :=
  repeat match goal with
  | |- context [(?a <=? ?b)%Z] => destruct (Z.leb_spec a b); try lia
  | |- context [(?a <? ?b)%Z] => destruct (Z.ltb_spec a b); try lia
  | |- context [(?a >=? ?b)%Z] => rewrite (Z.geb_leb a b)
  | |- context [(?a >? ?b)%Z] => rewrite (Z.gtb_ltb a b)
  | |- context [(?a =? ?b)%Z] => destruct (Z.eqb_spec a b); try lia
  end.

Theorem FixPath_is_model : forall s, FixPath s = fix_path s.
Proof.
  intros s. unfold FixPath, fix_path, is_abs, str_len.
  destruct s as [|c r]; [reflexivity|]. cbn [String.eqb String.length]. zbool.
  destruct (has_prefix "." (String c r)); destruct (has_prefix "/" (String c r)); reflexivity.
Qed.

Lemma trim_suffix_go : forall s, go_trim_suffix ".go" s = trim_go s.
Proof.
  induction s as [|c s IH]; [reflexivity|].
  cbn [go_trim_suffix trim_go]. rewrite IH. reflexivity.
Qed.

(* the generator state that fileName reads, built from the model's view of a run *)
Definition gbase_of (c : subcmd) (fl : cflags) (aio : string) (fmap : list (string * string)) : gbase :=
  {| g_sub := sub_name c; g_flags := {| f_file := fl_file fl |}; g_aio := aio; g_fmap := fmap |}.

Theorem fileName_is_model : forall c fl aio fmap T,
  fileName (gbase_of c fl aio fmap) T false tt = (Returned (file_name c fl aio fmap T), tt).
Proof.
  intros c fl aio fmap T. unfold fileName, file_name, gbase_of, shootcmd, type_part, map_get.
  cbn [g_sub g_flags g_aio g_fmap f_file].
  destruct (String.eqb (fl_file fl) ""); cbn [negb];
    [destruct (String.eqb aio ""); cbn [negb]|];
    rewrite trim_suffix_go;
    destruct (String.eqb T ""); rewrite ?sapp_assoc; try reflexivity;
    destruct (is_exported T); rewrite ?sapp_assoc; reflexivity.
Qed.

(* pkgScope = true (the name of a file for a package-scope run): <shoot><sub>.<type>.go *)
Theorem fileName_pkg_scope : forall c fl aio fmap T,
  fileName (gbase_of c fl aio fmap) T true tt = (Returned (shootcmd c ++ "." ++ T ++ ".go"), tt).
Proof. intros. unfold fileName. cbn [gbase_of g_sub]. rewrite ?sapp_assoc. reflexivity. Qed.

Print Assumptions FixPath_is_model.
Print Assumptions fileName_is_model.
