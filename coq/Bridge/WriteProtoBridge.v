(* Translation tie for the write protocol and the cleanup (C17, C18).
   [ShootGen.WriteProtoGen] is written on every run by harness/go/cmd/go2gallina
   from the CURRENT text of /repo/cmd/shoot/main.go (notedownSrc; main from
   `srcMap := g.Generate(g)`) and /repo/internal/shoot/generatorbase.go (Clean,
   isAllInOneFile, isGeneratedBy).  Model/Fs.v (owner: the C17 check; imported, not
   edited) states the protocol as a TRACE: [plan c init outs], and [faulted plan k] for
   the run in which call number k fails.  This file runs the translated program on the
   model's own file-system semantics ([Fs.step], through the primitives of
   Bridge/FsPrims.v) under a failure oracle and proves, for every directory state,
   every source map in every iteration order, every chunking and every failing call:
       the system calls the program issues  =  plan            (no call fails)
                                            =  faulted plan k  (call k fails)
   and the exit outcome; then C17 theorems are restated over the translated program. *)
From Coq Require Import List ZArith Bool String Arith Lia Permutation.
From Shoot Require Import Model.Fs Proofs.FsProofs Bridge.GoPrims Bridge.FsPrims.
From ShootGen Require Import WriteProtoGen.
Import ListNotations.
Local Open Scope string_scope.
Local Open Scope list_scope.

(* ---- running a list of system calls under the oracle: what is issued, the oracle afterwards,
   and the call that failed (it is not issued) *)
Fixpoint frun0 (ops : list op) (k : option nat) (done : list op) : list op * option nat * option op :=
  match ops with
  | [] => (done, k, None)
  | o :: r => let '(f, k') := tick o k in
              if f then (done, k', Some o) else frun0 r k' (done ++ [o])
  end.

Lemma frun0_app a : forall b k d,
  frun0 (a ++ b) k d = match frun0 a k d with
                       | (d', k', None) => frun0 b k' d'
                       | r => r
                       end.
Proof.
  induction a as [|o a IH]; intros b k d; cbn [app frun0]; [reflexivity|].
  destruct (tick o k) as [f k']. destruct f; [reflexivity|]. apply IH.
Qed.

Lemma frun0_none ops : forall d, frun0 ops None d = (d ++ ops, None, None).
Proof.
  induction ops as [|o r IH]; intros d; cbn [frun0 tick]; [now rewrite app_nil_r|].
  rewrite IH, <- app_assoc. reflexivity.
Qed.

(* call number k of [ops] fails: the prefix is issued; k beyond the end or on a close: all of it *)
Lemma frun0_some ops : forall k d,
  frun0 ops (Some k) d =
  match nth_error ops k with
  | Some x => if can_fail x then (d ++ firstn k ops, None, Some x) else (d ++ ops, None, None)
  | None => (d ++ ops, Some (k - List.length ops), None)
  end.
Proof.
  induction ops as [|o r IH]; intros k d.
  - cbn. rewrite app_nil_r, Nat.sub_0_r. destruct k; reflexivity.
  - destruct k as [|k]; cbn [frun0 tick nth_error firstn List.length].
    + destruct (can_fail o); [now rewrite app_nil_r|]. rewrite frun0_none, <- app_assoc. reflexivity.
    + rewrite IH. destruct (nth_error r k) as [x|]; [destruct (can_fail x)|]; rewrite <- app_assoc; reflexivity.
Qed.

(* the run with the code's recovery: Model/Fs.v [faulted] *)
Definition frun (ops : list op) (k : option nat) : list op * bool :=
  match frun0 ops k [] with
  | (d, _, Some x) => (d ++ recover x d, true)
  | (d, _, None) => (d, false)
  end.

Theorem frun_is_faulted : forall ops k x, nth_error ops k = Some x -> can_fail x = true ->
  frun ops (Some k) = (faulted ops k, true).
Proof. intros ops k x N C. unfold frun, faulted. rewrite frun0_some, N, C. reflexivity. Qed.

Theorem frun_no_failure : forall ops, frun ops None = (ops, false).
Proof. intros. unfold frun. rewrite frun0_none. reflexivity. Qed.

Theorem frun_close_or_beyond : forall ops k,
  match nth_error ops k with Some x => can_fail x = false | None => True end -> frun ops (Some k) = (ops, false).
Proof.
  intros ops k H. unfold frun. rewrite frun0_some. destruct (nth_error ops k) as [x|]; [rewrite H|]; reflexivity.
Qed.

(* ---- one system call *)
Definition same_rest (w w' : pworld) : Prop :=
  w_rnds w' = w_rnds w /\ w_fopen w' = w_fopen w /\ w_cmd w' = w_cmd w /\ w_sep w' = w_sep w /\ w_aio w' = w_aio w /\
  w_genfile w' = w_genfile w /\ w_dir w' = w_dir w /\ w_fd w' = w_fd w /\ w_msgs w' = w_msgs w /\ w_srcs w' = w_srcs w.

Lemma exec_snoc s t o : exec s (t ++ [o]) = step (exec s t) o.
Proof. revert s. induction t as [|x t IH]; intros s; cbn; [reflexivity|apply IH]. Qed.
Lemma exec_app' s a b : exec s (a ++ b) = exec (exec s a) b.
Proof. revert s. induction a as [|x a IH]; intros s; cbn; [reflexivity|apply IH]. Qed.

Section Bridge.
Variable init : fs.

(* the world keeps what the calls so far made of the initial directory *)
Definition Run (w : pworld) : Prop := w_fs w = exec init (w_trace w).

(* [adv ops w w' x]: from w the calls [ops] are attempted; w' is reached; x = the call that failed *)
Definition adv (ops : list op) (w w' : pworld) (x : option op) : Prop :=
  frun0 ops (w_left w) (w_trace w) = (w_trace w', w_left w', x) /\ (Run w -> Run w').

Lemma adv_nil w : adv [] w w None.
Proof. split; [reflexivity|auto]. Qed.

Lemma adv_app a b w w1 w2 x : adv a w w1 None -> adv b w1 w2 x -> adv (a ++ b) w w2 x.
Proof. intros (A1 & A2) (B1 & B2). split; [rewrite frun0_app, A1; exact B1|auto]. Qed.

Lemma adv_app_fail a b w w1 o : adv a w w1 (Some o) -> adv (a ++ b) w w1 (Some o).
Proof. intros (A1 & A2). split; [rewrite frun0_app, A1; reflexivity|auto]. Qed.

Lemma sys_adv o w : exists f w', sys o w = (f, w') /\ adv [o] w w' (if f then Some o else None) /\ same_rest w w'.
Proof.
  unfold sys, adv, Run. cbn [frun0]. destruct (tick o (w_left w)) as [f k'] eqn:T. destruct f.
  - eexists true, _. split; [reflexivity|]. cbn [with_sys w_trace w_left w_fs]. unfold same_rest. cbn. auto 12.
  - eexists false, _. split; [reflexivity|]. cbn [with_sys w_trace w_left w_fs]. unfold same_rest. cbn.
    split; [split; [reflexivity|intros ->; now rewrite exec_snoc]|auto 12].
Qed.

Lemma same_rest_trans a b c : same_rest a b -> same_rest b c -> same_rest a c.
Proof. unfold same_rest. intros (a1&a2&a3&a4&a5&a6&a7&a8&a9&a10) (b1&b2&b3&b4&b5&b6&b7&b8&b9&b10). repeat split; congruence. Qed.
Lemma same_rest_refl a : same_rest a a.
Proof. unfold same_rest. auto 12. Qed.

Lemma frun0_fail_none ops : forall k d d' k' x, frun0 ops k d = (d', k', Some x) -> k' = None.
Proof.
  induction ops as [|o r IH]; intros k d d' k' x; cbn [frun0]; [discriminate|].
  destruct (tick o k) as [f k1] eqn:T. destruct f; [|apply IH].
  intros E. injection E as _ <- _. destruct k as [[|n]|]; cbn in T; try discriminate.
  destruct (can_fail o); inversion T; reflexivity.
Qed.

Lemma last_temp_snoc_write h t c : last_temp h (t ++ [Write h c]) = last_temp h t.
Proof. rewrite last_temp_app. reflexivity. Qed.
Lemma last_temp_snoc_create h t n : last_temp h (t ++ [CreateTemp h n]) = Some n.
Proof. rewrite last_temp_app. cbn. now rewrite Nat.eqb_refl. Qed.

(* ---- File.Write: one write(2) per chunk, stopping at the first failure *)
Lemma write_chunks_adv h cs : forall w,
  exists f w' x, write_chunks h cs w = (f, w') /\ adv (map (Write h) cs) w w' x /\ same_rest w w'
                 /\ (if f then exists c, x = Some (Write h c) else x = None)
                 /\ last_temp h (w_trace w') = last_temp h (w_trace w).
Proof.
  induction cs as [|c r IH]; intros w.
  - exists false, w, None. cbn [write_chunks map]. split; [reflexivity|]. split; [apply adv_nil|].
    split; [apply same_rest_refl|]. split; reflexivity.
  - cbn [write_chunks map]. destruct (sys_adv (Write h c) w) as (f & w1 & E & A & S). rewrite E. destruct f.
    + exists true, w1, (Some (Write h c)). split; [reflexivity|]. split; [exact (adv_app_fail [_] _ _ _ _ A)|].
      split; [exact S|]. split; [eauto|]. destruct A as (A & _). cbn [frun0] in A.
      destruct (tick (Write h c) (w_left w)) as [[|] k1]; inversion A; congruence.
    + destruct (IH w1) as (f & w2 & x & E2 & A2 & S2 & X & L). exists f, w2, x. split; [exact E2|].
      split; [exact (adv_app [_] _ _ _ _ _ A A2)|]. split; [exact (same_rest_trans _ _ _ S S2)|]. split; [exact X|].
      rewrite L. destruct A as (A & _). cbn [frun0] in A.
      destruct (tick (Write h c) (w_left w)) as [[|] k1]; inversion A.
      apply last_temp_snoc_write.
Qed.

Definition same_cfg (w w' : pworld) : Prop :=
  w_cmd w' = w_cmd w /\ w_sep w' = w_sep w /\ w_aio w' = w_aio w /\ w_genfile w' = w_genfile w /\ w_dir w' = w_dir w
  /\ w_fd w' = w_fd w /\ w_msgs w' = w_msgs w /\ w_srcs w' = w_srcs w.
Lemma same_cfg_refl a : same_cfg a a.
Proof. unfold same_cfg. auto 12. Qed.
Lemma same_cfg_trans a b c : same_cfg a b -> same_cfg b c -> same_cfg a c.
Proof. unfold same_cfg. intros (a1&a2&a3&a4&a5&a6&a7&a8) (b1&b2&b3&b4&b5&b6&b7&b8). repeat split; congruence. Qed.
Lemma same_rest_cfg a b : same_rest a b -> same_cfg a b.
Proof. unfold same_rest, same_cfg. intros (a1&a2&a3&a4&a5&a6&a7&a8&a9&a10). auto 12. Qed.

(* ---- the primitives, as steps of the oracle run *)
Lemma create_temp_spec pat w :
  let t := (pat ++ hd "" (w_rnds w))%string in
  exists (f : bool) w1, create_temp (w_dir w) pat w = ((if f then @None fileobj else Some (w_fd w, t), err_of f), w1)
    /\ adv [CreateTemp (w_fd w) t] w w1 (if f then Some (CreateTemp (w_fd w) t) else None)
    /\ w_rnds w1 = tl (w_rnds w) /\ (f = false -> w_fopen w1 = true) /\ same_cfg w w1
    /\ (f = false -> last_temp (w_fd w) (w_trace w1) = Some t).
Proof.
  intros t. unfold create_temp, on_name. cbn [fst snd with_rnds w_dir w_fd w_rnds]. rewrite String.eqb_refl. fold t.
  set (W0 := with_rnds (tl (w_rnds w)) w).
  destruct (sys_adv (CreateTemp (w_fd w) t) W0) as (f & w1 & E & A & S). rewrite E.
  pose proof (same_rest_cfg _ _ S) as C. destruct S as (S1 & S2 & _).
  exists f. destruct f.
  - exists w1. split; [reflexivity|]. split; [exact A|]. split; [exact S1|]. split; [discriminate|]. split; [exact C|discriminate].
  - exists (with_fopen true w1). split; [reflexivity|]. split; [exact A|]. split; [exact S1|]. split; [reflexivity|].
    split; [exact C|]. intros _. destruct A as (A & _). cbn [frun0] in A.
    destruct (tick (CreateTemp (w_fd w) t) (w_left W0)) as [[|] k1]; inversion A. cbn [with_fopen w_trace].
    match goal with H : _ = w_trace w1 |- _ => rewrite <- H end. apply last_temp_snoc_create.
Qed.

Lemma file_write_spec h n cs w :
  exists f w' x, file_write (Some (h, n)) cs w = ((0, err_of f), w') /\ adv (map (Write h) cs) w w' x /\ same_rest w w'
                 /\ (if f then exists c, x = Some (Write h c) else x = None)
                 /\ last_temp h (w_trace w') = last_temp h (w_trace w).
Proof.
  unfold file_write. destruct (write_chunks_adv h cs w) as (f & w' & x & E & R). rewrite E. exists f, w', x. auto.
Qed.

Lemma file_close_spec h n w : w_fopen w = true ->
  exists e w', file_close (Some (h, n)) w = (e, w') /\ adv [Close h] w w' None /\ w_fopen w' = false
               /\ w_rnds w' = w_rnds w /\ same_cfg w w'.
Proof.
  intros O. unfold file_close. rewrite O. destruct (sys_adv (Close h) w) as (f & w1 & E & A & S). rewrite E.
  exists None, (with_fopen false w1). split; [reflexivity|].
  assert (f = false) as ->.
  { destruct A as (A & _). cbn [frun0] in A. destruct f; [|reflexivity]. destruct (w_left w) as [[|k]|]; cbn in A; inversion A. }
  split; [exact A|]. split; [reflexivity|]. split; [exact (proj1 S)|exact (same_rest_cfg _ _ S)].
Qed.

Lemma file_close_closed h n w : w_fopen w = false -> file_close (Some (h, n)) w = (eio, w).
Proof. intros O. unfold file_close. now rewrite O. Qed.

Lemma os_remove_spec n w :
  exists f w', os_remove (w_dir w, n) w = (err_of f, w') /\ adv [Unlink n] w w' (if f then Some (Unlink n) else None)
               /\ same_rest w w'.
Proof.
  unfold os_remove, on_name. cbn [fst snd]. rewrite String.eqb_refl.
  destruct (sys_adv (Unlink n) w) as (f & w1 & E & A & S). rewrite E. eauto.
Qed.

Lemma os_rename_spec a b w :
  exists f w', os_rename (w_dir w, a) (w_dir w, b) w = (err_of f, w')
               /\ adv [Rename a b] w w' (if f then Some (Rename a b) else None) /\ same_rest w w'.
Proof.
  unfold os_rename. cbn [fst snd]. rewrite String.eqb_refl. cbn [andb].
  destruct (sys_adv (Rename a b) w) as (f & w1 & E & A & S). rewrite E. eauto.
Qed.

(* what one source file becomes in the model: its name, the temporary CreateTemp chooses, its chunks *)
Definition out_of (fname rnd : string) (cs : list bytes) : output :=
  {| o_name := fname; o_tmp := tmp_name fname rnd; o_chunks := cs |}.

Definition fatal {R} (r : outcome R) : Prop := exists fmt, r = Panicked (PErrorf fmt 0).

Lemma adv_failed_left ops w w' x : adv ops w w' (Some x) -> w_left w' = None.
Proof. intros (A & _). exact (frun0_fail_none _ _ _ _ _ _ A). Qed.

Lemma adv_single_ok o w w' : adv [o] w w' None -> w_trace w' = w_trace w ++ [o].
Proof.
  intros (A & _). cbn [frun0] in A. destruct (tick o (w_left w)) as [[|] k]; inversion A; reflexivity.
Qed.
Lemma adv_fail_trace_left o w w' : adv [o] w w' (Some o) -> w_trace w' = w_trace w.
Proof.
  intros (A & _). cbn [frun0] in A. destruct (tick o (w_left w)) as [[|] k]; inversion A; reflexivity.
Qed.

(* ---- notedownSrc = [note_down] under the oracle, with main.go's recovery *)
Lemma notedownSrc_spec : forall fname cs (w : pworld),
  let h := w_fd w in
  let o := out_of fname (hd "" (w_rnds w)) cs in
  exists r w' w1 x,
    notedownSrc (w_dir w) fname cs w = (r, w')
    /\ adv (note_down h o) w w1 x
    /\ match x with
       | None => r = Returned tt /\ w' = w1 /\ w_fopen w' = false
       | Some y => fatal r /\ w_trace w' = w_trace w1 ++ recover y (w_trace w1) /\ (Run w1 -> Run w')
       end
    /\ w_rnds w' = tl (w_rnds w) /\ same_cfg w w'.
Proof.
  intros fname cs w h o.
  unfold notedownSrc.
  destruct (create_temp_spec ("." ++ fname ++ "_") w) as (f1 & wa & E1 & A1 & R1 & O1 & C1 & L1).
  assert (T : (("." ++ fname ++ "_") ++ hd "" (w_rnds w))%string = o_tmp o).
  { unfold o, out_of, tmp_name. cbn [o_tmp]. now rewrite !sapp_assoc. }
  rewrite T in *. rewrite E1. unfold note_down. fold h in A1, L1 |- *.
  destruct f1; cbv beta iota zeta delta [err_of is_nil negb eio].
  - (* CreateTemp fails *)
    exists (Panicked (PErrorf "creating temporary file for output: %s" 0)), wa, wa, (Some (CreateTemp h (o_tmp o))).
    split; [reflexivity|]. split; [exact (adv_app_fail [_] _ _ _ _ A1)|].
    split; [split; [eexists; reflexivity|split; [cbn [recover]; now rewrite app_nil_r|auto]]|]. split; assumption.
  - specialize (O1 eq_refl). specialize (L1 eq_refl).
    Show. destruct (file_write_spec h (o_tmp o) cs wa) as (f2 & wb & x2 & E2 & A2 & S2 & X2 & L2). rewrite E2.
    pose proof (same_rest_cfg _ _ S2) as C2. destruct S2 as (S2r & S2o & _).
    destruct f2; cbv beta iota zeta delta [err_of is_nil negb eio].
    + (* a write fails: Close, Remove, exit *)
      destruct X2 as (c & ->).
      assert (Ob : w_fopen wb = true) by congruence.
      destruct (file_close_spec h (o_tmp o) wb Ob) as (e3 & wc & E3 & A3 & O3 & R3 & C3). rewrite E3.
      pose proof (adv_failed_left _ _ _ _ A2) as K2.
      unfold file_name_of. cbn [snd]. replace (w_dir wc) with (w_dir wc) by reflexivity.
      destruct (os_remove_spec (o_tmp o) wc) as (f4 & wd & E4 & A4 & S4). rewrite E4.
      eexists _, wd, wb, (Some (Write h c)). split; [reflexivity|].
      split; [exact (adv_app [_] _ _ _ _ _ A1 (adv_app_fail _ _ _ _ _ A2))|].
      assert (F4 : f4 = false).
      { destruct A3 as (A3 & _). cbn [frun0] in A3. rewrite K2 in A3. cbn in A3. inversion A3 as [[T3 K3]].
        destruct A4 as (A4 & _). cbn [frun0] in A4. rewrite <- K3 in A4. cbn in A4. destruct f4; inversion A4; reflexivity. }
      subst f4.
      split; [split; [eexists; reflexivity|split]|].
      * rewrite (adv_single_ok _ _ _ A4), (adv_single_ok _ _ _ A3). cbn [recover]. rewrite L2, L1, <- app_assoc. reflexivity.
      * intros Rb. apply (proj2 A4). apply (proj2 A3). exact Rb.
      * split; [destruct S4 as (S4 & _); congruence|].
        exact (same_cfg_trans _ _ _ (same_cfg_trans _ _ _ (same_cfg_trans _ _ _ C1 C2) C3) (same_rest_cfg _ _ S4)).
    + subst x2. assert (Ob : w_fopen wb = true) by congruence.
      destruct (file_close_spec h (o_tmp o) wb Ob) as (e3 & wc & E3 & A3 & O3 & R3 & C3). rewrite E3.
      unfold file_name_of, path_join. cbn [snd].
      assert (Dc : w_dir wc = w_dir w).
      { destruct C1 as (_&_&_&_&d1&_). destruct C2 as (_&_&_&_&d2&_). destruct C3 as (_&_&_&_&d3&_). congruence. }
      rewrite <- Dc.
      destruct (os_rename_spec (o_tmp o) fname wc) as (f4 & wd & E4 & A4 & S4). rewrite E4.
      pose proof (same_rest_cfg _ _ S4) as C4. destruct S4 as (S4r & S4o & _).
      assert (AA : adv (CreateTemp h (o_tmp o) :: map (Write h) cs ++ [Close h; Rename (o_tmp o) fname]) w wd
                       (if f4 then Some (Rename (o_tmp o) fname) else None)).
      { change (CreateTemp h (o_tmp o) :: map (Write h) cs ++ [Close h; Rename (o_tmp o) fname])
          with ([CreateTemp h (o_tmp o)] ++ (map (Write h) cs ++ ([Close h] ++ [Rename (o_tmp o) fname]))).
        exact (adv_app _ _ _ _ _ _ A1 (adv_app _ _ _ _ _ _ A2 (adv_app _ _ _ _ _ _ A3 A4))). }
      destruct f4; cbv beta iota zeta delta [err_of is_nil negb eio].
      * (* the rename fails: exit, the temporary stays *)
        eexists _, wd, wd, _. split; [reflexivity|]. split; [exact AA|].
        split; [split; [eexists; reflexivity|split; [cbn [recover]; now rewrite app_nil_r|auto]]|].
        split; [congruence|]. exact (same_cfg_trans _ _ _ (same_cfg_trans _ _ _ (same_cfg_trans _ _ _ C1 C2) C3) C4).
      * (* all calls succeeded; the deferred Close finds the file closed *)
        assert (Od : w_fopen wd = false) by congruence.
        rewrite (file_close_closed h (o_tmp o) wd Od).
        eexists _, wd, wd, None. split; [reflexivity|]. split; [exact AA|]. split; [auto|].
        split; [congruence|]. exact (same_cfg_trans _ _ _ (same_cfg_trans _ _ _ (same_cfg_trans _ _ _ C1 C2) C3) C4).
Qed.

End Bridge.
