(* Translation tie for the write protocol and the cleanup (C17, C18).
   [ShootGen.WriteProtoGen] is written on every run by harness/go/cmd/go2gallina
   from the CURRENT text of /repo/cmd/shoot/main.go (notedownSrc; main from
   `srcMap := g.Generate(g)`) and /repo/internal/shoot/generatorbase.go (Clean,
   isAllInOneFile, isGeneratedBy).  Model/Fs.v (owner: the C17 check; imported, not
   edited) states the protocol as a TRACE: [plan c init outs], and [faulted plan k] for
   the run in which call number k fails.  This file runs the translated program on the
   model's own file-system semantics ([Fs.step], through the primitives of
   Bridge/FsPrims.v) under a failure oracle and proves, for every directory state,
   every source map in every iteration order, every chunking and every failing call:
       the system calls the program issues  =  plan            (no call fails)
                                            =  faulted plan k  (call k fails)
   and the exit outcome; then C17 theorems are restated over the translated program. *)
From Coq Require Import List ZArith Bool String Arith Lia Permutation.
From Shoot Require Import Model.Fs Proofs.FsProofs Bridge.GoPrims Bridge.FsPrims.
From ShootGen Require Import WriteProtoGen.
Import ListNotations.
Local Open Scope string_scope.
Local Open Scope list_scope.

(* ---- running a list of system calls under the oracle: what is issued, the oracle afterwards,
   and the call that failed (it is not issued) *)
Fixpoint frun0 (ops : list op) (k : option nat) (done : list op) : list op * option nat * option op :=
  match ops with
  | [] => (done, k, None)
  | o :: r => let '(f, k') := tick o k in
              if f then (done, k', Some o) else frun0 r k' (done ++ [o])
  end.

Lemma frun0_app a : forall b k d,
  frun0 (a ++ b) k d = match frun0 a k d with
                       | (d', k', None) => frun0 b k' d'
                       | r => r
                       end.
Proof.
  induction a as [|o a IH]; intros b k d; cbn [app frun0]; [reflexivity|].
  destruct (tick o k) as [f k']. destruct f; [reflexivity|]. apply IH.
Qed.

Lemma frun0_none ops : forall d, frun0 ops None d = (d ++ ops, None, None).
Proof.
  induction ops as [|o r IH]; intros d; cbn [frun0 tick]; [now rewrite app_nil_r|].
  rewrite IH, <- app_assoc. reflexivity.
Qed.

(* call number k of [ops] fails: the prefix is issued; k beyond the end or on a close: all of it *)
Lemma frun0_some ops : forall k d,
  frun0 ops (Some k) d =
  match nth_error ops k with
  | Some x => if can_fail x then (d ++ firstn k ops, None, Some x) else (d ++ ops, None, None)
  | None => (d ++ ops, Some (k - List.length ops), None)
  end.
Proof.
  induction ops as [|o r IH]; intros k d.
  - cbn. rewrite app_nil_r, Nat.sub_0_r. destruct k; reflexivity.
  - destruct k as [|k]; cbn [frun0 tick nth_error firstn List.length].
    + destruct (can_fail o); [now rewrite app_nil_r|]. rewrite frun0_none, <- app_assoc. reflexivity.
    + rewrite IH. destruct (nth_error r k) as [x|]; [destruct (can_fail x)|]; rewrite <- app_assoc; reflexivity.
Qed.

(* the run with the code's recovery: Model/Fs.v [faulted] *)
Definition frun (ops : list op) (k : option nat) : list op * bool :=
  match frun0 ops k [] with
  | (d, _, Some x) => (d ++ recover x d, true)
  | (d, _, None) => (d, false)
  end.

Theorem frun_is_faulted : forall ops k x, nth_error ops k = Some x -> can_fail x = true ->
  frun ops (Some k) = (faulted ops k, true).
Proof. intros ops k x N C. unfold frun, faulted. rewrite frun0_some, N, C. reflexivity. Qed.

Theorem frun_no_failure : forall ops, frun ops None = (ops, false).
Proof. intros. unfold frun. rewrite frun0_none. reflexivity. Qed.

Theorem frun_close_or_beyond : forall ops k,
  match nth_error ops k with Some x => can_fail x = false | None => True end -> frun ops (Some k) = (ops, false).
Proof.
  intros ops k H. unfold frun. rewrite frun0_some. destruct (nth_error ops k) as [x|]; [rewrite H|]; reflexivity.
Qed.

(* ---- one system call *)
Definition same_rest (w w' : pworld) : Prop :=
  w_rnds w' = w_rnds w /\ w_fopen w' = w_fopen w /\ w_cmd w' = w_cmd w /\ w_sep w' = w_sep w /\ w_aio w' = w_aio w /\
  w_genfile w' = w_genfile w /\ w_dir w' = w_dir w /\ w_fd w' = w_fd w /\ w_msgs w' = w_msgs w /\ w_srcs w' = w_srcs w.

Lemma exec_snoc s t o : exec s (t ++ [o]) = step (exec s t) o.
Proof. revert s. induction t as [|x t IH]; intros s; cbn; [reflexivity|apply IH]. Qed.
Lemma exec_app' s a b : exec s (a ++ b) = exec (exec s a) b.
Proof. revert s. induction a as [|x a IH]; intros s; cbn; [reflexivity|apply IH]. Qed.

Section Bridge.
Variable init : fs.

(* the world keeps what the calls so far made of the initial directory *)
Definition Run (w : pworld) : Prop := w_fs w = exec init (w_trace w).

(* [adv ops w w' x]: from w the calls [ops] are attempted; w' is reached; x = the call that failed *)
Definition adv (ops : list op) (w w' : pworld) (x : option op) : Prop :=
  frun0 ops (w_left w) (w_trace w) = (w_trace w', w_left w', x) /\ (Run w -> Run w').

Lemma adv_nil w : adv [] w w None.
Proof. split; [reflexivity|auto]. Qed.

Lemma adv_app a b w w1 w2 x : adv a w w1 None -> adv b w1 w2 x -> adv (a ++ b) w w2 x.
Proof. intros (A1 & A2) (B1 & B2). split; [rewrite frun0_app, A1; exact B1|auto]. Qed.

Lemma adv_app_fail a b w w1 o : adv a w w1 (Some o) -> adv (a ++ b) w w1 (Some o).
Proof. intros (A1 & A2). split; [rewrite frun0_app, A1; reflexivity|auto]. Qed.

Lemma sys_adv o w : exists f w', sys o w = (f, w') /\ adv [o] w w' (if f then Some o else None) /\ same_rest w w'.
Proof.
  unfold sys, adv, Run. cbn [frun0]. destruct (tick o (w_left w)) as [f k'] eqn:T. destruct f.
  - eexists true, _. split; [reflexivity|]. cbn [with_sys w_trace w_left w_fs]. unfold same_rest. cbn. auto 12.
  - eexists false, _. split; [reflexivity|]. cbn [with_sys w_trace w_left w_fs]. unfold same_rest. cbn.
    split; [split; [reflexivity|intros ->; now rewrite exec_snoc]|auto 12].
Qed.

Lemma same_rest_trans a b c : same_rest a b -> same_rest b c -> same_rest a c.
Proof. unfold same_rest. intros (a1&a2&a3&a4&a5&a6&a7&a8&a9&a10) (b1&b2&b3&b4&b5&b6&b7&b8&b9&b10). repeat split; congruence. Qed.
Lemma same_rest_refl a : same_rest a a.
Proof. unfold same_rest. auto 12. Qed.

Lemma frun0_fail_none ops : forall k d d' k' x, frun0 ops k d = (d', k', Some x) -> k' = None.
Proof.
  induction ops as [|o r IH]; intros k d d' k' x; cbn [frun0]; [discriminate|].
  destruct (tick o k) as [f k1] eqn:T. destruct f; [|apply IH].
  intros E. injection E as _ <- _. destruct k as [[|n]|]; cbn in T; try discriminate.
  destruct (can_fail o); inversion T; reflexivity.
Qed.

Lemma last_temp_snoc_write h t c : last_temp h (t ++ [Write h c]) = last_temp h t.
Proof. rewrite last_temp_app. reflexivity. Qed.
Lemma last_temp_snoc_create h t n : last_temp h (t ++ [CreateTemp h n]) = Some n.
Proof. rewrite last_temp_app. cbn. now rewrite Nat.eqb_refl. Qed.

(* ---- File.Write: one write(2) per chunk, stopping at the first failure *)
Lemma write_chunks_adv h cs : forall w,
  exists f w' x, write_chunks h cs w = (f, w') /\ adv (map (Write h) cs) w w' x /\ same_rest w w'
                 /\ (if f then exists c, x = Some (Write h c) else x = None)
                 /\ last_temp h (w_trace w') = last_temp h (w_trace w).
Proof.
  induction cs as [|c r IH]; intros w.
  - exists false, w, None. cbn [write_chunks map]. split; [reflexivity|]. split; [apply adv_nil|].
    split; [apply same_rest_refl|]. split; reflexivity.
  - cbn [write_chunks map]. destruct (sys_adv (Write h c) w) as (f & w1 & E & A & S). rewrite E. destruct f.
    + exists true, w1, (Some (Write h c)). split; [reflexivity|]. split; [exact (adv_app_fail [_] _ _ _ _ A)|].
      split; [exact S|]. split; [eauto|]. destruct A as (A & _). cbn [frun0] in A.
      destruct (tick (Write h c) (w_left w)) as [[|] k1]; inversion A; congruence.
    + destruct (IH w1) as (f & w2 & x & E2 & A2 & S2 & X & L). exists f, w2, x. split; [exact E2|].
      split; [exact (adv_app [_] _ _ _ _ _ A A2)|]. split; [exact (same_rest_trans _ _ _ S S2)|]. split; [exact X|].
      rewrite L. destruct A as (A & _). cbn [frun0] in A.
      destruct (tick (Write h c) (w_left w)) as [[|] k1]; inversion A.
      apply last_temp_snoc_write.
Qed.

Definition same_cfg (w w' : pworld) : Prop :=
  w_cmd w' = w_cmd w /\ w_sep w' = w_sep w /\ w_aio w' = w_aio w /\ w_genfile w' = w_genfile w /\ w_dir w' = w_dir w
  /\ w_fd w' = w_fd w /\ w_msgs w' = w_msgs w /\ w_srcs w' = w_srcs w.
Lemma same_cfg_refl a : same_cfg a a.
Proof. unfold same_cfg. auto 12. Qed.
Lemma same_cfg_trans a b c : same_cfg a b -> same_cfg b c -> same_cfg a c.
Proof. unfold same_cfg. intros (a1&a2&a3&a4&a5&a6&a7&a8) (b1&b2&b3&b4&b5&b6&b7&b8). repeat split; congruence. Qed.
Lemma same_rest_cfg a b : same_rest a b -> same_cfg a b.
Proof. unfold same_rest, same_cfg. intros (a1&a2&a3&a4&a5&a6&a7&a8&a9&a10). auto 12. Qed.

(* ---- the primitives, as steps of the oracle run *)
Lemma create_temp_spec pat w :
  let t := (pat ++ hd "" (w_rnds w))%string in
  exists (f : bool) w1, create_temp (w_dir w) pat w = ((if f then @None fileobj else Some (w_fd w, t), err_of f), w1)
    /\ adv [CreateTemp (w_fd w) t] w w1 (if f then Some (CreateTemp (w_fd w) t) else None)
    /\ w_rnds w1 = tl (w_rnds w) /\ (f = false -> w_fopen w1 = true) /\ same_cfg w w1
    /\ (f = false -> last_temp (w_fd w) (w_trace w1) = Some t).
Proof.
  intros t. unfold create_temp, on_name. cbn [fst snd with_rnds w_dir w_fd w_rnds]. rewrite String.eqb_refl. fold t.
  set (W0 := with_rnds (tl (w_rnds w)) w).
  destruct (sys_adv (CreateTemp (w_fd w) t) W0) as (f & w1 & E & A & S). rewrite E.
  pose proof (same_rest_cfg _ _ S) as C. destruct S as (S1 & S2 & _).
  exists f. destruct f.
  - exists w1. split; [reflexivity|]. split; [exact A|]. split; [exact S1|]. split; [discriminate|]. split; [exact C|discriminate].
  - exists (with_fopen true w1). split; [reflexivity|]. split; [exact A|]. split; [exact S1|]. split; [reflexivity|].
    split; [exact C|]. intros _. destruct A as (A & _). cbn [frun0] in A.
    destruct (tick (CreateTemp (w_fd w) t) (w_left W0)) as [[|] k1]; inversion A. cbn [with_fopen w_trace].
    match goal with H : _ = w_trace w1 |- _ => rewrite <- H end. apply last_temp_snoc_create.
Qed.

Lemma file_write_spec (fo : nat * string) cs w :
  let h := fst fo in
  exists f w' x, file_write (Some fo) cs w = ((0, err_of f), w') /\ adv (map (Write h) cs) w w' x /\ same_rest w w'
                 /\ (if f then exists c, x = Some (Write h c) else x = None)
                 /\ last_temp h (w_trace w') = last_temp h (w_trace w).
Proof.
  destruct fo as [h n]. cbn [fst]. unfold file_write. destruct (write_chunks_adv h cs w) as (f & w' & x & E & R). rewrite E. exists f, w', x. auto.
Qed.

Lemma file_close_spec (fo : nat * string) w : w_fopen w = true ->
  exists e w', file_close (Some fo) w = (e, w') /\ adv [Close (fst fo)] w w' None /\ w_fopen w' = false
               /\ w_rnds w' = w_rnds w /\ same_cfg w w'.
Proof.
  destruct fo as [h n]. cbn [fst]. intros O. unfold file_close. rewrite O. destruct (sys_adv (Close h) w) as (f & w1 & E & A & S). rewrite E.
  exists None, (with_fopen false w1). split; [reflexivity|].
  assert (f = false) as ->.
  { destruct A as (A & _). cbn [frun0] in A. destruct f; [|reflexivity]. destruct (w_left w) as [[|k]|]; cbn in A; inversion A. }
  split; [exact A|]. split; [reflexivity|]. split; [exact (proj1 S)|exact (same_rest_cfg _ _ S)].
Qed.

Lemma file_close_closed (fo : nat * string) w : w_fopen w = false -> file_close (Some fo) w = (eio, w).
Proof. destruct fo. intros O. unfold file_close. now rewrite O. Qed.

Lemma os_remove_spec (p : string * string) w : fst p = w_dir w ->
  let n := snd p in
  exists f w', os_remove p w = (err_of f, w') /\ adv [Unlink n] w w' (if f then Some (Unlink n) else None)
               /\ same_rest w w'.
Proof.
  destruct p as [d n]. cbn [fst snd]. intros ->.
  unfold os_remove, on_name. cbn [fst snd]. rewrite String.eqb_refl.
  destruct (sys_adv (Unlink n) w) as (f & w1 & E & A & S). rewrite E. eauto.
Qed.

Lemma os_rename_spec (pa pb : string * string) w : fst pa = w_dir w -> fst pb = w_dir w ->
  let a := snd pa in let b := snd pb in
  exists f w', os_rename pa pb w = (err_of f, w')
               /\ adv [Rename a b] w w' (if f then Some (Rename a b) else None) /\ same_rest w w'.
Proof.
  destruct pa as [da a], pb as [db b]. cbn [fst snd]. intros -> ->.
  unfold os_rename. cbn [fst snd]. rewrite String.eqb_refl. cbn [andb].
  destruct (sys_adv (Rename a b) w) as (f & w1 & E & A & S). rewrite E. eauto.
Qed.

(* what one source file becomes in the model: its name, the temporary CreateTemp chooses, its chunks *)
Definition out_of (fname rnd : string) (cs : list bytes) : output :=
  {| o_name := fname; o_tmp := tmp_name fname rnd; o_chunks := cs |}.

Definition fatal {R} (r : outcome R) : Prop := exists fmt, r = Panicked (PErrorf fmt 0).

Lemma adv_failed_left ops w w' x : adv ops w w' (Some x) -> w_left w' = None.
Proof. intros (A & _). exact (frun0_fail_none _ _ _ _ _ _ A). Qed.

Lemma adv_single_ok o w w' : adv [o] w w' None -> w_trace w' = w_trace w ++ [o].
Proof.
  intros (A & _). cbn [frun0] in A. destruct (tick o (w_left w)) as [[|] k]; inversion A; reflexivity.
Qed.
Lemma adv_fail_trace_left o w w' : adv [o] w w' (Some o) -> w_trace w' = w_trace w.
Proof.
  intros (A & _). cbn [frun0] in A. destruct (tick o (w_left w)) as [[|] k]; inversion A; reflexivity.
Qed.

(* ---- notedownSrc = [note_down] under the oracle, with main.go's recovery *)
Lemma notedownSrc_spec : forall fname cs (w : pworld),
  let h := w_fd w in
  let o := out_of fname (hd "" (w_rnds w)) cs in
  exists r w' w1 x,
    notedownSrc (w_dir w) fname cs w = (r, w')
    /\ adv (note_down h o) w w1 x
    /\ match x with
       | None => r = Returned tt /\ w' = w1 /\ w_fopen w' = false
       | Some y => fatal r /\ w_trace w' = w_trace w1 ++ recover y (w_trace w1) /\ (Run w1 -> Run w')
       end
    /\ w_rnds w' = tl (w_rnds w) /\ same_cfg w w'.
Proof.
  intros fname cs w h o.
  unfold notedownSrc.
  destruct (create_temp_spec ("." ++ fname ++ "_") w) as (f1 & wa & E1 & A1 & R1 & O1 & C1 & L1).
  assert (T : (("." ++ fname ++ "_") ++ hd "" (w_rnds w))%string = o_tmp o).
  { unfold o, out_of, tmp_name. cbn [o_tmp]. now rewrite !sapp_assoc. }
  rewrite T in *. rewrite E1. unfold note_down. fold h in A1, L1 |- *.
  destruct f1; cbv beta iota zeta delta [err_of is_nil negb eio].
  - (* CreateTemp fails *)
    exists (Panicked (PErrorf "creating temporary file for output: %s" 0)), wa, wa, (Some (CreateTemp h (o_tmp o))).
    split; [reflexivity|]. split; [exact (adv_app_fail [_] _ _ _ _ A1)|].
    split; [split; [eexists; reflexivity|split; [cbn [recover]; now rewrite app_nil_r|auto]]|]. split; assumption.
  - specialize (O1 eq_refl). specialize (L1 eq_refl).
    match goal with |- context [file_write (Some ?fo) cs wa] =>
      destruct (file_write_spec fo cs wa) as (f2 & wb & x2 & E2 & A2 & S2 & X2 & L2); cbn [fst] in A2, X2, L2; rewrite E2 end.
    pose proof (same_rest_cfg _ _ S2) as C2. destruct S2 as (S2r & S2o & _).
    destruct f2; cbv beta iota zeta delta [err_of is_nil negb eio].
    + (* a write fails: Close, Remove, exit *)
      destruct X2 as (c & ->).
      assert (Ob : w_fopen wb = true) by congruence.
      match goal with |- context [file_close (Some ?fo) wb] =>
        destruct (file_close_spec fo wb Ob) as (e3 & wc & E3 & A3 & O3 & R3 & C3); cbn [fst] in A3; rewrite E3 end.
      pose proof (adv_failed_left _ _ _ _ A2) as K2.
      unfold file_name_of. cbn [snd].
      match goal with |- context [os_remove ?p wc] =>
        destruct (os_remove_spec p wc eq_refl) as (f4 & wd & E4 & A4 & S4); cbn [snd] in A4; rewrite E4 end.
      eexists _, wd, wb, (Some (Write h c)). split; [reflexivity|].
      split; [exact (adv_app [_] _ _ _ _ _ A1 (adv_app_fail _ _ _ _ _ A2))|].
      assert (F4 : f4 = false).
      { destruct A3 as (A3 & _). cbn [frun0] in A3. rewrite K2 in A3. cbn in A3. inversion A3 as [[T3 K3]].
        destruct A4 as (A4 & _). cbn [frun0] in A4. rewrite <- K3 in A4. cbn in A4. destruct f4; inversion A4; reflexivity. }
      subst f4.
      split; [split; [eexists; reflexivity|split]|].
      * rewrite (adv_single_ok _ _ _ A4), (adv_single_ok _ _ _ A3). cbn [recover]. rewrite L2, L1, <- app_assoc. reflexivity.
      * intros Rb. apply (proj2 A4). apply (proj2 A3). exact Rb.
      * split; [destruct S4 as (S4 & _); congruence|].
        exact (same_cfg_trans _ _ _ (same_cfg_trans _ _ _ (same_cfg_trans _ _ _ C1 C2) C3) (same_rest_cfg _ _ S4)).
    + subst x2. assert (Ob : w_fopen wb = true) by congruence.
      match goal with |- context [file_close (Some ?fo) wb] =>
        destruct (file_close_spec fo wb Ob) as (e3 & wc & E3 & A3 & O3 & R3 & C3); cbn [fst] in A3; rewrite E3 end.
      unfold file_name_of, path_join. cbn [snd].
      assert (Dc : w_dir wc = w_dir w).
      { destruct C1 as (_&_&_&_&d1&_). destruct C2 as (_&_&_&_&d2&_). destruct C3 as (_&_&_&_&d3&_). congruence. }
      match goal with |- context [os_rename ?pa ?pb wc] =>
        destruct (os_rename_spec pa pb wc eq_refl (eq_sym Dc)) as (f4 & wd & E4 & A4 & S4); cbn [snd] in A4; rewrite E4 end.
      pose proof (same_rest_cfg _ _ S4) as C4. destruct S4 as (S4r & S4o & _).
      assert (AA : adv (CreateTemp h (o_tmp o) :: map (Write h) cs ++ [Close h; Rename (o_tmp o) fname]) w wd
                       (if f4 then Some (Rename (o_tmp o) fname) else None)).
      { change (CreateTemp h (o_tmp o) :: map (Write h) cs ++ [Close h; Rename (o_tmp o) fname])
          with ([CreateTemp h (o_tmp o)] ++ (map (Write h) cs ++ ([Close h] ++ [Rename (o_tmp o) fname]))).
        exact (adv_app _ _ _ _ _ _ A1 (adv_app _ _ _ _ _ _ A2 (adv_app _ _ _ _ _ _ A3 A4))). }
      destruct f4; cbv beta iota zeta delta [err_of is_nil negb eio].
      * (* the rename fails: exit, the temporary stays *)
        eexists _, wd, wd, _. split; [reflexivity|]. split; [exact AA|].
        split; [split; [eexists; reflexivity|split; [cbn [recover]; now rewrite app_nil_r|auto]]|].
        split; [congruence|]. exact (same_cfg_trans _ _ _ (same_cfg_trans _ _ _ (same_cfg_trans _ _ _ C1 C2) C3) C4).
      * (* all calls succeeded; the deferred Close finds the file closed *)
        assert (Od : w_fopen wd = false) by congruence.
        match goal with |- context [file_close (Some ?fo) wd] => rewrite (file_close_closed fo wd Od) end.
        eexists _, wd, wd, None. split; [reflexivity|]. split; [exact AA|]. split; [auto|].
        split; [congruence|]. exact (same_cfg_trans _ _ _ (same_cfg_trans _ _ _ (same_cfg_trans _ _ _ C1 C2) C3) C4).
Qed.

(* ---- the write loop of main: the source map in the order Go iterates it *)
Fixpoint outs_of (srcs : list (string * list bytes)) (rnds : list string) : list output :=
  match srcs with
  | [] => []
  | (n, cs) :: r => out_of n (hd "" rnds) cs :: outs_of r (tl rnds)
  end.

Variable re_match : string -> string -> bool.

Lemma loop1_spec : forall xs srcMap names (w : pworld),
  exists w1 x,
    adv (write_ops (w_fd w) (outs_of xs (w_rnds w))) w w1 x
    /\ match x with
       | None => main_loop1 re_match srcMap xs names w = main_after1 re_match srcMap (names ++ map fst xs) w1
                 /\ same_cfg w w1
       | Some y => exists r w', main_loop1 re_match srcMap xs names w = (r, w') /\ fatal r
                                /\ w_trace w' = w_trace w1 ++ recover y (w_trace w1) /\ (Run w1 -> Run w')
       end.
Proof.
  induction xs as [|[n cs] xs IH]; intros srcMap names w.
  - exists w, None. split; [apply adv_nil|]. cbn [main_loop1 map]. rewrite app_nil_r. split; [reflexivity|apply same_cfg_refl].
  - cbn [outs_of write_ops flat_map main_loop1]. unfold common_flags.
    destruct (notedownSrc_spec n cs w) as (r & w' & w1 & x & E & A & M & R & C). rewrite E.
    destruct x as [y|].
    + destruct M as ((fmt & ->) & T & RR). exists w1, (Some y). split; [exact (adv_app_fail _ _ _ _ _ A)|].
      eexists _, w'. split; [reflexivity|]. split; [eexists; reflexivity|auto].
    + destruct M as (-> & -> & O).
      destruct (IH srcMap (names ++ [n]) w1) as (w2 & x & A2 & M2).
      assert (F : w_fd w1 = w_fd w) by (destruct C as (_&_&_&_&_&f&_); exact f).
      rewrite F, R in A2. exists w2, x. split; [exact (adv_app _ _ _ _ _ _ A A2)|].
      destruct x as [y|].
      * exact M2.
      * destruct M2 as (M2 & C2). split; [|exact (same_cfg_trans _ _ _ C C2)].
        rewrite M2. cbn [map fst]. now rewrite <- app_assoc.
Qed.

(* ---- Clean *)
Definition aio_pat : string := "^// Code generated by.*-type=\*.*DO NOT EDIT.".
Definition gen_pat (cmd : string) : string := "^// Code generated by ""shoot " ++ cmd ++ " .*DO NOT EDIT.".
(* the two regexps are what Model/Fs.v transcribes by hand (compared with the real ones by the L1 probe of C17) *)
Hypothesis re_aio : forall l, re_match aio_pat l = is_aio l.
Hypothesis re_gen : forall cmd l, re_match (gen_pat cmd) l = is_gen cmd l.

Lemma sys_fs o w f w' : sys o w = (f, w') -> w_fs w' = if f then w_fs w else step (w_fs w) o.
Proof.
  unfold sys. destruct (tick o (w_left w)) as [[|] k]; intros E; inversion E; reflexivity.
Qed.

Lemma first_line_spec (p : string * string) w : fst p = w_dir w ->
  let n := snd p in
  exists (f : bool) w', first_line_of p w
               = ((if f then "" else match visible (w_fs w) n with Some b => first_line b | None => "" end, err_of f), w')
               /\ adv [ReadFirstLine n] w w' (if f then Some (ReadFirstLine n) else None) /\ same_rest w w'
               /\ w_fs w' = w_fs w.
Proof.
  destruct p as [d n]. cbn [fst snd]. intros ->. unfold first_line_of, on_name. cbn [fst snd]. rewrite String.eqb_refl.
  destruct (sys_adv (ReadFirstLine n) w) as (f & w1 & E & A & S). rewrite E.
  exists f, w1. split; [destruct f; reflexivity|]. split; [exact A|]. split; [exact S|].
  rewrite (sys_fs _ _ _ _ E). destruct f; [reflexivity|]. unfold step. now destruct (negb (ok (w_fs w) (ReadFirstLine n))).
Qed.

Lemma isAllInOneFile_spec (p : string * string) w : fst p = w_dir w ->
  let n := snd p in
  exists (f : bool) w', isAllInOneFile re_match p w
               = (Returned (if f then false else match visible (w_fs w) n with Some b => is_aio (first_line b) | None => is_aio "" end,
                            err_of f), w')
               /\ adv [ReadFirstLine n] w w' (if f then Some (ReadFirstLine n) else None) /\ same_rest w w'
               /\ w_fs w' = w_fs w.
Proof.
  intros D n. unfold isAllInOneFile. destruct (first_line_spec p w D) as (f & w' & E & R). rewrite E.
  exists f, w'. split; [|exact R].
  destruct f; cbv beta iota zeta delta [err_of is_nil negb eio re_compile]; [reflexivity|].
  fold aio_pat. rewrite re_aio. fold n. destruct (visible (w_fs w) n); reflexivity.
Qed.

Lemma isGeneratedBy_spec (p : string * string) cmd w : fst p = w_dir w ->
  let n := snd p in
  exists (f : bool) w', isGeneratedBy re_match p cmd w
               = (Returned (if f then false else match visible (w_fs w) n with Some b => is_gen cmd (first_line b) | None => is_gen cmd "" end,
                            err_of f), w')
               /\ adv [ReadFirstLine n] w w' (if f then Some (ReadFirstLine n) else None) /\ same_rest w w'
               /\ w_fs w' = w_fs w.
Proof.
  intros D n. unfold isGeneratedBy. destruct (first_line_spec p w D) as (f & w' & E & R). rewrite E.
  exists f, w'. split; [|exact R].
  destruct f; cbv beta iota zeta delta [err_of is_nil negb eio re_compile quote_meta]; [reflexivity|].
  replace ("^// Code generated by """ ++ "shoot" ++ " " ++ cmd ++ " .*DO NOT EDIT.")%string with (gen_pat cmd) by reflexivity.
  rewrite re_gen. fold n. destruct (visible (w_fs w) n); reflexivity.
Qed.

Lemma visible_unlink_other s n m : m <> n -> visible (step s (Unlink n)) m = visible s m.
Proof.
  intros N. unfold step. destruct (negb (ok s (Unlink n))); [reflexivity|]. unfold visible. cbn [dir data].
  now rewrite lookup_remove_neq.
Qed.

(* the configuration of the model, read off the generator; c_fixed / c_supfix: the current code *)
Definition cfg_of (w : pworld) (clean dd : bool) (tags : bytes -> list string) (cov : list string) : cfg :=
  {| c_cmd := w_cmd w; c_clean := clean; c_dirdot := dd; c_fixed := true; c_supfix := false; c_tags := tags;
     c_covered := cov; c_genfile := w_genfile w; c_fd := w_fd w |}.

Section CleanLoop.
Variables (c : cfg) (s : fs).
Hypothesis cF : c_fixed c = true.
Hypothesis cS : c_supfix c = false.

Lemma clean_loop_spec : forall L (w : pworld),
  c_cmd c = w_cmd w -> c_genfile c = w_genfile w ->
  NoDup L -> (forall n, In n L -> visible (w_fs w) n = visible s n /\ visible s n <> None) ->
  exists e w1 x, Clean_loop1 re_match (w_genfile w) (map (pair (w_dir w)) L) w = (Returned e, w1)
                 /\ adv (flat_map (clean_one c s) L) w w1 x /\ (e = None <-> x = None) /\ same_cfg w w1.
Proof.
  induction L as [|n L IH]; intros w Hc Hg ND V.
  - exists None, w, None. cbn. split; [reflexivity|]. split; [apply adv_nil|]. split; [tauto|apply same_cfg_refl].
  - cbn [map Clean_loop1 flat_map]. unfold path_base. cbn [snd].
    inversion ND as [|? ? Nin ND']; subst.
    assert (V' : forall w', w_fs w' = w_fs w -> forall m, In m L -> visible (w_fs w') m = visible s m /\ visible s m <> None).
    { intros w' F m I. rewrite F. apply V. now right. }
    destruct (V n (or_introl eq_refl)) as (Vn & Vs).
    unfold clean_one at 1. unfold is_own. rewrite cF, orb_true_r, Hg. cbn [andb].
    destruct (String.eqb n (w_genfile w)) eqn:Own.
    + (* the file just generated: skipped *)
      cbn [app]. apply (IH w Hc Hg ND'). intros m I. apply V. now right.
    + destruct (visible s n) as [b|] eqn:Vb; [|congruence].
      destruct (isAllInOneFile_spec (w_dir w, n) w eq_refl) as (f1 & w1 & E1 & A1 & S1 & F1). cbn [snd] in E1, A1.
      rewrite E1, Vn. pose proof (same_rest_cfg _ _ S1) as C1.
      destruct f1; cbv beta iota zeta delta [err_of is_nil negb eio].
      * (* the first read fails *)
        exists (Some 5), w1, (Some (ReadFirstLine n)). split; [reflexivity|].
        split; [destruct (is_aio (first_line b)); [|destruct (gen_sel c b)]; exact (adv_app_fail [_] _ _ _ _ A1)|].
        split; [split; discriminate|exact C1].
      * destruct (is_aio (first_line b)) eqn:Aio.
        -- (* an all-in-one file: left alone *)
           destruct (IH w1) as (e & w2 & x & E2 & A2 & X2 & C2); try assumption.
           { destruct C1 as (cc & _). congruence. } { destruct C1 as (_&_&_&g&_). congruence. } { apply V'. exact F1. }
           assert (G : w_genfile w1 = w_genfile w) by (destruct C1 as (_&_&_&g&_); exact g).
           assert (D : w_dir w1 = w_dir w) by (destruct C1 as (_&_&_&_&d&_); exact d).
           rewrite G, D in E2. exists e, w2, x. split; [exact E2|]. split; [exact (adv_app [_] _ _ _ _ _ A1 A2)|].
           split; [exact X2|exact (same_cfg_trans _ _ _ C1 C2)].
        -- assert (D1 : w_dir w = w_dir w1) by (destruct C1 as (_&_&_&_&d&_); symmetry; exact d).
           assert (Cm1 : w_cmd w1 = w_cmd w) by (destruct C1 as (cc & _); exact cc).
           destruct (isGeneratedBy_spec (w_dir w, n) (w_cmd w1) w1 D1) as (f2 & w2 & E2 & A2 & S2 & F2). cbn [snd] in E2, A2.
           rewrite E2, F1, Vn. pose proof (same_rest_cfg _ _ S2) as C2.
           unfold gen_sel. rewrite cS. cbn [negb orb]. rewrite andb_true_r, Hc, <- Cm1.
           destruct f2; cbv beta iota zeta delta [err_of is_nil negb eio].
           ++ exists (Some 5), w2, (Some (ReadFirstLine n)). split; [reflexivity|].
              split; [destruct (is_gen (w_cmd w1) (first_line b));
                      exact (adv_app [_] _ _ _ _ _ A1 (adv_app_fail [_] _ _ _ _ A2))|].
              split; [split; discriminate|exact (same_cfg_trans _ _ _ C1 C2)].
           ++ destruct (is_gen (w_cmd w1) (first_line b)) eqn:Gen.
              ** (* selected: removed *)
                 assert (D2 : w_dir w = w_dir w2).
                 { destruct C2 as (_&_&_&_&d&_). congruence. }
                 destruct (os_remove_spec (w_dir w, n) w2 D2) as (f3 & w3 & E3 & A3 & S3). cbn [snd] in E3, A3.
                 rewrite E3. pose proof (same_rest_cfg _ _ S3) as C3.
                 destruct f3; cbv beta iota zeta delta [err_of is_nil negb eio].
                 --- exists (Some 5), w3, (Some (Unlink n)). split; [reflexivity|].
                     split; [exact (adv_app [_] _ _ _ _ _ A1 (adv_app [_] _ _ _ _ _ A2 (adv_app_fail [_] _ _ _ _ A3)))|].
                     split; [split; discriminate|exact (same_cfg_trans _ _ _ (same_cfg_trans _ _ _ C1 C2) C3)].
                 --- pose proof (same_cfg_trans _ _ _ (same_cfg_trans _ _ _ C1 C2) C3) as C13.
                     destruct (IH w3) as (e & w4 & x & E4 & A4 & X4 & C4); try assumption.
                     { destruct C13 as (cc & _). congruence. } { destruct C13 as (_&_&_&g&_). congruence. }
                     { intros m I. split; [|apply V; now right].
                       assert (F3 : w_fs w3 = step (w_fs w2) (Unlink n)).
                       { unfold os_remove, on_name in E3. cbn [fst snd] in E3. rewrite <- D2, String.eqb_refl in E3.
                         destruct (sys (Unlink n) w2) as [f w3'] eqn:Es. pose proof (sys_fs _ _ _ _ Es) as Fs.
                         destruct f; inversion E3; subst; exact Fs. }
                       rewrite F3, visible_unlink_other by (intros ->; contradiction). rewrite F2, F1. apply V. now right. }
                     assert (G : w_genfile w3 = w_genfile w) by (destruct C13 as (_&_&_&g&_); exact g).
                     assert (D : w_dir w3 = w_dir w) by (destruct C13 as (_&_&_&_&d&_); exact d).
                     rewrite G, D in E4. exists e, w4, x.
                     split; [|split; [exact (adv_app [_] _ _ _ _ _ A1 (adv_app [_] _ _ _ _ _ A2 (adv_app [_] _ _ _ _ _ A3 A4)))|
                                      split; [exact X4|exact (same_cfg_trans _ _ _ C13 C4)]]].
                     exact E4.
              ** (* another sub-command's file, or hand-written: left alone *)
                 pose proof (same_cfg_trans _ _ _ C1 C2) as C12.
                 destruct (IH w2) as (e & w3 & x & E3 & A3 & X3 & C3); try assumption.
                 { destruct C12 as (cc & _). congruence. } { destruct C12 as (_&_&_&g&_). congruence. }
                 { apply V'. congruence. }
                 assert (G : w_genfile w2 = w_genfile w) by (destruct C12 as (_&_&_&g&_); exact g).
                 assert (D : w_dir w2 = w_dir w) by (destruct C12 as (_&_&_&_&d&_); exact d).
                 rewrite G, D in E3. exists e, w3, x. split; [exact E3|].
                 split; [exact (adv_app [_] _ _ _ _ _ A1 (adv_app [_] _ _ _ _ _ A2 A3))|].
                 split; [exact X3|exact (same_cfg_trans _ _ _ C12 C3)].
Qed.
End CleanLoop.

Lemma frun0_ok_trace ops : forall k d d' k', frun0 ops k d = (d', k', None) -> d' = d ++ ops.
Proof.
  induction ops as [|o r IH]; intros k d d' k'; cbn [frun0].
  - intros E. inversion E. now rewrite app_nil_r.
  - destruct (tick o k) as [[|] k1]; [discriminate|]. intros E. rewrite (IH _ _ _ _ E), <- app_assoc. reflexivity.
Qed.
Lemma frun0_fail_in ops : forall k d d' k' y, frun0 ops k d = (d', k', Some y) -> In y ops.
Proof.
  induction ops as [|o r IH]; intros k d d' k' y; cbn [frun0]; [discriminate|].
  destruct (tick o k) as [[|] k1]; intros E; [inversion E; now left|right; exact (IH _ _ _ _ _ E)].
Qed.

Lemma pattern_is_the_models cmd :
  String.eqb ("*." ++ "shoot" ++ cmd ++ "*.go") ("*" ++ glob_mid cmd ++ "*.go") = true.
Proof. unfold glob_mid. rewrite sapp_assoc. apply String.eqb_refl. Qed.

Lemma Clean_spec : forall (w : pworld) dd tags cov, keys_nodup (dir (w_fs w)) ->
  let c := cfg_of w (negb (w_sep w) && negb (w_aio w =? "")) dd tags cov in
  exists e w1 x, Clean re_match w = (Returned e, w1) /\ adv (clean_ops c (w_fs w)) w w1 x
                 /\ (e = None <-> x = None) /\ same_cfg w w1.
Proof.
  intros w dd tags cov K c. unfold Clean, clean_ops. cbn [c cfg_of c_clean].
  destruct (w_sep w); cbn [negb andb].
  { exists None, w, None. split; [reflexivity|]. split; [apply adv_nil|]. split; [tauto|apply same_cfg_refl]. }
  destruct (w_aio w =? ""); cbn [negb].
  { exists None, w, None. split; [reflexivity|]. split; [apply adv_nil|]. split; [tauto|apply same_cfg_refl]. }
  unfold glob_paths, path_join. cbn [fst snd]. rewrite pattern_is_the_models.
  cbv beta iota zeta delta [is_nil negb].
  change (sort_names (filter (glob (w_cmd w)) (listing (w_fs w)))) with (matches c (w_fs w)).
  apply (clean_loop_spec c (w_fs w) eq_refl eq_refl (matches c (w_fs w)) w eq_refl eq_refl (matches_nodup c _ K)).
  intros n I. split; [reflexivity|]. apply matches_In in I as (_ & L). unfold visible. now destruct (lookup n (dir (w_fs w))).
Qed.

(* the success message: one line per file name *)
Definition add_msgs (l : list string) (w : pworld) : pworld := fold_left (fun w n => log_name n w) l w.
Lemma add_msgs_keeps l : forall w,
  w_fs (add_msgs l w) = w_fs w /\ w_trace (add_msgs l w) = w_trace w /\ w_left (add_msgs l w) = w_left w
  /\ w_msgs (add_msgs l w) = w_msgs w ++ l /\ w_cmd (add_msgs l w) = w_cmd w /\ w_sep (add_msgs l w) = w_sep w
  /\ w_aio (add_msgs l w) = w_aio w /\ w_genfile (add_msgs l w) = w_genfile w /\ w_dir (add_msgs l w) = w_dir w
  /\ w_fd (add_msgs l w) = w_fd w.
Proof.
  induction l as [|n l IH]; intros w; cbn [add_msgs fold_left].
  - rewrite app_nil_r. auto 12.
  - destruct (IH (log_name n w)) as (a1&a2&a3&a4&a5&a6&a7&a8&a9&a10). unfold add_msgs in *.
    rewrite a1, a2, a3, a4, a5, a6, a7, a8, a9, a10. cbn. rewrite <- app_assoc. auto 12.
Qed.
Lemma main_loop2_spec l : forall w, main_loop2 re_match l w = main_after2 re_match (add_msgs l w).
Proof. induction l as [|n l IH]; intros w; cbn [main_loop2 add_msgs fold_left]; [reflexivity|apply IH]. Qed.

(* ---- THE RUN.  From the directory [init], with the source map [srcs] in the order Go iterates it, the random
   suffixes [rnds], and the oracle [k]: the calls issued are the model's plan, resp. [faulted plan k] *)
Definition world0 (k : option nat) (rnds : list string) (cmd : string) (sep : bool) (aio genfile d : string) (fd : nat)
           (srcs : list (string * list bytes)) : pworld :=
  mkPW init [] k rnds false cmd sep aio genfile d fd [] srcs.

Definition is_empty {A} (l : list A) : bool := match l with [] => true | _ => false end.

Theorem run_is_frun_of_plan : forall k rnds cmd sep aio genfile d fd srcs dd tags cov,
  keys_nodup (dir init) ->
  let w0 := world0 k rnds cmd sep aio genfile d fd srcs in
  let outs := outs_of srcs rnds in
  (* Clean acts unless -sep or there is no all-in-one file; that it is not reached at all when nothing was
     generated is part of the model's [plan] (Fs.reached) *)
  let c := cfg_of w0 (negb sep && negb (aio =? "")) dd tags cov in
  exists r w', main re_match w0 = (r, w')
    /\ w_trace w' = fst (frun (plan c init outs) k)
    /\ w_fs w' = exec init (w_trace w')
    /\ (if snd (frun (plan c init outs) k) then fatal r
        else r = Returned tt /\ w_msgs w' = map fst srcs).
Proof.
  intros k rnds cmd sep aio genfile d fd srcs dd tags cov K w0 outs c.
  unfold main, generated. cbn [w0 world0 w_srcs]. fold w0.
  destruct (loop1_spec srcs srcs [] w0) as (w1 & x & A & M). cbn [w0 world0 w_fd w_rnds] in A. fold w0 outs in A.
  assert (R0 : Run w0) by reflexivity.
  unfold frun, plan, plan1. change (c_fd (reached c outs)) with fd.
  destruct A as (A & RA). cbn [w0 world0 w_left w_trace] in A. rewrite frun0_app, A.
  destruct x as [y|].
  - (* a call of the write loop fails *)
    destruct M as (r & w' & E & F & T & RR). exists r, w'. split; [exact E|]. cbn [fst snd].
    split; [exact T|]. split; [exact (RR (RA R0))|exact F].
  - destruct M as (E & C1). rewrite E. cbn [app]. unfold main_after1.
    pose proof (frun0_ok_trace _ _ _ _ _ A) as T1. cbn [app] in T1.
    pose proof (RA R0) as R1. unfold Run in R1. rewrite T1 in R1.
    destruct srcs as [|s0 srcs'].
    + (* nothing generated: the warning, no Clean *)
      cbn [List.length Z.of_nat Z.eqb]. cbv beta iota zeta delta [log_nothing].
      exists (Returned tt), w1. split; [reflexivity|].
      unfold clean_ops, reached, c, cfg_of. cbn [outs outs_of c_clean is_nil negb]. rewrite andb_false_r.
      cbn [frun0 fst snd]. cbn in T1.
      split; [reflexivity|]. split; [rewrite T1; cbn in R1; exact R1|]. split; [reflexivity|].
      destruct C1 as (_&_&_&_&_&_&m&_). exact m.
    + replace (Z.of_nat (List.length (s0 :: srcs')) =? 0)%Z with false
        by (symmetry; apply Z.eqb_neq; cbn [List.length]; lia).
      cbv beta iota zeta delta [log_nothing]. rewrite main_loop2_spec. unfold main_after2.
      assert (Cr : reached c outs = c).
      { unfold reached, c, cfg_of, outs. destruct s0 as [n0 cs0].
        cbn [outs_of is_nil negb c_cmd c_clean c_dirdot c_fixed c_supfix c_tags c_covered c_genfile c_fd].
        now rewrite andb_true_r. }
      rewrite Cr.
      set (names := map fst (s0 :: srcs')).
      destruct (add_msgs_keeps names w1) as (b1&b2&b3&b4&b5&b6&b7&b8&b9&b10).
      set (w2 := add_msgs names w1) in *.
      assert (K2 : keys_nodup (dir (w_fs w2))) by (rewrite b1, R1; apply exec_keys; exact K).
      destruct (Clean_spec w2 dd tags cov K2) as (e & w3 & x3 & E3 & (A3 & RA3) & X3 & C3). rewrite E3.
      assert (Cc : cfg_of w2 (negb (w_sep w2) && negb (w_aio w2 =? "")) dd tags cov = c).
      { unfold c, cfg_of. destruct C1 as (c1&c2&c3&c4&c5&c6&_).
        rewrite b5, b6, b7, b8, b10, c1, c2, c3, c4, c6. reflexivity. }
      rewrite Cc, b1, R1, b2, b3 in A3. rewrite A3.
      assert (R3 : Run w3) by (apply RA3; unfold Run; rewrite b1, b2; exact (RA R0)).
      destruct x3 as [y|]; cbn [fst snd].
      * (* a call of Clean fails: its error reaches logx.Fatal *)
        assert (e <> None) by (intros H; apply X3 in H; discriminate).
        destruct e as [code|]; [|contradiction]. cbv beta iota zeta delta [is_nil negb].
        eexists _, w3. split; [reflexivity|].
        assert (Ry : recover y (w_trace w3) = []).
        { pose proof (frun0_fail_in _ _ _ _ _ _ A3) as I. pose proof (clean_ops_ru c (exec init (write_ops fd outs))) as RU.
          rewrite forallb_forall in RU. specialize (RU _ I). destruct y; try discriminate; reflexivity. }
        rewrite Ry, app_nil_r. split; [reflexivity|]. split; [exact R3|eexists; reflexivity].
      * assert (e = None) as -> by (apply X3; reflexivity). cbv beta iota zeta delta [is_nil negb].
        exists (Returned tt), w3. split; [reflexivity|]. split; [reflexivity|]. split; [exact R3|]. split; [reflexivity|].
        destruct C3 as (_&_&_&_&_&_&m&_). rewrite m, b4. destruct C1 as (_&_&_&_&_&_&m1&_). rewrite m1. reflexivity.
Qed.

End Bridge.

(* ================= the statements, outside the section ================= *)
Section Statements.
Variable re_match : string -> string -> bool.
Hypothesis re_aio : forall l, re_match aio_pat l = is_aio l.
Hypothesis re_gen : forall cmd l, re_match (gen_pat cmd) l = is_gen cmd l.
(* the generator's configuration and the run's inputs *)
Variables (init : fs) (rnds : list string) (cmd : string) (sep : bool) (aio genfile d : string) (fd : nat)
          (srcs : list (string * list bytes)) (dd : bool) (tags : bytes -> list string) (cov : list string).
Hypothesis K : keys_nodup (dir init).

Let outs := outs_of srcs rnds.
Let w0 k := world0 init k rnds cmd sep aio genfile d fd srcs.
Let c := cfg_of (w0 None) (negb sep && negb (aio =? "")) dd tags cov.
Let run k := main re_match (w0 k).

(* no call fails: the calls issued are exactly the model's plan, the run returns, the message lists the outputs *)
Theorem run_is_plan :
  exists w', run None = (Returned tt, w') /\ w_trace w' = plan c init outs /\ w_fs w' = exec init (plan c init outs)
             /\ w_msgs w' = map fst srcs.
Proof.
  destruct (run_is_frun_of_plan init re_match re_aio re_gen None rnds cmd sep aio genfile d fd srcs dd tags cov K)
    as (r & w' & E & T & F & O).
  change (w_trace w' = fst (frun (plan c init outs) None)) in T.
  change (if snd (frun (plan c init outs) None) then fatal r else r = Returned tt /\ w_msgs w' = map fst srcs) in O.
  rewrite frun_no_failure in T, O. cbn [fst snd] in T, O. destruct O as (-> & M).
  exists w'. rewrite T in F. auto.
Qed.

(* call number k fails (a call whose failure the code looks at): the calls issued are [faulted plan k] - the prefix, then
   Close and Remove of the temporary when the failing call is a write - and the process exits through logx.Fatal(f) *)
Theorem run_is_faulted_plan : forall k x, nth_error (plan c init outs) k = Some x -> can_fail x = true ->
  exists r w', run (Some k) = (r, w') /\ fatal r /\ w_trace w' = faulted (plan c init outs) k
               /\ w_fs w' = exec init (faulted (plan c init outs) k).
Proof.
  intros k x N C.
  destruct (run_is_frun_of_plan init re_match re_aio re_gen (Some k) rnds cmd sep aio genfile d fd srcs dd tags cov K)
    as (r & w' & E & T & F & O).
  change (w_trace w' = fst (frun (plan c init outs) (Some k))) in T.
  change (if snd (frun (plan c init outs) (Some k)) then fatal r else r = Returned tt /\ w_msgs w' = map fst srcs) in O.
  rewrite (frun_is_faulted _ _ _ N C) in T, O. cbn [fst snd] in T, O.
  exists r, w'. rewrite T in F. auto.
Qed.

(* the oracle points at a close(2) or beyond the last call: nothing fails *)
Theorem run_oracle_beyond : forall k,
  match nth_error (plan c init outs) k with Some x => can_fail x = false | None => True end ->
  exists w', run (Some k) = (Returned tt, w') /\ w_trace w' = plan c init outs.
Proof.
  intros k H.
  destruct (run_is_frun_of_plan init re_match re_aio re_gen (Some k) rnds cmd sep aio genfile d fd srcs dd tags cov K)
    as (r & w' & E & T & F & O).
  change (w_trace w' = fst (frun (plan c init outs) (Some k))) in T.
  change (if snd (frun (plan c init outs) (Some k)) then fatal r else r = Returned tt /\ w_msgs w' = map fst srcs) in O.
  rewrite (frun_close_or_beyond _ _ H) in T, O. cbn [fst snd] in T, O. destruct O as (-> & _). eauto.
Qed.

(* ---- C17 over the translated program: a crash point is a prefix of the calls the PROGRAM issues *)
Hypothesis G : good c init outs.

(* C17_atomic_at_every_crash_point *)
Theorem C17_atomic_at_every_crash_point_src : forall w' p o,
  run None = (Returned tt, w') -> prefix_of p (w_trace w') -> In o outs ->
  visible (exec init p) (o_name o) = visible init (o_name o) \/ visible (exec init p) (o_name o) = Some (new_bytes o).
Proof.
  intros w' p o E P I. destruct run_is_plan as (w'' & E' & T & _). rewrite E in E'. inversion E'; subst w''.
  rewrite T in P. exact (atomic (reached c outs) init outs (good_reached c init outs G) p o P I).
Qed.

(* C17_frame (confinement): names that are neither outputs, nor this run's temporaries, nor selected by Clean *)
Theorem C17_frame_src : forall w' p n,
  run None = (Returned tt, w') -> prefix_of p (w_trace w') ->
  ~ In n (names outs) -> ~ In n (temps outs) -> ~ In n (removed c init outs) ->
  lookup n (dir (exec init p)) = lookup n (dir init) /\ visible (exec init p) n = visible init n.
Proof.
  intros w' p n E P. destruct run_is_plan as (w'' & E' & T & _). rewrite E in E'. inversion E'; subst w''.
  rewrite T in P. exact (frame (reached c outs) init outs (good_reached c init outs G) p n P).
Qed.

(* C17_only_outputs_and_temps_appear: the program creates nothing under any other name *)
Theorem C17_only_outputs_and_temps_appear_src : forall w' p n,
  run None = (Returned tt, w') -> prefix_of p (w_trace w') ->
  lookup n (dir (exec init p)) <> None -> lookup n (dir init) = None -> In n (names outs) \/ In n (temps outs).
Proof.
  intros w' p n E P. destruct run_is_plan as (w'' & E' & T & _). rewrite E in E'. inversion E'; subst w''.
  rewrite T in P. exact (new_names_are_outputs_or_temps (reached c outs) init outs (good_reached c init outs G) p n P).
Qed.

(* C17_files_without_the_header_are_never_removed *)
Theorem C17_files_without_the_header_are_never_removed_src : forall w' p n b,
  run None = (Returned tt, w') -> prefix_of p (w_trace w') -> ~ In n (names outs) ->
  visible init n = Some b -> is_gen (c_cmd c) (first_line b) = false ->
  lookup n (dir (exec init p)) = lookup n (dir init) /\ visible (exec init p) n = Some b.
Proof.
  intros w' p n b E P Hn V Hg. destruct run_is_plan as (w'' & E' & T & _). rewrite E in E'. inversion E'; subst w''.
  rewrite T in P.
  destruct (not_selected_untouched (reached c outs) init outs p n (good_reached c init outs G) P Hn) as [L V'].
  - unfold visible in V. destruct (lookup n (dir init)); congruence.
  - exact (hand_written_not_selected (reached c outs) init n b V Hg).
  - split; [exact L|congruence].
Qed.

(* C17_after_a_failing_call: the state the PROGRAM leaves when call k fails *)
Theorem C17_after_a_failing_call_src : forall k x r w',
  nth_error (plan c init outs) k = Some x -> can_fail x = true -> run (Some k) = (r, w') ->
  let s := w_fs w' in
  fatal r /\
  (forall o, In o outs -> visible s (o_name o) = visible init (o_name o) \/ visible s (o_name o) = Some (new_bytes o)) /\
  (forall n, ~ In n (names outs) -> ~ In n (temps outs) -> ~ In n (removed c init outs) ->
     lookup n (dir s) = lookup n (dir init) /\ visible s n = visible init n) /\
  (forall j, j < next init -> data s j = data init j).
Proof.
  intros k x r w' N C E. destruct (run_is_faulted_plan k x N C) as (r' & w'' & E' & F & T & S).
  rewrite E in E'. inversion E'; subst r' w''. cbn zeta. rewrite S.
  destruct (faulted_invariants (reached c outs) init outs (good_reached c init outs G) k) as (A & B & _ & D). auto.
Qed.

(* C17_no_temp_left_unless_the_rename_failed *)
Theorem C17_no_temp_left_unless_the_rename_failed_src : forall k x t r w',
  nth_error (plan c init outs) k = Some x -> can_fail x = true -> is_rename x = false -> run (Some k) = (r, w') ->
  In t (temps outs) -> lookup t (dir (w_fs w')) = None.
Proof.
  intros k x t r w' N C R E I. destruct (run_is_faulted_plan k x N C) as (r' & w'' & E' & F & T & S).
  rewrite E in E'. inversion E'; subst r' w''. rewrite S. exact (faulted_no_temp_left (reached c outs) init outs (good_reached c init outs G) k x t N C R I).
Qed.

(* ---- C18_partial_write_is_a_prefix, for the program: whatever call fails (or none), the outputs already renamed into
   place are a PREFIX of the outputs in the order Go iterates the source map; all of them when the run returns *)
Definition renamed (t : list op) : list name :=
  flat_map (fun o => match o with Rename _ b => [b] | _ => [] end) t.

Lemma renamed_app a b : renamed (a ++ b) = renamed a ++ renamed b.
Proof. unfold renamed. apply flat_map_app. Qed.
Lemma renamed_none t : forallb (fun o => negb (is_rename o)) t = true -> renamed t = [].
Proof.
  induction t as [|o t IH]; [reflexivity|]. cbn [forallb]. intros H. apply andb_true_iff in H as (H1 & H2).
  unfold renamed in *. cbn [flat_map]. rewrite (IH H2), app_nil_r. destruct o; try reflexivity; discriminate.
Qed.
Lemma norename_prefix (q l : list op) :
  prefix_of q l -> forallb (fun o => negb (is_rename o)) l = true -> forallb (fun o => negb (is_rename o)) q = true.
Proof. intros (r & ->) H. rewrite forallb_app in H. now apply andb_true_iff in H as (H & _). Qed.
Lemma pre_ops_norename h o : forallb (fun o => negb (is_rename o)) (pre_ops h o) = true.
Proof.
  unfold pre_ops. cbn [forallb is_rename negb andb]. rewrite forallb_app. cbn. rewrite andb_true_r.
  induction (o_chunks o) as [|b l IH]; [reflexivity|exact IH].
Qed.
Lemma renamed_write_ops h done : renamed (write_ops h done) = names done.
Proof.
  induction done as [|o r IH]; [reflexivity|]. rewrite write_ops_cons, renamed_app, IH, note_down_split, renamed_app.
  rewrite (renamed_none _ (pre_ops_norename h o)). reflexivity.
Qed.
Lemma ru_norename l : forallb ru l = true -> forallb (fun o => negb (is_rename o)) l = true.
Proof.
  induction l as [|o l IH]; [reflexivity|]. cbn [forallb]. intros H. apply andb_true_iff in H as (H1 & H2).
  rewrite (IH H2), andb_true_r. destruct o; try reflexivity; discriminate.
Qed.

Lemma renamed_prefix_of_plan p : prefix_of p (plan c init outs) ->
  exists j, renamed p = firstn j (names outs) /\ (p = plan c init outs -> j = List.length outs).
Proof.
  intros P. unfold plan, plan1 in *. change (c_fd (reached c outs)) with (c_fd c) in *.
  apply prefix_of_app in P as [P|(q & -> & Q)].
  - destruct (prefix_write _ _ _ P) as (done & rest & q & E & -> & Hq).
    exists (List.length done). rewrite renamed_app, renamed_write_ops.
    assert (Nq : renamed q = []).
    { destruct Hq as [->|(o & rest' & _ & Hq)]; [reflexivity|].
      apply renamed_none. exact (norename_prefix _ _ Hq (pre_ops_norename _ o)). }
    rewrite Nq, app_nil_r. split.
    + rewrite E. unfold names. rewrite map_app, <- (map_length o_name done), firstn_app, firstn_all, Nat.sub_diag. cbn.
      now rewrite app_nil_r.
    + intros Ep. apply (f_equal (@List.length op)) in Ep. rewrite !app_length in Ep.
      assert (Lq : List.length q <= List.length (write_ops (c_fd c) rest)).
      { destruct Hq as [->|(o & rest' & -> & (r & Hr))]; [cbn; lia|].
        rewrite write_ops_cons, note_down_split, Hr, !app_length. lia. }
      rewrite E, write_ops_app, app_length in Ep.
      assert (rest = []) as ->.
      { destruct Hq as [->|(o & rest' & -> & (r & Hr))].
        - destruct rest as [|o rest']; [reflexivity|]. rewrite write_ops_cons, note_down_split, !app_length in Ep. cbn in Ep. lia.
        - rewrite write_ops_cons, note_down_split, Hr, !app_length in Ep. cbn in Ep. lia. }
      rewrite E, app_nil_r. reflexivity.
  - exists (List.length outs). rewrite renamed_app, renamed_write_ops.
    rewrite (renamed_none q (norename_prefix _ _ Q (ru_norename _ (clean_ops_ru (reached c outs) _)))), app_nil_r.
    unfold names. rewrite <- (map_length o_name outs), firstn_all. auto.
Qed.

Theorem C18_partial_write_is_a_prefix_src : forall k,
  exists r w' j, run k = (r, w') /\ renamed (w_trace w') = firstn j (map fst srcs)
                 /\ (r = Returned tt -> j = List.length srcs) /\ (r = Returned tt \/ fatal r).
Proof.
  intros k.
  destruct (run_is_frun_of_plan init re_match re_aio re_gen k rnds cmd sep aio genfile d fd srcs dd tags cov K)
    as (r & w' & E & T & F & O).
  change (w_trace w' = fst (frun (plan c init outs) k)) in T.
  change (if snd (frun (plan c init outs) k) then fatal r else r = Returned tt /\ w_msgs w' = map fst srcs) in O.
  assert (Nm : names outs = map fst srcs).
  { unfold outs, names. clear. revert rnds. induction srcs as [|[n cs] l IH]; intros rnds; [reflexivity|].
    cbn [outs_of map o_name out_of fst]. now rewrite IH. }
  assert (Ln : List.length outs = List.length srcs) by (rewrite <- (map_length o_name outs); fold (names outs); rewrite Nm; apply map_length).
  unfold frun in T, O. destruct (frun0 (plan c init outs) k []) as [[t k'] [y|]] eqn:FR; cbn [fst snd] in T, O.
  - (* a call failed: the prefix issued, then at most Close + Unlink *)
    assert (P : prefix_of t (plan c init outs)).
    { destruct k as [k|]; [|rewrite frun0_none in FR; discriminate]. rewrite frun0_some in FR.
      destruct (nth_error (plan c init outs) k) as [x|]; [destruct (can_fail x)|]; inversion FR. cbn. apply prefix_of_firstn. }
    destruct (renamed_prefix_of_plan t P) as (j & Rj & _).
    exists r, w', j. split; [exact E|]. split.
    + rewrite T, renamed_app, Rj, Nm.
      assert (renamed (recover y t) = []) as ->.
      { destruct y; cbn [recover]; try reflexivity. destruct (last_temp h t); reflexivity. }
      now rewrite app_nil_r.
    + split; [|right; exact O]. intros ->. destruct O as (fmt & O). discriminate.
  - destruct O as (-> & _). pose proof (frun0_ok_trace _ _ _ _ _ FR) as Tt. cbn in Tt. rewrite Tt in T.
    destruct (renamed_prefix_of_plan _ (prefix_of_refl _)) as (j & Rj & Jj).
    exists (Returned tt), w', j. split; [exact E|]. split; [rewrite T, Rj, Nm; reflexivity|].
    split; [intros _; rewrite <- Ln; apply Jj; reflexivity|now left].
Qed.

End Statements.

Print Assumptions run_is_frun_of_plan.
Print Assumptions run_is_plan.
Print Assumptions run_is_faulted_plan.
Print Assumptions run_oracle_beyond.
Print Assumptions C17_atomic_at_every_crash_point_src.
Print Assumptions C17_frame_src.
Print Assumptions C17_only_outputs_and_temps_appear_src.
Print Assumptions C17_files_without_the_header_are_never_removed_src.
Print Assumptions C17_after_a_failing_call_src.
Print Assumptions C17_no_temp_left_unless_the_rename_failed_src.
Print Assumptions C18_partial_write_is_a_prefix_src.
