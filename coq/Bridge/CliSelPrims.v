(* Primitive table of the Go->Gallina translator, area "cliselect" (C16):
   internal/shoot/generatorbase.go (GeneratorBase).confirmTypes and
   internal/shoot/common.go Contains (at T = string).  Trusted base.

   The receiver g is the world (store discipline, docs/translator.md): of the
   generator only what confirmTypes touches
       g.isTypeSpecified          [sw_specified]
       g.commonFlags.TypeNames    [sw_types]   (assigned in the `-type=*` / -file branch)
       g.commonFlags.FileName     [sw_file]
       g.fileNameMap              [sw_fmap]    an association list, latest entry first
                                               (a Go map assignment; [Cli.assoc] reads the first entry)
   Oracles (Section variables of the generated file, as in Model/Cli.v):
       getGoFile(g.pkg, T)        [getGoFile_o T]  go/types scope lookup + map iteration: Cli.get_go_file o p T
       typeLister.ListTypes()     [ListTypes_o]   the sub-command's own lister: Cli.list_types c fl p
   TestFile: an *ast.File is represented by what TestFile can learn of it, the name of the file its position
   lies in ([Some name], the full name as the loader reports it) or nothing at all ([None]: a file without a
   package clause has no position); file.Pos() and g.pkg.Fset.File(pos) pass that on, tf.Name() reads it
   (a nil tf panics: PNilDeref), filepath.Base is [path_base]: what follows the last slash (Unix).
   logx.Fatalf(format, ...) ends the process (exit status 1): the translated function stops with
   [Panicked (PErrorf format 0)]; its arguments are not evaluated.  No proofs in this file. *)
From Coq Require Import List String Bool Ascii.
From Shoot Require Import Base.Str Model.Cli.
Import ListNotations.

Record sworld := mkSW {
  sw_specified : bool;
  sw_types : list string;
  sw_file : string;
  sw_fmap : list (string * string)
}.

Definition set_types (l : list string) (w : sworld) : sworld :=
  mkSW (sw_specified w) l (sw_file w) (sw_fmap w).
Definition fmap_set (k v : string) (w : sworld) : sworld :=
  mkSW (sw_specified w) (sw_types w) (sw_file w) ((k, v) :: sw_fmap w).

(* ---- TestFile *)
Definition file_pos (f : option string) : option string := f.
Definition fset_file (pos : option string) : option string := pos.
Definition tok_name (name : string) : string := name.
(* filepath.Base on a Unix path without trailing slash: the part after the last '/' *)
Fixpoint path_base_aux (s cur : string) : string :=
  match s with
  | EmptyString => cur
  | String c r => if Ascii.eqb c "/"%char then path_base_aux r EmptyString else path_base_aux r (cur ++ String c EmptyString)
  end.
Definition path_base (s : string) : string := path_base_aux s EmptyString.
