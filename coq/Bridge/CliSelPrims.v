(* Primitive table of the Go->Gallina translator, area "cliselect" (C16):
   internal/shoot/generatorbase.go (GeneratorBase).confirmTypes and
   internal/shoot/common.go Contains (at T = string).  Trusted base.

   The receiver g is the world (store discipline, docs/translator.md): of the
   generator only what confirmTypes touches
       g.isTypeSpecified          [sw_specified]
       g.commonFlags.TypeNames    [sw_types]   (assigned in the `-type=*` / -file branch)
       g.commonFlags.FileName     [sw_file]
       g.fileNameMap              [sw_fmap]    an association list, latest entry first
                                               (a Go map assignment; [Cli.assoc] reads the first entry)
   Oracles (Section variables of the generated file, as in Model/Cli.v):
       getGoFile(g.pkg, T)        [getGoFile_o T]  go/types scope lookup + map iteration: Cli.get_go_file o p T
       typeLister.ListTypes()     [ListTypes_o]   the sub-command's own lister: Cli.list_types c fl p
   logx.Fatalf(format, ...) ends the process (exit status 1): the translated function stops with
   [Panicked (PErrorf format 0)]; its arguments are not evaluated.  No proofs in this file. *)
From Coq Require Import List String Bool.
From Shoot Require Import Base.Str Model.Cli.
Import ListNotations.

Record sworld := mkSW {
  sw_specified : bool;
  sw_types : list string;
  sw_file : string;
  sw_fmap : list (string * string)
}.

Definition set_types (l : list string) (w : sworld) : sworld :=
  mkSW (sw_specified w) l (sw_file w) (sw_fmap w).
Definition fmap_set (k v : string) (w : sworld) : sworld :=
  mkSW (sw_specified w) (sw_types w) (sw_file w) ((k, v) :: sw_fmap w).
