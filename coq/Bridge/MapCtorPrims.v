(* Primitive table of the Go->Gallina translator, area "mapctor" (C15):
   internal/mapper/ctor.go makeCtorMatch (the function and the method that calls it
   twice), with canNameMatch / matchType / mayMisConv / Field.MatchingName of
   match.go and types.go translated again in this area's world.  Trusted base.

   Store discipline (docs/translator.md): the generator is the world; a *Field is a
   location in one of FOUR arrays:
       CSrc i / CDst j     g.exportedFields / g.destExportedFields      (read only here)
       CDCtor k / CSCtor k g.destCtorParams / g.srcCtorParams           (the constructor parameters: mutated)
   `writeSet shoot.Set[string]` is a REFERENCE to one of the two sets of the world
   ([WDst] = g.writeDestSet, [WSrc] = g.writeSrcSet): Has / Adds act on that set.
   p.Target = f keeps the INDEX of the reader f in its array (Model/Mapper.v
   ctor_step: set_target (Some fi)).  Oracles as in area mapmatch (shoot.TypeEquals,
   types.ConvertibleTo, isString, isFixedWidthInt: Section variables); qualifiedTypeName
   = the type itself; strings.EqualFold = Str.equal_fold; smartMatch =
   Transfer.smart_match (bridged by area transfer); logx.Warnf = nothing.
   zeroValue(t, g.qualifier) is a type switch over go/types: NOT translated, the
   Section variable [zeroValue_o] (the text of the zero literal; "" = unsupported type,
   then logx.Fatal).  Field.Zero is kept as "is set" (Model/Mapper.v f_zero).
   No proofs in this file. *)
From Coq Require Import List String Bool Arith.
From Shoot Require Import Base.Str Model.Transfer Model.MapVal Model.Mapper.
Import ListNotations.
Local Open Scope string_scope.
Local Open Scope list_scope.

Inductive cloc := CSrc (i : nat) | CDst (j : nat) | CDCtor (k : nat) | CSCtor (k : nat).
Definition cloc_eqb (a b : cloc) : bool :=
  match a, b with
  | CSrc i, CSrc j | CDst i, CDst j | CDCtor i, CDCtor j | CSCtor i, CSCtor j => Nat.eqb i j
  | _, _ => false
  end.
Definition cloc_index (l : cloc) : nat := match l with CSrc i | CDst i | CDCtor i | CSCtor i => i end.

Inductive setref := WDst | WSrc.
Record cflags := { cf_ic : bool; cf_alias : string }.

Record cworld := mkC {
  c_src : list field;  c_dst : list field;        (* exportedFields / destExportedFields *)
  c_dctor : list field;  c_sctor : list field;    (* destCtorParams / srcCtorParams *)
  c_wsrc : sset;  c_wdst : sset;                  (* writeSrcSet / writeDestSet *)
  c_tags : tagmap;  c_flags : cflags;  c_funcs : list mfunc;
  c_use_d : bool;  c_use_s : bool;                (* data.DestCtorParams / data.SrcCtorParams set *)
  c_warned : list cloc
}.

Definition cload (l : cloc) (w : cworld) : field :=
  match l with
  | CSrc i => nth i (c_src w) fdummy
  | CDst j => nth j (c_dst w) fdummy
  | CDCtor k => nth k (c_dctor w) fdummy
  | CSCtor k => nth k (c_sctor w) fdummy
  end.
(* only constructor parameters are written *)
Definition cstore (l : cloc) (g : field -> field) (w : cworld) : cworld :=
  match l with
  | CDCtor k => mkC (c_src w) (c_dst w) (upd (c_dctor w) k g) (c_sctor w) (c_wsrc w) (c_wdst w) (c_tags w) (c_flags w) (c_funcs w)
                    (c_use_d w) (c_use_s w) (c_warned w)
  | CSCtor k => mkC (c_src w) (c_dst w) (c_dctor w) (upd (c_sctor w) k g) (c_wsrc w) (c_wdst w) (c_tags w) (c_flags w) (c_funcs w)
                    (c_use_d w) (c_use_s w) (c_warned w)
  | _ => w
  end.

Definition src_locs (w : cworld) : list cloc := map CSrc (seq 0 (List.length (c_src w))).
Definition dst_locs (w : cworld) : list cloc := map CDst (seq 0 (List.length (c_dst w))).
Definition dctor_locs (w : cworld) : list cloc := map CDCtor (seq 0 (List.length (c_dctor w))).
Definition sctor_locs (w : cworld) : list cloc := map CSCtor (seq 0 (List.length (c_sctor w))).

Definition get_Name (l : cloc) (w : cworld) : string := f_name (cload l w).
Definition get_typ (l : cloc) (w : cworld) : ty := f_ty (cload l w).
Definition get_IsGet (l : cloc) (w : cworld) : bool := f_isget (cload l w).
Definition get_IsSet (l : cloc) (w : cworld) : bool := f_isset (cload l w).
Definition get_Target (l : cloc) (w : cworld) : option nat := f_target (cload l w).
Definition get_warned (l : cloc) (w : cworld) : bool := existsb (cloc_eqb l) (c_warned w).

Definition fset_canassign (b : bool) (f : field) : field :=
  mkF (f_name f) (f_path f) (f_ty f) (f_depth f) (f_backing f) (f_isget f) (f_isset f)
      (f_target f) b (f_isconv f) (f_canmap f) (f_caneach f) (f_type f) (f_func f) (f_isptr f) (f_zero f).
Definition fset_isconv (b : bool) (f : field) : field :=
  mkF (f_name f) (f_path f) (f_ty f) (f_depth f) (f_backing f) (f_isget f) (f_isset f)
      (f_target f) (f_canassign f) b (f_canmap f) (f_caneach f) (f_type f) (f_func f) (f_isptr f) (f_zero f).
Definition fset_type (t : option ty) (f : field) : field :=
  mkF (f_name f) (f_path f) (f_ty f) (f_depth f) (f_backing f) (f_isget f) (f_isset f)
      (f_target f) (f_canassign f) (f_isconv f) (f_canmap f) (f_caneach f) t (f_func f) (f_isptr f) (f_zero f).
Definition fset_zero (z : string) (f : field) : field :=
  mkF (f_name f) (f_path f) (f_ty f) (f_depth f) (f_backing f) (f_isget f) (f_isset f)
      (f_target f) (f_canassign f) (f_isconv f) (f_canmap f) (f_caneach f) (f_type f) (f_func f) (f_isptr f)
      (negb (String.eqb z "")).

Definition set_Target (l : cloc) (t : option cloc) (w : cworld) : cworld := cstore l (set_target (option_map cloc_index t)) w.
Definition set_CanAssign (l : cloc) (b : bool) (w : cworld) : cworld := cstore l (fset_canassign b) w.
Definition set_IsConv (l : cloc) (b : bool) (w : cworld) : cworld := cstore l (fset_isconv b) w.
Definition set_Type (l : cloc) (t : option ty) (w : cworld) : cworld := cstore l (fset_type t) w.
Definition set_Func (l : cloc) (fn : string) (w : cworld) : cworld := cstore l (set_func fn) w.
Definition set_Zero (l : cloc) (z : string) (w : cworld) : cworld := cstore l (fset_zero z) w.
Definition set_warned (l : cloc) (b : bool) (w : cworld) : cworld :=
  mkC (c_src w) (c_dst w) (c_dctor w) (c_sctor w) (c_wsrc w) (c_wdst w) (c_tags w) (c_flags w) (c_funcs w) (c_use_d w) (c_use_s w)
      (if b then l :: c_warned w else filter (fun x => negb (cloc_eqb l x)) (c_warned w)).

(* the two write sets, by reference *)
Definition set_has (r : setref) (x : string) (w : cworld) : bool :=
  match r with WDst => s_has (c_wdst w) x | WSrc => s_has (c_wsrc w) x end.
Definition set_adds (r : setref) (x : string) (w : cworld) : cworld :=
  match r with
  | WDst => mkC (c_src w) (c_dst w) (c_dctor w) (c_sctor w) (c_wsrc w) (s_add (c_wdst w) x) (c_tags w) (c_flags w) (c_funcs w)
                (c_use_d w) (c_use_s w) (c_warned w)
  | WSrc => mkC (c_src w) (c_dst w) (c_dctor w) (c_sctor w) (s_add (c_wsrc w) x) (c_wdst w) (c_tags w) (c_flags w) (c_funcs w)
                (c_use_d w) (c_use_s w) (c_warned w)
  end.
Definition use_dctor (w : cworld) : cworld :=
  mkC (c_src w) (c_dst w) (c_dctor w) (c_sctor w) (c_wsrc w) (c_wdst w) (c_tags w) (c_flags w) (c_funcs w) true (c_use_s w) (c_warned w).
Definition use_sctor (w : cworld) : cworld :=
  mkC (c_src w) (c_dst w) (c_dctor w) (c_sctor w) (c_wsrc w) (c_wdst w) (c_tags w) (c_flags w) (c_funcs w) (c_use_d w) true (c_warned w).

Definition tag_lookup (m : tagmap) (k : string) : string * bool :=
  match tm_get m k with Some v => (v, true) | None => ("", false) end.
Definition map_is_nil (m : tagmap) : bool := match m with [] => true | _ => false end.
Definition map_make : tagmap := [].
Definition nil_tags : tagmap := [].
Definition qualified_type_name (t : ty) : option ty := Some t.
Definition prim_warn (w : cworld) : cworld := w.
(* g.data.DestCtorParams = g.destCtorParams: the template is told to use the constructor *)
Definition set_dctor_used (l : list cloc) (w : cworld) : cworld := use_dctor w.
Definition set_sctor_used (l : list cloc) (w : cworld) : cworld := use_sctor w.
