(* Primitive table of the Go->Gallina translator, area "mapmatch" (C05, C09,
   C15): internal/mapper/match.go makeTypeMatch / canNameMatch / matchType /
   mayMisConv, internal/mapper/types.go Field.MatchingName, and
   internal/mapper/mismatch.go makeFuncMap / makeTypeMismatch.  Trusted base.

   THE STORE DISCIPLINE.  The Go code works on ONE *Generator and on *Field
   objects it reaches through the two slices g.exportedFields and
   g.destExportedFields; it mutates the Field objects through these pointers.
   Here
     - the world IS the state of the generator: [w_st] holds the two arrays of
       Field values and the four bookkeeping maps/sets exactly as Model/Mapper.v
       [st] does, plus what the passes only read (tag map, flags, mapper
       methods) and the [warned] flags the model ignores;
     - a *Field is a LOCATION [loc]: the side and the index of the object in
       its array; `for _, f1 := range g.exportedFields` enumerates [LSrc 0 ..
       LSrc (n-1)] (the length is taken when the loop starts, as Go does);
     - `p.F` is [get_F p w], `p.F = e` is the functional update of ONE array
       cell, [set_F p e w]; the receiver g is erased (all of its state is [w]).
   Trusted with this reading (not provable here, see docs/translator.md):
     - the elements of each slice are pairwise distinct, non-nil pointers and
       no Field object is in both slices (fields.go / methods.go allocate every
       element with its own &Field{...});
     - nobody else holds the arrays while a pass runs (single goroutine);
     - Target is an index into the OTHER array (Model/Mapper.v says the same):
       [set_Target] keeps the index of the location only.  In the translated
       functions a source field only ever receives a destination location and
       vice versa.
   Oracles (go/types, exactly as the model has them): shoot.TypeEquals,
   types.ConvertibleTo, isString, isFixedWidthInt are Section variables of the
   generated file; qualifiedTypeName(t, alias) is the type itself ([Some t] in
   Field.Type, whose "" is [None]); strings.EqualFold is Str.equal_fold (ASCII);
   smartMatch is Transfer.smart_match (bridged by area "transfer");
   logx.Warnf is [prim_warn], which does nothing (an effect the model ignores).
   No proofs in this file. *)
From Coq Require Import List String Bool Arith.
From Shoot Require Import Base.Str Model.Transfer Model.MapVal Model.Mapper.
Import ListNotations.
Local Open Scope string_scope.
Local Open Scope list_scope.

Inductive loc := LSrc (i : nat) | LDst (j : nat).

Definition loc_eqb (a b : loc) : bool :=
  match a, b with
  | LSrc i, LSrc j => Nat.eqb i j
  | LDst i, LDst j => Nat.eqb i j
  | _, _ => false
  end.
Definition loc_index (l : loc) : nat := match l with LSrc i => i | LDst j => j end.

Record flags := { fl_ic : bool; fl_alias : string }.          (* Flags.ignoreCase, Flags.alias *)

Record world := mkW {
  w_st : Mapper.st;                 (* exportedFields, destExportedFields, writeSrcSet, writeDestSet, readSrcMap, writeSrcMap *)
  w_tags : Mapper.tagmap;           (* srcTagMap *)
  w_flags : flags;                  (* flags *)
  w_funcs : list Mapper.mfunc;      (* mappingFuncList *)
  w_warned : list loc               (* the Field objects whose [warned] is set *)
}.

Definition with_st (s : Mapper.st) (w : world) : world :=
  mkW s (w_tags w) (w_flags w) (w_funcs w) (w_warned w).

(* ---- *Field: load / store of one array cell *)
Definition load (l : loc) (w : world) : Mapper.field :=
  match l with
  | LSrc i => Mapper.src_at (w_st w) i
  | LDst j => Mapper.dst_at (w_st w) j
  end.
Definition store (l : loc) (g : Mapper.field -> Mapper.field) (w : world) : world :=
  match l with
  | LSrc i => with_st (Mapper.on_src i g (w_st w)) w
  | LDst j => with_st (Mapper.on_dst j g (w_st w)) w
  end.

(* g.exportedFields / g.destExportedFields as slices of pointers *)
Definition src_locs (w : world) : list loc := map LSrc (seq 0 (List.length (Mapper.s_src (w_st w)))).
Definition dst_locs (w : world) : list loc := map LDst (seq 0 (List.length (Mapper.s_dst (w_st w)))).

Definition get_Name (l : loc) (w : world) : string := Mapper.f_name (load l w).
Definition get_typ (l : loc) (w : world) : ty := Mapper.f_ty (load l w).
Definition get_IsGet (l : loc) (w : world) : bool := Mapper.f_isget (load l w).
Definition get_IsSet (l : loc) (w : world) : bool := Mapper.f_isset (load l w).
(* Target points into the OTHER array *)
Definition get_Target (l : loc) (w : world) : option loc :=
  option_map (match l with LSrc _ => LDst | LDst _ => LSrc end) (Mapper.f_target (load l w)).
Definition get_warned (l : loc) (w : world) : bool := existsb (loc_eqb l) (w_warned w).
Definition get_CanAssign (l : loc) (w : world) : bool := Mapper.f_canassign (load l w).
Definition get_IsConv (l : loc) (w : world) : bool := Mapper.f_isconv (load l w).
Definition get_CanMap (l : loc) (w : world) : bool := Mapper.f_canmap (load l w).
Definition get_CanEachMap (l : loc) (w : world) : bool := Mapper.f_caneach (load l w).
Definition get_Type (l : loc) (w : world) : option ty := Mapper.f_type (load l w).
Definition get_Func (l : loc) (w : world) : string := Mapper.f_func (load l w).
Definition get_IsPtr (l : loc) (w : world) : bool := Mapper.f_isptr (load l w).

(* single-field setters of the Field record *)
Definition fset_canassign (b : bool) (f : Mapper.field) : Mapper.field :=
  mkF (f_name f) (f_path f) (f_ty f) (f_depth f) (f_backing f) (f_isget f) (f_isset f)
      (f_target f) b (f_isconv f) (f_canmap f) (f_caneach f) (f_type f) (f_func f) (f_isptr f) (f_zero f).
Definition fset_isconv (b : bool) (f : Mapper.field) : Mapper.field :=
  mkF (f_name f) (f_path f) (f_ty f) (f_depth f) (f_backing f) (f_isget f) (f_isset f)
      (f_target f) (f_canassign f) b (f_canmap f) (f_caneach f) (f_type f) (f_func f) (f_isptr f) (f_zero f).
Definition fset_canmap (b : bool) (f : Mapper.field) : Mapper.field :=
  mkF (f_name f) (f_path f) (f_ty f) (f_depth f) (f_backing f) (f_isget f) (f_isset f)
      (f_target f) (f_canassign f) (f_isconv f) b (f_caneach f) (f_type f) (f_func f) (f_isptr f) (f_zero f).
Definition fset_caneach (b : bool) (f : Mapper.field) : Mapper.field :=
  mkF (f_name f) (f_path f) (f_ty f) (f_depth f) (f_backing f) (f_isget f) (f_isset f)
      (f_target f) (f_canassign f) (f_isconv f) (f_canmap f) b (f_type f) (f_func f) (f_isptr f) (f_zero f).
Definition fset_type (t : option ty) (f : Mapper.field) : Mapper.field :=
  mkF (f_name f) (f_path f) (f_ty f) (f_depth f) (f_backing f) (f_isget f) (f_isset f)
      (f_target f) (f_canassign f) (f_isconv f) (f_canmap f) (f_caneach f) t (f_func f) (f_isptr f) (f_zero f).

Definition set_Target (l : loc) (t : option loc) (w : world) : world :=
  store l (Mapper.set_target (option_map loc_index t)) w.
Definition set_CanAssign (l : loc) (b : bool) (w : world) : world := store l (fset_canassign b) w.
Definition set_IsConv (l : loc) (b : bool) (w : world) : world := store l (fset_isconv b) w.
Definition set_CanMap (l : loc) (b : bool) (w : world) : world := store l (fset_canmap b) w.
Definition set_CanEachMap (l : loc) (b : bool) (w : world) : world := store l (fset_caneach b) w.
Definition set_Type (l : loc) (t : option ty) (w : world) : world := store l (fset_type t) w.
Definition set_Func (l : loc) (fn : string) (w : world) : world := store l (Mapper.set_func fn) w.
Definition set_IsPtr (l : loc) (b : bool) (w : world) : world := store l (Mapper.set_isptr b) w.
Definition set_warned (l : loc) (b : bool) (w : world) : world :=
  mkW (w_st w) (w_tags w) (w_flags w) (w_funcs w)
      (if b then l :: w_warned w else filter (fun x => negb (loc_eqb l x)) (w_warned w)).

(* ---- the sets and maps of the generator *)
Definition wdst_has (x : string) (w : world) : bool := Mapper.s_has (Mapper.s_wdst (w_st w)) x.
Definition wsrc_has (x : string) (w : world) : bool := Mapper.s_has (Mapper.s_wsrc (w_st w)) x.
Definition wdst_add (x : string) (w : world) : world :=
  let s := w_st w in
  with_st (mkSt (s_src s) (s_dst s) (s_wsrc s) (Mapper.s_add (s_wdst s) x) (s_rmap s) (s_wmap s)) w.
Definition wsrc_add (x : string) (w : world) : world :=
  let s := w_st w in
  with_st (mkSt (s_src s) (s_dst s) (Mapper.s_add (s_wsrc s) x) (s_wdst s) (s_rmap s) (s_wmap s)) w.
Definition rmap_set (k v : string) (w : world) : world :=
  let s := w_st w in
  with_st (mkSt (s_src s) (s_dst s) (s_wsrc s) (s_wdst s) (Mapper.m_set (s_rmap s) k v) (s_wmap s)) w.
Definition wmap_set (k v : string) (w : world) : world :=
  let s := w_st w in
  with_st (mkSt (s_src s) (s_dst s) (s_wsrc s) (s_wdst s) (s_rmap s) (Mapper.m_set (s_wmap s) k v)) w.
(* g.readSrcMap = make(map[string]string) / g.writeSrcMap = make(...) *)
Definition rmap_assign (m : Mapper.smap) (w : world) : world :=
  let s := w_st w in with_st (mkSt (s_src s) (s_dst s) (s_wsrc s) (s_wdst s) m (s_wmap s)) w.
Definition wmap_assign (m : Mapper.smap) (w : world) : world :=
  let s := w_st w in with_st (mkSt (s_src s) (s_dst s) (s_wsrc s) (s_wdst s) (s_rmap s) m) w.

(* ---- tag map (map[string]string, read only): comma-ok lookup; a nil map reads like an empty one *)
Definition tag_lookup (m : Mapper.tagmap) (k : string) : string * bool :=
  match Mapper.tm_get m k with Some v => (v, true) | None => ("", false) end.
Definition map_is_nil (m : Mapper.tagmap) : bool := match m with [] => true | _ => false end.
Definition map_make : Mapper.tagmap := [].

(* qualifiedTypeName(t, alias): the rendered name stands for the type *)
Definition qualified_type_name (t : ty) : option ty := Some t.

(* ---- go/types values in makeSubMap / makeSubListMap, on the model's palette (Model/MapVal.v [ty]):
     assertion to types.Pointer / types.Slice   the pointer / slice type, represented by its element type
     assertion to types.Named                   (package, name); Obj() is the same pair
     Obj().Pkg()                            never nil on this palette (no universe-scope named types such as error)
     Pkg().Path(), g.Pkg().PkgPath, g.destPkg.PkgPath   the model's three-way package identity PSrc / PDst / POth:
                                            "the source package" and "the destination package" are distinct there
     Obj().Name() stored in Field.Type      stands for the named type itself, like qualifiedTypeName *)
Definition as_pointer (t : ty) : ty * bool := match t with TPtr x => (x, true) | _ => (t, false) end.
Definition as_slice (t : ty) : ty * bool := match t with TSlice x => (x, true) | _ => (t, false) end.
Definition as_named (t : ty) : (pkg * string) * bool :=
  match t with TNamed p n => ((p, n), true) | _ => ((POth "", ""), false) end.
Definition type_elem (t : ty) : ty := t.
Definition named_obj (n : pkg * string) : pkg * string := n.
Definition obj_pkg (n : pkg * string) : option pkg := Some (fst n).
Definition obj_name (n : pkg * string) : option ty := Some (TNamed (fst n) (snd n)).
Definition pkg_path (p : option pkg) : pkg := match p with Some x => x | None => POth "" end.
Definition pkg_path_of (p : pkg) : pkg := p.

(* logx.Warnf: nothing the model observes *)
Definition prim_warn (w : world) : world := w.
