(* Primitive table of the Go->Gallina translator, area "writeproto" (C17, C18):
   cmd/shoot/main.go notedownSrc and the tail of main (write loop, success
   message, g.Clean()), internal/shoot/generatorbase.go Clean, isAllInOneFile,
   isGeneratedBy.  Trusted base.

   The world is the process as the file-system model Model/Fs.v sees it:
     w_fs      the inode-level file system; every system call acts on it by [Fs.step]
     w_trace   the system calls issued so far, in order (what strace would show)
     w_left    THE FAILURE ORACLE: [Some k] = the call after k further calls fails with an
               I/O error ([Some 0]: the next one); [None] = no call fails any more.  A failing
               call has no effect and is not in the trace (Model/Fs.v [faulted]); close(2)
               never reports failure to the code ([can_fail]: its result is ignored), the
               oracle passes over it.
     w_rnds    the random suffixes os.CreateTemp will choose, in call order
     w_fopen   the Go-level state of the *os.File last returned by CreateTemp: a second
               Close of it is answered by the os package without a system call
     w_cmd, w_sep, w_aio, w_genfile, w_dir, w_fd   what the generator knows: subCmd,
               commonFlags.Separate, allInOneFile, fileName("", false), commonFlags.Dir, and the
               descriptor number the kernel hands out (the same for every temporary: each is
               closed before the next is created)
     w_msgs    the file names listed by the success message, in order
     w_srcs    the source map g.Generate(g) returns, as the list of (name, content) pairs in the order
               Go will iterate it (C16's model produces it; here it is an input)
   Values:
     path      a file path = (directory, base name); filepath.Join(dir, n) = (dir, n),
               filepath.Base = the name.  A system call on a path OUTSIDE w_dir is the
               unmodelled operation [Other] (it breaks every theorem of C17).
     []byte    the content as the list of chunks the kernel will accept it in
               (write(2) may be partial: File.Write loops); Model/Fs.v [o_chunks]
     map[string][]byte   the (name, content) pairs in the order Go happens to iterate
               the map: the permutation oracle of the models, folded into the value
     *os.File  [Some (fd, name)], nil = None; error = [Some code], nil = None
     *regexp.Regexp   its pattern text; MatchString is the Section variable [re_match] of the
               generated file (opaque oracle on the first line)
   firstLine(file) is ONE primitive: the model has one operation ReadFirstLine for
   open/read/close and one failure point; it yields [Fs.first_line] of what the file
   shows (without the newline: the two regexps are not (?s)).
   logx.Fatalf / logx.Fatal end the process: Panicked (PErrorf <format or callee> 0);
   os.Exit does not run deferred calls.  log.Printf("\t%s\n", fn) records fn in w_msgs;
   the other log lines are no-ops.  No proofs in this file. *)
From Coq Require Import List String Bool Arith.
From Shoot Require Import Model.Fs.
Import ListNotations.
Local Open Scope string_scope.

Definition path := (string * Fs.name)%type.
Definition fileobj := (nat * Fs.name)%type.
Definition errv := option nat.

Record pworld := mkPW {
  w_fs : Fs.fs;
  w_trace : list Fs.op;
  w_left : option nat;
  w_rnds : list string;
  w_fopen : bool;
  w_cmd : string;
  w_sep : bool;
  w_aio : string;
  w_genfile : Fs.name;
  w_dir : string;
  w_fd : nat;
  w_msgs : list string;
  w_srcs : list (string * list Fs.bytes)
}.

Definition with_sys (s : Fs.fs) (t : list Fs.op) (k : option nat) (w : pworld) : pworld :=
  mkPW s t k (w_rnds w) (w_fopen w) (w_cmd w) (w_sep w) (w_aio w) (w_genfile w) (w_dir w) (w_fd w) (w_msgs w) (w_srcs w).
Definition with_rnds (r : list string) (w : pworld) : pworld :=
  mkPW (w_fs w) (w_trace w) (w_left w) r (w_fopen w) (w_cmd w) (w_sep w) (w_aio w) (w_genfile w) (w_dir w) (w_fd w) (w_msgs w) (w_srcs w).
Definition with_fopen (b : bool) (w : pworld) : pworld :=
  mkPW (w_fs w) (w_trace w) (w_left w) (w_rnds w) b (w_cmd w) (w_sep w) (w_aio w) (w_genfile w) (w_dir w) (w_fd w) (w_msgs w) (w_srcs w).

(* ---- one system call under the failure oracle: (failed?, world afterwards) *)
Definition tick (o : Fs.op) (k : option nat) : bool * option nat :=
  match k with
  | None => (false, None)
  | Some 0 => if Fs.can_fail o then (true, None) else (false, None)
  | Some (S n) => (false, Some n)
  end.
Definition sys (o : Fs.op) (w : pworld) : bool * pworld :=
  let '(failed, k') := tick o (w_left w) in
  if failed then (true, with_sys (w_fs w) (w_trace w) k' w)
  else (false, with_sys (Fs.step (w_fs w) o) (w_trace w ++ [o]) k' w).

Definition eio : errv := Some 5.
Definition err_of (failed : bool) : errv := if failed then eio else None.

(* a path of the package directory names a directory entry; any other path is not modelled *)
Definition on_name (p : path) (w : pworld) (f : Fs.name -> Fs.op) : Fs.op :=
  if String.eqb (fst p) (w_dir w) then f (snd p) else Fs.Other "path outside the directory".

(* ---- paths *)
Definition path_join (d n : string) : path := (d, n).
Definition path_base (p : path) : string := snd p.

(* ---- os.CreateTemp(dir, pattern): the name is pattern ++ random suffix (the pattern has no star) *)
Definition create_temp (d pat : string) (w : pworld) : (option fileobj * errv) * pworld :=
  let rnd := hd "" (w_rnds w) in
  let w := with_rnds (tl (w_rnds w)) w in
  let t := pat ++ rnd in
  let '(failed, w') := sys (on_name (d, t) w (Fs.CreateTemp (w_fd w))) w in
  if failed then ((None, eio), w') else ((Some (w_fd w, t), None), with_fopen true w').

(* os.File Write(chunks): write(2) per chunk until one fails; a nil file answers ErrInvalid *)
Fixpoint write_chunks (h : nat) (cs : list Fs.bytes) (w : pworld) : bool * pworld :=
  match cs with
  | [] => (false, w)
  | c :: r => let '(failed, w') := sys (Fs.Write h c) w in
              if failed then (true, w') else write_chunks h r w'
  end.
Definition file_write (f : option fileobj) (cs : list Fs.bytes) (w : pworld) : (nat * errv) * pworld :=
  match f with
  | None => ((0, eio), w)
  | Some (h, _) => let '(failed, w') := write_chunks h cs w in ((0, err_of failed), w')
  end.

(* os.File Close(): close(2) once; the os package answers a second Close itself *)
Definition file_close (f : option fileobj) (w : pworld) : errv * pworld :=
  match f with
  | None => (eio, w)
  | Some (h, _) =>
      if w_fopen w then let '(_, w') := sys (Fs.Close h) w in (None, with_fopen false w')
      else (eio, w)
  end.

(* os.File Name(): the path CreateTemp opened *)
Definition file_name_of (f : fileobj) (w : pworld) : path := (w_dir w, snd f).

Definition os_remove (p : path) (w : pworld) : errv * pworld :=
  let '(failed, w') := sys (on_name p w Fs.Unlink) w in (err_of failed, w').
Definition os_rename (a b : path) (w : pworld) : errv * pworld :=
  let o := if String.eqb (fst a) (w_dir w) && String.eqb (fst b) (w_dir w)
           then Fs.Rename (snd a) (snd b) else Fs.Other "path outside the directory" in
  let '(failed, w') := sys o w in (err_of failed, w').

(* firstLine(file): open, read up to the newline, close *)
Definition first_line_of (p : path) (w : pworld) : (string * errv) * pworld :=
  let '(failed, w') := sys (on_name p w Fs.ReadFirstLine) w in
  if failed then (("", eio), w')
  else ((match Fs.visible (w_fs w) (snd p) with Some b => Fs.first_line b | None => "" end, None), w').

(* filepath.Glob(dir/pattern): the sorted names of the directory that match.  Only the pattern the
   model knows is interpreted: STAR .shoot<cmd> STAR .go; any other pattern is not modelled and
   answered by the whole listing, which no theorem of the bridge can use *)
Definition glob_paths (p : path) (w : pworld) : list path * errv :=
  if String.eqb (snd p) ("*" ++ Fs.glob_mid (w_cmd w) ++ "*.go")
  then (map (pair (fst p)) (Fs.sort_names (filter (Fs.glob (w_cmd w)) (Fs.listing (w_fs w)))), None)
  else (map (pair (fst p)) (Fs.listing (w_fs w)), None).

(* regexp *)
Definition re_compile (pat : string) : string := pat.
Definition quote_meta (s : string) : string := s.     (* the sub-command names have no metacharacter *)

(* log *)
Definition log_nothing (w : pworld) : pworld := w.
Definition log_name (n : string) (w : pworld) : pworld :=
  mkPW (w_fs w) (w_trace w) (w_left w) (w_rnds w) (w_fopen w) (w_cmd w) (w_sep w) (w_aio w) (w_genfile w) (w_dir w)
       (w_fd w) (w_msgs w ++ [n]) (w_srcs w).

(* g.Generate(g): what the generator produced, as Go will iterate it; g.CommonFlags(): the flags are in the world *)
Definition generated (w : pworld) : list (string * list Fs.bytes) := w_srcs w.
Definition common_flags (w : pworld) : pworld := w.
