(* Primitive table of the Go->Gallina translator, area "ctorjson" (C11):
   internal/constructor/json.go Generator.makeJson.  Trusted base.

   The generator is the world: g.fields, g.flags (json, tagcase), g.getter / g.setter
   (the type-level switches), g.getsetMethods, and the six components makeJson writes into
   g.data (kept as the model's own record [json_data]).  A *Field is read only: a value
   of Model/Ctor.v [field].  TagCase is a string type, its four constants are read from
   the source; `trans` is a VALUE of function type
   (string -> string).  A shoot.Func is the model's [gs_method]: IsGetter (Param == nil &&
   Result != nil) is kind MGet, IsSetter (name starts with "Set", Param != nil && Result ==
   nil) is that prefix test and kind MSet.  shoot.Set[string] (local) is the list of its
   elements, latest first.  tagMap is an association list as in area ctornew.
   No proofs in this file. *)
From Coq Require Import List String Bool Arith ZArith.
From Shoot Require Import Base.Str Base.GoVal Model.Transfer Model.CtorDirective Model.Ctor Model.CtorSpec Model.CtorOpt
     Model.CtorGetSet Model.CtorJson.
Import ListNotations.
Local Open Scope string_scope.

Definition smap := list (ident * string).
Definition sset := list string.
Record jflags := { jf_json : bool; jf_tagcase : string }.   (* TagCase is a string type *)

Record jworld := mkJ {
  j_fields : list Ctor.field;  j_flags : jflags;  j_getter : bool;  j_setter : bool;
  j_methods : list gs_method;
  j_data : json_data
}.

Definition with_data (d : json_data) (w : jworld) : jworld :=
  mkJ (j_fields w) (j_flags w) (j_getter w) (j_setter w) (j_methods w) d.
Definition set_tags (x : smap) (w : jworld) : jworld :=
  with_data {| jd_json := jd_json (j_data w); jd_list := jd_list (j_data w); jd_tags := x; jd_getters := jd_getters (j_data w);
               jd_setters := jd_setters (j_data w); jd_exported := jd_exported (j_data w) |} w.
Definition set_json (x : bool) (w : jworld) : jworld :=
  with_data {| jd_json := x; jd_list := jd_list (j_data w); jd_tags := jd_tags (j_data w); jd_getters := jd_getters (j_data w);
               jd_setters := jd_setters (j_data w); jd_exported := jd_exported (j_data w) |} w.
Definition set_list (x : list string) (w : jworld) : jworld :=
  with_data {| jd_json := jd_json (j_data w); jd_list := x; jd_tags := jd_tags (j_data w); jd_getters := jd_getters (j_data w);
               jd_setters := jd_setters (j_data w); jd_exported := jd_exported (j_data w) |} w.
Definition set_getters (x : list string) (w : jworld) : jworld :=
  with_data {| jd_json := jd_json (j_data w); jd_list := jd_list (j_data w); jd_tags := jd_tags (j_data w); jd_getters := x;
               jd_setters := jd_setters (j_data w); jd_exported := jd_exported (j_data w) |} w.
Definition set_setters (x : list string) (w : jworld) : jworld :=
  with_data {| jd_json := jd_json (j_data w); jd_list := jd_list (j_data w); jd_tags := jd_tags (j_data w); jd_getters := jd_getters (j_data w);
               jd_setters := x; jd_exported := jd_exported (j_data w) |} w.
Definition set_exported (x : list string) (w : jworld) : jworld :=
  with_data {| jd_json := jd_json (j_data w); jd_list := jd_list (j_data w); jd_tags := jd_tags (j_data w); jd_getters := jd_getters (j_data w);
               jd_setters := jd_setters (j_data w); jd_exported := x |} w.

Definition trans_id : string -> string := fun s => s.
Definition call_trans (f : string -> string) (s : string) : string := f s.

Definition func_is_getter (m : gs_method) : bool := mkind_eqb (gm_kind m) MGet.
Definition func_is_setter (m : gs_method) : bool := String.prefix "Set" (gm_name m) && mkind_eqb (gm_kind m) MSet.

Definition set_make : sset := [].
Definition set_adds (s : sset) (x : string) : sset := x :: s.
Definition set_has (s : sset) (x : string) : bool := existsb (String.eqb x) s.
Definition smap_make : smap := [].
