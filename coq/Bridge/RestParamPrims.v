(* Primitive table of the Go->Gallina translator, area "restparam" (C06):
   internal/restclient/paramhandler.go setBodyParamName, handleMapType, handleIdent and the
   field loop of handleStruct.  Trusted base.

   The generator is the world: the maps of g.data that the handlers touch, each keyed by the
   METHOD name (Go maps as association lists: first binding, a write replaces in place or
   appends), and the environment the go/ast / go/types queries are answered from
   (Model/Rest.v [env]).  A map of maps (AliasMap, IsParamPtrMap) is an association list of
   association lists; `g.data.M[k1][k2] = v` writes the inner map of k1 (the code makes the
   inner maps before the handlers run).  IsParamPtrMap's inner values are the text "true" /
   "false" (the model keeps the keys set to true with the value "true").  A *ast.Ident is
   its Name.  extractStructFields (parsing another package) is not translated: its result,
   the list of Model/Rest.v [field_info], is an input of the translated loop.
   No proofs in this file. *)
From Coq Require Import List String Bool Arith ZArith.
From Shoot Require Import Base.Str Model.Transfer Model.Directive Model.Rest.
Import ListNotations.
Local Open Scope string_scope.

Definition smap := list (string * string).

Fixpoint ms_get {A} (d : A) (m : list (string * A)) (k : string) : A :=
  match m with
  | [] => d
  | (k', v) :: r => if String.eqb k' k then v else ms_get d r k
  end.
Fixpoint ms_set {A} (m : list (string * A)) (k : string) (v : A) : list (string * A) :=
  match m with
  | [] => [(k, v)]
  | (k', v') :: r => if String.eqb k' k then (k, v) :: r else (k', v') :: ms_set r k v
  end.

Record pworld := mkP {
  p_env : Rest.env;
  p_alias : list (string * smap);                (* AliasMap *)
  p_pathparams : list (string * list string);    (* PathParamsMap *)
  p_query : list (string * list string);         (* QueryParamsMap *)
  p_isptr : list (string * smap);                (* IsParamPtrMap *)
  p_body : smap;  p_dict : smap;  p_ctx : smap   (* BodyParamMap, QueryDictMap, CtxParamMap *)
}.

(* m[k] on a map[string][]string: nil on a miss *)
Definition sl_get (m : list (string * list string)) (k : string) : list string := ms_get [] m k.
Definition lookup (m : smap) (k : string) : string * bool :=
  match map_get m k with Some v => (v, true) | None => ("", false) end.
Definition body_lookup (k : string) (w : pworld) : string * bool := lookup (p_body w) k.
Definition dict_lookup (k : string) (w : pworld) : string * bool := lookup (p_dict w) k.

Definition body_set (k v : string) (w : pworld) : pworld :=
  mkP (p_env w) (p_alias w) (p_pathparams w) (p_query w) (p_isptr w) (map_set (p_body w) k v) (p_dict w) (p_ctx w).
Definition dict_set (k v : string) (w : pworld) : pworld :=
  mkP (p_env w) (p_alias w) (p_pathparams w) (p_query w) (p_isptr w) (p_body w) (map_set (p_dict w) k v) (p_ctx w).
Definition query_set (k : string) (v : list string) (w : pworld) : pworld :=
  mkP (p_env w) (p_alias w) (p_pathparams w) (ms_set (p_query w) k v) (p_isptr w) (p_body w) (p_dict w) (p_ctx w).
Definition isptr_set2 (k1 k2 : string) (b : bool) (w : pworld) : pworld :=
  mkP (p_env w) (p_alias w) (p_pathparams w) (p_query w)
      (ms_set (p_isptr w) k1 (map_set (ms_get [] (p_isptr w) k1) k2 (if b then "true" else "false")))
      (p_body w) (p_dict w) (p_ctx w).
Definition alias_set2 (k1 k2 v : string) (w : pworld) : pworld :=
  mkP (p_env w) (ms_set (p_alias w) k1 (map_set (ms_get [] (p_alias w) k1) k2 v)) (p_pathparams w) (p_query w) (p_isptr w)
      (p_body w) (p_dict w) (p_ctx w).

Definition ident_name (s : string) : string := s.
(* shoot.Contains(xs, x) *)
Definition contains (xs : list string) (x : string) : bool := mem_str x xs.
(* g.isPkgStructType(name, file): is the name declared as a struct type in the package *)
Definition is_pkg_struct (n : string) (w : pworld) : bool := is_struct_type (p_env w) n.
(* extractStructFields for a type of the package under generation *)
Definition pkg_struct_fields (tname : string) (w : pworld) : list field_info := struct_fields (p_env w) "" tname.
