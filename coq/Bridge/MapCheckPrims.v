(* Primitive table of the Go->Gallina translator, area "mapcheck" (C09, also
   C05): internal/mapper/check.go prepareReadPaths, nilCheckRead, nilCheckWrite.
   Trusted base.  Store discipline as in Bridge/MapPrims.v: the receiver g is the
   world, a *Field is a location [MapPrims.loc] into the two field arrays of
   [k_st]; the fields are only read here.

   Data refinement of Model/Mapper.v (its header says so): a dotted path string
   "Model.ID" is the list of its components ["Model"; "ID"]:
       strings.Split(f.Path, dot)      the components ([path_comps], identity)
       strings.Join(ps[:i], dot)       the prefix of i components ([comps_path], identity;
                                       ps[:i] is [GoPrims.list_slice], PIndex when out of range)
       f.IsEmbeded()                   [Mapper.is_embedded]   (the path contains a dot)
       f.CoveredBy(p)                  [Mapper.covered_by]    (types.go: HasPrefix / HasSuffix on dotted strings)
       sort.Strings                    [Mapper.sort_paths]    ('.' sorts before every identifier byte)
   Go maps are association lists, latest entry first; a lookup finds the first entry
   ([pm_get], [pmap_get], [m_get]); RANGING over a map yields each key ONCE - its live
   entry - in an order chosen by the oracle [k_sigma] (Model/Mapper.v [oracle]):
       for p, t := range g.srcPtrTypeMap    [range_ptr]: sigma (the pointer map; its keys are unique, pm_set)
       for _, d := range g.writeDestMap()   [live_values]: the values of the LIVE entries of readSrcMap
   map[string][]string (the paths maps) / data.*NeedReadCheckMap / data.*PtrTypeMap /
   data.*PtrPathList are components of the world.  A map passed as an argument
   (prepareReadPaths' readPathsMap) is a REFERENCE to a world map: [PSrcPaths | PDstPaths].
   No proofs in this file. *)
From Coq Require Import List String Bool Arith.
From Shoot Require Import Base.Str Model.MapVal Model.Mapper Bridge.MapPrims.
Import ListNotations.
Local Open Scope string_scope.
Local Open Scope list_scope.

Definition pathsmap := list (string * list path).
Inductive pathsref := PSrcPaths | PDstPaths.

Record kworld := mkK {
  k_st : Mapper.st;
  k_srcptr : ptrmap;  k_dstptr : ptrmap;          (* srcPtrTypeMap / destPtrTypeMap *)
  k_sigma : Mapper.oracle;
  k_srcpaths : pathsmap;  k_dstpaths : pathsmap;  (* srcPathsMap / destPathsMap *)
  k_srcneed : Mapper.smap;  k_dstneed : Mapper.smap;   (* data.SrcNeedReadCheckMap / data.DestNeedReadCheckMap *)
  k_srcout : ptrmap;  k_dstout : ptrmap;          (* data.SrcPtrTypeMap / data.DestPtrTypeMap *)
  k_srclist : list path;  k_dstlist : list path   (* data.SrcPtrPathList / data.DestPtrPathList *)
}.

(* ---- fields (read only) *)
Definition kload (l : loc) (w : kworld) : Mapper.field :=
  match l with LSrc i => Mapper.src_at (k_st w) i | LDst j => Mapper.dst_at (k_st w) j end.
Definition src_locs (w : kworld) : list loc := map LSrc (seq 0 (List.length (s_src (k_st w)))).
Definition dst_locs (w : kworld) : list loc := map LDst (seq 0 (List.length (s_dst (k_st w)))).
Definition get_Name (l : loc) (w : kworld) : string := f_name (kload l w).
Definition get_Path (l : loc) (w : kworld) : path := f_path (kload l w).
Definition is_embedded_at (l : loc) (w : kworld) : bool := Mapper.is_embedded (kload l w).
Definition covered_by_at (l : loc) (p : path) (w : kworld) : bool := Mapper.covered_by (kload l w) p.

(* ---- dotted strings *)
Definition path_comps (p : path) : list string := p.
Definition comps_path (l : list string) : path := l.

(* ---- maps: comma-ok lookups *)
Definition pm_lookup (m : ptrmap) (p : path) : ty * bool :=
  match pm_get m p with Some t => (t, true) | None => (TBasic BBool, false) end.
Definition smap_lookup (m : Mapper.smap) (k : string) : string * bool :=
  match m_get m k with Some v => (v, true) | None => ("", false) end.
Definition paths_lookup (m : pathsmap) (k : string) : list path * bool :=
  match pmap_get m k with Some v => (v, true) | None => ([], false) end.

Definition rmap_lookup (k : string) (w : kworld) := smap_lookup (s_rmap (k_st w)) k.   (* g.readSrcMap = g.writeDestMap() *)
Definition wmap_lookup (k : string) (w : kworld) := smap_lookup (s_wmap (k_st w)) k.   (* g.writeSrcMap = g.readDestMap() *)
Definition srcpaths_lookup (k : string) (w : kworld) := paths_lookup (k_srcpaths w) k.
Definition dstpaths_lookup (k : string) (w : kworld) := paths_lookup (k_dstpaths w) k.
Definition srcout_lookup (p : path) (w : kworld) := pm_lookup (k_srcout w) p.
Definition dstout_lookup (p : path) (w : kworld) := pm_lookup (k_dstout w) p.

(* ---- ranging over maps *)
Definition range_srcptr (w : kworld) : list (path * ty) := k_sigma w (k_srcptr w).
Definition range_dstptr (w : kworld) : list (path * ty) := k_sigma w (k_dstptr w).
(* the entries a Go map really holds: for each key its latest assignment *)
Fixpoint live (m : Mapper.smap) : Mapper.smap :=
  match m with
  | [] => []
  | (k, v) :: r => (k, v) :: filter (fun kv => negb (String.eqb (fst kv) k)) (live r)
  end.
Definition live_values (w : kworld) : list string := map snd (live (s_rmap (k_st w))).

(* ---- world updates *)
Definition upd_k (w : kworld) sp dp sn dn so do' sl dl : kworld :=
  mkK (k_st w) (k_srcptr w) (k_dstptr w) (k_sigma w) sp dp sn dn so do' sl dl.
Definition set_srcpaths (m : pathsmap) (w : kworld) := upd_k w m (k_dstpaths w) (k_srcneed w) (k_dstneed w) (k_srcout w) (k_dstout w) (k_srclist w) (k_dstlist w).
Definition set_dstpaths (m : pathsmap) (w : kworld) := upd_k w (k_srcpaths w) m (k_srcneed w) (k_dstneed w) (k_srcout w) (k_dstout w) (k_srclist w) (k_dstlist w).
Definition set_srcneed (m : Mapper.smap) (w : kworld) := upd_k w (k_srcpaths w) (k_dstpaths w) m (k_dstneed w) (k_srcout w) (k_dstout w) (k_srclist w) (k_dstlist w).
Definition set_dstneed (m : Mapper.smap) (w : kworld) := upd_k w (k_srcpaths w) (k_dstpaths w) (k_srcneed w) m (k_srcout w) (k_dstout w) (k_srclist w) (k_dstlist w).
Definition set_srcout (m : ptrmap) (w : kworld) := upd_k w (k_srcpaths w) (k_dstpaths w) (k_srcneed w) (k_dstneed w) m (k_dstout w) (k_srclist w) (k_dstlist w).
Definition set_dstout (m : ptrmap) (w : kworld) := upd_k w (k_srcpaths w) (k_dstpaths w) (k_srcneed w) (k_dstneed w) (k_srcout w) m (k_srclist w) (k_dstlist w).
Definition set_srclist (l : list path) (w : kworld) := upd_k w (k_srcpaths w) (k_dstpaths w) (k_srcneed w) (k_dstneed w) (k_srcout w) (k_dstout w) l (k_dstlist w).
Definition set_dstlist (l : list path) (w : kworld) := upd_k w (k_srcpaths w) (k_dstpaths w) (k_srcneed w) (k_dstneed w) (k_srcout w) (k_dstout w) (k_srclist w) l.

(* m[k] = v: a new first entry *)
Definition paths_set (r : pathsref) (k : string) (v : list path) (w : kworld) : kworld :=
  match r with
  | PSrcPaths => set_srcpaths ((k, v) :: k_srcpaths w) w
  | PDstPaths => set_dstpaths ((k, v) :: k_dstpaths w) w
  end.
Definition srcneed_set (k v : string) (w : kworld) := set_srcneed ((k, v) :: k_srcneed w) w.
Definition dstneed_set (k v : string) (w : kworld) := set_dstneed ((k, v) :: k_dstneed w) w.
Definition srcout_set (p : path) (t : ty) (w : kworld) := set_srcout ((p, t) :: k_srcout w) w.
Definition dstout_set (p : path) (t : ty) (w : kworld) := set_dstout ((p, t) :: k_dstout w) w.

Definition empty_smap : Mapper.smap := [].
Definition empty_ptrmap : ptrmap := [].
