(* Facts about the string / slice primitives of Bridge/GoPrims.v, used by the
   bridge proofs (no dependency on generated code).  Strings are related to the
   list view [list_of_string] of Base/Str.v. *)
From Coq Require Import List ZArith Bool String Ascii Lia.
From Shoot Require Import Base.Str Bridge.GoPrims.
Import ListNotations.
Local Open Scope Z_scope.

Lemma sol_los : forall s, string_of_list (list_of_string s) = s.
Proof. induction s as [|c s IH]; simpl; [reflexivity | rewrite IH; reflexivity]. Qed.
Lemma los_sol : forall l, list_of_string (string_of_list l) = l.
Proof. induction l as [|c l IH]; simpl; [reflexivity | rewrite IH; reflexivity]. Qed.
Lemma length_los : forall s, List.length (list_of_string s) = String.length s.
Proof. induction s as [|c s IH]; simpl; [reflexivity | rewrite IH; reflexivity]. Qed.
Lemma sol_app : forall a b, string_of_list (a ++ b) = (string_of_list a ++ string_of_list b)%string.
Proof. induction a as [|c a IH]; simpl; intros; [reflexivity | rewrite IH; reflexivity]. Qed.
Lemma sol_length : forall l, String.length (string_of_list l) = List.length l.
Proof. induction l as [|c l IH]; simpl; [reflexivity | rewrite IH; reflexivity]. Qed.

Lemma str_len_sol : forall l, str_len (string_of_list l) = Z.of_nat (List.length l).
Proof. intros. unfold str_len. rewrite sol_length. reflexivity. Qed.

Lemma str_len_cons : forall c s, str_len (String c s) = 1 + str_len s.
Proof. intros. unfold str_len. simpl String.length. lia. Qed.
Lemma str_len_nonneg : forall s, 0 <= str_len s.
Proof. intros. unfold str_len. lia. Qed.
Lemma str_len_empty : str_len "" = 0.
Proof. reflexivity. Qed.
Lemma str_len_zero : forall s, str_len s = 0 -> s = ""%string.
Proof. intros [|c s] H; [reflexivity|]. rewrite str_len_cons in H. pose proof (str_len_nonneg s). lia. Qed.

(* ---- get *)
Lemma get_sol : forall l n, String.get n (string_of_list l) = nth_error l n.
Proof. induction l as [|c l IH]; intros [|n]; simpl; auto. Qed.

Lemma str_get_sol : forall l n, str_get (string_of_list l) (Z.of_nat n) = nth_error l n.
Proof.
  intros. unfold str_get. destruct (Z.ltb_spec (Z.of_nat n) 0); [lia|].
  rewrite Nat2Z.id. apply get_sol.
Qed.

Lemma nth_error_app_mid : forall {A} (a : list A) x b, nth_error (a ++ x :: b) (List.length a) = Some x.
Proof. induction a as [|y a IH]; simpl; intros; [reflexivity | apply IH]. Qed.

Lemma str_get_first : forall c s, str_get (String c s) 0 = Some c.
Proof. reflexivity. Qed.
Lemma str_get_empty : forall i, str_get "" i = None.
Proof. intros. unfold str_get. destruct (i <? 0); [reflexivity|]. destruct (Z.to_nat i); reflexivity. Qed.

(* ---- slice *)
Lemma substring_sol : forall l a n,
  substring a n (string_of_list l) = string_of_list (firstn n (skipn a l)).
Proof.
  induction l as [|c l IH]; intros a n.
  - destruct a, n; reflexivity.
  - destruct a as [|a].
    + destruct n as [|n]; simpl; [reflexivity|]. rewrite (IH 0%nat n). simpl. reflexivity.
    + simpl. apply IH.
Qed.

Lemma str_slice_sol : forall l a b, (a <= b <= List.length l)%nat ->
  str_slice (string_of_list l) (Z.of_nat a) (Z.of_nat b)
  = Some (string_of_list (firstn (b - a) (skipn a l))).
Proof.
  intros l a b H. unfold str_slice. rewrite str_len_sol.
  destruct (Z.leb_spec 0 (Z.of_nat a)); [|lia].
  destruct (Z.leb_spec (Z.of_nat a) (Z.of_nat b)); [|lia].
  destruct (Z.leb_spec (Z.of_nat b) (Z.of_nat (List.length l))); [|lia].
  simpl. rewrite Nat2Z.id. replace (Z.to_nat (Z.of_nat b - Z.of_nat a)) with (b - a)%nat by lia.
  rewrite substring_sol. reflexivity.
Qed.

Lemma str_slice_first : forall c s, str_slice (String c s) 0 1 = Some (String c "").
Proof.
  intros. unfold str_slice. rewrite str_len_cons. pose proof (str_len_nonneg s).
  destruct (Z.leb_spec 1 (1 + str_len s)); [|lia]. simpl. destruct s; reflexivity.
Qed.

Lemma str_slice_tail : forall c s, str_slice (String c s) 1 (str_len (String c s)) = Some s.
Proof.
  intros. rewrite <- (sol_los s) at 1 2. change (String c (string_of_list (list_of_string s))) with (string_of_list (c :: list_of_string s)).
  rewrite str_len_sol. change 1 with (Z.of_nat 1).
  rewrite str_slice_sol by (simpl; lia).
  simpl List.length. replace (S (List.length (list_of_string s)) - 1)%nat with (List.length (list_of_string s)) by lia.
  simpl skipn. rewrite firstn_all, sol_los. reflexivity.
Qed.

(* ---- set *)
Lemma str_set_first : forall c s d, str_set (String c s) 0 d = Some (String d s).
Proof. reflexivity. Qed.

Lemma list_set_app_mid : forall {A} (a : list A) x b y,
  list_set (a ++ x :: b) (Z.of_nat (List.length a)) y = Some (a ++ y :: b).
Proof.
  intros A a x b y. unfold list_set. destruct (Z.ltb_spec (Z.of_nat (List.length a)) 0) as [H|_]; [lia|].
  rewrite Nat2Z.id. clear. induction a as [|z a IH]; simpl; [reflexivity | rewrite IH; reflexivity].
Qed.

Lemma go_index_app_mid : forall {A} (a : list A) x b,
  go_index (a ++ x :: b) (Z.of_nat (List.length a)) = Some x.
Proof.
  intros. unfold go_index. destruct (Z.ltb_spec (Z.of_nat (List.length a)) 0); [lia|].
  rewrite Nat2Z.id. apply nth_error_app_mid.
Qed.

(* ---- upper / lower *)
Lemma lower_app : forall a b, lower (a ++ b) = (lower a ++ lower b)%string.
Proof. induction a as [|c a IH]; simpl; intros; [reflexivity | unfold lower in *; simpl; rewrite IH; reflexivity]. Qed.
Lemma lower_sol : forall l, lower (string_of_list l) = string_of_list (map to_lower_c l).
Proof. induction l as [|c l IH]; [reflexivity|]. unfold lower in *. simpl. rewrite IH. reflexivity. Qed.

(* ---- join with the empty separator *)
Lemma sapp_nil_r : forall s : string, (s ++ "")%string = s.
Proof. induction s as [|c s IH]; simpl; [reflexivity | rewrite IH; reflexivity]. Qed.
Lemma sapp_assoc : forall a b c : string, ((a ++ b) ++ c)%string = (a ++ (b ++ c))%string.
Proof. induction a as [|x a IH]; simpl; intros; [reflexivity | rewrite IH; reflexivity]. Qed.

Lemma join_empty_cons : forall x l, join "" (x :: l) = (x ++ join "" l)%string.
Proof.
  intros x l. unfold join. destruct l as [|y l]; simpl.
  - rewrite sapp_nil_r. reflexivity.
  - reflexivity.
Qed.

Lemma join_empty_app : forall a b, join "" (a ++ b) = (join "" a ++ join "" b)%string.
Proof.
  induction a as [|x a IH]; intros b.
  - reflexivity.
  - rewrite <- app_comm_cons, !join_empty_cons, IH, sapp_assoc. reflexivity.
Qed.
