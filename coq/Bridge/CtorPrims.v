(* Primitive table of the Go->Gallina translator, area "ctorshadow" (C02, C03,
   C11, also C13): internal/constructor/fields.go checkShadowAndAppend.
   Trusted base.

   Store discipline (docs/translator.md): `fields *[]*Field` is THE slice under
   construction and `field *Field` the freshly allocated object of the call;
   the world holds both, a *Field is a location:
       COld k   the k-th element of *fields        CNew   the object `field` points to
   `for _, f := range *fields` enumerates COld 0 .. COld (n-1) (length taken when
   the loop starts); `p.x` is a read of that cell, `p.isShadowed = b` the update
   of that one cell; `*fields = append( *fields, field)` moves the object into the
   slice.  Trusted with this reading: the elements of *fields are pairwise
   distinct non-nil pointers and `field` is none of them (every caller passes a
   composite literal &Field{...}); depth is an int32 that never overflows (it
   counts embedding levels).  No proofs in this file. *)
From Coq Require Import List String Bool Arith ZArith.
From Shoot Require Import Base.Str Model.Ctor.
Import ListNotations.

Inductive cloc := COld (k : nat) | CNew.

Record cworld := mkCW {
  cw_fields : list Ctor.field;      (* *fields *)
  cw_new : Ctor.field               (* *field *)
}.

Fixpoint cupd {A} (l : list A) (i : nat) (g : A -> A) : list A :=
  match l, i with
  | [], _ => []
  | x :: r, O => g x :: r
  | x :: r, S i' => x :: cupd r i' g
  end.

(* an index out of range reads the new object (never happens: the locations come from the range loop) *)
Definition cload (l : cloc) (w : cworld) : Ctor.field :=
  match l with COld k => nth k (cw_fields w) (cw_new w) | CNew => cw_new w end.
Definition cstore (l : cloc) (g : Ctor.field -> Ctor.field) (w : cworld) : cworld :=
  match l with
  | COld k => mkCW (cupd (cw_fields w) k g) (cw_new w)
  | CNew => mkCW (cw_fields w) (g (cw_new w))
  end.

Definition old_locs (w : cworld) : list cloc := map COld (seq 0 (List.length (cw_fields w))).

Definition get_name (l : cloc) (w : cworld) : string := Ctor.f_name (cload l w).
Definition get_depth (l : cloc) (w : cworld) : Z := Z.of_nat (Ctor.f_depth (cload l w)).
Definition get_isShadowed (l : cloc) (w : cworld) : bool := Ctor.f_shadowed (cload l w).

Definition fset_shadowed (b : bool) (f : Ctor.field) : Ctor.field :=
  {| f_name := f_name f; f_qtype := f_qtype f; f_ty := f_ty f; f_depth := f_depth f; f_ptr := f_ptr f;
     f_shadowed := b; f_embedded := f_embedded f; f_get := f_get f; f_set := f_set f; f_new := f_new f;
     f_def := f_def f; f_jsontag := f_jsontag f; f_path := f_path f |}.
Definition set_isShadowed (l : cloc) (b : bool) (w : cworld) : cworld := cstore l (fset_shadowed b) w.

(* *fields = append( *fields, p): the object p points to becomes the last element *)
Definition append_cell (p : cloc) (w : cworld) : cworld :=
  mkCW (cw_fields w ++ [cload p w]) (cw_new w).
