(* Go-like values, field paths, selection and assignment through (embedded)
   struct fields with pointer hops.  Shared by the constructor properties
   (C02, C13, C03, C11) and meant to be reusable by the mapper models.

   Values are trees: pointers own their pointee (no aliasing is modelled; the
   generated code under study never shares a pointee between two fields).
   A nil dereference is the explicit outcome [Panic]; selecting a field that
   the value does not have is [Stuck] (ill-typed program) and is never
   confused with a zero value.

   This file contains definitions only; lemmas are in Proofs/GoValProofs.v. *)
From Coq Require Import String List ZArith Bool.
Import ListNotations.
Local Open Scope string_scope.

Definition ident := string.
Definition path := list ident.

Inductive val :=
| VZ (z : Z)                          (* integers of any width *)
| VS (s : string)
| VB (b : bool)
| VNil                                (* nil pointer / slice / map *)
| VPtr (v : val)                      (* non-nil pointer, owning its pointee *)
| VStruct (fs : list (ident * val))   (* fields in declaration order *)
| VList (vs : list val)
| VMap (kv : list (val * val))
| VSent (n : nat)                     (* an opaque caller-chosen value (sentinel n) *)
| VZero                               (* the zero value of an opaque (leaf) type *)
| VDef (text : string).               (* the value denoted by the Go expression [text] at the field's type *)

Inductive res (A : Type) :=
| Ok (a : A)
| Panic            (* nil pointer dereference *)
| Stuck.           (* no such field / not a struct: cannot happen in a well-typed program *)
Arguments Ok {A} a.
Arguments Panic {A}.
Arguments Stuck {A}.

Definition bind {A B} (r : res A) (f : A -> res B) : res B :=
  match r with Ok a => f a | Panic => Panic | Stuck => Stuck end.

(* association lists keyed by identifiers: first binding wins *)
Fixpoint assoc {A} (k : ident) (l : list (ident * A)) : option A :=
  match l with
  | [] => None
  | (k', a) :: r => if String.eqb k k' then Some a else assoc k r
  end.

(* replace the first binding of k (no change if there is none) *)
Fixpoint assoc_set {A} (k : ident) (a : A) (l : list (ident * A)) : list (ident * A) :=
  match l with
  | [] => []
  | (k', a') :: r => if String.eqb k k' then (k', a) :: r else (k', a') :: assoc_set k a r
  end.

Definition has_key {A} (k : ident) (l : list (ident * A)) : bool :=
  match assoc k l with Some _ => true | None => false end.

(* x.f : automatic dereference of ONE pointer level, as Go does for selectors *)
Definition sel (v : val) (f : ident) : res val :=
  match v with
  | VStruct fs => match assoc f fs with Some x => Ok x | None => Stuck end
  | VPtr (VStruct fs) => match assoc f fs with Some x => Ok x | None => Stuck end
  | VNil => Panic
  | _ => Stuck
  end.

(* x.f = w *)
Definition set_sel (v : val) (f : ident) (w : val) : res val :=
  match v with
  | VStruct fs => if has_key f fs then Ok (VStruct (assoc_set f w fs)) else Stuck
  | VPtr (VStruct fs) => if has_key f fs then Ok (VPtr (VStruct (assoc_set f w fs))) else Stuck
  | VNil => Panic
  | _ => Stuck
  end.

(* x.p1.p2...pn *)
Fixpoint lookup (v : val) (p : path) : res val :=
  match p with
  | [] => Ok v
  | f :: p' => bind (sel v f) (fun x => lookup x p')
  end.

(* x.p1.p2...pn = w   (the empty path replaces the whole value) *)
Fixpoint update (v : val) (p : path) (w : val) : res val :=
  match p with
  | [] => Ok w
  | f :: p' =>
      bind (sel v f) (fun x =>
      bind (update x p' w) (fun x' => set_sel v f x'))
  end.

(* is the pointer at path p allocated? *)
Definition allocated (v : val) (p : path) : bool :=
  match lookup v p with Ok (VPtr _) => true | _ => false end.

Fixpoint is_prefix (p q : path) : bool :=
  match p, q with
  | [], _ => true
  | a :: p', b :: q' => String.eqb a b && is_prefix p' q'
  | _ :: _, [] => false
  end.

Definition path_eqb (p q : path) : bool := is_prefix p q && is_prefix q p.

(* neither path is a prefix of the other *)
Definition diverge (p q : path) : bool := negb (is_prefix p q) && negb (is_prefix q p).

(* structural equality of values (decidable; used by the correspondence) *)
Fixpoint val_eqb (a b : val) {struct a} : bool :=
  let fix fs_eqb (x y : list (ident * val)) {struct x} : bool :=
    match x, y with
    | [], [] => true
    | (k, v) :: x', (k', v') :: y' => String.eqb k k' && val_eqb v v' && fs_eqb x' y'
    | _, _ => false
    end in
  let fix vs_eqb (x y : list val) {struct x} : bool :=
    match x, y with
    | [], [] => true
    | v :: x', v' :: y' => val_eqb v v' && vs_eqb x' y'
    | _, _ => false
    end in
  let fix kv_eqb (x y : list (val * val)) {struct x} : bool :=
    match x, y with
    | [], [] => true
    | (k, v) :: x', (k', v') :: y' => val_eqb k k' && val_eqb v v' && kv_eqb x' y'
    | _, _ => false
    end in
  match a, b with
  | VZ x, VZ y => Z.eqb x y
  | VS x, VS y => String.eqb x y
  | VB x, VB y => Bool.eqb x y
  | VNil, VNil => true
  | VPtr x, VPtr y => val_eqb x y
  | VStruct x, VStruct y => fs_eqb x y
  | VList x, VList y => vs_eqb x y
  | VMap x, VMap y => kv_eqb x y
  | VSent n, VSent m => Nat.eqb n m
  | VZero, VZero => true
  | VDef s, VDef t => String.eqb s t
  | _, _ => false
  end.
