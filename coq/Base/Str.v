(* ASCII string helpers shared by the models (byte-level, as Go's strings are
   used by shoot on ASCII identifiers).  No proofs about the code here. *)
From Coq Require Import String Ascii List Bool Arith NArith.
Import ListNotations.
Local Open Scope string_scope.

Definition code (c : ascii) : nat := nat_of_ascii c.

Definition is_upper (c : ascii) : bool := Nat.leb 65 (code c) && Nat.leb (code c) 90.
Definition is_lower (c : ascii) : bool := Nat.leb 97 (code c) && Nat.leb (code c) 122.
Definition is_digit (c : ascii) : bool := Nat.leb 48 (code c) && Nat.leb (code c) 57.
Definition is_ascii7 (c : ascii) : bool := Nat.ltb (code c) 128.

Definition to_upper_c (c : ascii) : ascii :=
  if is_lower c then ascii_of_nat (code c - 32) else c.
Definition to_lower_c (c : ascii) : ascii :=
  if is_upper c then ascii_of_nat (code c + 32) else c.

Fixpoint smap (f : ascii -> ascii) (s : string) : string :=
  match s with
  | EmptyString => EmptyString
  | String c r => String (f c) (smap f r)
  end.

Definition upper := smap to_upper_c.     (* strings.ToUpper on ASCII *)
Definition lower := smap to_lower_c.     (* strings.ToLower on ASCII *)

Fixpoint sall (p : ascii -> bool) (s : string) : bool :=
  match s with
  | EmptyString => true
  | String c r => p c && sall p r
  end.

Definition ascii_only := sall is_ascii7.

(* strings.Split(s, sep) for a one-byte separator: always at least one piece *)
Fixpoint split_c_aux (sep : ascii) (s : string) (cur : string -> string) : list string :=
  match s with
  | EmptyString => [cur EmptyString]
  | String c r =>
      if Ascii.eqb c sep then cur EmptyString :: split_c_aux sep r (fun x => x)
      else split_c_aux sep r (fun x => cur (String c x))
  end.
Definition split_c (sep : ascii) (s : string) : list string := split_c_aux sep s (fun x => x).

Definition join (sep : string) (l : list string) : string := String.concat sep l.

Definition first_upper (s : string) : string :=
  match s with
  | EmptyString => EmptyString
  | String c r => String (to_upper_c c) r
  end.
Definition first_lower (s : string) : string :=
  match s with
  | EmptyString => EmptyString
  | String c r => String (to_lower_c c) r
  end.

Fixpoint list_of_string (s : string) : list ascii :=
  match s with EmptyString => [] | String c r => c :: list_of_string r end.
Fixpoint string_of_list (l : list ascii) : string :=
  match l with [] => EmptyString | c :: r => String c (string_of_list r) end.

Definition starts_with (p s : string) : bool := String.prefix p s.

(* strings.TrimPrefix *)
Definition trim_prefix (p s : string) : string :=
  if String.prefix p s then substring (String.length p) (String.length s - String.length p) s else s.

(* ast.IsExported on ASCII identifiers: first byte upper-case *)
Definition is_exported (s : string) : bool :=
  match s with String c _ => is_upper c | EmptyString => false end.

Definition string_eqb := String.eqb.

(* strings.EqualFold on ASCII *)
Definition equal_fold (a b : string) : bool := String.eqb (lower a) (lower b).

(* strings.HasSuffix *)
Definition ends_with (suf s : string) : bool :=
  let n := String.length s in let m := String.length suf in
  Nat.leb m n && String.eqb (substring (n - m) m s) suf.
