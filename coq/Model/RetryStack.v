(* C20, compositional layer: RetryMiddleware as a transformer of RoundTrippers, so that stacks of
   middlewares (a retry inside a retry, logging around a retry, ...) are inside the model.

   Model/Retry.v describes ONE RetryMiddleware directly over a scripted wire transport.  Here a
   RoundTripper is an arbitrary stateful function: invoked when the wire has already been called
   [c] times it returns the events it produced, its (resp, err) result and the number of wire
   calls afterwards.  [retry_tr n] is the literal loop of middleware/retry.go over such a [next];
   Proofs/RetryStackProofs.v shows that over the wire itself it IS Model/Retry.retry (so every
   tie of that model to the code carries over), and proves the laws of stacking.

   (nil, nil) is not a result a RoundTripper may return (net/http contract; retry.go would
   dereference nil): [ok_res] names that side condition and the proofs carry it explicitly. *)
From Coq Require Import List ZArith Bool.
From Shoot Require Import Model.Retry.
Import ListNotations.
Local Open Scope Z_scope.

Definition tr := nat -> list event * result * nat.

(* the scripted wire transport of Model/Retry.v as a RoundTripper *)
Definition wire (script : nat -> rt_out) : tr :=
  fun c => ([ECall c], as_result (script c), S c).

(* retry.go: err == nil && resp.StatusCode < 500 *)
Definition acceptable_res (r : result) : bool :=
  match r with
  | (Some rp, None) => r_status rp <? 500
  | _ => false
  end.

Definition ok_res (r : result) : bool :=
  match r with (None, None) => false | _ => true end.

Fixpoint loop_tr (next : tr) (fuel attempt : nat) (last : result) (c : nat)
  : list event * result * nat :=
  match fuel with
  | O => ([], last, c)
  | S fuel' =>
      let pre := match attempt with O => [] | S _ => [ESleep] end in
      let '(ev1, r, c1) := next c in
      if acceptable_res r then (pre ++ ev1, (fst r, None), c1)
      else let '(ev, r', c2) := loop_tr next fuel' (S attempt) r c1 in
           (pre ++ ev1 ++ ev, r', c2)
  end.

Definition retry_tr (n : Z) (next : tr) : tr :=
  fun c => loop_tr next (Z.to_nat (n + 1)) O (None, None) c.

(* middleware/logging.go: passes the request on once; on an error the response is dropped *)
Definition log_tr (next : tr) : tr :=
  fun c => let '(ev, r, c1) := next c in
           (ev, match r with (_, Some e) => (None, Some e) | _ => r end, c1).

(* number of wire calls made by one invocation *)
Definition wire_calls (t : tr) (c : nat) : nat := snd (t c) - c.
