(* Model of the response handling of a generated rest client method (C10):

     internal/restclient/cook.go               the "Results" part of cookClient (resultValues, arity and
                                               type checks, ReturnResultMap, ErrReturnMap) and
                                               getReturnTypeName, as of commits 5bf1aba / 9fecf90
     internal/restclient/cook.go:184-191       exprToString (go/printer on a type expression)
     internal/restclient/restclient.tmpl:16-21,34-37,42-45,54-56   the `return {{$errret}}` exits before the call
     internal/restclient/restclient.tmpl:94-130  c.client.Do, the status switch, the decode tail

   The analysis code (cook) is transcribed literally; the template is modelled
   by [emit], which renders the method body from the first fallible call on as
   a list of abstract Go statements ([stmt]), and by [exec], the meaning of
   these statements (local variables resp_, err, r_, the deferred Close).

   Kept abstract (Section variables, instantiated by the correspondence with
   what the real packages do; the property does not talk about them):
     V          Go values of the variable `r_` the body is decoded into
     X          identities of errors produced by other packages (net/http,
                net/url, encoding/json, the transport, the body reader)
     decode     `var r_ T; err = json.NewDecoder(resp_.Body).Decode(&r_)`: the value r_
                holds afterwards and the error (the zero value of T enters only through
                the law "an empty body yields io.EOF and leaves r_ untouched", Proofs)
   No proofs in this file. *)
From Coq Require Import List ZArith Bool String Ascii.
Import ListNotations.
Local Open Scope string_scope.
Local Open Scope Z_scope.

(* ------------------------------------------------------------------ *)
(* fmt "%d" of an int                                                   *)

Definition digit (d : Z) : ascii := ascii_of_nat (48 + Z.to_nat d).

(* digits of n > 0, most significant first, prepended to acc *)
Fixpoint dec_digits (fuel : nat) (n : Z) (acc : string) : string :=
  match fuel with
  | O => acc
  | S f =>
      let acc' := String (digit (n mod 10)) acc in
      if n / 10 =? 0 then acc' else dec_digits f (n / 10) acc'
  end.

Definition dec_nonneg (n : Z) : string := dec_digits (S (Z.to_nat (Z.log2 n))) n "".

Definition dec (z : Z) : string :=
  if z <? 0 then String "-" (dec_nonneg (- z)) else dec_nonneg z.

(* ------------------------------------------------------------------ *)
(* Result lists as go/ast sees them                                     *)

(* the type expression of one result field *)
Inductive texpr :=
| TIdent (name : string)                        (* *ast.Ident         User, int, any          *)
| TSel (pkg name : string)                      (* *ast.SelectorExpr  http.Response           *)
| TStar (x : texpr)                             (* *ast.StarExpr      *T                      *)
| TArray (len : option string) (elt : texpr)    (* *ast.ArrayType     []T (None) / [n]T (Some n) *)
| TMap (k v : texpr)                            (* *ast.MapType       map[K]V                 *)
| TOther (node printed : string).               (* any other node (struct{..}, interface{..}, func(..),
                                                   chan T, (T), G[T], ...): its %T and its printed form *)

(* exprToString: go/printer on the expression *)
Fixpoint print (t : texpr) : string :=
  match t with
  | TIdent n => n
  | TSel p n => p ++ "." ++ n
  | TStar x => "*" ++ print x
  | TArray None e => "[]" ++ print e
  | TArray (Some n) e => "[" ++ n ++ "]" ++ print e
  | TMap k v => "map[" ++ print k ++ "]" ++ print v
  | TOther _ s => s
  end.

(* %T of the ast node, as printed by the "unsupported return type" message *)
Definition node_name (t : texpr) : string :=
  match t with
  | TIdent _ => "*ast.Ident"
  | TSel _ _ => "*ast.SelectorExpr"
  | TStar _ => "*ast.StarExpr"
  | TArray _ _ => "*ast.ArrayType"
  | TMap _ _ => "*ast.MapType"
  | TOther n _ => n
  end.

(* one *ast.Field of ftype.Results.List: `a, b T` is ONE field with two names *)
Record field := { f_names : list string; f_type : texpr }.

(* the fatal exits of the Results part, in the order of the code *)
Inductive fatal :=
| FTooFew            (* "method %s should at least return response and error"       *)
| FTooMany           (* "method %s must not return more than three values"          *)
| FNotResponse       (* "the second to last return value ... must be a http response pointer" *)
| FNotError          (* "the last return value ... must be an error"                *)
| FNamed             (* "method %s with named return list is not supported"         *)
| FUnsupported (node : string)    (* "unsupported return type: %T"                  *)
| FArray (printed : string).      (* "unsupported array return type: %s (use a slice or a pointer)" *)

(* getReturnTypeName *)
Definition get_return_type_name (t : texpr) : fatal + (string * bool) :=
  match t with
  | TStar x => inr (print x, true)
  | TArray (Some _) _ => inl (FArray (print t))      (* t.Len != nil: an array has no nil *)
  | TArray None _ => inr (print t, false)
  | TMap _ _ => inr (print t, false)
  | _ => inl (FUnsupported (node_name t))
  end.

(* what cookClient leaves for the template:
     ck_result   ReturnResultMap[method]: (Type, IsPtr); the map's zero value
                 ("", false) when no entry was written
     ck_nils     ErrReturnMap[method] = strings.Repeat("nil, ", n-1) + "err": the number of nils *)
Record cooked := { ck_result : string * bool; ck_nils : nat }.

Definition nth_type (l : list field) (i : nat) : texpr :=
  f_type (nth i l {| f_names := []; f_type := TOther "" "" |}).

(* resultValues: one entry per returned VALUE; a field declaring several names
   (`a, b T`) yields one single-name entry per name *)
Definition values (results : list field) : list field :=
  flat_map (fun f => match f_names f with
                     | [] => [f]
                     | ns => map (fun n => {| f_names := [n]; f_type := f_type f |}) ns
                     end) results.

(* the checks of the Results part on the list of values *)
Definition cook_values (results : list field) : fatal + cooked :=
  let n := List.length results in                       (* len(resultValues(ftype.Results)) *)
  if (n <? 2)%nat then inl FTooFew
  else if (3 <? n)%nat then inl FTooMany
  else if negb (String.eqb (print (nth_type results (n - 2))) "*http.Response") then inl FNotResponse
  else if negb (String.eqb (print (nth_type results (n - 1))) "error") then inl FNotError
  else if (n =? 3)%nat then
    match results with
    | r :: _ =>
        match f_names r with
        | _ :: _ => inl FNamed                           (* r.name != "" *)
        | [] =>
            match get_return_type_name (f_type r) with
            | inl f => inl f
            | inr rr => inr {| ck_result := rr; ck_nils := n - 1 |}
            end
        end
    | [] => inl FTooFew   (* unreachable: n = 3 *)
    end
  else inr {| ck_result := ("", false); ck_nils := n - 1 |}.

Definition cook_results (results : list field) : fatal + cooked := cook_values (values results).

(* number of VALUES the declared signature returns: a field without names is
   one value, `a, b T` is two *)
Definition declared_arity (results : list field) : nat :=
  fold_right (fun f acc => (match f_names f with [] => 1 | ns => List.length ns end + acc)%nat) O results.

(* ------------------------------------------------------------------ *)
(* Run-time values                                                      *)

Section Run.
Variable V : Type.
Variable X : Type.

(* a Go error value: one made by fmt.Errorf in the generated code (its text),
   or one received from another package and passed on *)
Inductive err :=
| EText (s : string)
| EForeign (x : X)
| EEof.                     (* the value io.EOF itself (compared with == by the generated code) *)

(* resp_.Body: the bytes the reader delivers, then io.EOF (None) or a read
   error (Some x) *)
Record body := { b_data : string; b_fault : option X }.

(* the *http.Response the transport produced: identity, StatusCode, Body *)
Record response := { r_id : nat; r_status : Z; r_body : body }.

(* what happens up to and including c.client.Do(req_) *)
Inductive stage := StJoinPath | StMarshal | StNewRequest | StDo.
Inductive outcome :=
| OFail (st : stage) (x : X)       (* that call returned (nothing, x) with x a non-nil error *)
| OResp (r : response)             (* Do returned (r, nil) *)
| OBoth (r : response) (x : X).    (* Do returned BOTH a response and an error: net/http does so exactly
                                      when following redirects fails (CheckRedirect; by default after
                                      10 redirects) -- r is the last 3xx response received *)

(* what json's Decode did to the zero-valued r_: the value r_ holds afterwards
   and the returned error *)
Inductive derr := DEof | DOther (x : X).       (* io.EOF itself / any other error *)
Definition dec_out := (V * option derr)%type.

(* json.NewDecoder(resp_.Body).Decode(&r_) for `var r_ T` (T given by its printed form) *)
Variable decode : string -> body -> dec_out.

(* one returned value *)
Inductive slot :=
| SNil                     (* the literal nil *)
| SResp (r : response)     (* resp_ *)
| SErr (e : err)           (* err (non-nil) *)
| SVal (v : V)             (* r_ *)
| SAddr (v : V).           (* &r_ *)

(* what the method did to resp_.Body *)
Inductive bevent := BReadAll | BDecode | BClose.

(* io.ReadAll(resp_.Body) with the error discarded (`body_, _ :=`) *)
Definition read_all (b : body) : string := b_data b.

(* the switch of restclient.tmpl:100-109; None = err stays nil *)
Definition classify (status : Z) (b : body) : option err * list bevent :=
  if status >=? 500 then
    (Some (EText ("server error " ++ dec status ++ ": " ++ read_all b)), [BReadAll])
  else if status >=? 400 then
    (Some (EText ("client error " ++ dec status ++ ": " ++ read_all b)), [BReadAll])
  else if (status >=? 300) || (status <? 200) then
    (Some (EText ("not supported error " ++ dec status)), [])
  else (None, []).

(* ---- the emitted Go of one method, from the first fallible call on ---- *)

(* the expressions that occur in the return statements *)
Inductive rexpr :=
| XNil          (* nil   *)
| XResp         (* resp_ *)
| XErr          (* err   *)
| XVar          (* r_    *)
| XAddrVar.     (* &r_   *)

Inductive stmt :=
| GCall (st : stage) (ret : list rexpr)
    (* x, err := <the call of stage st>; if err != nil { return <ret> }
       StJoinPath   url_, err := url.JoinPath(c.conf.BaseURL(), path_)
       StMarshal    bodyJson_, err := json.Marshal(p)           (POST/PUT/PATCH only)
       StNewRequest req_, err := http.NewRequest[WithContext](...)
       StDo         resp_, err := c.client.Do(req_)                                  *)
| GDeferClose                       (* defer resp_.Body.Close() *)
| GStatusSwitch                     (* switch { case resp_.StatusCode >= 500: ... } : [classify] *)
| GIfErrReturn (ret : list rexpr)   (* if err != nil { return <ret> } *)
| GDecode (ty : string)             (* var r_ <ty>; err = json.NewDecoder(resp_.Body).Decode(&r_) *)
| GIgnoreEOF                        (* if err == io.EOF { err = nil } *)
| GReturn (ret : list rexpr).       (* return <ret> *)

(* {{$errret}} = ErrReturnMap[method] = "nil, " x (n-1) + "err" *)
Definition errret (c : cooked) : list rexpr := (repeat XNil (ck_nils c) ++ [XErr])%list.

(* restclient.tmpl:34-130 rendered for one method: the template's conditionals
   are evaluated here ({{if in $httpmethod $.BodyHTTPMethods}}, {{if not
   $result.Type}}, {{if $result.IsPtr}}{{$ptr = "&"}}) *)
Definition emit (c : cooked) (body_verb : bool) : list stmt :=
  let er := errret c in
  let '(ty, isptr) := ck_result c in
  ([GCall StJoinPath er] ++
   (if body_verb then [GCall StMarshal er] else []) ++
   [GCall StNewRequest er; GCall StDo er; GDeferClose; GStatusSwitch] ++
   (if String.eqb ty ""
    then [GIfErrReturn [XResp; XErr]; GReturn [XResp; XNil]]
    else [GIfErrReturn [XNil; XResp; XErr];
          GDecode ty; GIgnoreEOF;
          GIfErrReturn [XNil; XResp; XErr];
          GReturn [if isptr then XAddrVar else XVar; XResp; XNil]]))%list.

(* ---- what these statements do ---- *)

(* the local variables resp_, err, r_; what was done to the body; whether the
   deferred Close is registered *)
Record mstate := {
  m_resp : option response;
  m_err : option err;
  m_var : option V;
  m_ev : list bevent;
  m_defer : bool
}.
Definition m0 : mstate :=
  {| m_resp := None; m_err := None; m_var := None; m_ev := []; m_defer := false |}.
Definition set_resp (s : mstate) (r : response) : mstate :=
  {| m_resp := Some r; m_err := m_err s; m_var := m_var s; m_ev := m_ev s; m_defer := m_defer s |}.
Definition set_err (s : mstate) (e : option err) : mstate :=
  {| m_resp := m_resp s; m_err := e; m_var := m_var s; m_ev := m_ev s; m_defer := m_defer s |}.
Definition set_var (s : mstate) (v : V) : mstate :=
  {| m_resp := m_resp s; m_err := m_err s; m_var := Some v; m_ev := m_ev s; m_defer := m_defer s |}.
Definition add_ev (s : mstate) (ev : list bevent) : mstate :=
  {| m_resp := m_resp s; m_err := m_err s; m_var := m_var s; m_ev := (m_ev s ++ ev)%list; m_defer := m_defer s |}.
Definition set_defer (s : mstate) : mstate :=
  {| m_resp := m_resp s; m_err := m_err s; m_var := m_var s; m_ev := m_ev s; m_defer := true |}.

(* None: the expression uses a variable that is not set (cannot happen in an emitted body) *)
Definition eval (s : mstate) (e : rexpr) : option slot :=
  match e with
  | XNil => Some SNil
  | XResp => option_map SResp (m_resp s)
  | XErr => Some (match m_err s with Some e => SErr e | None => SNil end)
  | XVar => option_map SVal (m_var s)
  | XAddrVar => option_map SAddr (m_var s)
  end.
Fixpoint eval_all (s : mstate) (es : list rexpr) : option (list slot) :=
  match es with
  | [] => Some []
  | e :: es' =>
      match eval s e, eval_all s es' with
      | Some x, Some xs => Some (x :: xs)
      | _, _ => None
      end
  end.
(* return: evaluate the operands, then run the deferred Close *)
Definition do_return (s : mstate) (es : list rexpr) : option (list slot * list bevent) :=
  match eval_all s es with
  | Some sl => Some (sl, (m_ev s ++ (if m_defer s then [BClose] else []))%list)
  | None => None
  end.

Definition stage_eqb (a b : stage) : bool :=
  match a, b with
  | StJoinPath, StJoinPath | StMarshal, StMarshal | StNewRequest, StNewRequest | StDo, StDo => true
  | _, _ => false
  end.

Definition err_of_derr (d : derr) : err :=
  match d with DEof => EEof | DOther x => EForeign x end.

(* execution under the scenario o (which call fails, or which response Do
   returns).  None: the scenario does not fit the body (the failing call is not
   part of it), or the statements end without a return *)
Fixpoint exec (o : outcome) (p : list stmt) (s : mstate) : option (list slot * list bevent) :=
  match p with
  | [] => None
  | GCall st ret :: p' =>
      match o with
      | OFail st' x =>
          if stage_eqb st st' then do_return (set_err s (Some (EForeign x))) ret
          else match st with StDo => None | _ => exec o p' s end
      | OResp r =>
          match st with StDo => exec o p' (set_resp s r) | _ => exec o p' s end
      | OBoth r x =>
          (* resp_, err := c.client.Do(req_); if err != nil { return <ret> }: resp_ is set but
             <ret> = {{$errret}} does not mention it *)
          match st with
          | StDo => do_return (set_err (set_resp s r) (Some (EForeign x))) ret
          | _ => exec o p' s
          end
      end
  | GDeferClose :: p' => exec o p' (set_defer s)
  | GStatusSwitch :: p' =>
      match m_resp s with
      | None => None
      | Some r =>
          let '(e, ev) := classify (r_status r) (r_body r) in
          exec o p' (add_ev (match e with Some _ => set_err s e | None => s end) ev)
      end
  | GIfErrReturn ret :: p' =>
      match m_err s with Some _ => do_return s ret | None => exec o p' s end
  | GDecode ty :: p' =>
      match m_resp s with
      | None => None
      | Some r =>
          let '(v, de) := decode ty (r_body r) in
          exec o p' (add_ev (set_err (set_var s v) (option_map err_of_derr de)) [BDecode])
      end
  | GIgnoreEOF :: p' =>
      exec o p' (match m_err s with Some EEof => set_err s None | _ => s end)
  | GReturn ret :: _ => do_return s ret
  end.

(* a generated method: shoot stops with a fatal message (inl), or the method
   exists and, under scenario o, returns these values (inr (Some _));
   inr None: the scenario is impossible for this method (a json.Marshal
   failure in a method that sends no body) *)
Definition method_returns (body_verb : bool) (results : list field) (o : outcome)
  : fatal + option (list slot * list bevent) :=
  match cook_results results with
  | inl f => inl f
  | inr c => inr (exec o (emit c body_verb) m0)
  end.

(* the failing call of the scenario is part of the method *)
Definition scenario_ok (body_verb : bool) (o : outcome) : bool :=
  match o with
  | OFail StMarshal _ => body_verb
  | _ => true
  end.

(* ---- reading a returned tuple: (result?, response, error) by position *)
Record ret_view := { rv_result : option slot; rv_resp : slot; rv_err : slot }.

Definition view (l : list slot) : option ret_view :=
  match l with
  | [r; e] => Some {| rv_result := None; rv_resp := r; rv_err := e |}
  | [x; r; e] => Some {| rv_result := Some x; rv_resp := r; rv_err := e |}
  | _ => None
  end.

End Run.

Arguments EText {X} s.
Arguments EForeign {X} x.
Arguments Build_body {X} _ _.
Arguments b_data {X} _.
Arguments b_fault {X} _.
Arguments Build_response {X} _ _ _.
Arguments r_id {X} _.
Arguments r_status {X} _.
Arguments r_body {X} _.
Arguments OFail {X} st x.
Arguments OResp {X} r.
Arguments OBoth {X} r x.
Arguments DEof {X}.
Arguments DOther {X} x.
Arguments SNil {V X}.
Arguments SResp {V X} r.
Arguments SErr {V X} e.
Arguments SVal {V X} v.
Arguments SAddr {V X} v.
Arguments read_all {X} b.
Arguments classify {X} status b.
Arguments EEof {X}.
Arguments exec {V X} decode o p s.
Arguments m0 {V X}.
Arguments method_returns {V X} decode body_verb results o.
Arguments scenario_ok {X} body_verb o.
Arguments view {V X} l.
Arguments rv_result {V X} _.
Arguments rv_resp {V X} _.
Arguments rv_err {V X} _.

(* ------------------------------------------------------------------ *)
(* Which result types can hold the `nil` that every error exit returns  *)

(* Go: nil is assignable to pointers, slices and maps (the shapes
   getReturnTypeName lets through), not to an array [n]T (refused since 9fecf90) *)
Definition nilable (t : texpr) : bool :=
  match t with
  | TStar _ => true
  | TArray None _ => true
  | TMap _ _ => true
  | _ => false
  end.

(* identifiers of a type expression are non-empty (true of every parsed file) *)
Fixpoint wf_texpr (t : texpr) : bool :=
  match t with
  | TIdent n => negb (String.eqb n "")
  | TSel p n => negb (String.eqb p "") && negb (String.eqb n "")
  | TStar x => wf_texpr x
  | TArray _ e => wf_texpr e
  | TMap k v => wf_texpr k && wf_texpr v
  | TOther _ s => negb (String.eqb s "")
  end.
