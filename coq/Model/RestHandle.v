(* Model of the response handling of a generated rest client method (C10):

     internal/restclient/cook.go:135-171       the "Results" part of cookClient
                                               (arity and type checks, ReturnResultMap, ErrReturnMap)
     internal/restclient/cook.go:307-322       getReturnTypeName
     internal/restclient/cook.go:184-191       exprToString (go/printer on a type expression)
     internal/restclient/restclient.tmpl:16-21,34-37,42-45,54-56   the `return {{$errret}}` exits before the call
     internal/restclient/restclient.tmpl:94-130  c.client.Do, the status switch, the decode tail

   The analysis code (cook) is transcribed literally; the template text of the
   method tail is given an abstract syntax (the list of return "slots") and a
   semantics ([run_tail]): what the emitted Go statements do when executed.

   Kept abstract (Section variables, instantiated by the correspondence with
   what the real packages do; the property does not talk about them):
     V          Go values of the variable `r_` the body is decoded into
     X          identities of errors produced by other packages (net/http,
                net/url, encoding/json, the transport, the body reader)
     decode     `var r_ T; err = json.NewDecoder(resp_.Body).Decode(&r_)`: the value r_
                holds afterwards and the error (the zero value of T enters only through
                the law "an empty body yields io.EOF and leaves r_ untouched", Proofs)
   No proofs in this file. *)
From Coq Require Import List ZArith Bool String Ascii.
Import ListNotations.
Local Open Scope string_scope.
Local Open Scope Z_scope.

(* ------------------------------------------------------------------ *)
(* fmt "%d" of an int                                                   *)

Definition digit (d : Z) : ascii := ascii_of_nat (48 + Z.to_nat d).

(* digits of n > 0, most significant first, prepended to acc *)
Fixpoint dec_digits (fuel : nat) (n : Z) (acc : string) : string :=
  match fuel with
  | O => acc
  | S f =>
      let acc' := String (digit (n mod 10)) acc in
      if n / 10 =? 0 then acc' else dec_digits f (n / 10) acc'
  end.

Definition dec_nonneg (n : Z) : string := dec_digits (S (Z.to_nat (Z.log2 n))) n "".

Definition dec (z : Z) : string :=
  if z <? 0 then String "-" (dec_nonneg (- z)) else dec_nonneg z.

(* ------------------------------------------------------------------ *)
(* Result lists as go/ast sees them                                     *)

(* the type expression of one result field *)
Inductive texpr :=
| TIdent (name : string)                        (* *ast.Ident         User, int, any          *)
| TSel (pkg name : string)                      (* *ast.SelectorExpr  http.Response           *)
| TStar (x : texpr)                             (* *ast.StarExpr      *T                      *)
| TArray (len : option string) (elt : texpr)    (* *ast.ArrayType     []T (None) / [n]T (Some n) *)
| TMap (k v : texpr)                            (* *ast.MapType       map[K]V                 *)
| TOther (node printed : string).               (* any other node (struct{..}, interface{..}, func(..),
                                                   chan T, (T), G[T], ...): its %T and its printed form *)

(* exprToString: go/printer on the expression *)
Fixpoint print (t : texpr) : string :=
  match t with
  | TIdent n => n
  | TSel p n => p ++ "." ++ n
  | TStar x => "*" ++ print x
  | TArray None e => "[]" ++ print e
  | TArray (Some n) e => "[" ++ n ++ "]" ++ print e
  | TMap k v => "map[" ++ print k ++ "]" ++ print v
  | TOther _ s => s
  end.

(* %T of the ast node, as printed by the "unsupported return type" message *)
Definition node_name (t : texpr) : string :=
  match t with
  | TIdent _ => "*ast.Ident"
  | TSel _ _ => "*ast.SelectorExpr"
  | TStar _ => "*ast.StarExpr"
  | TArray _ _ => "*ast.ArrayType"
  | TMap _ _ => "*ast.MapType"
  | TOther n _ => n
  end.

(* one *ast.Field of ftype.Results.List: `a, b T` is ONE field with two names *)
Record field := { f_names : list string; f_type : texpr }.

(* the fatal exits of the Results part, in the order of the code *)
Inductive fatal :=
| FTooFew            (* "method %s should at least return response and error"       *)
| FTooMany           (* "method %s must not return more than three values"          *)
| FNotResponse       (* "the second to last return value ... must be a http response pointer" *)
| FNotError          (* "the last return value ... must be an error"                *)
| FNamed             (* "method %s with named return list is not supported"         *)
| FUnsupported (node : string).   (* "unsupported return type: %T"                  *)

(* getReturnTypeName *)
Definition get_return_type_name (t : texpr) : fatal + (string * bool) :=
  match t with
  | TStar x => inr (print x, true)
  | TArray _ _ => inr (print t, false)
  | TMap _ _ => inr (print t, false)
  | _ => inl (FUnsupported (node_name t))
  end.

(* what cookClient leaves for the template:
     ck_result   ReturnResultMap[method]: (Type, IsPtr); the map's zero value
                 ("", false) when no entry was written
     ck_nils     ErrReturnMap[method] = strings.Repeat("nil, ", n-1) + "err": the number of nils *)
Record cooked := { ck_result : string * bool; ck_nils : nat }.

Definition nth_type (l : list field) (i : nat) : texpr :=
  f_type (nth i l {| f_names := []; f_type := TOther "" "" |}).

Definition cook_results (results : list field) : fatal + cooked :=
  let n := List.length results in                       (* len(ftype.Results.List): FIELDS, not values *)
  if (n <? 2)%nat then inl FTooFew
  else if (3 <? n)%nat then inl FTooMany
  else if negb (String.eqb (print (nth_type results (n - 2))) "*http.Response") then inl FNotResponse
  else if negb (String.eqb (print (nth_type results (n - 1))) "error") then inl FNotError
  else if (n =? 3)%nat then
    match results with
    | r :: _ =>
        match f_names r with
        | _ :: _ => inl FNamed
        | [] =>
            match get_return_type_name (f_type r) with
            | inl f => inl f
            | inr rr => inr {| ck_result := rr; ck_nils := n - 1 |}
            end
        end
    | [] => inl FTooFew   (* unreachable: n = 3 *)
    end
  else inr {| ck_result := ("", false); ck_nils := n - 1 |}.

(* number of VALUES the declared signature returns: a field without names is
   one value, `a, b T` is two *)
Definition declared_arity (results : list field) : nat :=
  fold_right (fun f acc => (match f_names f with [] => 1 | ns => List.length ns end + acc)%nat) O results.

(* ------------------------------------------------------------------ *)
(* Run-time values                                                      *)

Section Run.
Variable V : Type.
Variable X : Type.

(* a Go error value: one made by fmt.Errorf in the generated code (its text),
   or one received from another package and passed on *)
Inductive err :=
| EText (s : string)
| EForeign (x : X).

(* resp_.Body: the bytes the reader delivers, then io.EOF (None) or a read
   error (Some x) *)
Record body := { b_data : string; b_fault : option X }.

(* the *http.Response the transport produced: identity, StatusCode, Body *)
Record response := { r_id : nat; r_status : Z; r_body : body }.

(* what happens up to and including c.client.Do(req_) *)
Inductive stage := StJoinPath | StMarshal | StNewRequest | StDo.
Inductive outcome :=
| OFail (st : stage) (x : X)       (* that call returned a non-nil error x *)
| OResp (r : response).            (* Do returned (r, nil) *)

(* what json's Decode did to the zero-valued r_: the value r_ holds afterwards
   and the returned error *)
Inductive derr := DEof | DOther (x : X).       (* io.EOF itself / any other error *)
Definition dec_out := (V * option derr)%type.

(* json.NewDecoder(resp_.Body).Decode(&r_) for `var r_ T` (T given by its printed form) *)
Variable decode : string -> body -> dec_out.

(* one returned value *)
Inductive slot :=
| SNil                     (* the literal nil *)
| SResp (r : response)     (* resp_ *)
| SErr (e : err)           (* err (non-nil) *)
| SVal (v : V)             (* r_ *)
| SAddr (v : V).           (* &r_ *)

(* what the method did to resp_.Body *)
Inductive bevent := BReadAll | BDecode | BClose.

(* io.ReadAll(resp_.Body) with the error discarded (`body_, _ :=`) *)
Definition read_all (b : body) : string := b_data b.

(* the switch of restclient.tmpl:100-109; None = err stays nil *)
Definition classify (status : Z) (b : body) : option err * list bevent :=
  if status >=? 500 then
    (Some (EText ("server error " ++ dec status ++ ": " ++ read_all b)), [BReadAll])
  else if status >=? 400 then
    (Some (EText ("client error " ++ dec status ++ ": " ++ read_all b)), [BReadAll])
  else if (status >=? 300) || (status <? 200) then
    (Some (EText ("not supported error " ++ dec status)), [])
  else (None, []).

(* `return {{$errret}}` with err = e *)
Definition errret (c : cooked) (e : err) : list slot := (repeat SNil (ck_nils c) ++ [SErr e])%list.

(* the statements after `resp_, err := c.client.Do(req_)` *)
Definition run_tail (c : cooked) (o : outcome) : list slot * list bevent :=
  match o with
  | OFail _ x => (errret c (EForeign x), [])
  | OResp r =>
      (* defer resp_.Body.Close() *)
      let '(e, ev) := classify (r_status r) (r_body r) in
      let '(ty, isptr) := ck_result c in
      if String.eqb ty "" then             (* {{if not $result.Type}} *)
        match e with
        | Some e => ([SResp r; SErr e], (ev ++ [BClose])%list)
        | None => ([SResp r; SNil], (ev ++ [BClose])%list)
        end
      else
        match e with
        | Some e => ([SNil; SResp r; SErr e], (ev ++ [BClose])%list)
        | None =>
            (* var r_ T; err = json.NewDecoder(resp_.Body).Decode(&r_) *)
            let '(v, de) := decode ty (r_body r) in
            (* if err == io.EOF { err = nil } *)
            let de := match de with Some DEof => None | _ => de end in
            match de with
            | Some (DOther x) => ([SNil; SResp r; SErr (EForeign x)], (ev ++ [BDecode; BClose])%list)
            | Some DEof => ([SNil; SResp r; SNil], (ev ++ [BDecode; BClose])%list)   (* unreachable *)
            | None => ([if isptr then SAddr v else SVal v; SResp r; SNil], (ev ++ [BDecode; BClose])%list)
            end
        end
  end.

(* a generated method: shoot stops with a fatal message, or the method exists
   and returns these values *)
Definition method_returns (results : list field) (o : outcome) : fatal + (list slot * list bevent) :=
  match cook_results results with
  | inl f => inl f
  | inr c => inr (run_tail c o)
  end.

(* ---- reading a returned tuple: (result?, response, error) by position *)
Record ret_view := { rv_result : option slot; rv_resp : slot; rv_err : slot }.

Definition view (l : list slot) : option ret_view :=
  match l with
  | [r; e] => Some {| rv_result := None; rv_resp := r; rv_err := e |}
  | [x; r; e] => Some {| rv_result := Some x; rv_resp := r; rv_err := e |}
  | _ => None
  end.

End Run.

Arguments EText {X} s.
Arguments EForeign {X} x.
Arguments Build_body {X} _ _.
Arguments b_data {X} _.
Arguments b_fault {X} _.
Arguments Build_response {X} _ _ _.
Arguments r_id {X} _.
Arguments r_status {X} _.
Arguments r_body {X} _.
Arguments OFail {X} st x.
Arguments OResp {X} r.
Arguments DEof {X}.
Arguments DOther {X} x.
Arguments SNil {V X}.
Arguments SResp {V X} r.
Arguments SErr {V X} e.
Arguments SVal {V X} v.
Arguments SAddr {V X} v.
Arguments read_all {X} b.
Arguments classify {X} status b.
Arguments errret {V X} c e.
Arguments run_tail {V X} decode c o.
Arguments method_returns {V X} decode results o.
Arguments view {V X} l.
Arguments rv_result {V X} _.
Arguments rv_resp {V X} _.
Arguments rv_err {V X} _.

(* ------------------------------------------------------------------ *)
(* Which result types can hold the `nil` that every error exit returns  *)

(* Go: nil is assignable to pointers, slices and maps (of the shapes
   getReturnTypeName lets through), not to an array [n]T *)
Definition nilable (t : texpr) : bool :=
  match t with
  | TStar _ => true
  | TArray None _ => true
  | TMap _ _ => true
  | _ => false
  end.

(* identifiers of a type expression are non-empty (true of every parsed file) *)
Fixpoint wf_texpr (t : texpr) : bool :=
  match t with
  | TIdent n => negb (String.eqb n "")
  | TSel p n => negb (String.eqb p "") && negb (String.eqb n "")
  | TStar x => wf_texpr x
  | TArray _ e => wf_texpr e
  | TMap k v => wf_texpr k && wf_texpr v
  | TOther _ s => negb (String.eqb s "")
  end.
