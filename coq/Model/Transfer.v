(* Model of /repo/internal/transfer/transfer.go (byte-level, ASCII inputs).
   Tied to the code by the L1 probe (harness/transfer_l1.py). No proofs here. *)
From Coq Require Import String Ascii List Bool Arith.
From Shoot Require Import Base.Str.
Import ListNotations.
Local Open Scope string_scope.

(* func FirstLowerLetter(str string) string : the first BYTE, lower-cased *)
Definition first_lower_letter (s : string) : string :=
  match s with
  | EmptyString => EmptyString
  | String c _ => String (to_lower_c c) EmptyString
  end.

(* func ToPascalCase: split on "_", upper-case the first byte of every
   non-empty part, join without separator *)
Definition to_pascal_case (s : string) : string :=
  match s with
  | EmptyString => EmptyString
  | _ => join "" (map first_upper (split_c "_"%char s))
  end.

(* func splitCamelTokensASCII: cut before an upper-case byte that follows a
   lower-case byte or precedes a lower-case byte (not at index 0) *)
Fixpoint split_camel_aux (prev : ascii) (rest : list ascii) (cur : list ascii) : list (list ascii) :=
  match rest with
  | [] => [rev cur]
  | c :: rest' =>
      let next_lower := match rest' with d :: _ => is_lower d | [] => false end in
      if is_upper c && (is_lower prev || next_lower)
      then rev cur :: split_camel_aux c rest' [c]
      else split_camel_aux c rest' (c :: cur)
  end.
Definition split_camel_tokens (s : string) : list string :=
  match list_of_string s with
  | [] => [EmptyString]
  | c :: rest => map string_of_list (split_camel_aux c rest [c])
  end.

(* func ToCamelCase *)
Definition camel_token (i : nat) (t : string) : string :=
  match i with
  | O => lower t
  | S _ => match t with
           | EmptyString => EmptyString
           | String c r => String (to_upper_c c) (lower r)
           end
  end.
Fixpoint mapi_aux {A B} (f : nat -> A -> B) (i : nat) (l : list A) : list B :=
  match l with [] => [] | x :: r => f i x :: mapi_aux f (S i) r end.
Definition to_camel_case (s : string) : string :=
  match s with
  | EmptyString => EmptyString
  | _ => join "" (mapi_aux camel_token 0 (split_camel_tokens (to_pascal_case s)))
  end.

(* func ToCamelCaseGO *)
Fixpoint leading_upper (l : list ascii) : nat :=
  match l with c :: r => if is_upper c then S (leading_upper r) else O | [] => O end.
Definition to_camel_case_go (s : string) : string :=
  match s with
  | EmptyString => EmptyString
  | _ =>
    if String.eqb s (upper s) then lower s else
    let p := to_pascal_case s in
    let l := list_of_string p in
    let i := leading_upper l in
    if Nat.leb i 1 then first_lower p
    else string_of_list (map to_lower_c (firstn (i - 1) l) ++ skipn (i - 1) l)
  end.

(* mapper/match.go smartMatch *)
Definition smart_match (a b : string) : bool :=
  if negb (Nat.eqb (String.length a) (String.length b)) then false
  else if String.eqb a b then true
  else String.eqb (to_camel_case a) (to_camel_case b).
